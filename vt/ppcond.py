"""Conditional compilation: keep only the text the real compiler compiles.

The lexer discards preprocessor lines, so without this step the tokens of BOTH arms of an #if/#else inside a function under
contract would be kept and a unit would pick the arm it expects by anchor -- a change to the condition (a mistyped platform
macro, a flipped #ifdef) would then leave the verified text unchanged while the compiled code switches to the other arm.

strip_inactive(repo, relpath, src) asks g++ itself which arms are live: it writes a copy of the header with one marker
declaration after every #if/#ifdef/#ifndef/#elif/#else line, runs `g++ -std=c++17 -E` on the copy with the repository's include
path (so every macro is evaluated at the point of use, with the real system headers and the real predefines of the compiler that
builds the test suite) and keeps an arm iff its marker survives. Lines of dead arms are blanked (line numbers are preserved).

If g++ cannot preprocess the header on its own (a missing dependency, a header that is not self-contained) the text is returned
unchanged and the file is reported in `unevaluated` so the evidence lists "conditional compilation not evaluated" as an assumption.
"""
import hashlib, os, re, subprocess, tempfile

_DIR = re.compile(r'^[ \t]*#[ \t]*(if|ifdef|ifndef|elif|else|endif)\b')
_memo = {}
unevaluated = {}      # relpath -> reason
evaluated = {}        # relpath -> (number of conditional arms, number dropped)
CXXFLAGS = ['-std=c++17']


def _logical_lines(src):
    """[(first_line_index, last_line_index)] of each logical line (backslash continuations joined)"""
    lines = src.split('\n')
    out = []
    i = 0
    while i < len(lines):
        j = i
        while lines[j].endswith('\\') and j + 1 < len(lines):
            j += 1
        out.append((i, j))
        i = j + 1
    return lines, out


def strip_inactive(repo, relpath, src):
    key = (repo, relpath, hashlib.sha1(src.encode('utf-8', 'replace')).hexdigest())
    if key in _memo:
        return _memo[key]
    lines, logical = _logical_lines(src)
    dirs = []          # (first, last, kind)
    in_block_comment = False
    for (a, b) in logical:
        text = lines[a]
        # a directive inside a block comment or a raw string is not a directive; block comments are tracked, raw strings are
        # not (no iora header has one containing a '#' directive at line start; the marker run would show a stray marker)
        if in_block_comment:
            if '*/' in text:
                in_block_comment = False
            continue
        m = _DIR.match(text)
        if m:
            dirs.append((a, b, m.group(1)))
        else:
            s = re.sub(r'"(?:\\.|[^"\\])*"', '""', text)
            s = re.sub(r'//.*', '', s)
            while '/*' in s:
                k = s.index('/*')
                e = s.find('*/', k + 2)
                if e < 0:
                    in_block_comment = True
                    break
                s = s[:k] + s[e + 2:]
    # the include guard (#ifndef G / #define G as the first two directives ... matching last #endif) needs no evaluation
    arms = [d for d in dirs if d[2] != 'endif']
    guard_only = False
    if len(arms) == 1 and arms[0][2] == 'ifndef':
        g = re.match(r'^[ \t]*#[ \t]*ifndef[ \t]+(\w+)', lines[arms[0][0]])
        nxtl = lines[arms[0][1] + 1] if arms[0][1] + 1 < len(lines) else ''
        guard_only = bool(g) and bool(re.match(r'^[ \t]*#[ \t]*define[ \t]+' + re.escape(g.group(1)) + r'\b', nxtl))
    if not arms or guard_only:
        _memo[key] = src
        return src
    # marked copy
    out = []
    marker_at = {}
    nxt = {d[1]: (k, d) for k, d in enumerate(dirs)}
    for idx, line in enumerate(lines):
        out.append(line)
        if idx in nxt and nxt[idx][1][2] != 'endif':
            k = nxt[idx][0]
            marker_at[k] = idx
            out.append(f'int iora_pp_marker_{k}_;')
    full = os.path.join(repo, relpath)
    incdir = os.path.join(repo, 'include')
    with tempfile.TemporaryDirectory(prefix='iora_pp_') as td:
        cp = os.path.join(td, os.path.basename(relpath))
        with open(cp, 'w', encoding='utf-8', errors='replace') as f:
            f.write('\n'.join(out))
        cmd = ['g++'] + CXXFLAGS + ['-E', '-P', '-w', '-I', os.path.dirname(full), '-I', incdir, '-x', 'c++', cp]
        try:
            p = subprocess.run(cmd, stdout=subprocess.PIPE, stderr=subprocess.PIPE, timeout=120, text=True, errors='replace')
        except Exception as e:                               # noqa
            unevaluated[relpath] = f'g++ -E did not run: {e}'
            _memo[key] = src
            return src
    if p.returncode != 0:
        unevaluated[relpath] = 'g++ -E failed: ' + (p.stderr.strip().splitlines() or ['?'])[0][:200]
        _memo[key] = src
        return src
    alive = set(int(x) for x in re.findall(r'\biora_pp_marker_(\d+)_', p.stdout))
    # blank dead arms: an arm spans from its directive to the next directive of the same nesting level
    depth = 0
    stack = []         # per open #if: list of (dir index) arms
    arm_end = {}       # dir index -> line index of the directive that ends the arm
    for k, (a, b, kind) in enumerate(dirs):
        if kind in ('if', 'ifdef', 'ifndef'):
            stack.append(k)
        elif kind in ('elif', 'else'):
            if not stack:
                unevaluated[relpath] = 'unbalanced conditional'
                _memo[key] = src
                return src
            arm_end[stack[-1]] = a
            stack[-1] = k
        else:
            if not stack:
                unevaluated[relpath] = 'unbalanced conditional'
                _memo[key] = src
                return src
            arm_end[stack.pop()] = a
    if stack:
        unevaluated[relpath] = 'unbalanced conditional'
        _memo[key] = src
        return src
    dropped = 0
    res = list(lines)
    for k, (a, b, kind) in enumerate(dirs):
        if kind == 'endif' or k in alive:
            continue
        dropped += 1
        for i in range(b + 1, arm_end[k]):
            res[i] = ''
    evaluated[relpath] = (len(arms), dropped)
    text = '\n'.join(res)
    _memo[key] = text
    return text
