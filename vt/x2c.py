"""Mechanical C++ -> C extraction of target functions (DESIGN.md 2.1).

Every run re-reads the real header under /repo, locates each target function,
rewrites its token stream by a fixed rule set plus per-unit declared token
patterns, and emits C text with #line directives pointing at the header.
There is no hand-written copy of any function body under /verif.

A construct outside the subset is an ExtractionBreak (exit 2: undecided),
never a violation and never a silent skip.
"""
import hashlib
import json
import os
import re

from .lexer import Tok, lex, match_close, match_open, text_of, LexError
from . import ppcond


class ExtractionBreak(Exception):
    pass


IDRE = re.compile(r'[A-Za-z_]\w*$')

STD_PLAIN = {
    'size_t', 'ptrdiff_t', 'uint8_t', 'uint16_t', 'uint32_t', 'uint64_t',
    'int8_t', 'int16_t', 'int32_t', 'int64_t', 'memcpy', 'memcmp', 'memset',
    'memmove', 'strlen', 'uintptr_t', 'intptr_t',
}
STD_MAP = {
    'min': 'IORA_MIN', 'max': 'IORA_MAX', 'nullopt': 'IORA_NULLOPT',
    'isdigit': 'iora_isdigit', 'isxdigit': 'iora_isxdigit', 'isspace': 'iora_isspace',
    'isalpha': 'iora_isalpha', 'isalnum': 'iora_isalnum', 'tolower': 'iora_tolower',
    'toupper': 'iora_toupper', 'isprint': 'iora_isprint', 'iscntrl': 'iora_iscntrl',
    'abs': 'iora_abs',
}
C_TYPES = {
    'void', 'bool', 'char', 'short', 'int', 'long', 'unsigned', 'signed', 'float', 'double',
    'size_t', 'ptrdiff_t', 'uint8_t', 'uint16_t', 'uint32_t', 'uint64_t',
    'int8_t', 'int16_t', 'int32_t', 'int64_t', 'uintptr_t', 'intptr_t',
}


class Report:
    def __init__(self):
        self.fired = {}
        self.dropped = []
        self.sources = []
        self.loops = {}
        self.notes = []

    def fire(self, r, n=1):
        self.fired[r] = self.fired.get(r, 0) + n

    def as_dict(self):
        return {"rules_fired": self.fired, "dropped_statements": self.dropped,
                "sources": self.sources, "loops": self.loops, "notes": self.notes}


# ---------------------------------------------------------------------------
# locating


def find_scope(toks, scope):
    """token index range (lb, rb) of `class|struct|namespace scope {...}`; scope may be nested 'A::B'"""
    lo, hi = 0, len(toks)
    for part in scope.split('::'):
        hits = []
        i = lo
        while i < hi:
            t = toks[i]
            if t.kind == 'id' and t.text in ('class', 'struct', 'namespace') and i + 1 < hi and toks[i + 1].text == part:
                j = i + 2
                # skip 'final', base clause
                while j < hi and toks[j].text not in ('{', ';'):
                    if toks[j].text in ('(',):
                        break
                    j += 1
                if j < hi and toks[j].text == '{':
                    rb = match_close(toks, j)
                    hits.append((j, rb))
                    i = rb
            i += 1
        if len(hits) != 1:
            raise ExtractionBreak(f"scope '{part}' of '{scope}': {len(hits)} definitions found (need exactly 1)")
        lo, hi = hits[0][0] + 1, hits[0][1]
    return lo, hi


def find_function(toks, name, scope=None, params_re=None, ordinal=None):
    """locate `name ( params ) [const|noexcept|override|-> T]* {` ; returns (i_name, lp, rp, lb, rb)"""
    lo, hi = (0, len(toks)) if not scope else find_scope(toks, scope)
    hits = []
    i = lo
    depth = 0
    while i < hi:
        t = toks[i]
        # operator functions: name "operator==" / "operator<" / "operator()" = token `operator` + the operator token(s) + parameter list
        opk = None
        if name.startswith('operator') and len(name) > 8 and t.kind == 'id' and t.text == 'operator':
            optoks = [y.text for y in lex(name[8:])]
            if [y.text for y in toks[i + 1:i + 1 + len(optoks)]] == optoks and i + 1 + len(optoks) < hi and toks[i + 1 + len(optoks)].text == '(':
                opk = i + 1 + len(optoks)
        if opk is not None or (t.kind == 'id' and t.text == name and i + 1 < hi and toks[i + 1].text == '(' \
                and (i == 0 or toks[i - 1].text not in ('.', '->', 'return', '=', '(', ',', '!', '&&', '||'))):
            lp_ = opk if opk is not None else i + 1
            rp = match_close(toks, lp_)
            j = rp + 1
            while j < hi and toks[j].text in ('const', 'noexcept', 'override', 'final'):
                j += 1
                if toks[j - 1].text == 'noexcept' and j < hi and toks[j].text == '(':    # noexcept(expr)
                    j = match_close(toks, j) + 1
            if j < hi and toks[j].text == '->':          # trailing return type
                while j < hi and toks[j].text not in ('{', ';'):
                    j += 1
            if j < hi and toks[j].text == ':' and scope and name == scope.split('::')[-1]:
                # constructor initialiser list: `m(e)` or `m{e}` items; the body brace follows a closing ')' or '}'
                j += 1
                while j < hi and not (toks[j].text == '{' and toks[j - 1].text in (')', '}')):
                    if toks[j].text in ('(', '{'):
                        j = match_close(toks, j)
                    j += 1
            if j < hi and toks[j].text == '{':
                rb = match_close(toks, j)
                ptxt = text_of(toks[lp_ + 1:rp])
                if params_re is None or re.search(params_re, ptxt):
                    hits.append((i, lp_, rp, j, rb))
                i = rb
        i += 1
    if ordinal is not None:
        if ordinal >= len(hits):
            raise ExtractionBreak(f"function '{scope or ''}::{name}': ordinal {ordinal} but only {len(hits)} definitions")
        return hits[ordinal]
    if len(hits) != 1:
        raise ExtractionBreak(f"function '{scope or ''}::{name}': {len(hits)} definitions found (need exactly 1)")
    return hits[0]


def find_lambda(toks, lo, hi, var):
    """`auto var = [..](params) [-> T] { body };` inside [lo,hi) ; returns (lp, rp, lb, rb)"""
    hits = []
    for i in range(lo, hi - 3):
        if toks[i].text == var and toks[i + 1].text == '=' and toks[i + 2].text == '[':
            rbk = match_close(toks, i + 2)
            j = rbk + 1
            lp = rp = None
            if toks[j].text == '(':
                lp = j
                rp = match_close(toks, j)
                j = rp + 1
            while toks[j].text != '{':
                j += 1
            rb = match_close(toks, j)
            hits.append((lp, rp, j, rb))
    if len(hits) != 1:
        raise ExtractionBreak(f"lambda '{var}': {len(hits)} definitions found")
    return hits[0]


# ---------------------------------------------------------------------------
# pattern engine


class Pattern:
    """Token pattern with metavariables.

    $x        balanced, non-empty token run without top-level ',' or ';'
    $x:id     one identifier         $x:str  one string literal      $x:num  one number
    $x:args   balanced run, commas allowed, may be empty
    $x:any    balanced run incl. ';' (statements), may be empty
    $x:TYPE   a typed receiver (identifier chain / typed expression token) whose shim type is TYPE
    """

    def __init__(self, text):
        self.text = text
        self.toks = lex(text, keep_meta=True)

    def match_at(self, toks, i, env):
        return self._m(toks, i, 0, {}, env)

    def _m(self, toks, i, pi, binds, env):
        if pi == len(self.toks):
            return i, binds
        if i > len(toks):
            return None
        p = self.toks[pi]
        if p.kind != 'meta':
            if i < len(toks) and toks[i].kind != 'expr' and toks[i].text == p.text:
                return self._m(toks, i + 1, pi + 1, binds, env)
            return None
        name, _, kind = p.text[1:].partition(':')
        if kind in ('id', 'str', 'num', 'chr'):
            if i < len(toks) and toks[i].kind == kind:
                if name in binds and text_of(binds[name]) != toks[i].text:
                    return None
                b = dict(binds)
                b[name] = [toks[i]]
                return self._m(toks, i + 1, pi + 1, b, env)
            return None
        if kind and kind not in ('args', 'any'):
            # typed receiver
            for j, ty in env.receivers_forward(toks, i):
                if ty == kind or (kind == 'typed' and ty):
                    if name in binds and text_of(binds[name]) != text_of(toks[i:j]):
                        continue
                    b = dict(binds)
                    b[name] = toks[i:j]
                    r = self._m(toks, j, pi + 1, b, env)
                    if r:
                        return r
            return None
        # balanced run
        minlen = 0 if kind in ('args', 'any') else 1
        j = i
        depth = 0
        while True:
            if j - i >= minlen:
                if name in binds:
                    if text_of(binds[name]) == text_of(toks[i:j]):
                        r = self._m(toks, j, pi + 1, binds, env)
                        if r:
                            return r
                else:
                    b = dict(binds)
                    b[name] = toks[i:j]
                    r = self._m(toks, j, pi + 1, b, env)
                    if r:
                        return r
            if j >= len(toks):
                return None
            t = toks[j]
            if t.kind not in ('str', 'chr', 'expr'):
                if t.text in '([{' and len(t.text) == 1:
                    j = match_close(toks, j) + 1
                    continue
                if t.text in ')]}' and len(t.text) == 1:
                    return None
                if t.text == ',' and kind not in ('args', 'any'):
                    return None
                if t.text == ';' and kind != 'any':
                    return None
            j += 1


def emit_template(tmpl, binds, env, line):
    """substitute $x / $&x in the template text; result is re-lexed"""
    def sub(m):
        amp, name = m.group(1), m.group(2)
        if name not in binds:
            raise ExtractionBreak(f"template uses unbound ${name}: {tmpl}")
        if amp:
            return env.addr_of(binds[name])
        return text_of(binds[name])
    s = re.sub(r'\$(&?)([A-Za-z_]\w*)', sub, tmpl)
    out = lex(s)
    for t in out:
        t.line = line
    return out


# ---------------------------------------------------------------------------
# environment: variable / receiver types


class Env:
    def __init__(self, unit, fn, shim_methods):
        self.unit = unit
        self.fn = fn
        self.vars = {}
        for k, v in (unit.get('vars') or {}).items():
            self.vars[k.replace(' ', '')] = v
        for k, v in (fn.get('vars') or {}).items():
            self.vars[k.replace(' ', '')] = v
        self.methods = shim_methods
        self.members = dict(unit.get('members') or {})
        self.members.update(fn.get('members') or {})
        self.self_methods = dict(unit.get('self_methods') or {})
        self.self_methods.update(fn.get('self_methods') or {})

    def base(self, ty):
        if ty is None:
            return None
        for p in ('ref ', 'ptr ', 'const '):
            while ty.startswith(p):
                ty = ty[len(p):]
        return ty

    def is_ptr(self, name):
        ty = self.vars.get(name)
        return bool(ty) and (ty.startswith('ref ') or ty.startswith('ptr '))

    def chain_key(self, toks):
        key = ''.join(t.text for t in toks).replace(' ', '')
        return re.sub(r'^\(\*([A-Za-z_]\w*)\)', r'\1', key)

    def chain_type(self, toks):
        return self.vars.get(self.chain_key(toks))

    def receivers_forward(self, toks, i):
        """yield (end, basetype) for typed receivers starting at i, longest first"""
        if i >= len(toks):
            return
        res = []
        if toks[i].kind == 'expr':
            if toks[i].ctype:
                res.append((i + 1, self.base(toks[i].ctype)))
            # expr followed by .field chain
            j = i + 1
            if not re.match(r'^\(\*[A-Za-z_]\w*\)$', toks[i].text):
                for r in res:
                    yield r
                return
        elif toks[i].kind == 'id':
            j = i + 1
            if self.chain_type(toks[i:j]):
                res.append((j, self.base(self.chain_type(toks[i:j]))))
        else:
            return
        while j + 1 < len(toks) and toks[j].text in ('.', '->') and toks[j + 1].kind == 'id':
            j += 2
            ty = self.chain_type(toks[i:j])
            if ty:
                res.append((j, self.base(ty)))
        for r in reversed(res):
            yield r

    def receiver_backward(self, toks, k):
        """receiver ending at k-1: returns (start, type) or (None, None). Longest typed chain."""
        if k - 1 < 0:
            return None, None
        t = toks[k - 1]
        if t.kind == 'expr':
            return (k - 1, t.ctype) if t.ctype else (None, None)
        if t.kind != 'id':
            return None, None
        j = k - 1
        starts = [j]
        while j - 2 >= 0 and toks[j - 1].text in ('.', '->') and toks[j - 1].kind == 'op' and toks[j - 2].kind in ('id', 'expr'):
            j -= 2
            starts.append(j)
            if toks[j].kind == 'expr':
                break
        for s in reversed(starts):              # longest first
            if toks[s].kind == 'expr' and not re.match(r'^\(\*[A-Za-z_]\w*\)$', toks[s].text):
                continue
            if s - 1 >= 0 and toks[s - 1].text in ('.', '->', '::'):
                continue
            ty = self.chain_type(toks[s:k])
            if ty:
                return s, ty
        return None, None

    def addr_of(self, toks):
        """C expression for the address of the receiver"""
        if len(toks) == 1 and toks[0].kind == 'id' and self.is_ptr(toks[0].text):
            return toks[0].text
        txt = text_of(toks)
        if len(toks) == 1 and toks[0].kind == 'expr':
            m = re.match(r'^\(\*\s*(.*)\)$', txt, re.S)
            if m and _balanced(m.group(1)):
                return m.group(1)
        key = self.chain_key(toks)
        ty = self.vars.get(key)
        if ty and (ty.startswith('ref ') or ty.startswith('ptr ')) and len(toks) > 1:
            return txt              # a pointer-typed field
        return '&' + txt


def _balanced(s):
    d = 0
    for ch in s:
        if ch == '(':
            d += 1
        elif ch == ')':
            d -= 1
            if d < 0:
                return False
    return d == 0


# ---------------------------------------------------------------------------
# the rewriter


class Rewriter:
    def __init__(self, unit, fn, shim_methods, report):
        self.unit = unit
        self.fn = fn
        self.env = Env(unit, fn, shim_methods)
        self.R = report
        self.prefix = fn.get('cname', fn['name'])

    # -- helpers
    def _stmt_end(self, t, i):
        """index of the ';' ending the statement that starts at i (balanced)"""
        j = i
        while j < len(t):
            x = t[j]
            if x.kind not in ('str', 'chr', 'expr'):
                if x.text in ('(', '[', '{'):
                    j = match_close(t, j)
                elif x.text == ';':
                    return j
                elif x.text in (')', ']', '}'):
                    raise ExtractionBreak(f"statement starting at line {t[i].line} has no terminator")
            j += 1
        raise ExtractionBreak(f"statement starting at line {t[i].line} has no terminator")

    def _is_stmt_start(self, t, i):
        return i == 0 or (t[i - 1].kind == 'op' and t[i - 1].text in (';', '{', '}')) or \
            (t[i - 1].text == ')' and self._closes_control(t, i - 1)) or t[i - 1].text == 'else'

    def _closes_control(self, t, rp):
        try:
            lp = match_open(t, rp)
        except LexError:
            return False
        return lp > 0 and t[lp - 1].text in ('if', 'for', 'while', 'switch')

    # -- passes
    def p_qualifiers(self, t):
        strip_ns = set(self.unit.get('strip_ns', [])) | {'iora', 'core', 'network', 'constants', 'detail', 'util', 'parsers', 'storage'}
        out = []
        i = 0
        while i < len(t):
            x = t[i]
            if x.kind == 'id' and x.text == 'std' and i + 2 < len(t) and t[i + 1].text == '::':
                n = t[i + 2].text
                if n in STD_PLAIN:
                    out.append(Tok('id', n, x.line))
                    i += 3
                    self.R.fire('R1')
                    continue
                if n in STD_MAP:
                    out.append(Tok('id', STD_MAP[n], x.line))
                    i += 3
                    self.R.fire('R1')
                    continue
                if n == 'string' and i + 4 < len(t) and t[i + 3].text == '::' and t[i + 4].text == 'npos':
                    out.append(Tok('id', 'IORA_NPOS', x.line))
                    i += 5
                    self.R.fire('R1')
                    continue
                if n == 'string_view' and i + 4 < len(t) and t[i + 3].text == '::' and t[i + 4].text == 'npos':
                    out.append(Tok('id', 'IORA_NPOS', x.line))
                    i += 5
                    self.R.fire('R1')
                    continue
                if n == 'move' and t[i + 3].text == '(':
                    i += 3          # std::move(x) -> (x)
                    self.R.fire('R22')
                    continue
                if n == 'numeric_limits':
                    # std::numeric_limits<T>::max()
                    gt = i + 3
                    while t[gt].text != '>':
                        gt += 1
                    ty = '_'.join(y.text for y in t[i + 4:gt] if y.text not in ('std', '::'))
                    if t[gt + 1].text == '::' and t[gt + 3].text == '(' and t[gt + 4].text == ')':
                        out.append(Tok('id', f"IORA_LIMIT_{ty}_{t[gt + 2].text}", x.line))
                        i = gt + 5
                        self.R.fire('R1')
                        continue
            if x.kind == 'id' and x.text in strip_ns and i + 1 < len(t) and t[i + 1].text == '::' \
                    and (i == 0 or t[i - 1].text != '::' or True):
                i += 2
                self.R.fire('R1ns')
                continue
            if x.kind == 'op' and x.text == '::' and self.unit.get('strip_global_scope') \
                    and (i == 0 or ((t[i - 1].kind != 'id' or t[i - 1].text in ('return', 'else', 'case', 'throw')) and t[i - 1].text != '>')) \
                    and i + 1 < len(t) and t[i + 1].kind == 'id':
                # opt-in (unit.json "strip_global_scope": true): global-scope qualifier `::name` -> `name` (libc / OpenSSL calls)
                i += 1
                self.R.fire('R1gs')
                continue
            if x.kind == 'id' and x.text == 'nullptr':
                out.append(Tok('id', 'NULL', x.line))
                i += 1
                continue
            if x.kind == 'num' and "'" in x.text:
                out.append(Tok('num', x.text.replace("'", ''), x.line))
                i += 1
                continue
            out.append(x)
            i += 1
        return out

    def p_typemap(self, t):
        tm = {}
        tm.update(self.unit.get('typemap') or {})
        tm.update(self.fn.get('typemap') or {})
        pats = sorted(((lex(k), v) for k, v in tm.items()), key=lambda kv: -len(kv[0]))
        if not pats:
            return t
        out = []
        i = 0
        while i < len(t):
            hit = False
            for ptoks, v in pats:
                n = len(ptoks)
                if [y.text for y in t[i:i + n]] == [y.text for y in ptoks] and all(y.kind != 'expr' for y in t[i:i + n]):
                    for vt in lex(v):
                        vt.line = t[i].line
                        out.append(vt)
                    i += n
                    hit = True
                    self.R.fire('R6t')
                    break
            if not hit:
                out.append(t[i])
                i += 1
        return out

    def p_casts(self, t):
        changed = True
        while changed:
            changed = False
            for i, x in enumerate(t):
                if x.kind == 'id' and x.text in ('static_cast', 'reinterpret_cast', 'const_cast') and t[i + 1].text == '<':
                    d = 0
                    gt = None
                    for j in range(i + 1, len(t)):
                        if t[j].text == '<':
                            d += 1
                        elif t[j].text == '>':
                            d -= 1
                            if d == 0:
                                gt = j
                                break
                        elif t[j].text == '>>':
                            raise ExtractionBreak(f"nested template in cast at line {x.line}")
                    ty = t[i + 2:gt]
                    lp = gt + 1
                    if t[lp].text != '(':
                        raise ExtractionBreak(f"cast without parenthesis at line {x.line}")
                    rp = match_close(t, lp)
                    L = x.line
                    t[i:rp + 1] = [Tok('op', '(', L), Tok('op', '(', L)] + ty + [Tok('op', ')', L), Tok('op', '(', L)] + t[lp + 1:rp] + [Tok('op', ')', L), Tok('op', ')', L)]
                    self.R.fire('R2')
                    changed = True
                    break
        return t

    def p_enums(self, t):
        enums = {e['name'] if isinstance(e, dict) else e for e in self.unit.get('enums', [])}
        enums |= set(self.unit.get('enum_names', []))
        out = []
        i = 0
        while i < len(t):
            x = t[i]
            if x.kind == 'id' and x.text in enums and i + 2 < len(t) and t[i + 1].text == '::' and t[i + 2].kind == 'id':
                out.append(Tok('id', f"{x.text}_{t[i + 2].text}", x.line))
                i += 3
                self.R.fire('R3')
                continue
            out.append(x)
            i += 1
        return out

    def p_drops(self, t):
        """R9: drop logging / metrics statements (whole statements whose first token matches)"""
        drop_heads = set(self.unit.get('drop_calls', [])) | set(self.fn.get('drop_calls', []))
        drop_prefix = ('IORA_LOG_',)
        drop_pats = [Pattern(p) for p in (self.unit.get('drop_patterns', []) + self.fn.get('drop_patterns', []))]
        out = []
        i = 0
        while i < len(t):
            x = t[i]
            if self._is_stmt_start(t, i) and x.kind == 'id':
                hit = x.text in drop_heads or x.text.startswith(drop_prefix)
                end = None
                if hit:
                    end = self._stmt_end(t, i)
                else:
                    for p in drop_pats:
                        r = p.match_at(t, i, self.env)
                        if r and t[r[0] - 1].text == ';':
                            end = r[0] - 1
                            hit = True
                            break
                if hit:
                    self.R.dropped.append({"line": x.line, "text": text_of(t[i:end + 1])})
                    self.R.fire('R9')
                    # keep an empty statement so that `if (c) LOG(...);` stays well-formed
                    out.append(Tok('op', ';', x.line))
                    i = end + 1
                    continue
            out.append(x)
            i += 1
        return out

    def p_rules(self, t, phase):
        rules = [r for r in (self.unit.get('rules', []) + self.fn.get('rules', [])) if r.get('phase', 'post') == phase]
        for r in rules:
            pat = Pattern(r['match'])
            count = 0
            i = 0
            while i < len(t):
                if r.get('stmt') and not self._is_stmt_start(t, i):
                    i += 1
                    continue
                m = pat.match_at(t, i, self.env)
                if m:
                    end, binds = m
                    L = t[i].line
                    new = emit_template(r['emit'], binds, self.env, L)
                    if r.get('as') == 'expr' or r.get('type'):
                        new = [Tok('expr', '(' + text_of(new) + ')' if r.get('paren', True) else text_of(new), L, ctype=r.get('type'))]
                    if 'declare' in r:
                        for vn, vt in r['declare'].items():
                            self.env.vars[text_of(binds[vn[1:]]) if vn.startswith('$') else vn] = vt
                    t[i:end] = new
                    count += 1
                    i += len(new) if not r.get('rescan') else 0
                    if r.get('rescan') and count > 10000:
                        raise ExtractionBreak(f"rule loops: {r['match']}")
                    continue
                i += 1
            name = r.get('name', r['match'])
            self.R.fire('rule:' + name, count)
            lo = r.get('min', 0)     # a rule that no longer fires is harmless: residual C++ is rejected by goto-cc (exit 2); counts go to evidence
            if count < lo:
                raise ExtractionBreak(f"declared rule fired {count} < {lo} times in {self.prefix}: {r['match']}")
        return t

    def p_decls(self, t):
        """register local declarations `TYPE [*|&] name (=|;|{|()` of known shim/struct types; R17 default-init; R7 auto"""
        shim_types = set(self.env.methods.keys()) | set(self.unit.get('structs', [])) | set(self.unit.get('value_types', []))
        autos = dict(self.fn.get('autos') or {})
        out = []
        i = 0
        while i < len(t):
            x = t[i]
            if self._is_stmt_start(t, i) or (i > 0 and t[i - 1].text == '(' and i > 1 and t[i - 2].text == 'for'):
                j = i
                if t[j].text == 'const':
                    j += 1
                if t[j].kind == 'id' and t[j].text == 'auto':
                    k = j + 1
                    ref = False
                    if t[k].text in ('&', '&&'):
                        ref = True
                        k += 1
                    elif t[k].text == '*':
                        k += 1
                    if t[k].kind == 'id' and t[k + 1].text in ('=', ':'):
                        name = t[k].text
                        if name not in autos:
                            raise ExtractionBreak(f"R7: no type for `auto {name}` (line {x.line}) in {self.prefix}")
                        ty = autos[name]          # e.g. "size_t" / "ref iora_slice" / "ptr Session"
                        L = x.line
                        base = self.env.base(ty)
                        isref = ty.startswith('ref ')
                        isptr = ty.startswith('ptr ')
                        newt = lex(base)
                        for y in newt:
                            y.line = L
                        if base in shim_types or isref or isptr:
                            self.env.vars[name] = ty
                        pre = [y for y in t[i:j] if y.text == 'const' and not (isref or isptr)]
                        if isref or isptr:
                            # T* name = <addr of init>
                            end = self._stmt_end(t, k)
                            init = t[k + 2:end]
                            out += pre + newt + [Tok('op', '*', L), Tok('id', name, L, final=True), Tok('op', '=', L)]
                            if isref:
                                out += [Tok('id', 'IORA_ADDR', L), Tok('op', '(', L)] + init + [Tok('op', ')', L)]
                            else:
                                out += init
                            out.append(Tok('op', ';', L))
                            i = end + 1
                        else:
                            out += pre + newt + [Tok('id', name, L)]
                            i = k + 1
                        self.R.fire('R7')
                        continue
                if t[j].kind == 'id' and t[j].text in shim_types:
                    ty = t[j].text
                    k = j + 1
                    ref = False
                    if t[k].text in ('&', '*'):
                        ref = t[k].text
                        k += 1
                    if k + 1 < len(t) and t[k].kind == 'id' and t[k + 1].text in ('=', ';', '{', '(', ',', ')') and not (t[k + 1].text == '(' and ty not in shim_types):
                        name = t[k].text
                        if name not in self.env.vars:
                            self.env.vars[name] = ('ref ' if ref == '&' else 'ptr ' if ref == '*' else '') + ty
                        L = x.line
                        if not ref and t[k + 1].text == ';' :
                            out += t[i:k + 1] + [Tok('op', '=', L), Tok('id', f"{ty}_DEFAULT", L)]
                            self.R.fire('R17')
                            i = k + 1
                            continue
                        if not ref and t[k + 1].text == '{' and t[k + 2].text == '}':
                            out += t[i:k + 1] + [Tok('op', '=', L), Tok('id', f"{ty}_DEFAULT", L)]
                            self.R.fire('R17')
                            i = k + 3
                            continue
                        if ref == '&':
                            end = self._stmt_end(t, k)
                            if t[k + 1].text != '=':
                                raise ExtractionBreak(f"reference local without initialiser at line {L}")
                            init = t[k + 2:end]
                            out += t[i:j + 1] + [Tok('op', '*', L), Tok('id', name, L, final=True), Tok('op', '=', L),
                                                 Tok('id', 'IORA_ADDR', L), Tok('op', '(', L)] + init + [Tok('op', ')', L), Tok('op', ';', L)]
                            self.R.fire('R4l')
                            i = end + 1
                            continue
            out.append(x)
            i += 1
        return out

    def p_members(self, t):
        """R5: bare member names -> self->name ; bare method calls -> Cls_m(self, ...)"""
        mem = self.env.members
        meth = self.env.self_methods
        if not mem and not meth:
            return t
        out = []
        i = 0
        while i < len(t):
            x = t[i]
            prev = t[i - 1].text if i > 0 else ''
            if x.kind == 'id' and not x.final and prev not in ('.', '->', '::'):
                if x.text in meth and i + 1 < len(t) and t[i + 1].text == '(':
                    rp = match_close(t, i + 1)
                    empty = rp == i + 2
                    out += [Tok('id', meth[x.text], x.line, final=True), Tok('op', '(', x.line), Tok('id', 'self', x.line, final=True)]
                    if not empty:
                        out.append(Tok('op', ',', x.line))
                    i += 2
                    self.R.fire('R5m')
                    continue
                if x.text in mem and not (i + 1 < len(t) and t[i + 1].text == '(' and x.text in meth):
                    # not a local declaration shadowing the member
                    out += [Tok('id', 'self', x.line, final=True), Tok('op', '->', x.line), Tok('id', x.text, x.line, final=True)]
                    if mem[x.text]:
                        self.env.vars['self->' + x.text] = mem[x.text]
                    i += 1
                    self.R.fire('R5')
                    continue
            if x.kind == 'id' and x.text == 'this' and i + 1 < len(t) and t[i + 1].text == '->':
                out.append(Tok('id', 'self', x.line, final=True))
                i += 1
                continue
            out.append(x)
            i += 1
        for k, v in mem.items():
            if v:
                self.env.vars['self->' + k] = v
        return out

    def _rewrite_args(self, toks):
        return self.p_methods(list(toks))

    def p_methods(self, t):
        """R6: method calls / subscripts on typed receivers (leftmost first, so receivers are already rewritten)"""
        i = 0
        while i < len(t):
            x = t[i]
            if x.kind == 'op' and x.text in ('.', '->') and i + 2 < len(t) and t[i + 1].kind == 'id' and t[i + 2].text == '(':
                s, ty = self.env.receiver_backward(t, i)
                if s is not None:
                    base = self.env.base(ty)
                    mtab = self.env.methods.get(base)
                    m = t[i + 1].text
                    if mtab is not None:
                        if m not in mtab:
                            raise ExtractionBreak(f"R6: no shim for {base}::{m} (line {x.line}) in {self.prefix}")
                        rp = match_close(t, i + 2)
                        args = self._rewrite_args(t[i + 3:rp])
                        recv = t[s:i]
                        if x.text == '->' and len(recv) == 1 and recv[0].kind == 'id' and not self.env.is_ptr(recv[0].text):
                            raise ExtractionBreak(f"R6: '->' on non-pointer receiver {recv[0].text} line {x.line}")
                        addr = self.env.addr_of(recv) if x.text == '.' else text_of(recv)
                        spec = mtab[m]
                        if isinstance(spec, str):
                            spec = {"c": spec}
                        cname = spec.get('c', f"{base}_{m}")
                        txt = f"{cname}({addr}" + (", " + text_of(args) if args else "") + ")"
                        if spec.get('deref'):
                            txt = f"(*{txt})"
                        t[s:rp + 1] = [Tok('expr', txt, x.line, ctype=spec.get('ret'))]
                        self.R.fire('R6m')
                        i = s
                        continue
            if x.kind == 'op' and x.text == '[' and i > 0:
                s, ty = self.env.receiver_backward(t, i)
                if s is not None:
                    base = self.env.base(ty)
                    mtab = self.env.methods.get(base)
                    if mtab is not None and 'operator[]' in mtab:
                        rb = match_close(t, i)
                        idx = self._rewrite_args(t[i + 1:rb])
                        recv = t[s:i]
                        addr = self.env.addr_of(recv)
                        spec = mtab['operator[]']
                        if isinstance(spec, str):
                            spec = {"c": spec, "deref": True}
                        txt = f"{spec['c']}({addr}, {text_of(idx)})"
                        if spec.get('deref', True):
                            txt = f"(*{txt})"
                        t[s:rb + 1] = [Tok('expr', txt, x.line, ctype=spec.get('ret'))]
                        self.R.fire('R6s')
                        i = s
                        continue
            i += 1
        return t

    def p_refs(self, t):
        """R4: uses of reference parameters/locals -> (*x)"""
        refs = {k for k, v in self.env.vars.items() if v.startswith('ref ') and IDRE.match(k)}
        out = []
        for i, x in enumerate(t):
            if x.kind == 'id' and not x.final and x.text in refs and not (i > 0 and t[i - 1].text in ('.', '->', '::')):
                nxt = t[i + 1].text if i + 1 < len(t) else ''
                if nxt == '.':
                    # x.f -> x->f  (handled by emitting (*x))
                    pass
                out.append(Tok('expr', f"(*{x.text})", x.line, ctype=self.env.vars[x.text][4:]))
                self.R.fire('R4')
            else:
                out.append(x)
        return out

    def p_exceptions(self, t):
        """R8: throw -> set iora_exc and return; may-throw calls -> propagate"""
        dflt = self.fn.get('exc_return', None)
        maythrow = set(self.unit.get('maythrow', [])) | set(self.fn.get('maythrow', []))
        has_throw = any(x.kind == 'id' and x.text == 'throw' for x in t)
        if not has_throw and not maythrow:
            return t
        if any(x.kind == 'id' and x.text in ('try', 'catch') for x in t):
            return self.p_try(t, dflt, maythrow)
        return self._exc_linear(t, dflt, maythrow, None)

    def _ret_dflt(self, dflt, L, label=None):
        if label:
            return [Tok('id', 'goto', L), Tok('id', label, L), Tok('op', ';', L)]
        if dflt is None or dflt == '':
            return [Tok('id', 'return', L, final=True), Tok('op', ';', L)]
        return [Tok('id', 'return', L, final=True)] + lex(dflt) + [Tok('op', ';', L)]

    def _exc_linear(self, t, dflt, maythrow, label):
        out = []
        i = 0
        while i < len(t):
            x = t[i]
            if x.kind == 'id' and x.text == 'throw':
                end = self._stmt_end(t, i)
                L = x.line
                if end == i + 1:
                    # re-throw (`throw;` is only legal inside a handler): the handler prologue IORA_CATCH_ENTER() moved the
                    # exception to iora_exc_caught and cleared iora_exc, so it has to be re-raised explicitly
                    out += [Tok('op', '{', L), Tok('id', 'IORA_RETHROW', L), Tok('op', '(', L), Tok('op', ')', L), Tok('op', ';', L)] \
                        + self._ret_dflt(dflt, L, label) + [Tok('op', '}', L)]
                    self.R.fire('R8r')
                    i = end + 1
                    continue
                ty = t[i + 1]
                # type may be qualified; take the last identifier before '('
                k = i + 1
                while t[k].text != '(' and k < end:
                    k += 1
                tyname = t[k - 1].text
                self.R.dropped.append({"line": L, "text": "exception arguments: " + text_of(t[k:end])})
                out += [Tok('op', '{', L), Tok('id', 'iora_exc', L), Tok('op', '=', L), Tok('id', 'EXC_' + tyname, L), Tok('op', ';', L)]
                out += self._ret_dflt(dflt, L, label) + [Tok('op', '}', L)]
                self.R.fire('R8')
                i = end + 1
                continue
            if x.kind == 'id' and x.text in maythrow and i + 1 < len(t) and t[i + 1].text == '(' and self._in_simple_stmt(t, i):
                # find the statement containing this call
                s = i
                while s > 0 and not self._is_stmt_start(t, s):
                    s -= 1
                end = self._stmt_end(t, s)
                # copy through end, then add the check (only once per statement)
                if t[s].text == 'return':
                    out += t[i:end + 1]
                    i = end + 1
                    continue
                L = x.line
                out += t[i:end + 1]
                out += [Tok('id', 'if', L), Tok('op', '(', L), Tok('id', 'iora_exc', L), Tok('op', ')', L)] + self._ret_dflt(dflt, L, label)
                self.R.fire('R8c')
                i = end + 1
                continue
            out.append(x)
            i += 1
        return out

    def _in_simple_stmt(self, t, i):
        """the call at i must sit in an expression/declaration statement, not in a control header"""
        s = i
        depth = 0
        while s > 0:
            y = t[s - 1]
            if y.kind not in ('str', 'chr', 'expr'):
                if y.text == ')':
                    s = match_open(t, s - 1)
                    continue
                if y.text == '(':
                    # are we inside a control header?
                    if s - 2 >= 0 and t[s - 2].text in ('if', 'while', 'for', 'switch'):
                        raise ExtractionBreak(f"R8: may-throw call {t[i].text} inside a control header (line {t[i].line})")
                if y.text in (';', '{', '}'):
                    return True
            s -= 1
        return True

    def p_try(self, t, dflt, maythrow):
        """try { A } catch (T1 ...) { B1 } catch (...) { B2 }  ->
           { A' (throws -> goto catch_k) } goto end_k; catch_k: if (isa T1) {clear; B1} else if ... else {return dflt (propagate)} end_k: ;"""
        out = []
        i = 0
        k = 0
        while i < len(t):
            x = t[i]
            if x.kind == 'id' and x.text == 'try' and t[i + 1].text == '{':
                k += 1
                L = x.line
                rb = match_close(t, i + 1)
                body = t[i + 2:rb]
                lab = f"iora_catch_{k}"
                endlab = f"iora_end_{k}"
                if any(y.kind == 'id' and y.text == 'try' for y in body):
                    raise ExtractionBreak("nested try blocks are outside the subset")
                body = self._exc_linear(body, dflt, maythrow, lab)
                out += [Tok('op', '{', L)] + body + [Tok('op', '}', L), Tok('id', 'goto', L), Tok('id', endlab, L), Tok('op', ';', L),
                                                     Tok('id', lab, L), Tok('op', ':', L), Tok('op', ';', L)]
                j = rb + 1
                first = True
                catchall = False
                while j < len(t) and t[j].text == 'catch':
                    rp = match_close(t, j + 1)
                    decl = t[j + 2:rp]
                    cb_l = rp + 1
                    cb_r = match_close(t, cb_l)
                    cbody = self._exc_linear(t[cb_l + 1:cb_r], dflt, maythrow, None)
                    CL = t[j].line
                    if len(decl) == 1 and decl[0].text == '...':
                        # not the constant 1: a constant-condition branch inside a loop makes
                        # --apply-loop-contracts abort ("incoming edge from outside the loop"), same as R12
                        cond = lex('IORA_TRUE')
                        catchall = True
                    else:
                        tys = [y.text for y in decl if y.kind == 'id' and y.text not in ('const', 'std')]
                        tyname = tys[0] if len(tys) == 1 else tys[-2] if decl[-1].kind == 'id' and len(tys) >= 2 else tys[-1]
                        cond = lex(f"iora_isa(iora_exc, EXC_{tyname})")
                        if len(tys) >= 2:
                            self.env.vars.setdefault(tys[-1], 'iora_excobj')
                    if not first:
                        out.append(Tok('id', 'else', CL))
                    # a handler that does not re-throw consumes the exception
                    out += [Tok('id', 'if', CL), Tok('op', '(', CL)] + cond + [Tok('op', ')', CL), Tok('op', '{', CL),
                                                                                 Tok('id', 'IORA_CATCH_ENTER', CL), Tok('op', '(', CL), Tok('op', ')', CL), Tok('op', ';', CL)]
                    out += cbody + [Tok('op', '}', CL)]
                    first = False
                    self.R.fire('R8t')
                    j = cb_r + 1
                if not catchall:
                    out += [Tok('id', 'else', L), Tok('op', '{', L)] + self._ret_dflt(dflt, L) + [Tok('op', '}', L)]
                out += [Tok('id', endlab, L), Tok('op', ':', L), Tok('op', ';', L)]
                i = j
                continue
            out.append(x)
            i += 1
        # code outside try blocks
        return self._exc_linear_outside(out, dflt, maythrow)

    def _exc_linear_outside(self, t, dflt, maythrow):
        # throws / may-throw calls that are not inside a (rewritten) try body are handled linearly; the rewritten
        # try bodies no longer contain 'throw' or unchecked may-throw calls because _exc_linear consumed them and
        # marked its output tokens final where needed.
        return self._exc_linear_skipfinal(t, dflt, maythrow)

    def _exc_linear_skipfinal(self, t, dflt, maythrow):
        # calls already followed by an `if (iora_exc)` check are left alone
        out = []
        i = 0
        while i < len(t):
            x = t[i]
            if x.kind == 'id' and x.text in maythrow and i + 1 < len(t) and t[i + 1].text == '(':
                s = i
                while s > 0 and not self._is_stmt_start(t, s):
                    s -= 1
                end = self._stmt_end(t, s)
                nxt = [y.text for y in t[end + 1:end + 5]]
                if t[s].text == 'return' or nxt[:4] == ['if', '(', 'iora_exc', ')']:
                    out += t[i:end + 1]
                    i = end + 1
                    continue
                self._in_simple_stmt(t, i)
                L = x.line
                out += t[i:end + 1]
                out += [Tok('id', 'if', L), Tok('op', '(', L), Tok('id', 'iora_exc', L), Tok('op', ')', L)] + self._ret_dflt(dflt, L)
                self.R.fire('R8c')
                i = end + 1
                continue
            if x.kind == 'id' and x.text == 'throw':
                return self._exc_linear(t[i:], dflt, maythrow, None) if False else self._finish_throws(out, t, i, dflt, maythrow)
            out.append(x)
            i += 1
        return out

    def _finish_throws(self, out, t, i, dflt, maythrow):
        rest = self._exc_linear(t[i:i + 1 + (self._stmt_end(t, i) - i)], dflt, maythrow, None)
        end = self._stmt_end(t, i)
        return out + rest + self._exc_linear_skipfinal(t[end + 1:], dflt, maythrow)

    def p_returns(self, t):
        kind = self.fn.get('returns')
        if kind not in ('optional', 'out'):
            return t
        out = []
        i = 0
        while i < len(t):
            x = t[i]
            if x.kind == 'id' and x.text == 'return' and not x.final:
                end = self._stmt_end(t, i)
                expr = t[i + 1:end]
                L = x.line
                if kind == 'optional':
                    if len(expr) == 1 and expr[0].text in ('IORA_NULLOPT',) or (len(expr) == 2 and expr[0].text == '{' and expr[1].text == '}'):
                        out += [Tok('id', 'return', L, final=True), Tok('id', 'false', L), Tok('op', ';', L)]
                    else:
                        out += [Tok('op', '{', L), Tok('op', '*', L), Tok('id', 'iora_ret', L), Tok('op', '=', L)] + expr + \
                               [Tok('op', ';', L), Tok('id', 'return', L, final=True), Tok('id', 'true', L), Tok('op', ';', L), Tok('op', '}', L)]
                    self.R.fire('R16')
                else:
                    # 'out': return value written through iora_ret, function returns void
                    if expr:
                        out += [Tok('op', '{', L), Tok('op', '*', L), Tok('id', 'iora_ret', L), Tok('op', '=', L)] + expr + \
                               [Tok('op', ';', L), Tok('id', 'return', L, final=True), Tok('op', ';', L), Tok('op', '}', L)]
                    else:
                        out += [Tok('id', 'return', L, final=True), Tok('op', ';', L)]
                    self.R.fire('R16o')
                i = end + 1
                continue
            out.append(x)
            i += 1
        return out

    def p_loops(self, t):
        """R12/R15: number loops in source order; splice IORA_LOOP_<fn>_<k>; constant conditions -> IORA_TRUE; canary hooks"""
        out = []
        k = 0
        i = 0
        heads = []
        pending_do = []
        while i < len(t):
            x = t[i]
            if x.kind == 'id' and x.text in ('for', 'while') and not x.final and t[i + 1].text == '(':
                rp = match_close(t, i + 1)
                is_do_tail = x.text == 'while' and t[rp + 1].text == ';' and i > 0 and t[i - 1].text == '}' and pending_do and pending_do[-1] == 'open-closed'
                if is_do_tail:
                    pending_do.pop()
                    out += t[i:rp + 1]
                    i = rp + 1
                    continue
                k += 1
                hdr = t[i + 2:rp]
                L = x.line
                htxt = text_of(hdr)
                if x.text == 'while' and htxt in ('true', '1'):
                    hdr = [Tok('id', 'IORA_TRUE', L)]
                    self.R.fire('R12')
                if x.text == 'for' and htxt.replace(' ', '') == ';;':
                    hdr = [Tok('op', ';', L), Tok('id', 'IORA_TRUE', L), Tok('op', ';', L)]
                    self.R.fire('R12')
                if x.text == 'for' and any(y.text == ':' for y in self._top_level(hdr)) and not any(y.text == ';' for y in self._top_level(hdr)):
                    raise ExtractionBreak(f"range-for at line {L} is outside the subset (declare a rule for it)")
                heads.append({"ordinal": k, "line": L, "header": x.text + ' ( ' + htxt + ' )'})
                out += [x, t[i + 1]] + hdr + [t[rp], Tok('id', f"IORA_LOOP_{self.prefix}_{k}", L, final=True)]
                # canary at top of body (only for braced bodies)
                if t[rp + 1].text == '{':
                    out += [t[rp + 1], Tok('id', f"IORA_CANARY_LOOP", L, final=True), Tok('op', '(', L), Tok('str', f'"{self.prefix} loop {k} body reachable"', L), Tok('op', ')', L), Tok('op', ';', L)]
                    i = rp + 2
                else:
                    i = rp + 1
                continue
            if x.kind == 'id' and x.text == 'do' and t[i + 1].text == '{':
                raise ExtractionBreak(f"do-while at line {x.line} is outside the subset")
            out.append(x)
            i += 1
        self.R.loops[self.prefix] = heads
        return out

    def _top_level(self, toks):
        res = []
        j = 0
        while j < len(toks):
            y = toks[j]
            if y.kind not in ('str', 'chr', 'expr') and y.text in ('(', '[', '{'):
                j = match_close(toks, j) + 1
                continue
            res.append(y)
            j += 1
        return res

    def p_division(self, t):
        """R19: '/' and '%' by a non-constant divisor -> iora_sdiv/iora_smod stubs (opt-in per function)"""
        if not self.fn.get('division_stub'):
            return t
        raise ExtractionBreak("division stub is declared through rules in this version")

    def hook(self, name, t):
        plug = self.unit.get('_plugin')
        if plug is not None and hasattr(plug, name):
            r = getattr(plug, name)(t, self)
            return t if r is None else r
        return t

    def p_local_lambdas(self, t):
        """R13b: a local single-return lambda `auto f = [..](T a, U b) { return E; };` that a unit has no explicit target for is
        inlined at its call sites: `f(x, y)` -> `(E[a:=(x), b:=(y)])`; when a parameter occurs more than once in E and the argument is
        not a plain identifier/literal, a GCC statement expression binds it once `({ T a = (x); E; })`.  Nothing is lost (same
        expression text); anything else about the lambda (captures by copy that are later modified, statements other than one return,
        generic `auto` parameters, recursion) is an extraction break as before."""
        i = 0
        out = list(t)
        if os.environ.get('VERIF_NO_LAMBDA_INLINE'):
            return out
        while i + 6 < len(out):
            if not (out[i].text == 'auto' and out[i + 1].kind == 'id' and out[i + 2].text == '=' and out[i + 3].text == '['):
                i += 1
                continue
            name = out[i + 1].text
            rb = match_close(out, i + 3)
            cap = [x.text for x in out[i + 4:rb]]
            if cap not in ([], ['&'], ['='], ['this'], ['&', ',', 'this'], ['=', ',', 'this']) or out[rb + 1].text != '(':
                i += 1
                continue
            rp = match_close(out, rb + 1)
            params = []
            ok = True
            for part in _split_commas(out[rb + 2:rp]):
                if len(part) < 2 or part[-1].kind != 'id' or any(x.text == 'auto' for x in part):
                    ok = False
                    break
                ty = [x for x in part[:-1]]
                if ty and ty[-1].text == '&':        # by (const) reference: same as by value for a pure single expression
                    ty = ty[:-1]
                params.append((ty, part[-1].text))
            j = rp + 1
            while j < len(out) and out[j].text in ('const', 'noexcept', 'mutable'):
                j += 1
            if not ok or j >= len(out) or out[j].text != '{':
                i += 1
                continue
            cb = match_close(out, j)
            body = out[j + 1:cb]
            if not body or body[0].text != 'return' or body[-1].text != ';' or sum(1 for x in body if x.text == ';') != 1 \
                    or cb + 1 >= len(out) or out[cb + 1].text != ';' or any(x.text == name for x in body):
                i += 1
                continue
            expr = body[1:-1]
            # a unit that declares this lambda as its own target (lambda_in) keeps it
            if any(f.get('lambda_in') and f.get('name') == name for f in self.unit.get('functions', [])):
                i += 1
                continue
            decl_lo, decl_hi = i, cb + 2
            rest = out[decl_hi:]
            k = 0
            new_rest = []
            uses = 0
            while k < len(rest):
                x = rest[k]
                if x.kind == 'id' and x.text == name and k + 1 < len(rest) and rest[k + 1].text == '(' and (k == 0 or rest[k - 1].text not in ('.', '->', '::')):
                    ce = match_close(rest, k + 1)
                    args = _split_commas(rest[k + 2:ce]) if ce > k + 2 else []
                    if len(args) != len(params):
                        raise ExtractionBreak(f"local lambda '{name}': called with {len(args)} arguments, declared with {len(params)}")
                    L = x.line
                    binds = []
                    sub = {}
                    for (ty, pn), a in zip(params, args):
                        occ = sum(1 for y in expr if y.kind == 'id' and y.text == pn)
                        simple = len(a) == 1 and a[0].kind in ('id', 'num', 'chr', 'str')
                        if occ <= 1 or simple:
                            sub[pn] = [Tok('op', '(', L)] + list(a) + [Tok('op', ')', L)]
                        else:
                            binds += list(ty) + [Tok('id', pn, L), Tok('op', '=', L), Tok('op', '(', L)] + list(a) + [Tok('op', ')', L), Tok('op', ';', L)]
                    e2 = []
                    for y in expr:
                        if y.kind == 'id' and y.text in sub:
                            e2 += [Tok(z.kind, z.text, L) for z in sub[y.text]]
                        else:
                            e2.append(Tok(y.kind, y.text, L))
                    if binds:
                        new_rest += [Tok('op', '(', L), Tok('op', '{', L)] + binds + e2 + [Tok('op', ';', L), Tok('op', '}', L), Tok('op', ')', L)]
                    else:
                        new_rest += [Tok('op', '(', L)] + e2 + [Tok('op', ')', L)]
                    uses += 1
                    k = ce + 1
                    continue
                if x.kind == 'id' and x.text == name:
                    raise ExtractionBreak(f"local lambda '{name}' is used other than by a direct call (line {x.line})")
                new_rest.append(x)
                k += 1
            out = out[:decl_lo] + new_rest
            self.R.fire('R13b')
            # do not advance: the next token is examined again
        return out

    def rewrite(self, body):
        t = list(body)
        t = self.hook('hook_begin', t)
        t = self.p_local_lambdas(t)
        t = self.p_qualifiers(t)
        t = self.p_rules(t, 'pre')
        t = self.p_typemap(t)
        t = self.p_casts(t)
        t = self.p_enums(t)
        t = self.p_drops(t)
        t = self.p_decls(t)
        t = self.p_refs(t)
        t = self.p_members(t)
        t = self.hook('hook_mid', t)
        t = self.p_rules(t, 'mid')
        t = self.p_methods(t)
        t = self.p_rules(t, 'post')
        t = self.p_exceptions(t)
        t = self.p_returns(t)
        t = self.hook('hook_before_loops', t)
        t = self.p_loops(t)
        t = self.p_rules(t, 'final')
        t = self.hook('hook_end', t)
        return t


# ---------------------------------------------------------------------------
# printing


def pretty(toks, fname):
    """one statement per line, #line directives back to the header"""
    lines = []
    cur = []
    ind = 0
    paren = 0
    last_line = [None]

    def flush():
        nonlocal cur
        if cur:
            L = cur[0].line
            if L and L != last_line[0]:
                lines.append(f'#line {L} "{fname}"')
            last_line[0] = None        # always re-emit: printed lines do not track header lines
            lines.append('  ' * ind + ' '.join(x.text for x in cur))
            cur = []

    for x in toks:
        if x.kind != 'expr' and x.kind != 'str' and x.kind != 'chr':
            if x.text == '(':
                paren += 1
            elif x.text == ')':
                paren -= 1
            elif x.text == '{' and paren == 0 and not (cur and cur[-1].text in ('=', ',', '(', 'return') or (cur and cur[-1].text == ')' and False)):
                # block brace (initialiser braces stay inline)
                if cur and cur[-1].text == '=':
                    pass
                flush()
                lines.append('  ' * ind + '{')
                ind += 1
                continue
            elif x.text == '}' and paren == 0 and not _in_init(cur):
                flush()
                ind -= 1
                lines.append('  ' * ind + '}')
                continue
        cur.append(x)
        if x.kind == 'op' and x.text == ';' and paren == 0 and not _in_init(cur[:-1]):
            flush()
    flush()
    return '\n'.join(lines) + '\n'


def _in_init(cur):
    d = 0
    for y in cur:
        if y.kind in ('str', 'chr', 'expr'):
            continue
        if y.text == '{':
            d += 1
        elif y.text == '}':
            d -= 1
    return d > 0


# ---------------------------------------------------------------------------
# enums / constants


def extract_enum(toks, name, ctype, report):
    for i, x in enumerate(toks):
        if x.kind == 'id' and x.text == 'enum' and toks[i + 1].text in ('class', 'struct') and toks[i + 2].text == name:
            j = i + 3
            while toks[j].text != '{':
                if toks[j].text == ';':
                    break
                j += 1
            if toks[j].text != '{':
                continue
            rb = match_close(toks, j)
            body = toks[j + 1:rb]
            items = []
            cur = []
            for y in body + [Tok('op', ',', 0)]:
                if y.text == ',' and y.kind == 'op':
                    if cur:
                        items.append(cur)
                    cur = []
                else:
                    cur.append(y)
            out = [f"typedef {ctype} {name};", "enum {"]
            prev = None
            for it in items:
                nm = it[0].text
                if len(it) > 2 and it[1].text == '=':
                    val = text_of(it[2:])
                    val = re.sub(r'\b(\w+)\s*::\s*(\w+)', r'\1_\2', val)
                    val = val.replace("'", '') if re.match(r'^[0-9xXa-fA-F\' ]+$', val) else val
                else:
                    val = '0' if prev is None else f"({prev}) + 1"
                out.append(f"  {name}_{nm} = {val},")
                prev = f"{name}_{nm}"
            out.append("};")
            report.fire('R3def')
            report.sources.append({"what": f"enum {name}", "line": x.line})
            return '\n'.join(out) + '\n'
    raise ExtractionBreak(f"enum class {name} not found")


def extract_constant(toks, name, cname, report, scope=None):
    """`[static] [inline] constexpr T name = expr ;` or `{expr}` -> #define cname (expr)"""
    lo, hi = (0, len(toks)) if not scope else find_scope(toks, scope)
    hits = []
    for i in range(lo, hi):
        x = toks[i]
        if x.kind == 'id' and x.text == name and toks[i + 1].text in ('=', '{') and toks[i - 1].kind == 'id':
            # walk back to the start of the declaration
            s = i
            while s > lo and toks[s - 1].text not in (';', '{', '}', ':'):
                s -= 1
            head = [y.text for y in toks[s:i]]
            if 'constexpr' not in head and 'const' not in head:
                continue
            if toks[i + 1].text == '=':
                e = i + 2
                while toks[e].text != ';':
                    e += 1
                expr = toks[i + 2:e]
            else:
                e = match_close(toks, i + 1)
                expr = toks[i + 2:e]
            hits.append((x.line, expr, head))
    if len(hits) != 1:
        raise ExtractionBreak(f"constant {name}: {len(hits)} definitions found")
    line, expr, head = hits[0]
    txt = text_of(expr)
    txt = re.sub(r'std\s*::\s*', '', txt)
    txt = re.sub(r"(?<=\d)'(?=\d)", '', txt)
    txt = re.sub(r'\bnumeric_limits\s*<\s*(\w+)\s*>\s*::\s*(\w+)\s*\(\s*\)', r'IORA_LIMIT_\1_\2', txt)    # as in p_qualifiers (R1)
    txt = re.sub(r'\b(?:static_cast|reinterpret_cast)\s*<([^>]*)>\s*\(', r'(\1)(', txt)
    txt = re.sub(r'\bchrono\s*::\s*(?:milli|micro|nano)?seconds\s*\(([^()]*)\)', r'(\1)', txt)
    txt = re.sub(r'\b(\w+)\s*::\s*(\w+)', r'\2', txt)
    report.fire('Rconst')
    report.sources.append({"what": f"constant {name}", "line": line, "value": txt})
    return f"#define {cname} ({txt})\n"


# ---------------------------------------------------------------------------
# driver


def sha(s):
    return hashlib.sha256(s.encode()).hexdigest()[:16]


def _split_commas(toks):
    """top-level comma split of a call's argument tokens (round/square/curly brackets only)"""
    parts, cur, d = [], [], 0
    for y in toks:
        if y.kind not in ('str', 'chr', 'expr'):
            if y.text in ('(', '[', '{'):
                d += 1
            elif y.text in (')', ']', '}'):
                d -= 1
        if y.text == ',' and d == 0:
            parts.append(cur)
            cur = []
        else:
            cur.append(y)
    if cur:
        parts.append(cur)
    return parts


def split_params(toks):
    parts = []
    cur = []
    d = 0
    for y in toks:
        if y.kind not in ('str', 'chr'):
            if y.text in ('(', '[', '{', '<'):
                d += 1
            elif y.text in (')', ']', '}', '>'):
                d -= 1
            elif y.text == '>>':
                d -= 2
        if y.text == ',' and d == 0:
            parts.append(cur)
            cur = []
        else:
            cur.append(y)
    if cur:
        parts.append(cur)
    return parts


def norm(s):
    return re.sub(r'\s+', '', s)


def extract_unit(repo, unit, shim_methods):
    """returns (c_text, report_dict). unit: parsed unit.json"""
    R = Report()
    cache = {}

    def toks_of(path):
        if path not in cache:
            full = os.path.join(repo, path)
            if not os.path.exists(full):
                raise ExtractionBreak(f"source file missing: {path}")
            src = open(full, encoding='utf-8', errors='replace').read()
            if not os.environ.get('VERIF_NO_PPCOND'):
                # only the arms of #if/#else the real compiler compiles (vt/ppcond.py)
                src = ppcond.strip_inactive(repo, path, src)
            try:
                cache[path] = (lex(src), src)
            except LexError as e:
                raise ExtractionBreak(f"{path}: {e}")
        return cache[path]

    parts = []
    default_file = unit.get('file')
    for e in unit.get('enums', []):
        if isinstance(e, str):
            e = {"name": e, "ctype": "int"}
        toks, _ = toks_of(e.get('file', default_file))
        parts.append(extract_enum(toks, e['name'], e.get('ctype', 'int'), R))
    for c in unit.get('constants', []):
        if isinstance(c, str):
            c = {"name": c}
        toks, _ = toks_of(c.get('file', default_file))
        try:
            parts.append(extract_constant(toks, c['name'], c.get('cname', c['name']), R, c.get('scope')))
        except ExtractionBreak:
            # "optional": a constant that only exists in some versions of the header (pre.h/post.c test it with #ifdef)
            if not c.get('optional'):
                raise
            R.notes.append(f"optional constant {c['name']} not present")
    for sa in unit.get('static_asserts', []):
        toks, _ = toks_of(sa.get('file', default_file))
        parts.append(extract_static_asserts(toks, sa['scope'], sa['cname'], R))
    parts.append('#include "pre.h"\n')

    protos = []
    bodies = []
    for fn in unit['functions']:
        path = fn.get('file', default_file)
        toks, src = toks_of(path)
        if fn.get('lambda_in'):
            host = fn['lambda_in']
            hi_ = find_function(toks, host['name'], host.get('scope'), host.get('params_re'), host.get('ordinal'))
            lp, rp, lb, rb = find_lambda(toks, hi_[3], hi_[4], fn['name'])
            ptoks = toks[lp + 1:rp] if lp is not None else []
        else:
            i_name, lp, rp, lb, rb = find_function(toks, fn['name'], fn.get('scope'), fn.get('params_re'), fn.get('ordinal'))
            ptoks = toks[lp + 1:rp]
        # the C++ parameter list must be the recorded one (a changed signature cannot be mapped to the C declaration)
        have = norm(text_of(ptoks))
        want = norm(fn['cxxparams'])
        # default arguments are dropped for the comparison
        if have != want:
            raise ExtractionBreak(f"{fn['name']}: parameter list changed: have `{text_of(ptoks)}`, recorded `{fn['cxxparams']}`")
        body = toks[lb + 1:rb]
        if fn.get('block'):
            body = cut_block(body, fn['block'], fn['name'])
        if fn.get('ctor_init'):
            body = ctor_init_assignments(toks, rp, lb, fn.get('scope'), fn['name']) + body
        rw = Rewriter(unit, fn, shim_methods, R)
        c = rw.rewrite(body)
        R.sources.append({"what": f"function {fn.get('scope') or ''}::{fn['name']}", "file": path,
                          "lines": [toks[lb].line, toks[rb].line],
                          "sha256_16": sha(text_of(body))})
        cdecl = fn['cdecl']
        protos.append(cdecl + ';')
        bodies.append(f'{cdecl}\n{{\n{pretty(c, path)}}}\n')
    parts.append('\n'.join(protos) + '\n')
    parts += bodies
    parts.append('#include "post.c"\n')
    return '\n'.join(parts), R.as_dict()


def extract_static_asserts(toks, scope, cname, report):
    """every `static_assert(cond, "msg");` directly in class `scope` -> #define cname ((c1) && (c2) ...)
    (the admissible template arguments of a class template: a symbolic parameter is constrained by exactly these)"""
    lo, hi = find_scope(toks, scope)
    conds = []
    i = lo
    while i < hi:
        x = toks[i]
        if x.kind not in ('str', 'chr') and x.text == '{':
            i = match_close(toks, i) + 1       # skip member function bodies / nested classes
            continue
        if x.kind == 'id' and x.text == 'static_assert' and toks[i + 1].text == '(':
            rp = match_close(toks, i + 1)
            inner = toks[i + 2:rp]
            # the optional message is a trailing string literal after the last top-level comma ('<' / '>' are operators here)
            if len(inner) >= 2 and inner[-1].kind == 'str' and inner[-2].text == ',':
                inner = inner[:-2]
            txt = text_of(inner)
            txt = re.sub(r'std\s*::\s*', '', txt)
            conds.append(txt)
            report.sources.append({"what": f"static_assert in {scope}", "line": x.line, "value": txt})
            i = rp
        i += 1
    if not conds:
        raise ExtractionBreak(f"no static_assert found in scope {scope}")
    report.fire('Rsassert', len(conds))
    return f"#define {cname} (" + ' && '.join(f"({c})" for c in conds) + ")\n"


def ctor_init_assignments(toks, rp, lb, scope, name):
    """constructor member-initialiser list `: m1(e1), m2{e2}` -> `m1 = e1; m2 = e2;` (prepended to the body).
    C++ initialises in member DECLARATION order, not list order: the two orders must agree, else exit 2."""
    j = rp + 1
    while j < lb and toks[j].text != ':':
        j += 1
    if j >= lb:
        return []
    items = split_params(toks[j + 1:lb])
    out = []
    names = []
    for it in items:
        if len(it) < 3 or it[0].kind != 'id' or it[1].text not in ('(', '{') or it[-1].text not in (')', '}'):
            raise ExtractionBreak(f"{name}: initialiser list item outside the subset: {text_of(it)}")
        inner = it[2:-1]
        if not inner:
            raise ExtractionBreak(f"{name}: value-initialised member `{it[0].text}` in initialiser list is outside the subset")
        L = it[0].line
        out += [Tok('id', it[0].text, L), Tok('op', '=', L)] + list(inner) + [Tok('op', ';', L)]
        names.append(it[0].text)
    if scope:
        lo, hi = find_scope(toks, scope)
        pos = {}
        i = lo
        while i < hi:
            x = toks[i]
            if x.kind not in ('str', 'chr') and x.text == '{' and not (toks[i - 1].kind == 'id' and toks[i - 1].text in names and toks[i - 2].text != ','):
                i = match_close(toks, i) + 1
                continue
            if x.kind == 'id' and x.text in names and toks[i + 1].text in (';', '=', '{') and toks[i - 1].text not in ('.', '->', ':', ',', '(', 'return'):
                pos.setdefault(x.text, i)
            i += 1
        order = [pos.get(n) for n in names]
        if any(o is None for o in order) or order != sorted(order):
            raise ExtractionBreak(f"{name}: initialiser list order differs from member declaration order (or a member declaration was not found): {names}")
    return out


def cut_block(body, spec, name):
    """R14: a statement range of a large function, delimited by anchor token texts"""
    first = lex(spec['first'])
    # "$END": through the end of the function body; "$STMT": through the end of the statement the first anchor starts
    # (a control header `while (..)` / `if (..)` + its braced body, or up to the next top-level ';')
    # "$BLOCKEND": through the end of the innermost `{...}` block that contains the first anchor (e.g. the rest of a loop body), so that a
    # change of the block's last statement does not lose the anchor
    last_kind = spec['last'] if spec['last'] in ('$END', '$STMT', '$BLOCKEND') else None
    last = [] if last_kind else lex(spec['last'])

    def find(seq, start):
        hits = []
        n = len(seq)
        for i in range(start, len(body) - n + 1):
            if all(body[i + k].text == seq[k].text for k in range(n)):
                hits.append(i)
        return hits
    a = find(first, 0)
    if len(a) < 1 + spec.get('first_ordinal', 0):
        raise ExtractionBreak(f"{name}: block start anchor not found: {spec['first']}")
    if len(a) != 1 and 'first_ordinal' not in spec:
        raise ExtractionBreak(f"{name}: block start anchor ambiguous ({len(a)}): {spec['first']}")
    s = a[spec.get('first_ordinal', 0)]
    if last_kind == '$END':
        e = len(body)
    elif last_kind == '$BLOCKEND':
        d = 0
        e = len(body)
        for j in range(s - 1, -1, -1):
            if body[j].kind in ('str', 'chr'):
                continue
            if body[j].text == '}':
                d += 1
            elif body[j].text == '{':
                if d == 0:
                    e = match_close(body, j)
                    break
                d -= 1
    elif last_kind == '$STMT':
        j = s + len(first)
        if j < len(body) and body[j].text == '{':
            e = match_close(body, j) + 1
        else:
            while j < len(body) and body[j].text != ';':
                j = match_close(body, j) + 1 if body[j].text in ('(', '[', '{') and body[j].kind not in ('str', 'chr') else j + 1
            if j >= len(body):
                raise ExtractionBreak(f"{name}: statement started by the block anchor has no end: {spec['first']}")
            e = j + 1
    else:
        b = find(last, s)
        if not b:
            raise ExtractionBreak(f"{name}: block end anchor not found: {spec['last']}")
        e = b[spec.get('last_ordinal', 0)] + len(last)
    out = body[s:e]
    if spec.get('append'):
        extra = lex(spec['append'])
        for y in extra:
            y.line = body[e - 1].line
        out = out + extra
    return out
