"""Token-level lexer for the C++ subset iora's target functions are written in.

Comments and preprocessor lines are discarded (they are not executable text);
everything else is kept with its source line so that the emitted C can carry
#line directives pointing at the real header.
"""
import re

TOK = re.compile(r"""
   (?P<ws>\s+)
 | (?P<lc>//[^\n]*)
 | (?P<bc>/\*.*?\*/)
 | (?P<pp>^[ \t]*\#[^\n]*(?:\\\n[^\n]*)*)
 | (?P<rawstr>R"\((?:.|\n)*?\)")
 | (?P<str>"(?:\\.|[^"\\\n])*")
 | (?P<chr>'(?:\\.|[^'\\\n])+')
 | (?P<num>0[xX][0-9a-fA-F']+[uUlLzZ]*|\d[\d']*(?:\.\d*)?(?:[eE][+-]?\d+)?[uUlLfFzZ]*)
 | (?P<id>[A-Za-z_]\w*)
 | (?P<meta>\$[A-Za-z_]\w*(?::[A-Za-z_]\w*)?)
 | (?P<op>::|->|\+\+|--|<<=|>>=|<=|>=|==|!=|&&|\|\||\+=|-=|\*=|/=|%=|&=|\|=|\^=|<<|>>|\.\.\.|[{}()\[\];,<>+\-*/%&|^!~?:=.@\#\\])
""", re.X | re.S | re.M)


class Tok:
    __slots__ = ("kind", "text", "line", "ctype", "final")

    def __init__(self, kind, text, line=0, ctype=None, final=False):
        self.kind = kind
        self.text = text
        self.line = line
        self.ctype = ctype      # C shim type of this expression, when known
        self.final = final      # never rewritten again

    def __repr__(self):
        return f"Tok({self.kind},{self.text!r})"


class LexError(Exception):
    pass


def lex(src, keep_meta=False):
    out = []
    pos = 0
    line = 1
    n = len(src)
    while pos < n:
        m = TOK.match(src, pos)
        if not m:
            raise LexError(f"lex error at line {line}: {src[pos:pos+40]!r}")
        k = m.lastgroup
        text = m.group()
        if k == 'meta' and not keep_meta:
            raise LexError(f"unexpected '$' at line {line}")
        if k not in ('ws', 'lc', 'bc', 'pp'):
            if k == 'rawstr':
                k = 'str'
            out.append(Tok(k, text, line))
        line += text.count('\n')
        pos = m.end()
    return out


OPEN = {'(': ')', '[': ']', '{': '}'}
CLOSE = {')': '(', ']': '[', '}': '{'}


def match_close(toks, i):
    """index of the token closing the bracket at toks[i]"""
    o = toks[i].text
    c = OPEN[o]
    d = 0
    for j in range(i, len(toks)):
        t = toks[j].text
        if toks[j].kind in ('str', 'chr', 'expr'):
            continue
        if t == o:
            d += 1
        elif t == c:
            d -= 1
            if d == 0:
                return j
    raise LexError(f"unbalanced {o} at line {toks[i].line}")


def match_open(toks, i):
    c = toks[i].text
    o = CLOSE[c]
    d = 0
    for j in range(i, -1, -1):
        t = toks[j].text
        if toks[j].kind in ('str', 'chr', 'expr'):
            continue
        if t == c:
            d += 1
        elif t == o:
            d -= 1
            if d == 0:
                return j
    raise LexError(f"unbalanced {c} at line {toks[i].line}")


def text_of(toks):
    return ' '.join(t.text for t in toks)
