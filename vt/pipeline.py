"""Per-unit pipeline: extract -> goto-cc -> goto-instrument --dfcc -> cbmc, result parsing (DESIGN.md 2.4/2.5)."""
import json
import os
import re
import resource
import shutil
import subprocess
import time

from . import x2c

VERIF = os.path.dirname(os.path.dirname(os.path.abspath(__file__)))
REPO = os.environ.get('IORA_REPO', '/repo')
WORK = os.path.join(VERIF, '.work') if REPO == '/repo' else os.path.join(VERIF, '.work', 'alt_' + re.sub(r'\W+', '_', REPO))

BASE_CHECKS = ['--bounds-check', '--pointer-check', '--pointer-overflow-check',
               '--signed-overflow-check', '--div-by-zero-check', '--undefined-shift-check']


class Undecided(Exception):
    """exit 2: extraction break, tool crash, timeout, memory limit"""


def load_methods(unit_dir=None):
    m = json.load(open(os.path.join(VERIF, 'shims', 'methods.json')))
    if unit_dir and os.path.exists(os.path.join(unit_dir, 'methods.json')):
        for k, v in json.load(open(os.path.join(unit_dir, 'methods.json'))).items():
            m.setdefault(k, {}).update(v)
    return m


def _limits(mem_gb):
    def f():
        b = int(mem_gb * (1 << 30))
        resource.setrlimit(resource.RLIMIT_AS, (b, b))
    return f


def run(cmd, timeout, mem_gb=8, cwd=None, stdout_path=None):
    t0 = time.time()
    try:
        if stdout_path:
            with open(stdout_path, 'w') as fo:
                p = subprocess.run(cmd, stdout=fo, stderr=subprocess.PIPE, timeout=timeout, cwd=cwd, preexec_fn=_limits(mem_gb), text=True, errors='replace')
            out = ''
        else:
            p = subprocess.run(cmd, stdout=subprocess.PIPE, stderr=subprocess.PIPE, timeout=timeout, cwd=cwd, preexec_fn=_limits(mem_gb), text=True, errors='replace')
            out = p.stdout
        return p.returncode, out, p.stderr, time.time() - t0
    except subprocess.TimeoutExpired:
        return -9, '', f'timeout after {timeout}s', time.time() - t0


def run_portfolio(cmd, timeout, mem_gb, outp):
    """MiniSat and CaDiCaL race on the same goto binary; the first verdict wins (both are complete SAT back ends of cbmc)"""
    t0 = time.time()
    procs = []
    for sv in ('minisat', 'cadical'):
        c = cmd if sv == 'minisat' else cmd[:1] + ['--sat-solver', sv] + cmd[1:]
        fo = open(outp + '.' + sv, 'w')
        procs.append((sv, c, subprocess.Popen(c, stdout=fo, stderr=subprocess.DEVNULL, preexec_fn=_limits(mem_gb)), fo))
    winner = None
    while time.time() - t0 < timeout and winner is None:
        alive = 0
        for sv, c, p, fo in procs:
            r = p.poll()
            if r is None:
                alive += 1
            elif r in (0, 10) and winner is None:      # 0 = successful, 10 = failed properties: both are verdicts
                winner = (sv, c, r)
        if alive == 0:
            break
        if winner is None:
            time.sleep(0.2)
    for sv, c, p, fo in procs:
        if p.poll() is None:
            p.kill()
        p.wait()
        fo.close()
    if winner is None:
        if time.time() - t0 >= timeout:
            return -9, time.time() - t0, cmd
        # both ended without verdict (memory limit / crash): hand back the first output for diagnosis
        shutil.copy(outp + '.minisat', outp)
        return 1, time.time() - t0, cmd
    shutil.copy(outp + '.' + winner[0], outp)
    return winner[2], time.time() - t0, winner[1]


class Unit:
    def __init__(self, name):
        self.name = name
        self.dir = os.path.join(VERIF, 'units', name)
        self.spec = json.load(open(os.path.join(self.dir, 'unit.json')))
        self.work = os.path.join(WORK, name)
        self.report = None
        self.ctext = None

    def lock(self):
        """concurrent runs of the same unit (other sessions, mutant runs) share .work/<unit>: serialise them"""
        import fcntl
        os.makedirs(self.work, exist_ok=True)
        if os.environ.get('VERIF_NOLOCK'):      # a child of ./check (tools/diffrun.py): the parent already holds the unit lock
            self._lockf = True
            return
        self._lockf = open(os.path.join(self.work, '.lock'), 'w')
        fcntl.flock(self._lockf, fcntl.LOCK_EX)

    def extract(self):
        os.makedirs(self.work, exist_ok=True)
        if not getattr(self, '_lockf', None):
            self.lock()
        methods = load_methods(self.dir)
        plug = os.path.join(self.dir, 'plugin.py')
        if os.path.exists(plug):
            import importlib.util
            sp = importlib.util.spec_from_file_location(f'plugin_{self.name}', plug)
            mod = importlib.util.module_from_spec(sp)
            sp.loader.exec_module(mod)
            self.spec['_plugin'] = mod
        try:
            ctext, rep = x2c.extract_unit(REPO, self.spec, methods)
        except x2c.ExtractionBreak as e:
            raise Undecided(f"extraction break in unit {self.name}: {e}")
        except x2c.LexError as e:
            raise Undecided(f"extraction break in unit {self.name}: {e}")
        self.ctext = '#include "iora_base.h"\n' + ''.join(f'#include "{h}"\n' for h in self.spec.get('shim_headers', [])) + ctext
        if isinstance(rep, dict):
            from . import ppcond
            used = {x.get('file') for x in rep.get('sources', [])} | {self.spec.get('file')}
            rep['conditional_compilation'] = {"evaluated_by": "g++ -std=c++17 -E on a marked copy (vt/ppcond.py)",
                                              "arms_total_dropped": {k: list(v) for k, v in ppcond.evaluated.items() if k in used},
                                              "not_evaluated": {k: v for k, v in ppcond.unevaluated.items() if k in used}}
        self.report = rep
        with open(os.path.join(self.work, 'unit.c'), 'w') as f:
            f.write(self.ctext)
        with open(os.path.join(self.work, 'extraction_report.json'), 'w') as f:
            json.dump(rep, f, indent=1)
        # loop-contract mapping: every loop macro the extractor emitted must be defined by pre.h (a compile error
        # otherwise) and every macro pre.h defines must have been emitted (else a loop disappeared)
        pre = open(os.path.join(self.dir, 'pre.h')).read()
        defined = set(re.findall(r'#define\s+(IORA_LOOP_\w+)', pre))
        emitted = set(re.findall(r'\b(IORA_LOOP_\w+)\b', ctext))
        if defined != emitted:
            raise Undecided(f"unit {self.name}: loop contracts cannot be mapped: loops in source {sorted(emitted)}, contracts for {sorted(defined)}")
        return rep

    def incs(self):
        return ['-I', os.path.join(VERIF, 'shims'), '-I', self.dir]

    def build_proof(self, proof, extra_defs=()):
        """returns path of the instrumented goto binary"""
        name = proof['name']
        gb = os.path.join(self.work, f'{name}.gb')
        gb2 = os.path.join(self.work, f'{name}.i.gb')
        defs = ['-DIORA_CBMC'] + [f'-D{d}' for d in proof.get('defines', [])] + list(extra_defs)
        cmd = ['goto-cc', '--function', proof['entry']] + defs + self.incs() + [os.path.join(self.work, 'unit.c'), '-o', gb]
        rc, out, err, dt = run(cmd, 120)
        if rc != 0:
            raise Undecided(f"unit {self.name}/{name}: extracted text does not compile as C (extraction break or stale contract):\n{(out + err)[-3000:]}")
        if proof.get('mode', 'dfcc') == 'dfcc':
            cmd = ['goto-instrument', '--dfcc', proof['entry']]
            enf = proof.get('enforce')
            if enf:
                cmd += ['--enforce-contract-rec' if proof.get('recursive') else '--enforce-contract', enf]
            for r in proof.get('replace', []):
                cmd += ['--replace-call-with-contract', r]
            if proof.get('loop_contracts', True):
                cmd += ['--apply-loop-contracts']
            else:
                extra_defs = list(extra_defs)
            cmd += [gb, gb2]
            rc, out, err, dt = run(cmd, 300, mem_gb=8)
            if rc != 0:
                raise Undecided(f"unit {self.name}/{name}: goto-instrument failed:\n{(out + err)[-3000:]}")
            return gb2
        # plain harness (no DFCC): drop functions unreachable from the entry (their obligations and canaries are not part of this proof)
        cmd = ['goto-instrument', '--drop-unused-functions']
        # plain harnesses: statics would be ZERO-initialised, so a ghost witness global (GK, GSID, ...) would silently cover the value 0 only.
        # Make every static nondeterministic, as DFCC does for its harness; a harness that needs a definite start value assigns it.
        if not proof.get('zero_statics'):
            cmd.append('--nondet-static')
        if proof.get('loop_contracts'):
            cmd += ['--apply-loop-contracts']      # callee still has loops: loop contracts without frame checking
        rc, out, err, dt = run(cmd + [gb, gb2], 300, mem_gb=8)
        if rc != 0:
            raise Undecided(f"unit {self.name}/{name}: goto-instrument failed:\n{(out + err)[-3000:]}")
        return gb2

    def cbmc_cmd(self, proof, gb, extra=()):
        cmd = ['cbmc'] + [c for c in (BASE_CHECKS if proof.get('base_checks', True) else []) if c not in proof.get('no_checks', [])] + proof.get('checks', []) + ['--slice-formula', '--object-bits', str(proof.get('object_bits', 10))]
        if proof.get('mode', 'dfcc') != 'dfcc':
            cmd += ['--function', proof['entry']] if False else []
            if proof.get('unwind'):
                cmd += ['--unwind', str(proof['unwind']), '--unwinding-assertions']
        cmd += list(extra) + ['--json-ui', gb]
        return cmd

    def run_proof(self, proof, extra_defs=(), extra_flags=(), tag=''):
        """tool-side failures (external solver hiccup, crash, memory) are retried: once as specified, then with the built-in back ends.
        A timeout is not retried. None of this can turn a failed obligation into a pass: only runs that END WITH A VERDICT are parsed."""
        gb = self.build_proof(proof, extra_defs)
        last = None
        for attempt in range(3):
            p2 = dict(proof)
            if attempt == 2:
                p2['checks'] = _strip_external(proof.get('checks', []))
                p2['solver'] = 'portfolio'
            try:
                return self._run_proof_once(p2, gb, extra_flags, tag)
            except Undecided as e:
                last = e
                if 'timeout' in str(e):
                    break
        raise last

    def _run_proof_once(self, proof, gb, extra_flags=(), tag=''):
        cmd = self.cbmc_cmd(proof, gb, extra_flags)
        outp = os.path.join(self.work, f"{proof['name']}{tag}.cbmc.json")
        # default: MiniSat and CaDiCaL race (MiniSat alone proved erratic: the same proof 9 s with CaDiCaL, > 900 s with MiniSat, and vice versa)
        explicit = any(c in ('--sat-solver', '--external-sat-solver') for c in proof.get('checks', []))
        solver = proof.get('solver', 'minisat' if explicit else 'portfolio')
        if solver == 'portfolio':
            rc, dt, cmd = run_portfolio(cmd, proof.get('timeout', 600), proof.get('mem_gb', 8), outp)
            err = ''
        else:
            if solver != 'minisat':
                cmd = cmd[:1] + ['--sat-solver', solver] + cmd[1:]
            rc, out, err, dt = run(cmd, proof.get('timeout', 600), mem_gb=proof.get('mem_gb', 8), stdout_path=outp)
        if rc == -9:
            raise Undecided(f"unit {self.name}/{proof['name']}: solver timeout after {proof.get('timeout', 600)}s")
        try:
            res = json.load(open(outp))
        except Exception as e:
            raise Undecided(f"unit {self.name}/{proof['name']}: no parsable cbmc output (rc={rc}, likely memory limit): {err[-500:]}")
        return parse_cbmc(res, rc, self.name, proof['name'], dt, ' '.join(cmd))


def _strip_external(checks):
    out = []
    skip = False
    for c in checks:
        if skip:
            skip = False
            continue
        if c in ('--external-sat-solver', '--sat-solver'):
            skip = True
            continue
        out.append(c)
    return out


def normalise_desc(d):
    d = re.sub(r'\s+', ' ', d).strip()
    # DFCC / symex temporaries carry running numbers
    d = re.sub(r'\$\d+', '$N', d)
    d = re.sub(r'tmp_\w+', 'tmp', d)
    return d


_SRC = {}


def _clause_text(path, line):
    try:
        if path not in _SRC:
            _SRC[path] = open(path).read().splitlines()
        L = _SRC[path]
        i = int(line) - 1
        txt = L[i].strip()
        # join continuation lines of the clause (until parentheses balance)
        j = i
        while txt.count('(') > txt.count(')') and j + 1 < len(L) and j - i < 6:
            j += 1
            txt += ' ' + L[j].strip()
        txt = re.sub(r'\\$', '', txt)
        return re.sub(r'\s+', ' ', txt)[:160]
    except Exception:
        return f"line {line}"


def parse_cbmc(res, rc, unit, proof, dt, cmdline):
    props = []
    messages = []
    status = None
    for item in res:
        if 'result' in item:
            for p in item['result']:
                props.append(p)
        if 'messageText' in item:
            messages.append(item['messageText'])
        if 'cProverStatus' in item:
            status = item['cProverStatus']
    if status is None:
        tail = ' | '.join(messages[-5:])
        raise Undecided(f"unit {unit}/{proof}: cbmc gave no verdict (rc={rc}): {tail}")
    if status not in ('success', 'failure'):
        # e.g. "SAT checker ran out of memory" -> VERIFICATION ERROR: obligations carry status ERROR; never a violation
        tail = ' | '.join(messages[-3:])
        raise Undecided(f"unit {unit}/{proof}: cbmc ended with status '{status}' (rc={rc}): {tail}")
    if any('ignoring' in m and 'forall' in m for m in messages):
        raise Undecided(f"unit {unit}/{proof}: back end ignored a quantifier; result not trusted")
    out = []
    seen = {}
    for p in props:
        name = p.get('property', '')
        desc = normalise_desc(p.get('description', ''))
        sl = p.get('sourceLocation', {})
        fn = sl.get('function', '')
        m = re.match(r'(.*)\.([A-Za-z_\-]+)\.\d+$', name)
        cls = m.group(2) if m else 'assertion'
        if cls in ('postcondition', 'precondition') and sl.get('file', '').startswith(VERIF):
            # every ensures/requires clause has the same CBMC description: identify the clause by its own text
            desc = desc + ' :: ' + _clause_text(sl.get('file'), sl.get('line'))
        key = f"{unit}|{fn}|{cls}|{desc}"
        seen[key] = seen.get(key, 0) + 1
        out.append({"key": key, "nth": seen[key], "id": name, "class": cls, "function": fn, "description": desc,
                    "file": sl.get('file', ''), "line": sl.get('line', ''), "status": p.get('status'),
                    "trace": p.get('trace')})
    return {"unit": unit, "proof": proof, "status": status, "props": out, "seconds": dt, "cmd": cmdline,
            "messages": [m for m in messages if 'warning' in m.lower()][:10]}
