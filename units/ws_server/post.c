/* ===== environment stubs ===== */
void WsServer_sendClose_contract(WsServer *self, SessionId sid, uint16_t code, const char *reason)
__CPROVER_requires(1)
__CPROVER_assigns(G_close_calls, G_close_code, self->gs.closeSent)
__CPROVER_ensures(G_close_calls == __CPROVER_old(G_close_calls) + 1 && G_close_code == code)
__CPROVER_ensures(self->has_gs ==> self->gs.closeSent);

bool WsTempFrame_isValidUtf8_contract(const WsTempFrame *t)
__CPROVER_requires(1)
__CPROVER_assigns(G_utf8_calls, G_utf8_n, G_utf8_gk, G_utf8_res)
__CPROVER_ensures(G_utf8_calls == __CPROVER_old(G_utf8_calls) + 1 && G_utf8_n == t->payload.n && G_utf8_gk == t->payload.gk && G_utf8_res == __CPROVER_return_value);

/* ===== handleDataFrame: reassembly (property C18: fragments joined in order, control frames do not disturb reassembly [they never reach this
 * function: precondition opcode in {0,1,2}], text checked as UTF-8, buffering bounded by the configured maximum) ===== */
#define F_START (frame->opcode == WsOpcode_TEXT || frame->opcode == WsOpcode_BINARY)
#define OLD_N __CPROVER_old(self->gs.fragmentBuffer.n)
#define OLD_GK __CPROVER_old(self->gs.fragmentBuffer.gk)
#define OLD_OP __CPROVER_old(self->gs.fragmentOpcode)
/* the reassembled bytes after this frame has been taken in: length and witness byte */
#define JOIN_N (F_START ? frame->payload.n : OLD_N + frame->payload.n)
#define JOIN_GK (F_START ? frame->payload.p[GK] : (GK < OLD_N ? OLD_GK : frame->payload.p[GK - OLD_N]))
#define JOIN_OP (F_START ? frame->opcode : OLD_OP)
#define TOO_LARGE (JOIN_N > self->_maxFrameSize)
#define COMPLETE_MSG (!TOO_LARGE && frame->fin)
void WsServer_handleDataFrame_contract(WsServer *self, SessionId sid, const WsFrameIn *frame)
__CPROVER_requires(IORA_TRUE && __CPROVER_is_fresh(self, sizeof(*self)) && __CPROVER_is_fresh(frame, sizeof(*frame)))
__CPROVER_requires(frame->payload.n <= ((size_t)1 << 50) && __CPROVER_is_fresh(frame->payload.p, frame->payload.n))
__CPROVER_requires(frame->opcode == WsOpcode_TEXT || frame->opcode == WsOpcode_BINARY || frame->opcode == WsOpcode_CONTINUATION)
__CPROVER_requires(self->gs.fragmentBuffer.n <= ((size_t)1 << 50) && self->_maxFrameSize <= ((size_t)1 << 50))
__CPROVER_requires(G_text_calls == 0 && G_bin_calls == 0 && G_err_calls == 0 && G_close_calls == 0 && G_utf8_calls == 0)
__CPROVER_assigns(self->gs.fragmentBuffer, self->gs.fragmentOpcode, self->gs.closeSent, G_text_calls, G_text_n, G_text_gk, G_bin_calls, G_bin_n, G_bin_gk,
                  G_err_calls, G_close_calls, G_close_code, G_utf8_calls, G_utf8_n, G_utf8_gk, G_utf8_res)
/* R0 unknown session: nothing happens */
__CPROVER_ensures(!self->has_gs ==> (G_text_calls + G_bin_calls + G_close_calls + G_err_calls == 0))
/* R1 an unfinished message stays buffered: the fragment buffer is exactly the bytes so far, in order */
__CPROVER_ensures((self->has_gs && !TOO_LARGE && !frame->fin) ==> (self->gs.fragmentBuffer.n == JOIN_N && (GK < JOIN_N ==> self->gs.fragmentBuffer.gk == JOIN_GK)
                   && self->gs.fragmentOpcode == JOIN_OP && G_text_calls + G_bin_calls == 0))
/* R2 a finished TEXT message is checked as UTF-8 on exactly the joined bytes, delivered once iff valid, otherwise closed with 1007 */
__CPROVER_ensures((self->has_gs && COMPLETE_MSG && JOIN_OP == WsOpcode_TEXT) ==> (G_utf8_calls == 1 && G_utf8_n == JOIN_N && (GK < JOIN_N ==> G_utf8_gk == JOIN_GK)))
__CPROVER_ensures((self->has_gs && COMPLETE_MSG && JOIN_OP == WsOpcode_TEXT && G_utf8_res && self->_onTextMessage) ==>
                  (G_text_calls == 1 && G_bin_calls == 0 && G_text_n == JOIN_N && (GK < JOIN_N ==> G_text_gk == JOIN_GK)))
__CPROVER_ensures((self->has_gs && COMPLETE_MSG && JOIN_OP == WsOpcode_TEXT && !G_utf8_res) ==> (G_text_calls == 0 && G_bin_calls == 0 && G_close_calls == 1 && G_close_code == 1007))
/* R3 a finished BINARY message is delivered once with exactly the joined bytes */
__CPROVER_ensures((self->has_gs && COMPLETE_MSG && JOIN_OP == WsOpcode_BINARY && self->_onBinaryMessage) ==>
                  (G_bin_calls == 1 && G_text_calls == 0 && G_bin_n == JOIN_N && (GK < JOIN_N ==> G_bin_gk == JOIN_GK)))
/* R4 after delivery the reassembly state is reset */
__CPROVER_ensures((self->has_gs && COMPLETE_MSG) ==> (self->gs.fragmentBuffer.n == 0 && self->gs.fragmentOpcode == WsOpcode_CONTINUATION))
/* R5 too large: refused with 1009, nothing delivered */
__CPROVER_ensures((self->has_gs && TOO_LARGE) ==> (G_close_calls == 1 && G_close_code == 1009 && G_text_calls + G_bin_calls == 0))
/* R6 "cannot buffer without bound": whatever arrives, the reassembly buffer never stays above the configured maximum */
__CPROVER_ensures(self->has_gs ==> self->gs.fragmentBuffer.n <= self->_maxFrameSize)
/* R7 at most one delivery per frame */
__CPROVER_ensures(G_text_calls + G_bin_calls <= 1)
;
void h_sdf(void) { WsServer *s; SessionId sid; const WsFrameIn *f; WsServer_handleDataFrame(s, sid, f); IORA_CANARY("h_sdf: returns"); }

/* ===== onUpgradedData: receive loop (property C18: same frames under any segmentation; cannot buffer without bound) ===== */
void WsServer_onUpgradedData_contract(WsServer *self, SessionId sid, const uint8_t *data, size_t len)
__CPROVER_requires(IORA_TRUE && __CPROVER_is_fresh(self, sizeof(*self)))
__CPROVER_requires(len <= ((size_t)1 << 40) && G_arrived <= ((size_t)1 << 61) && self->_maxFrameSize <= ((size_t)1 << 50))
/* monitor invariant of the session buffer: it holds exactly the received-but-unparsed bytes */
__CPROVER_requires(self->has_gs ==> (self->gs.buffer.lo == G_next && self->gs.buffer.hi == G_arrived && G_next <= G_arrived))
__CPROVER_requires(G_close_calls == 0 && !G_hf_erased)
__CPROVER_assigns(self->has_gs, self->gs, G_next, G_arrived, G_close_calls, G_close_code, G_hf_erased)
/* SEG4 the invariant is re-established: no byte lost, duplicated or reordered between socket and frame parser, whatever the cut */
__CPROVER_ensures(self->has_gs ==> (self->gs.buffer.lo == G_next && self->gs.buffer.hi == G_arrived && G_next <= G_arrived))
/* SEG5 an unknown session consumes nothing */
__CPROVER_ensures(!__CPROVER_old(self->has_gs) ==> (G_next == __CPROVER_old(G_next) && G_arrived == __CPROVER_old(G_arrived)))
/* BND "cannot buffer without bound": an open session never keeps more unparsed bytes from this call's input than one maximal frame
 * (configured maximum + 14 header bytes); a header declaring more (or a control frame that can never complete) must end the session */
__CPROVER_ensures(self->has_gs ==> (__CPROVER_old(G_arrived) + len) - G_next <= self->_maxFrameSize + 14 || (__CPROVER_old(G_arrived) + len) < G_next)
/* ACC the bound never rejects what can still complete into an acceptable frame: a remainder of at most one maximal frame (payload limit + the
 * 14-byte maximum header: 2 + 8-byte length + 4-byte mask key) keeps the session open and sends no close - whatever the segmentation */
__CPROVER_ensures((__CPROVER_old(self->has_gs) && !G_hf_erased && (__CPROVER_old(G_arrived) + len) >= G_next
                   && (__CPROVER_old(G_arrived) + len) - G_next <= self->_maxFrameSize + 14) ==> (self->has_gs && G_close_calls == 0))
;
void h_sud(void) { WsServer *s; SessionId sid; const uint8_t *d; size_t n; WsServer_onUpgradedData(s, sid, d, n); IORA_CANARY("h_sud: returns"); }

/* ===== client handleDataFrame: same reassembly clauses; the client has no configured maximum (no R5/R6) ===== */
void WsClient_sendClose_contract(WsClient *self, uint16_t code, const char *reason)
__CPROVER_requires(1)
__CPROVER_assigns(G_close_calls, G_close_code)
__CPROVER_ensures(G_close_calls == __CPROVER_old(G_close_calls) + 1 && G_close_code == code);
#define C_OLD_N __CPROVER_old(self->_fragmentBuffer.n)
#define C_OLD_GK __CPROVER_old(self->_fragmentBuffer.gk)
#define C_OLD_OP __CPROVER_old(self->_fragmentOpcode)
#define C_JOIN_N (F_START ? frame->payload.n : C_OLD_N + frame->payload.n)
#define C_JOIN_GK (F_START ? frame->payload.p[GK] : (GK < C_OLD_N ? C_OLD_GK : frame->payload.p[GK - C_OLD_N]))
#define C_JOIN_OP (F_START ? frame->opcode : C_OLD_OP)
void WsClient_handleDataFrame_contract(WsClient *self, const WsFrameIn *frame)
__CPROVER_requires(IORA_TRUE && __CPROVER_is_fresh(self, sizeof(*self)) && __CPROVER_is_fresh(frame, sizeof(*frame)))
__CPROVER_requires(frame->payload.n <= ((size_t)1 << 50) && __CPROVER_is_fresh(frame->payload.p, frame->payload.n))
__CPROVER_requires(frame->opcode == WsOpcode_TEXT || frame->opcode == WsOpcode_BINARY || frame->opcode == WsOpcode_CONTINUATION)
__CPROVER_requires(self->_fragmentBuffer.n <= ((size_t)1 << 50))
__CPROVER_requires(G_text_calls == 0 && G_bin_calls == 0 && G_close_calls == 0 && G_utf8_calls == 0)
__CPROVER_assigns(self->_fragmentBuffer, self->_fragmentOpcode, G_text_calls, G_text_n, G_text_gk, G_bin_calls, G_bin_n, G_bin_gk,
                  G_close_calls, G_close_code, G_utf8_calls, G_utf8_n, G_utf8_gk, G_utf8_res)
/* R1 */ __CPROVER_ensures(!frame->fin ==> (self->_fragmentBuffer.n == C_JOIN_N && (GK < C_JOIN_N ==> self->_fragmentBuffer.gk == C_JOIN_GK)
                   && self->_fragmentOpcode == C_JOIN_OP && G_text_calls + G_bin_calls == 0))
/* R2 text is checked as UTF-8 on exactly the joined bytes; delivered once iff valid, else closed with 1007 (server and client agree) */
__CPROVER_ensures((frame->fin && C_JOIN_OP == WsOpcode_TEXT) ==> (G_utf8_calls == 1 && G_utf8_n == C_JOIN_N && (GK < C_JOIN_N ==> G_utf8_gk == C_JOIN_GK)))
__CPROVER_ensures((frame->fin && C_JOIN_OP == WsOpcode_TEXT && G_utf8_res && self->_onTextMessage) ==>
                  (G_text_calls == 1 && G_bin_calls == 0 && G_text_n == C_JOIN_N && (GK < C_JOIN_N ==> G_text_gk == C_JOIN_GK)))
__CPROVER_ensures((frame->fin && C_JOIN_OP == WsOpcode_TEXT && !G_utf8_res) ==> (G_text_calls == 0 && G_bin_calls == 0 && G_close_calls == 1 && G_close_code == 1007))
/* R3 */ __CPROVER_ensures((frame->fin && C_JOIN_OP == WsOpcode_BINARY && self->_onBinaryMessage) ==>
                  (G_bin_calls == 1 && G_text_calls == 0 && G_bin_n == C_JOIN_N && (GK < C_JOIN_N ==> G_bin_gk == C_JOIN_GK)))
/* R4 */ __CPROVER_ensures(frame->fin ==> (self->_fragmentBuffer.n == 0 && self->_fragmentOpcode == WsOpcode_CONTINUATION))
/* R7 */ __CPROVER_ensures(G_text_calls + G_bin_calls <= 1)
;
void h_cdf(void) { WsClient *c; const WsFrameIn *f; WsClient_handleDataFrame(c, f); IORA_CANARY("h_cdf: returns"); }

/* ===== send paths: close-sent recheck atomic with the send (plain, loop-free, full domain) ===== */
void h_send(void)
{
  WsServer srv; srv.has_gs = nondet_bool(); srv.gs.closeSent = nondet_bool(); srv._wsMutex.held = 0;
  SessionId sid = nondet_u64(); int which = nondet_int(); __CPROVER_assume(which >= 0 && which <= 2);
  G_data_sent = 0; G_close_sent = 0;
  bool was_closing = srv.has_gs && srv.gs.closeSent;
  if (which == 0) WsServer_sendText(&srv, sid, "x");
  else if (which == 1) WsServer_sendBinary(&srv, sid, 0);
  else WsServer_sendClose_real(&srv, sid, 1000, "");
  __CPROVER_assert(!srv._wsMutex.held, "LK5: no lock held at return");
  __CPROVER_assert(!(which <= 1 && (was_closing || !srv.has_gs)) || G_data_sent == 0, "CS4: sendText/sendBinary send nothing for an unknown or closing session");
  __CPROVER_assert(!(which <= 1 && srv.has_gs && !was_closing) || G_data_sent == 1, "CS5: an open session's data frame is sent exactly once");
  __CPROVER_assert(which <= 1 || (G_close_sent == 1 && (!srv.has_gs || srv.gs.closeSent)), "CS6: sendClose marks the session and sends one close frame");
  IORA_CANARY("h_send: returns");
  if (G_data_sent) { IORA_CANARY("h_send: data sent"); }
  if (G_close_sent) { IORA_CANARY("h_send: close sent"); }
}

/* ===== handleFrame: control frames (property C18: control frames between fragments do not disturb reassembly; pings answered with matching pongs;
 * the close echo is sent exactly once and marks the session before it is sent) - plain, loop-free, full domain ===== */
void h_hf(void)
{
  WsServer srv; WsFrameIn fr; SessionId sid = nondet_u64();
  srv.has_gs = nondet_bool(); srv.gs.closeSent = nondet_bool(); srv._wsMutex.held = 0; srv._onClose = nondet_bool(); srv._onError = nondet_bool();
  srv.gs.fragmentBuffer.n = nondet_size_t(); srv.gs.fragmentBuffer.gk = nondet_u8(); srv.gs.fragmentOpcode = nondet_u8();
  size_t n = nondet_size_t(); __CPROVER_assume(n <= ((size_t)1 << 40)); uint8_t *p = malloc(n); __CPROVER_assume(p != 0);
  fr.payload.p = p; fr.payload.n = n; fr.opcode = nondet_u8(); fr.fin = nondet_bool(); fr.masked = nondet_bool();
  GK = nondet_size_t();
  G_data_sent = 0; G_close_sent = 0; G_pong_sent = 0; G_hdf_calls = 0; G_closecb_calls = 0; G_closeSession_calls = 0; G_sendClose_calls = 0; G_err_calls = 0;
  bool had = srv.has_gs, was_closing = srv.has_gs && srv.gs.closeSent; size_t fb_n = srv.gs.fragmentBuffer.n; uint8_t fb_gk = srv.gs.fragmentBuffer.gk; WsOpcode fb_op = srv.gs.fragmentOpcode;
  uint8_t pgk = GK < n ? p[GK] : 0; uint16_t code = n < 2 ? 1005 : (uint16_t)(((uint16_t)p[0] << 8) | p[1]);
  WsServer_handleFrame_real(&srv, sid, &fr);
  __CPROVER_assert(!srv._wsMutex.held, "LK5: no lock held at return");
  bool is_data = fr.opcode == WsOpcode_TEXT || fr.opcode == WsOpcode_BINARY || fr.opcode == WsOpcode_CONTINUATION;
  __CPROVER_assert(G_hdf_calls == (is_data ? 1 : 0), "HF1: data frames (and only data frames) go to handleDataFrame, exactly once");
  __CPROVER_assert(is_data || fr.opcode == WsOpcode_CLOSE || !srv.has_gs || (srv.gs.fragmentBuffer.n == fb_n && srv.gs.fragmentBuffer.gk == fb_gk && srv.gs.fragmentOpcode == fb_op),
                   "HF2: a control frame between fragments does not disturb the reassembly state");
  __CPROVER_assert(fr.opcode != WsOpcode_PING || (G_pong_sent == 1 && G_pong_n == n && (GK >= n || G_pong_gk == pgk) && G_data_sent == 0 && G_close_sent == 0),
                   "HF3: a ping is answered with exactly one pong carrying exactly the ping's payload");
  __CPROVER_assert(fr.opcode == WsOpcode_PING || G_pong_sent == 0, "HF4: pongs are sent only in answer to pings");
  __CPROVER_assert(fr.opcode != WsOpcode_PONG || (G_data_sent + G_close_sent + G_pong_sent + G_sendClose_calls + G_closecb_calls + G_closeSession_calls == 0), "HF5: a pong is a no-op");
  if (fr.opcode == WsOpcode_CLOSE) {
    __CPROVER_assert(G_close_sent == ((had && !was_closing) ? 1 : 0), "HF6: the close is echoed exactly once per session: iff the session exists and no close frame has been sent yet");
    __CPROVER_assert(G_close_sent == 0 || G_close_frame_code == code, "HF7: the echo carries the received status code (1005 if none)");
    __CPROVER_assert(G_closecb_calls == (srv._onClose ? 1 : 0) && (!srv._onClose || G_closecb_code == code), "HF8: the close callback runs once iff registered, with the received code");
    __CPROVER_assert(!srv.has_gs && G_closeSession_calls == 1, "HF9: the session is forgotten and the connection closed exactly once");
  } else {
    __CPROVER_assert(G_close_sent == 0 && G_closecb_calls == 0 && G_closeSession_calls == 0, "HF10: only a CLOSE frame echoes a close, runs the close callback or closes the connection");
  }
  bool known = is_data || fr.opcode == WsOpcode_PING || fr.opcode == WsOpcode_PONG || fr.opcode == WsOpcode_CLOSE;
  __CPROVER_assert(known || (G_sendClose_calls == 1 && G_sendClose_code == 1002 && G_err_calls == (srv._onError ? 1 : 0)), "HF11: a reserved opcode fails the connection with 1002");
  __CPROVER_assert(!known || G_sendClose_calls == 0, "HF12: defined opcodes never trigger a protocol-error close here");
  IORA_CANARY("h_hf: returns");
  if (fr.opcode == WsOpcode_PING) { IORA_CANARY("h_hf: ping"); }
  if (fr.opcode == WsOpcode_CLOSE && G_close_sent) { IORA_CANARY("h_hf: close echoed"); }
  if (!known) { IORA_CANARY("h_hf: reserved opcode"); }
}
