/* type environment + ghost state for unit ws_server (WebSocketServer reassembly and receive loop) */
typedef uint64_t SessionId;
typedef struct { bool fin; WsOpcode opcode; bool masked; uint8_t maskKey[4]; iora_bv payload; } WsFrameIn;   /* const WebSocketFrame& (input) */
typedef struct { iora_ovec payload; } WsTempFrame;                                                           /* local WebSocketFrame used for the UTF-8 check */
#define WsTempFrame_DEFAULT ((WsTempFrame){ {0, 0} })
static inline void iora_ovec_assign(iora_ovec *v, const uint8_t *p, size_t n) { if (GK < n) v->gk = p[GK]; v->n = n; }

/* a received-byte vector is an interval [lo,hi) of the ghost input stream of the connection */
typedef struct { size_t lo, hi; } iora_slice;
typedef struct { size_t lo, n; } iora_sview;
#define iora_slice_DEFAULT ((iora_slice){0, 0})
size_t G_arrived;      /* stream positions received from the socket so far */
size_t G_next;         /* stream position where the next frame starts (everything before it has been parsed into frames) */
static inline size_t iora_slice_size(const iora_slice *s) { return s->hi - s->lo; }
static inline bool iora_slice_empty(const iora_slice *s) { return s->hi == s->lo; }
static inline void iora_slice_clear(iora_slice *s) { s->lo = s->hi; }
/* buffer.insert(buffer.end(), data, data+len): bytes from the socket are appended in arrival order */
static inline void iora_slice_arrive(iora_slice *s, const uint8_t *data, size_t len) { (void)data;
  IORA_ASSERT(s->hi == G_arrived, "SEG1: received bytes are appended at the end of the session buffer in arrival order");
  s->hi += len; G_arrived += len; }
static inline iora_sview iora_slice_view(const iora_slice *s, size_t off, size_t n) {
  IORA_ASSERT(off <= s->hi - s->lo && n <= s->hi - s->lo - off, "BufferView lies inside the vector");
  return (iora_sview){ s->lo + off, n }; }
/* vector(begin()+off, end()) */
static inline iora_slice iora_slice_tail(const iora_slice *s, size_t off) {
  IORA_ASSERT(off <= s->hi - s->lo, "iterator range inside the vector");
  return (iora_slice){ s->lo + off, s->hi }; }
/* a.insert(a.end(), b.begin(), b.end()): the result is a stream interval only if b starts where a ends */
static inline void iora_slice_append_slice(iora_slice *a, const iora_slice *b) {
  IORA_ASSERT(b->lo == a->hi || b->lo == b->hi, "SEG2: the unparsed remainder is put back BEFORE bytes that arrived meanwhile (stream order kept)");
  if (b->lo != b->hi) a->hi = b->hi; }

/* a.insert(a.begin(), b.begin(), b.end()): b must END where a starts */
static inline void iora_slice_prepend_slice(iora_slice *a, const iora_slice *b) {
  IORA_ASSERT(b->hi == a->lo || b->lo == b->hi, "SEG2: bytes are only ever joined in stream order");
  if (b->lo != b->hi) a->lo = b->lo; }
typedef struct { iora_slice buffer; iora_ovec fragmentBuffer; WsOpcode fragmentOpcode; bool closeSent; } WsSessionState;
/* _sessions restricted to the session id being processed (witness key): the code reaches sessions only through find(sid) */
typedef struct { size_t _maxFrameSize; bool _onError, _onTextMessage, _onBinaryMessage, _onClose; bool has_gs; WsSessionState gs; iora_mutex _wsMutex; } WsServer;
static inline WsSessionState *WsServer_sessions_find(WsServer *self, SessionId sid) { (void)sid; return self->has_gs ? &self->gs : NULL; }
#define IORA_LOCK_GUARD(m) do { } while (0)

/* recording stubs for callbacks / outgoing frames (R21) */
unsigned G_text_calls, G_bin_calls, G_err_calls, G_close_calls, G_utf8_calls; uint16_t G_close_code;
size_t G_text_n, G_bin_n, G_utf8_n; uint8_t G_text_gk, G_bin_gk, G_utf8_gk; bool G_utf8_res; bool G_delivered_after_bad_utf8;
static inline void WsServer_cb_text(WsServer *self, SessionId sid, iora_ovec text) { (void)self; (void)sid; G_text_calls++; G_text_n = text.n; G_text_gk = text.gk; }
static inline void WsServer_cb_binary(WsServer *self, SessionId sid, iora_ovec b) { (void)self; (void)sid; G_bin_calls++; G_bin_n = b.n; G_bin_gk = b.gk; }
static inline void WsServer_cb_error(WsServer *self, SessionId sid, const char *m) { (void)self; (void)sid; (void)m; G_err_calls++; }
void WsServer_sendClose(WsServer *self, SessionId sid, uint16_t code, const char *reason);
/* isValidUtf8() called on the incoming frame itself (not on the reassembled message): recorded with the frame's own bytes, so that the
 * clause "UTF-8 is checked on exactly the joined bytes" decides it */
static inline bool WsFrameIn_isValidUtf8(const WsFrameIn *f) { bool r = nondet_bool(); if (G_utf8_calls < 1000) G_utf8_calls++;
  G_utf8_n = f->payload.n; if (GK < f->payload.n) G_utf8_gk = f->payload.p[GK]; G_utf8_res = r; return r; }
bool WsTempFrame_isValidUtf8(const WsTempFrame *t);
typedef struct { bool has; } WsParsed;
/* WebSocketFrame::parse as proved in unit ws_parse: E1 consumed <= size, E2 no frame => consumed == 0, E3 a returned frame consumes >= 2 bytes.
 * Its precondition here is the segmentation clause SEG3: every parse starts exactly where the previous frame ended. (environment-style inline stub) */
static inline WsParsed WsFrame_parse_stub(iora_sview view, size_t *consumed) {
  IORA_ASSERT(view.lo == G_next, "SEG3: each frame is parsed starting exactly where the previous frame ended");
  WsParsed r; r.has = view.n >= 2 && nondet_bool();
  if (r.has) { size_t c = nondet_size_t(); IORA_ASSUME(c >= 2 && c <= view.n); *consumed = c; G_next += c; } else { *consumed = 0; }
  return r; }
/* handleFrame runs callbacks outside the lock and may erase the session (inbound CLOSE) or mark closeSent; meanwhile more bytes may arrive and be
 * appended to the session buffer by a concurrent onUpgradedData call (R11: anything the monitor allows) */
bool G_hf_erased;   /* ghost: some handleFrame call of this onUpgradedData erased the session (inbound CLOSE) */
static inline void WsServer_handleFrame(WsServer *self, SessionId sid, const WsParsed *frame) { (void)sid; (void)frame;
  if (nondet_bool()) { self->has_gs = false; G_hf_erased = true; return; }
  if (self->has_gs) { size_t a = nondet_size_t(); IORA_ASSUME(a <= ((size_t)1 << 40) && G_arrived <= ((size_t)1 << 62) - a);
    self->gs.buffer.hi += a; G_arrived += a; self->gs.closeSent = nondet_bool(); } }

static inline void WsServer_sessions_erase(WsServer *self, SessionId sid) { (void)sid; self->has_gs = false; }
static inline void WsServer_closeSession(WsServer *self, SessionId sid) { (void)self; (void)sid; }

/* ---- outgoing frames (sendText/sendBinary/sendClose): "after an endpoint has sent a close frame it sends no further data frame" ---- */
enum { WS_OUT_DATA = 1, WS_OUT_CLOSE = 2, WS_OUT_PONG = 3 };
typedef struct { int kind; size_t n; uint8_t gk; uint16_t code; } WsOutFrame;
typedef struct { int kind; size_t n; uint8_t gk; uint16_t code; } WsWire;
static inline WsOutFrame WsOut_makeText(void) { return (WsOutFrame){ WS_OUT_DATA, 0, 0, 0 }; }
static inline WsOutFrame WsOut_makeBinary(void) { return (WsOutFrame){ WS_OUT_DATA, 0, 0, 0 }; }
static inline WsOutFrame WsOut_makeClose(void) { return (WsOutFrame){ WS_OUT_CLOSE, 0, 0, 0 }; }
static inline WsOutFrame WsOut_makeCloseWith(uint16_t code) { return (WsOutFrame){ WS_OUT_CLOSE, 0, 0, code }; }
/* makePong(payload): the pong carries exactly the ping's payload (length + witness byte) */
static inline WsOutFrame WsOut_makePong(const uint8_t *p, size_t n) { WsOutFrame f = { WS_OUT_PONG, n, 0, 0 }; if (GK < n) f.gk = p[GK]; return f; }
static inline WsWire WsOut_serialize(const WsOutFrame *f) { return (WsWire){ f->kind, f->n, f->gk, f->code }; }
static inline WsSessionState *WsServer_sessions_find_locked(WsServer *self, SessionId sid) { (void)sid;
  IORA_ASSERT(self->_wsMutex.held, "LK: _sessions is accessed with _wsMutex held");
  return self->has_gs ? &self->gs : NULL; }
unsigned G_data_sent, G_close_sent, G_pong_sent, G_hdf_calls, G_closecb_calls, G_closeSession_calls, G_sendClose_calls; size_t G_pong_n; uint8_t G_pong_gk; uint16_t G_close_frame_code, G_closecb_code, G_sendClose_code;
/* hands bytes to the transport. The ordering clauses live here, at the point where a frame becomes visible on the wire. */
static inline void WsServer_sendRaw(WsServer *self, SessionId sid, const WsWire *w) { (void)sid;
  if (w->kind == WS_OUT_DATA) {
    IORA_ASSERT(self->_wsMutex.held, "CS2: a data frame is handed to the transport with _wsMutex held (recheck and send are atomic w.r.t. sendClose)");
    IORA_ASSERT(self->has_gs && !self->gs.closeSent, "CS3: a data frame is sent only for a known session whose close frame has not been sent");
    if (G_data_sent < 1000) G_data_sent++;
  } else if (w->kind == WS_OUT_PONG) {
    if (G_pong_sent < 1000) G_pong_sent++; G_pong_n = w->n; G_pong_gk = w->gk;
  } else {
    IORA_ASSERT(!self->has_gs || self->gs.closeSent, "CS1: closeSent is set BEFORE the close frame is handed to the transport (no data frame can slip in behind it)");
    if (G_close_sent < 1000) G_close_sent++; G_close_frame_code = w->code;
  } }
/* handleFrame: callees as recording stubs */
typedef struct { int id; } WsReason;
static inline uint16_t WsFrameIn_closeCode(WsFrameIn f) { return f.payload.n < 2 ? 1005 : (uint16_t)(((uint16_t)f.payload.p[0] << 8) | f.payload.p[1]); }
static inline WsReason WsFrameIn_closeReason(WsFrameIn f) { (void)f; return (WsReason){0}; }
static inline void WsServer_hdf_stub(WsServer *self, SessionId sid, WsFrameIn f) { (void)self; (void)sid; (void)f; if (G_hdf_calls < 1000) G_hdf_calls++; }
static inline void WsServer_cb_close(WsServer *self, SessionId sid, uint16_t code) { (void)self; (void)sid; if (G_closecb_calls < 1000) G_closecb_calls++; G_closecb_code = code; }
static inline void WsServer_sendClose_rec(WsServer *self, SessionId sid, uint16_t code, const char *r) { (void)sid; (void)r; if (G_sendClose_calls < 1000) G_sendClose_calls++; G_sendClose_code = code; if (self->has_gs) self->gs.closeSent = true; }
static inline void WsServer_closeSession_rec(WsServer *self, SessionId sid) { (void)self; (void)sid; IORA_ASSERT(!self->_wsMutex.held, "closeSession is called with _wsMutex released (lock order)"); if (G_closeSession_calls < 1000) G_closeSession_calls++; }
static inline void WsServer_sessions_erase_locked(WsServer *self, SessionId sid) { (void)sid; IORA_ASSERT(self->_wsMutex.held, "LK: _sessions is mutated with _wsMutex held"); self->has_gs = false; }

/* ---- client ---- */
typedef struct { WsOpcode _fragmentOpcode; iora_ovec _fragmentBuffer; bool _onTextMessage, _onBinaryMessage; } WsClient;
static inline void WsClient_cb_text(WsClient *self, iora_ovec text) { (void)self; G_text_calls++; G_text_n = text.n; G_text_gk = text.gk; }
static inline void WsClient_cb_binary(WsClient *self, iora_ovec b) { (void)self; G_bin_calls++; G_bin_n = b.n; G_bin_gk = b.gk; }
void WsClient_sendClose(WsClient *self, uint16_t code, const char *reason);

size_t G_L_hi;   /* ghost: end of the local buffer of the running onUpgradedData call (bound in its contract) */
#define IORA_LOOP_WsServer_onUpgradedData_1 IORA_LC( \
  __CPROVER_assigns(offset, G_next, G_arrived, self->has_gs, self->gs, G_hf_erased) \
  __CPROVER_loop_invariant(offset <= localBuffer.hi - localBuffer.lo && G_next == localBuffer.lo + offset) \
  __CPROVER_loop_invariant(localBuffer.lo <= localBuffer.hi && localBuffer.hi <= G_arrived && G_arrived <= ((size_t)1 << 62)) \
  __CPROVER_loop_invariant(self->has_gs ==> (self->gs.buffer.lo == localBuffer.hi && self->gs.buffer.hi == G_arrived)) \
  __CPROVER_loop_invariant((__CPROVER_loop_entry(self->has_gs) && !G_hf_erased) ==> self->has_gs) \
  __CPROVER_decreases(localBuffer.hi - localBuffer.lo - offset))
