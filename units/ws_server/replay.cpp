// REPLAY adapter for unit ws_server: drives the REAL WebSocketServer / WebSocketClient receive paths (no network: the server is never started;
// private members reached with -fno-access-control) and evaluates the bounded-buffering and reassembly clauses natively.
// input file:  MODE w2|w4|w3|seg ; MAX <maxFrameSize> ; CHUNK <bytes per read> ; READS <n>
#include "iora/network/websocket_server.hpp"
#include "iora/network/websocket_client.hpp"
#include "replay_io.h"
using namespace iora::network;
int main(int argc, char **argv) {
  auto in = replay_io::load(argv[1]);
  std::string mode = in.count("MODE") ? in["MODE"] : "w2";
  size_t maxf = in.count("MAX") ? replay_io::u64(in["MAX"]) : 1024;
  size_t chunk = in.count("CHUNK") ? replay_io::u64(in["CHUNK"]) : 4096;
  size_t reads = in.count("READS") ? replay_io::u64(in["READS"]) : 8;
  if (mode == "w2") {
    // header declaring a payload far beyond the configured maximum, followed by arbitrary bytes in several reads
    WebSocketServer srv("127.0.0.1", 0); srv.setMaxFrameSize(maxf);
    SessionId sid = 7; srv._sessions[sid] = WebSocketServer::WsSessionState{};
    std::vector<uint8_t> hdr = {0x82, 0xFF, 0, 0, 0, 0x10, 0, 0, 0, 0, 1, 2, 3, 4};   // BINARY, masked, 64-bit length 2^36
    srv.onUpgradedData(sid, hdr.data(), hdr.size());
    std::vector<uint8_t> junk(chunk, 0x41);
    for (size_t i = 0; i < reads; i++) srv.onUpgradedData(sid, junk.data(), junk.size());
    auto it = srv._sessions.find(sid);
    size_t held = it == srv._sessions.end() ? 0 : it->second.buffer.size();
    printf("session %s, unparsed bytes held: %zu (configured maximum %zu)\n", it == srv._sessions.end() ? "ended" : "open", held, maxf);
    if (it != srv._sessions.end() && held > maxf + 14) replay_io::fail("BND: open session buffers more than one maximal frame for a header declaring a length beyond the configured maximum");
  } else if (mode == "w4") {
    // a fragmented message that never finishes: every fragment is small, the total exceeds the maximum
    WebSocketServer srv("127.0.0.1", 0); srv.setMaxFrameSize(maxf);
    SessionId sid = 7; srv._sessions[sid] = WebSocketServer::WsSessionState{};
    WebSocketFrame f; f.fin = false; f.opcode = WsOpcode::TEXT; f.payload.assign(chunk, 'a');
    srv.handleDataFrame(sid, f);
    f.opcode = WsOpcode::CONTINUATION;
    for (size_t i = 0; i < reads; i++) srv.handleDataFrame(sid, f);
    auto it = srv._sessions.find(sid);
    size_t held = it == srv._sessions.end() ? 0 : it->second.fragmentBuffer.size();
    printf("reassembly buffer holds %zu bytes (configured maximum %zu)\n", held, maxf);
    if (held > maxf) replay_io::fail("R6: reassembly buffer stays above the configured maximum and keeps growing");
  } else if (mode == "w3") {
    // client: a TEXT message with invalid UTF-8 must not be delivered (the server refuses it with 1007)
    auto clip = WebSocketClient::create(); WebSocketClient &cli = *clip; bool delivered = false;
    cli.setOnTextMessage([&](const std::string &) { delivered = true; });
    WebSocketFrame f; f.fin = true; f.opcode = WsOpcode::TEXT; f.payload = {0xC0, 0xAF};
    cli.handleDataFrame(f);
    if (delivered) replay_io::fail("R2(client): TEXT message with invalid UTF-8 delivered to the application");
  }
  replay_io::ok("clauses hold on this input");
  return 0;
}
