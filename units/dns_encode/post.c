/* Contract + harness of unit dns_encode: DnsMessage::encodeName (RFC 1035 3.1: labels <= 63 octets, names <= 255 octets). */
#define OKAY (iora_exc == EXC_NONE)
void encodeName_contract(iora_sv name, iora_ovec *iora_ret)
__CPROVER_requires(IORA_TRUE && iora_exc == EXC_NONE && name.n <= ((size_t)1 << 32) && __CPROVER_is_fresh(name.p, name.n))
__CPROVER_requires(__CPROVER_is_fresh(iora_ret, sizeof(*iora_ret)) && !G_sawempty)
__CPROVER_assigns(iora_exc, *iora_ret, G_sawempty)
/* EN1 */ __CPROVER_ensures(OKAY || iora_exc == EXC_DnsParseException)
/* EN2 the encoded name respects the RFC limit (in fact the library's stricter 253) and never exceeds the text by more than 2 octets */
__CPROVER_ensures(OKAY ==> (iora_ret->n >= 1 && iora_ret->n <= 255 && iora_ret->n <= name.n + 2))
/* EN3 the last octet is the terminating zero; the first octet of a non-root name is a label length 1..63 */
__CPROVER_ensures((OKAY && GK == iora_ret->n - 1) ==> iora_ret->gk == 0)
__CPROVER_ensures((OKAY && GK == 0 && iora_ret->n > 1) ==> (iora_ret->gk >= 1 && iora_ret->gk <= RFC_MAX_LABEL))
/* EN4 root forms */
__CPROVER_ensures((name.n == 0 || (name.n == 1 && name.p[0] == (char)46)) ==> (OKAY && iora_ret->n == 1))
/* EN5 a name that cannot fit is an error */
__CPROVER_ensures(name.n > 256 && !G_sawempty ==> !OKAY)
;
void h_encode(void)
{
  iora_sv name; iora_ovec *out;
  encodeName(name, out);
  IORA_CANARY("h_encode: returns");
  if (iora_exc) { IORA_CANARY("h_encode: rejected"); } else { IORA_CANARY("h_encode: encoded"); }
}
