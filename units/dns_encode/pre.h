/* loop contract + stub contract of unit dns_encode */
#include "iora_dns_contracts.h"
bool iora_iss_getline_contract(iora_iss *s, iora_lbl *out, char delim)
__CPROVER_requires(s->pos <= s->n)
__CPROVER_assigns(s->pos, *out, G_sawempty)
__CPROVER_ensures(__CPROVER_return_value == (__CPROVER_old(s->pos) < s->n))
__CPROVER_ensures(!__CPROVER_return_value ==> s->pos == __CPROVER_old(s->pos))
__CPROVER_ensures(__CPROVER_return_value ==> (out->p == s->p + __CPROVER_old(s->pos) && out->n <= s->n - __CPROVER_old(s->pos)))
__CPROVER_ensures((__CPROVER_return_value && out->n < s->n - __CPROVER_old(s->pos)) ==> (s->p[__CPROVER_old(s->pos) + out->n] == delim && s->pos == __CPROVER_old(s->pos) + out->n + 1))
__CPROVER_ensures((__CPROVER_return_value && out->n == s->n - __CPROVER_old(s->pos)) ==> s->pos == s->n)
__CPROVER_ensures((__CPROVER_return_value && GS < out->n) ==> out->p[GS] != delim)
/* ... at the last character of the label */
__CPROVER_ensures((__CPROVER_return_value && out->n > 0) ==> out->p[out->n - 1] != delim)
/* the same fact (no delimiter inside the label) at the position the client's witness invariant looks at: input index GK - 1 */
__CPROVER_ensures((__CPROVER_return_value && GK >= 1 + __CPROVER_old(s->pos) && GK - 1 - __CPROVER_old(s->pos) < out->n) ==> out->p[GK - 1 - __CPROVER_old(s->pos)] != delim)
__CPROVER_ensures(G_sawempty == (__CPROVER_old(G_sawempty) || (__CPROVER_return_value && out->n == 0)))
;
/* loop 1 of encodeName: one label per iteration. Every emitted label costs its input characters plus one length octet, and the
 * input pays for that octet with the delimiter it consumed (except for a last label without trailing dot: +1). */
#define IORA_LOOP_encodeName_1 IORA_LC( \
  __CPROVER_assigns(iss.pos, label, encoded, G_sawempty, iora_exc) \
  __CPROVER_loop_invariant(iora_exc == EXC_NONE && iss.pos <= iss.n && iss.n == name.n && iss.p == name.p) \
  __CPROVER_loop_invariant(encoded.n <= iss.pos + 1 && (iss.pos < iss.n ==> encoded.n <= iss.pos)) \
  __CPROVER_loop_invariant(!G_sawempty ==> encoded.n >= iss.pos) \
  __CPROVER_loop_invariant((GK == 0 && encoded.n > 0) ==> (encoded.gk >= 1 && encoded.gk <= RFC_MAX_LABEL)) \
  __CPROVER_decreases(iss.n - iss.pos))
