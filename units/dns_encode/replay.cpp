// REPLAY adapter of unit dns_encode: the name (hex bytes NAME) goes to the REAL DnsMessage::encodeName; the result is compared
// with an independent encoder and, for names without empty labels, decoded back with the real decodeName (round trip, native only).
#include "iora/network/dns/dns_message.hpp"
#include "replay_io.h"
using namespace iora::network::dns;
int main(int argc, char **argv)
{
  auto in = replay_io::load(argv[1]);
  auto b = replay_io::bytes(in["NAME"]);
  std::string name(b.begin(), b.end());
  std::vector<uint8_t> out; bool threw = false; std::string what;
  try { out = DnsMessage::encodeName(name); }
  catch (const DnsParseException &e) { threw = true; what = e.what(); }
  catch (const std::exception &e) { replay_io::fail(std::string("EN1: an exception other than DnsParseException escaped: ") + e.what()); }
  // reference
  std::vector<uint8_t> ref; bool rok = true, empty_label = false;
  if (name.empty() || name == ".") ref.push_back(0);
  else
  {
    size_t i = 0;
    while (i < name.size())
    {
      size_t q = name.find('.', i); if (q == std::string::npos) q = name.size();
      if (q == i) { empty_label = true; i = q + 1; continue; }
      if (q - i > 63) { rok = false; break; }
      ref.push_back((uint8_t)(q - i)); ref.insert(ref.end(), name.begin() + i, name.begin() + q); i = q + 1;
    }
    ref.push_back(0);
    if (ref.size() > 255) rok = false;
  }
  if (!threw)
  {
    if (!rok) replay_io::fail("EN2/EN3: a name with a label > 63 or a wire size > 255 was encoded");
    if (out != ref) replay_io::fail("encoded octets differ from the reference encoder");
    if (out.empty() || out.back() != 0 || out.size() > 255) replay_io::fail("EN2/EN3: terminator / size");
    if (!empty_label && !name.empty() && name != ".")
    {
      std::string back; size_t e = DnsMessage::decodeName(out.data(), 0, out.size(), back);
      std::string want = name.back() == '.' ? name.substr(0, name.size() - 1) : name;
      if (back != want || e != out.size()) replay_io::fail("round trip: decodeName(encodeName(name)) != name");
    }
  }
  else if (rok && ref.size() <= 253) replay_io::fail("a name within the library's own limits was rejected: " + what);
  replay_io::ok(threw ? "rejected: " + what : "encoded as the reference; round trip ok");
  return 0;
}
