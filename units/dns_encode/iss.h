/* Unit-local shims of dns_encode (trusted base): std::istringstream over the input name + std::getline with a delimiter.
 * label = a slice of the input (the bytes std::getline copies out). iora_iss_getline is a STUB with an assumed contract (the search
 * for the delimiter is a loop inside the library): it states exactly what std::getline(iss, label, '.') does on an istringstream:
 *   at end of input -> false, nothing extracted;
 *   otherwise label = input[pos, q) where q is the FIRST delimiter at or after pos (or the end of input), and the delimiter is consumed. */
#ifndef ISS_H
#define ISS_H
typedef struct { const char *p; size_t n; } iora_lbl;
#define iora_lbl_DEFAULT ((iora_lbl){0, 0})
static inline bool iora_lbl_empty(const iora_lbl *l) { return l->n == 0; }
static inline size_t iora_lbl_length(const iora_lbl *l) { return l->n; }
typedef struct { const char *p; size_t n; size_t pos; } iora_iss;
static inline iora_iss iora_iss_make(iora_sv s) { iora_iss i = { s.p, s.n, 0 }; return i; }
static inline bool iora_sv_is_char(const iora_sv *s, char c) { return s->n == 1 && s->p[0] == c; }
size_t GS;            /* witness position inside a label: no delimiter there */
bool G_sawempty;      /* ghost: some extracted label was empty (leading / doubled delimiter) */
bool iora_iss_getline(iora_iss *s, iora_lbl *out, char delim);
#endif
