/* type environment + ghost state for unit kv_ops (C12): the mutating operations over {_kv, _expiry, _cache} restricted to ONE ghost key */
#ifndef IORA_LIMIT_int64_t_min
#define IORA_LIMIT_int64_t_min ((int64_t)(-0x7fffffffffffffffLL - 1))
#endif
#define EXC_KVStoreException 1
#define EXC_exception 100                                  /* catch (const std::exception &): every exception modelled here is-a std::exception */
#define iora_isa(e, t) ((t) == EXC_exception ? (e) != EXC_NONE : (e) == (t))
uint32_t nondet_u32(void);
typedef int64_t iora_tp; typedef int64_t iora_sec; typedef uint64_t TimerId;
#define IORA_TP_MAX ((iora_tp)0x7fffffffffffffffLL)
#define NS_PER_SEC 1000000000
/* clock: environment stub, not before 1970 and before the year 2162 (now + the largest accepted TTL must fit int64 ns): trusted */
#define KV_CLOCK_MAX ((iora_tp)6000000000000000000LL)
iora_tp G_now_last; unsigned G_now_calls;
static inline iora_tp iora_clock_now(void) { iora_tp t = nondet_i64(); IORA_ASSUME(t >= 0 && t >= G_now_last && t <= KV_CLOCK_MAX); G_now_last = t; if (G_now_calls < 1000) G_now_calls++; return t; }
/* now() + ttl (seconds -> ns, then addition): both steps can overflow int64 - obligations */
static inline iora_tp iora_tp_add_sec(iora_tp t, iora_sec s) { return t + s * NS_PER_SEC; }
#define KV_LOCK_NOTE(m) ((void)0)
#ifndef iora_vec_DEFAULT
#define iora_vec_DEFAULT ((iora_vec){0, 0})
#endif
typedef struct { iora_tp expiry; TimerId timerId; } ExpiryEntry;
#define ExpiryEntry_DEFAULT ((ExpiryEntry){0, InvalidTimerId})
typedef struct { iora_vec value; iora_tp expiry; } CacheEntry;
#define CacheEntry_DEFAULT ((CacheEntry){{0, 0}, 0})
IORA_SMAP1(iora_kvmap, iora_vec, iora_vec_DEFAULT)
IORA_SMAP1(iora_expmap, ExpiryEntry, ExpiryEntry_DEFAULT)
IORA_SMAP1(iora_cachemap, CacheEntry, CacheEntry_DEFAULT)
IORA_SMAP1_ITER(iora_cachemap, CacheEntry)
static inline size_t iora_cachemap_size(const iora_cachemap *m) { return m->n; }
/* the batch argument of setBatch: const unordered_map<string, vector<uint8_t>>& as a witness-key map on the SAME ghost key, iterated by cursor */
IORA_SMAP1(iora_batchmap, iora_vec, iora_vec_DEFAULT)
IORA_SMAP1_ITER(iora_batchmap, iora_vec)
static inline bool iora_batchmap_empty(const iora_batchmap *m) { return m->n == 0; }
typedef struct { uint32_t maxCacheSize; } KVStoreConfig;
typedef struct { iora_kvmap _kv; iora_expmap _expiry; iora_cachemap _cache; int _mutex; int _cacheMutex; bool _shutdown; bool _wheel; KVStoreConfig _config; } KVStore;

/* ---- writeLogEntry stub (the function is proved in unit kv_codec: normal return <=> the record reached the OS).  May fail (KVStoreException).
 * Ghost: number of calls, arguments of the last call, and the in-memory state of the ghost key AT THE MOMENT OF THE CALL. */
unsigned G_log_calls; bool G_log_ok; char G_log_op; iora_skey G_log_key; iora_vec G_log_value; int64_t G_log_exp;
unsigned G_logg_calls; bool G_logg_ok; char G_logg_op; iora_vec G_logg_value; int64_t G_logg_exp; bool G_log_anyfail;      /* the same for the GHOST key's record only */
static inline void KVStore_writeLogEntry_stub(KVStore *self, char op, iora_skey key, iora_vec value, int64_t expiryMs)
{ (void)self; if (G_log_calls < 1000) G_log_calls++; G_log_op = op; G_log_key = key; G_log_value = value; G_log_exp = expiryMs;
  bool ok = nondet_bool();
  if (key.is_g) { if (G_logg_calls < 1000) G_logg_calls++; G_logg_ok = ok; G_logg_op = op; G_logg_value = value; G_logg_exp = expiryMs; }
  if (!ok) { G_log_ok = false; G_log_anyfail = true; iora_exc = EXC_KVStoreException; return; } G_log_ok = true; }
/* toEpochMs: uninterpreted here (its arithmetic is unit kv_expiry); argument and result recorded */
iora_tp G_toms_arg; int64_t G_toms_ret; bool G_toms_called;
static inline int64_t KVStore_toEpochMs_stub(iora_tp tp) { G_toms_called = true; G_toms_arg = tp; G_toms_ret = nondet_i64(); return G_toms_ret; }
/* timers: armTimerLocked returns some id (InvalidTimerId when the wheel does not accept); cancel recorded */
unsigned G_arm_calls; iora_tp G_arm_expiry; TimerId G_arm_id; bool G_arm_key_g; unsigned G_armg_calls; TimerId G_armg_id; iora_tp G_armg_expiry;
static inline TimerId KVStore_armTimerLocked_stub(KVStore *self, iora_skey key, iora_tp expiry)
{ (void)self; if (G_arm_calls < 1000) G_arm_calls++; G_arm_expiry = expiry; G_arm_key_g = key.is_g; G_arm_id = nondet_u64(); if (key.is_g) { if (G_armg_calls < 1000) G_armg_calls++; G_armg_id = G_arm_id; G_armg_expiry = expiry; } return G_arm_id; }
unsigned G_cancel_calls; TimerId G_cancel_id;
static inline void KVStore_wheel_cancel(KVStore *self, TimerId id) { (void)self; if (G_cancel_calls < 1000) G_cancel_calls++; G_cancel_id = id; }
static inline void KVStore_startTtlOrCleanup_stub(KVStore *self, int lock) { (void)lock; if (nondet_bool()) { iora_exc = EXC_KVStoreException; return; } self->_wheel = true; }
static inline void KVStore_maybeCompact_stub(KVStore *self) { (void)self; }
#define lock 0                                             /* the unique_lock object handed to startTtlOrCleanup: only noted */

/* ---- coupling invariant on a store pointer (post.c: INV == KV_INV(&st)) */
#define KV_INV(s) ((!(s)->_expiry.has || (s)->_kv.has) && ((s)->_config.maxCacheSize != 0 || !(s)->_cache.has) && \
   (!(s)->_cache.has || ((s)->_kv.has && (s)->_cache.val.value.p == (s)->_kv.val.p && (s)->_cache.val.value.n == (s)->_kv.val.n \
                         && (s)->_cache.val.expiry == ((s)->_expiry.has ? (s)->_expiry.val.expiry : IORA_TP_MAX))))
#define KV_CACHE_WF(s) (!(s)->_cache.has || (s)->_cache.gpos < (s)->_cache.n)
/* ---- loops of setBatch (both overloads): cursor over the batch; BC = cursor well-formed, GDONE = the ghost key's entry has been passed */
#define KV_BC (iora_c.map == batch && iora_c.i <= batch->n && (!batch->has || batch->gpos < batch->n))
#define KV_GDONE (batch->has && batch->gpos < iora_c.i)
#define KV_KVIS(v) (self->_kv.has && self->_kv.val.p == (v).p && self->_kv.val.n == (v).n)
#define KV_KV_ENTRY (self->_kv.has == __CPROVER_loop_entry(self->_kv.has) && self->_kv.val.p == __CPROVER_loop_entry(self->_kv.val.p) && self->_kv.val.n == __CPROVER_loop_entry(self->_kv.val.n))
#define KV_EX_ENTRY (self->_expiry.has == __CPROVER_loop_entry(self->_expiry.has) && self->_expiry.val.expiry == __CPROVER_loop_entry(self->_expiry.val.expiry) \
                     && self->_expiry.val.timerId == __CPROVER_loop_entry(self->_expiry.val.timerId))
/* loop 1: validation of every entry */
#define KV_LOOP_VALIDATE IORA_LC( \
  __CPROVER_assigns(iora_c, iora_exc, batch->other) \
  __CPROVER_loop_invariant(KV_BC && iora_exc == EXC_NONE) \
  __CPROVER_loop_invariant(KV_GDONE ==> (batch->gkn >= 1 && batch->gkn <= MAX_KEY_LENGTH && batch->val.n <= MAX_VALUE_LENGTH)) \
  __CPROVER_decreases(batch->n - iora_c.i))
/* loop 2: in-memory application. Before the ghost entry: ghost key untouched; after it: reference-map update; INV at every iteration */
#define KV_LOOP_APPLY(REF) IORA_LC( \
  __CPROVER_assigns(iora_c, batch->other, self->_kv, self->_expiry, self->_cache, G_cancel_calls, G_cancel_id, G_arm_calls, G_arm_expiry, G_arm_id, G_arm_key_g, G_armg_calls, G_armg_id, G_armg_expiry) \
  __CPROVER_loop_invariant(KV_BC && KV_INV(self) && KV_CACHE_WF(self)) \
  __CPROVER_loop_invariant(KV_GDONE ==> (KV_KVIS(batch->val) && (REF))) \
  __CPROVER_loop_invariant(!KV_GDONE ==> (KV_KV_ENTRY && KV_EX_ENTRY && G_armg_calls == 0)) \
  __CPROVER_decreases(batch->n - iora_c.i))
/* loop 3: one record per entry; stops at the first failed write */
#define KV_LOOP_LOG(OP, EXTRA) IORA_LC( \
  __CPROVER_assigns(iora_c, batch->other, iora_exc, G_log_calls, G_log_ok, G_log_op, G_log_key, G_log_value, G_log_exp, G_logg_calls, G_logg_ok, G_logg_op, G_logg_value, G_logg_exp, G_log_anyfail, G_toms_called, G_toms_arg, G_toms_ret) \
  __CPROVER_loop_invariant(KV_BC && iora_exc == EXC_NONE && !G_log_anyfail && (EXTRA)) \
  __CPROVER_loop_invariant(KV_GDONE ==> (G_logg_calls == 1 && G_logg_ok && G_logg_op == (OP) && G_logg_value.p == batch->val.p && G_logg_value.n == batch->val.n)) \
  __CPROVER_loop_invariant(!KV_GDONE ==> G_logg_calls == 0) \
  __CPROVER_decreases(batch->n - iora_c.i))
/* loop 4: rollback after a failed write (erases every batch key); INV at every iteration */
#define KV_LOOP_ROLLBACK IORA_LC( \
  __CPROVER_assigns(iora_c, batch->other, self->_kv, self->_expiry, self->_cache, G_cancel_calls, G_cancel_id) \
  __CPROVER_loop_invariant(KV_BC && KV_INV(self) && KV_CACHE_WF(self)) \
  __CPROVER_decreases(batch->n - iora_c.i))
#define IORA_LOOP_KVStore_setBatch_1 KV_LOOP_VALIDATE
#define IORA_LOOP_KVStore_setBatch_2 KV_LOOP_APPLY(!self->_expiry.has)
#define IORA_LOOP_KVStore_setBatch_3 KV_LOOP_LOG((char)83, 1)
#define IORA_LOOP_KVStore_setBatch_4 KV_LOOP_ROLLBACK
#define IORA_LOOP_KVStore_setBatch_ttl_1 KV_LOOP_VALIDATE
#define IORA_LOOP_KVStore_setBatch_ttl_2 KV_LOOP_APPLY(self->_expiry.has && self->_expiry.val.expiry == expiry && self->_expiry.val.timerId == G_armg_id && G_armg_calls == 1 && G_armg_expiry == expiry)
#define IORA_LOOP_KVStore_setBatch_ttl_3 KV_LOOP_LOG((char)69, !G_toms_called || G_toms_arg == expiry)
#define IORA_LOOP_KVStore_setBatch_ttl_4 KV_LOOP_ROLLBACK
