/* type environment + ghost state for unit kv_ops (C12): the mutating operations over {_kv, _expiry, _cache} restricted to ONE ghost key */
#ifndef IORA_LIMIT_int64_t_min
#define IORA_LIMIT_int64_t_min ((int64_t)(-0x7fffffffffffffffLL - 1))
#endif
#define EXC_KVStoreException 1
#define EXC_exception 100                                  /* catch (const std::exception &): every exception modelled here is-a std::exception */
#define iora_isa(e, t) ((t) == EXC_exception ? (e) != EXC_NONE : (e) == (t))
uint32_t nondet_u32(void);
typedef int64_t iora_tp; typedef int64_t iora_sec; typedef uint64_t TimerId;
#define IORA_TP_MAX ((iora_tp)0x7fffffffffffffffLL)
#define NS_PER_SEC 1000000000
/* clock: environment stub, not before 1970 and before the year 2162 (now + the largest accepted TTL must fit int64 ns): trusted */
#define KV_CLOCK_MAX ((iora_tp)6000000000000000000LL)
iora_tp G_now_last; unsigned G_now_calls;
static inline iora_tp iora_clock_now(void) { iora_tp t = nondet_i64(); IORA_ASSUME(t >= 0 && t >= G_now_last && t <= KV_CLOCK_MAX); G_now_last = t; if (G_now_calls < 1000) G_now_calls++; return t; }
/* now() + ttl (seconds -> ns, then addition): both steps can overflow int64 - obligations */
static inline iora_tp iora_tp_add_sec(iora_tp t, iora_sec s) { return t + s * NS_PER_SEC; }
#define KV_LOCK_NOTE(m) ((void)0)
#ifndef iora_vec_DEFAULT
#define iora_vec_DEFAULT ((iora_vec){0, 0})
#endif
typedef struct { iora_tp expiry; TimerId timerId; } ExpiryEntry;
#define ExpiryEntry_DEFAULT ((ExpiryEntry){0, InvalidTimerId})
typedef struct { iora_vec value; iora_tp expiry; } CacheEntry;
#define CacheEntry_DEFAULT ((CacheEntry){{0, 0}, 0})
IORA_SMAP1(iora_kvmap, iora_vec, iora_vec_DEFAULT)
IORA_SMAP1(iora_expmap, ExpiryEntry, ExpiryEntry_DEFAULT)
IORA_SMAP1(iora_cachemap, CacheEntry, CacheEntry_DEFAULT)
IORA_SMAP1_ITER(iora_cachemap, CacheEntry)
static inline size_t iora_cachemap_size(const iora_cachemap *m) { return m->n; }
typedef struct { uint32_t maxCacheSize; } KVStoreConfig;
typedef struct { iora_kvmap _kv; iora_expmap _expiry; iora_cachemap _cache; int _mutex; int _cacheMutex; bool _shutdown; bool _wheel; KVStoreConfig _config; } KVStore;

/* ---- writeLogEntry stub (the function is proved in unit kv_codec: normal return <=> the record reached the OS).  May fail (KVStoreException).
 * Ghost: number of calls, arguments of the last call, and the in-memory state of the ghost key AT THE MOMENT OF THE CALL. */
unsigned G_log_calls; bool G_log_ok; char G_log_op; iora_skey G_log_key; iora_vec G_log_value; int64_t G_log_exp;
static inline void KVStore_writeLogEntry_stub(KVStore *self, char op, iora_skey key, iora_vec value, int64_t expiryMs)
{ (void)self; if (G_log_calls < 1000) G_log_calls++; G_log_op = op; G_log_key = key; G_log_value = value; G_log_exp = expiryMs;
  if (nondet_bool()) { G_log_ok = false; iora_exc = EXC_KVStoreException; return; } G_log_ok = true; }
/* toEpochMs: uninterpreted here (its arithmetic is unit kv_expiry); argument and result recorded */
iora_tp G_toms_arg; int64_t G_toms_ret; bool G_toms_called;
static inline int64_t KVStore_toEpochMs_stub(iora_tp tp) { G_toms_called = true; G_toms_arg = tp; G_toms_ret = nondet_i64(); return G_toms_ret; }
/* timers: armTimerLocked returns some id (InvalidTimerId when the wheel does not accept); cancel recorded */
unsigned G_arm_calls; iora_tp G_arm_expiry; TimerId G_arm_id; bool G_arm_key_g;
static inline TimerId KVStore_armTimerLocked_stub(KVStore *self, iora_skey key, iora_tp expiry)
{ (void)self; if (G_arm_calls < 1000) G_arm_calls++; G_arm_expiry = expiry; G_arm_key_g = key.is_g; G_arm_id = nondet_u64(); return G_arm_id; }
unsigned G_cancel_calls; TimerId G_cancel_id;
static inline void KVStore_wheel_cancel(KVStore *self, TimerId id) { (void)self; if (G_cancel_calls < 1000) G_cancel_calls++; G_cancel_id = id; }
static inline void KVStore_startTtlOrCleanup_stub(KVStore *self, int lock) { (void)lock; if (nondet_bool()) { iora_exc = EXC_KVStoreException; return; } self->_wheel = true; }
static inline void KVStore_maybeCompact_stub(KVStore *self) { (void)self; }
#define lock 0                                             /* the unique_lock object handed to startTtlOrCleanup: only noted */
