/* Contracts of unit kv_ops (property C12: "every read ... agrees with a plain reference map with a per-key absolute expiry ...; a plain overwrite
 * clears an earlier expiry"; C11: only operations that RETURNED are promised to survive).  State = the three maps restricted to ONE arbitrary ghost
 * key.  Every operation REQUIRES and ENSURES the coupling invariant INV - this is what discharges the cache-coherence precondition of the read
 * paths of unit kv_expiry - and states the reference-map update for key == ghost key and the frame for key != ghost key. */
#define IMPL(a, b) (!(a) || (b))
#define KV (st._kv)
#define EX (st._expiry)
#define CA (st._cache)
#define OP_S ((char)83)
#define OP_D ((char)68)
#define OP_E ((char)69)
#define OP_X ((char)88)
/* INV:  expiry metadata only for present keys;  a cached entry is the stored value with the key's absolute expiry (kNoExpiry() without one) */
#define INV KV_INV(&st)     /* pre.h; incl. "a disabled cache (maxCacheSize 0) stays empty" */
#define OPS_SETUP \
  KVStore st; \
  KV.has = nondet_bool(); KV.val.n = nondet_size_t(); KV.touched = false; KV.gtouched = false; \
  EX.has = nondet_bool(); EX.val.expiry = nondet_i64(); EX.val.timerId = nondet_u64(); EX.touched = false; EX.gtouched = false; \
  CA.has = nondet_bool(); CA.val.value.n = nondet_size_t(); CA.val.expiry = nondet_i64(); CA.n = nondet_size_t(); CA.gpos = nondet_size_t(); CA.touched = false; CA.gtouched = false; \
  st._shutdown = nondet_bool(); st._wheel = nondet_bool(); st._config.maxCacheSize = nondet_u32(); \
  __CPROVER_assume(INV && IMPL(CA.has, CA.gpos < CA.n)); \
  bool kv_has0 = KV.has; iora_vec kv_val0 = KV.val; bool ex_has0 = EX.has; ExpiryEntry ex0 = EX.val; bool ca_has0 = CA.has; \
  iora_skey key; key.p = NULL; key.n = nondet_size_t(); key.is_g = nondet_bool(); \
  iora_vec value; value.n = nondet_size_t(); \
  G_now_last = nondet_i64(); __CPROVER_assume(G_now_last >= 0 && G_now_last <= KV_CLOCK_MAX); G_now_calls = 0; G_log_calls = 0; G_log_ok = false; G_arm_calls = 0; G_cancel_calls = 0; G_toms_called = false; \
  iora_exc = EXC_NONE; IORA_TRUE = 1;
#define KV_UNCHANGED (KV.has == kv_has0 && KV.val.p == kv_val0.p && KV.val.n == kv_val0.n)
#define EX_UNCHANGED (EX.has == ex_has0 && IMPL(ex_has0, EX.val.expiry == ex0.expiry && EX.val.timerId == ex0.timerId))
#define EXP_UNCHANGED (EX.has == ex_has0 && IMPL(ex_has0, EX.val.expiry == ex0.expiry))
#define OK (iora_exc == EXC_NONE)
#define VAL_IS(v) (KV.has && KV.val.p == (v).p && KV.val.n == (v).n)
#define LOGGED(op, e) (G_log_calls == 1 && G_log_ok && G_log_op == (op) && G_log_key.is_g == key.is_g && G_log_key.n == key.n && G_log_exp == (e))
#define COMMON_ASSERTS(P) \
  __CPROVER_assert(INV, P "-INV the coupling invariant (expiry only for present keys; cache entry == stored value + absolute expiry) holds afterwards, on every path"); \
  __CPROVER_assert(iora_exc == EXC_NONE || iora_exc == EXC_KVStoreException, P "-X only KVStoreException"); \
  __CPROVER_assert(IMPL(!key.is_g, KV_UNCHANGED && EX_UNCHANGED), P "-FRAME an operation on another key leaves value and expiry of the ghost key untouched"); \
  __CPROVER_assert(IMPL(G_log_calls > 0 && !G_log_ok, !OK), P "-ACK a failed log write is never acknowledged");

/* proof "op_set": set(key, value) */
void h_op_set(void)
{
  OPS_SETUP
  KVStore_set(&st, key, value);
  IORA_CANARY("h_op_set: returns");
  if (OK && key.is_g) { IORA_CANARY("h_op_set: acknowledged on the ghost key"); }
  if (!OK && G_log_calls > 0) { IORA_CANARY("h_op_set: log write failed"); }
  COMMON_ASSERTS("SET")
  bool valid = key.n >= 1 && key.n <= MAX_KEY_LENGTH && value.n <= MAX_VALUE_LENGTH;
  __CPROVER_assert(IMPL(!valid || st._shutdown, !OK && G_log_calls == 0 && !KV.touched && !EX.touched && !CA.touched), "SET-REFUSE empty/oversized key, oversized value or shut-down store: exception, nothing changed, nothing logged");
  __CPROVER_assert(IMPL(OK, valid && LOGGED(OP_S, 0) && G_log_value.p == value.p && G_log_value.n == value.n), "SET-LOG acknowledged => exactly one 'S' record with this key and value was written successfully");
  __CPROVER_assert(IMPL(valid && !st._shutdown, G_log_calls == 1 && (OK == G_log_ok)), "SET-ACCEPT a valid set on an open store is attempted and acknowledged exactly when its record was written");
  __CPROVER_assert(IMPL(OK && key.is_g, VAL_IS(value) && !EX.has), "SET-REF reference map: key present with the new value; a plain overwrite clears an earlier expiry");
  __CPROVER_assert(IMPL(OK && key.is_g && ex_has0 && ex0.timerId != InvalidTimerId && st._wheel, G_cancel_calls >= 1 && G_cancel_id == ex0.timerId), "SET-TIMER the timer of the replaced expiry is cancelled");
}

/* proof "op_set_ttl": set(key, value, ttl) */
void h_op_set_ttl(void)
{
  OPS_SETUP
  iora_sec ttl = nondet_i64();
  KVStore_set_ttl(&st, key, value, ttl);
  IORA_CANARY("h_op_set_ttl: returns");
  if (OK && key.is_g) { IORA_CANARY("h_op_set_ttl: acknowledged on the ghost key"); }
  COMMON_ASSERTS("SETTTL")
  bool valid = ttl > 0 && key.n >= 1 && key.n <= MAX_KEY_LENGTH && value.n <= MAX_VALUE_LENGTH;
  __CPROVER_assert(IMPL(!valid || st._shutdown, !OK && G_log_calls == 0 && !KV.touched && !EX.touched && !CA.touched), "SETTTL-REFUSE ttl <= 0, invalid key/value or shut-down store: exception, nothing changed, nothing logged");
  __CPROVER_assert(IMPL(OK, valid && G_toms_called && LOGGED(OP_E, G_toms_ret) && G_toms_arg == G_arm_expiry && G_log_value.p == value.p && G_log_value.n == value.n), "SETTTL-LOG acknowledged => one 'E' record with key, value and toEpochMs(expiry)");
  __CPROVER_assert(IMPL(OK && key.is_g, VAL_IS(value) && EX.has && EX.val.expiry == G_arm_expiry && EX.val.timerId == G_arm_id && G_arm_calls == 1), "SETTTL-REF reference map: key present with the new value and the absolute expiry now + ttl, timer armed for it");
  __CPROVER_assert(IMPL(OK, G_now_calls == 1 && G_arm_expiry > G_now_last), "SETTTL-EXP the expiry is one clock reading plus ttl: in the future");
  __CPROVER_assert(IMPL(!OK && G_arm_calls > 0 && G_arm_id != InvalidTimerId && st._wheel, G_cancel_calls >= 1 && G_cancel_id == G_arm_id), "SETTTL-UNARM a timer armed for an operation that then failed is cancelled");
}

/* proof "op_remove" */
void h_op_remove(void)
{
  OPS_SETUP
  KVStore_remove(&st, key);
  IORA_CANARY("h_op_remove: returns");
  if (OK && key.is_g && kv_has0 && !KV.has) { IORA_CANARY("h_op_remove: ghost key removed"); }
  COMMON_ASSERTS("REMOVE")
  __CPROVER_assert(IMPL(key.n == 0 || st._shutdown, OK && G_log_calls == 0 && !KV.touched && !EX.touched && !CA.touched), "REMOVE-NOOP empty key or shut-down store: silent no-op");
  __CPROVER_assert(IMPL(OK && key.is_g && key.n > 0 && !st._shutdown && kv_has0, !KV.has && !EX.has && !CA.has && LOGGED(OP_D, 0)), "REMOVE-REF present key: value, expiry and cache entry gone, one 'D' record written");
  __CPROVER_assert(IMPL(key.is_g && !kv_has0, OK && G_log_calls == 0 && KV_UNCHANGED && EX_UNCHANGED), "REMOVE-ABSENT absent key: nothing changes, nothing is logged");
  __CPROVER_assert(IMPL(OK && key.is_g && kv_has0 && !KV.has && ex_has0 && ex0.timerId != InvalidTimerId && st._wheel, G_cancel_id == ex0.timerId && G_cancel_calls >= 1), "REMOVE-TIMER the timer of the removed key is cancelled");
}

/* proof "op_persist" */
void h_op_persist(void)
{
  OPS_SETUP
  KVStore_persist(&st, key);
  IORA_CANARY("h_op_persist: returns");
  if (OK && key.is_g && ex_has0 && !EX.has) { IORA_CANARY("h_op_persist: expiry cleared"); }
  COMMON_ASSERTS("PERSIST")
  bool applies = key.n > 0 && !st._shutdown && kv_has0 && ex_has0;
  __CPROVER_assert(IMPL(key.is_g && !applies, OK && G_log_calls == 0 && KV_UNCHANGED && EX_UNCHANGED), "PERSIST-NOOP empty key, shut-down store, absent or already permanent key: nothing changes, nothing is logged");
  __CPROVER_assert(IMPL(OK && key.is_g && applies, KV_UNCHANGED && !EX.has && !CA.has && LOGGED(OP_X, NO_EXPIRY_SENTINEL)), "PERSIST-REF expiry cleared, value untouched, cache entry invalidated, one 'X' record with the no-expiry sentinel");
}

/* proof "op_expire_at" */
void h_op_expire_at(void)
{
  OPS_SETUP
  iora_tp when = nondet_i64();
  KVStore_expireAt(&st, key, when);
  IORA_CANARY("h_op_expire_at: returns");
  if (OK && key.is_g && EX.has && EX.gtouched) { IORA_CANARY("h_op_expire_at: expiry set"); }
  COMMON_ASSERTS("EXPIREAT")
  __CPROVER_assert(IMPL(key.n > 0 && st._shutdown, !OK && G_log_calls == 0 && !EX.touched && !CA.touched), "EXPIREAT-SHUT shut-down store: exception, nothing changed");
  __CPROVER_assert(IMPL(key.is_g && (key.n == 0 || (!st._shutdown && !kv_has0)), OK && G_log_calls == 0 && KV_UNCHANGED && EX_UNCHANGED), "EXPIREAT-NOOP empty or absent key: silent no-op");
  __CPROVER_assert(IMPL(OK && key.is_g && key.n > 0 && kv_has0, KV_UNCHANGED && EX.has && EX.val.expiry == when && EX.val.timerId == G_arm_id && !CA.has && G_toms_called && G_toms_arg == when && LOGGED(OP_X, G_toms_ret)),
                   "EXPIREAT-REF absolute expiry == when, value untouched, cache entry invalidated, timer armed, one 'X' record with toEpochMs(when)");
}

/* proof "op_evict": evictionCallback (runs on the worker thread; sequential semantics here) */
void h_op_evict(void)
{
  OPS_SETUP
  TimerId captured = nondet_u64();
  KVStore_evictionCallback(&st, key, &captured);
  iora_tp now = G_now_last;
  IORA_CANARY("h_op_evict: returns");
  if (key.is_g && kv_has0 && !KV.has) { IORA_CANARY("h_op_evict: ghost key evicted"); }
  if (key.is_g && G_arm_calls > 0) { IORA_CANARY("h_op_evict: re-armed"); }
  __CPROVER_assert(INV, "EVICT-INV the coupling invariant holds afterwards, on every path");
  __CPROVER_assert(IMPL(!key.is_g, KV_UNCHANGED && EX_UNCHANGED), "EVICT-FRAME a callback for another key leaves the ghost key untouched");
  bool live = ex_has0 && captured != InvalidTimerId && ex0.timerId == captured;
  __CPROVER_assert(IMPL(key.is_g && !live, OK && KV_UNCHANGED && EX_UNCHANGED && G_log_calls == 0 && G_arm_calls == 0 && G_now_calls == 0), "EVICT-STALE gone, replaced or never armed: nothing happens");
  __CPROVER_assert(IMPL(key.is_g && live && ex0.expiry > now, OK && KV_UNCHANGED && EXP_UNCHANGED && EX.val.timerId == G_arm_id && G_arm_expiry == ex0.expiry && G_log_calls == 0), "EVICT-REARM fired early: only the timer id changes (fresh timer for the same expiry)");
  __CPROVER_assert(IMPL(key.is_g && live && ex0.expiry <= now, !KV.has && !EX.has && !CA.has && G_log_calls == 1 && G_log_op == OP_D), "EVICT-EVICT expiry has passed: value, expiry, cache entry gone; a 'D' record is written");
  __CPROVER_assert(IMPL(key.is_g && kv_has0 && !KV.has, live && ex0.expiry <= now), "EVICT-ONLY-EXPIRED a key is evicted only when its CURRENT expiry has passed (generation guard)");
}

/* ------------------------------------------------------------------ setBatch (both overloads): loops over the batch closed by loop contracts (pre.h), the batch is a
 * witness-key map on the SAME ghost key, iterated by cursor: any number of entries, any order, the ghost key's entry (if the batch has one) at any position. */
#define BATCH_SETUP \
  OPS_SETUP \
  iora_batchmap bt; bt.has = nondet_bool(); bt.val.n = nondet_size_t(); bt.n = nondet_size_t(); bt.gpos = nondet_size_t(); bt.gkn = nondet_size_t(); bt.touched = false; bt.gtouched = false; \
  __CPROVER_assume(IMPL(bt.has, bt.gpos < bt.n)); \
  G_logg_calls = 0; G_logg_ok = false; G_log_anyfail = false; G_armg_calls = 0;
#define BATCH_ASSERTS(P, OPC) \
  __CPROVER_assert(INV, P "-INV the coupling invariant holds afterwards, on every path (also after the rollback of a failed batch)"); \
  __CPROVER_assert(iora_exc == EXC_NONE || iora_exc == EXC_KVStoreException, P "-X only KVStoreException"); \
  __CPROVER_assert(IMPL(!bt.has, KV_UNCHANGED && EX_UNCHANGED) || !OK, P "-FRAME a completed batch without the ghost key leaves its value and expiry untouched"); \
  __CPROVER_assert(IMPL(OK && bt.n > 0, !G_log_anyfail && IMPL(bt.has, G_logg_calls == 1 && G_logg_ok && G_logg_op == (OPC) && G_logg_value.p == bt.val.p && G_logg_value.n == bt.val.n)), \
                   P "-LOG acknowledged => no write failed and exactly one record with the batch value was written for the key"); \
  __CPROVER_assert(IMPL(G_log_anyfail, !OK), P "-ACK a failed log write is never acknowledged"); \
  __CPROVER_assert(IMPL(bt.n == 0, !KV.touched && !EX.touched && !CA.touched && G_log_calls == 0), P "-EMPTY an empty batch changes and logs nothing"); \
  __CPROVER_assert(IMPL(bt.has && !(bt.gkn >= 1 && bt.gkn <= MAX_KEY_LENGTH && bt.val.n <= MAX_VALUE_LENGTH), !OK && !KV.touched && !EX.touched && !CA.touched && G_log_calls == 0), \
                   P "-REFUSE an invalid entry refuses the whole batch before anything is changed or logged"); \
  __CPROVER_assert(IMPL(bt.n > 0 && st._shutdown, !OK && !KV.touched && !EX.touched && !CA.touched), P "-SHUT shut-down store: exception, nothing changed");

/* proof "op_set_batch" */
void h_op_set_batch(void)
{
  BATCH_SETUP
  KVStore_setBatch(&st, &bt);
  IORA_CANARY("h_op_set_batch: returns");
  if (OK && bt.has) { IORA_CANARY("h_op_set_batch: acknowledged batch containing the ghost key"); }
  if (!OK && G_log_anyfail) { IORA_CANARY("h_op_set_batch: a log write failed"); }
  BATCH_ASSERTS("BATCH", OP_S)
  __CPROVER_assert(IMPL(bt.n == 0, OK), "BATCH-EMPTYOK an empty batch returns normally");
  __CPROVER_assert(IMPL(OK && bt.has, VAL_IS(bt.val) && !EX.has), "BATCH-REF reference map: the key holds the batch value; a plain batch clears an earlier expiry");
}
/* proof "op_set_batch_ttl" */
void h_op_set_batch_ttl(void)
{
  BATCH_SETUP
  iora_sec ttl = nondet_i64();
  KVStore_setBatch_ttl(&st, &bt, ttl);
  IORA_CANARY("h_op_set_batch_ttl: returns");
  if (OK && bt.has) { IORA_CANARY("h_op_set_batch_ttl: acknowledged batch containing the ghost key"); }
  BATCH_ASSERTS("BATCHTTL", OP_E)
  __CPROVER_assert(IMPL(ttl <= 0, !OK && !KV.touched && G_log_calls == 0), "BATCHTTL-TTL ttl <= 0 is refused");
  __CPROVER_assert(IMPL(OK && bt.has, VAL_IS(bt.val) && EX.has && EX.val.expiry == G_armg_expiry && EX.val.timerId == G_armg_id && G_armg_calls == 1 && G_now_calls == 1 && EX.val.expiry > G_now_last),
                   "BATCHTTL-REF reference map: the key holds the batch value and the batch-wide absolute expiry now + ttl (one clock reading), timer armed for it");
  __CPROVER_assert(IMPL(OK && bt.has && G_toms_called, G_toms_arg == G_armg_expiry), "BATCHTTL-LOGEXP the records carry toEpochMs of the expiry stored for the key");
}

/* ------------------------------------------------------------------ OBSERVATION K7 (NOT part of the registered check: proof "rollback_observation" has "tier": "off")
 * Clause ROLLBACK: an operation that THREW (its log record could not be written) leaves value and expiry of the key as they were.  C12 quantifies over
 * operation histories, inputs and schedules and C11 over process-crash points; neither quantifies over I/O-error histories nor says what reads must show
 * after an operation that threw - so this clause demands more than the properties state and is kept only as documentation of a real robustness defect
 * (NOTES.md: write-up, native demo in replay.cpp SCENARIO K7, repair_K7.diff). */
void h_rollback_observation(void)
{
  OPS_SETUP
  int which = nondet_int(); iora_sec ttl = nondet_i64(); iora_tp when = nondet_i64();
  if (which == 0) KVStore_set(&st, key, value);
  else if (which == 1) KVStore_set_ttl(&st, key, value, ttl);
  else if (which == 2) KVStore_remove(&st, key);
  else if (which == 3) KVStore_persist(&st, key);
  else KVStore_expireAt(&st, key, when);
  IORA_CANARY("h_rollback_observation: returns");
  __CPROVER_assert(IMPL(!OK && key.is_g, KV_UNCHANGED && EXP_UNCHANGED), "ROLLBACK an operation that threw (not acknowledged) leaves value and expiry of the key as they were");
}
