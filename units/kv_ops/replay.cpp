// REPLAY adapter for unit kv_ops (C12): operation sequences on the REAL KVStore (inputs select the scenario: SCENARIO K7 | K8 | K9, default all).
//   K7  ROLLBACK: an operation that throws must leave every read as it was.  The log is made un-growable (RLIMIT_FSIZE = its current size, SIGXFSZ
//       ignored = a full disk), then set(a,"new") / remove(b) / expireAt(c) / persist(d) must each THROW and leave get/exists/ttl unchanged.
//   K8  KVStoreConfig.maxCacheSize = 0 must not crash set()/get() (run in a child process).
//   K9  set(k, v, ttl) with a TTL of 10^10 seconds (317 years) must either be refused or leave k present (now + ttl must not overflow).
#include "iora/storage/kvstore.hpp"
#include "replay_io.h"
#include <filesystem>
#include <signal.h>
#include <sys/resource.h>
#include <sys/wait.h>
#include <unistd.h>
using namespace iora::storage;
namespace fs = std::filesystem;
static std::vector<uint8_t> V(const char *s) { return std::vector<uint8_t>(s, s + strlen(s)); }
int main(int argc, char **argv) {
  auto in = replay_io::load(argv[1]);
  std::string which = in.count("SCENARIO") ? in["SCENARIO"] : "registered";   // "registered" = K8 + K9; K7 only on request (observation, not part of the check)
  fs::path dir = fs::temp_directory_path() / ("iora_replay_kv_ops_" + std::to_string(getpid()));
  fs::remove_all(dir); fs::create_directories(dir);
  KVStoreConfig cfg; cfg.enableBackgroundCompaction = false;
  std::string verdict;
  if (which == "all" || which == "registered" || which == "K8") {
    pid_t pid = fork();
    if (pid == 0) { KVStoreConfig c = cfg; c.maxCacheSize = 0; KVStore s((dir / "z.bin").string(), c); s.set("x", V("1")); bool ok = s.get("x").has_value(); _exit(ok ? 0 : 3); }
    int st = 0; waitpid(pid, &st, 0);
    if (!WIFEXITED(st) || WEXITSTATUS(st) != 0) verdict += " K8: maxCacheSize = 0: set()/get() crashed or lost the key (child status " + std::to_string(st) + ");";
  }
  if (which == "all" || which == "registered" || which == "K9") {
    pid_t pid = fork();
    if (pid == 0) { KVStore s((dir / "t.bin").string(), cfg); int rc = 0;
      try { s.set("k", V("1"), std::chrono::seconds(10000000000LL)); if (!s.get("k")) rc = 4; } catch (const KVStoreException &) { rc = 0; }
      _exit(rc); }
    int st = 0; waitpid(pid, &st, 0);
    if (!WIFEXITED(st) || WEXITSTATUS(st) != 0) verdict += " K9: set(k, v, ttl = 10^10 s) neither refused nor effective (now + ttl overflowed; child status " + std::to_string(st) + ");";
  }
  if (which == "all" || which == "K7") {
    std::string path = (dir / "s.bin").string();
    try {
      KVStore s(path, cfg);
      s.set("a", V("old")); s.set("b", V("keep")); s.set("c", V("c0")); s.set("d", V("d0"), std::chrono::seconds(3600));
      signal(SIGXFSZ, SIG_IGN); struct rlimit rl; getrlimit(RLIMIT_FSIZE, &rl); rlim_t keep = rl.rlim_cur; rl.rlim_cur = fs::file_size(path + ".log"); setrlimit(RLIMIT_FSIZE, &rl);
      bool t1 = false, t2 = false, t3 = false, t4 = false;
      try { s.set("a", V("new")); } catch (const std::exception &) { t1 = true; }
      try { s.remove("b"); } catch (const std::exception &) { t2 = true; }
      try { s.expireAt("c", std::chrono::system_clock::now() + std::chrono::hours(1)); } catch (const std::exception &) { t3 = true; }
      try { s.persist("d"); } catch (const std::exception &) { t4 = true; }
      if (!(t1 && t2 && t3 && t4)) verdict += " K7 harness: an operation was acknowledged although the log cannot grow;";
      auto a = s.get("a");
      if (!a || *a != V("old")) verdict += std::string(" K7 ROLLBACK: set(a,new) threw, get(a) = ") + (a ? "other value" : "MISSING") + " (reference: old);";
      if (!s.exists("b")) verdict += " K7 ROLLBACK: remove(b) threw, exists(b) = false (reference: true);";
      if (s.ttl("c")) verdict += " K7 ROLLBACK: expireAt(c) threw, c now has a TTL (reference: none);";
      if (!s.ttl("d")) verdict += " K7 ROLLBACK: persist(d) threw, d lost its TTL (reference: still expiring);";
      rl.rlim_cur = keep; setrlimit(RLIMIT_FSIZE, &rl);
    } catch (const std::exception &e) { verdict += std::string(" store threw: ") + e.what(); }
  }
  fs::remove_all(dir);
  if (!verdict.empty()) replay_io::fail(verdict);
  replay_io::ok("failed operations leave memory unchanged; maxCacheSize 0 and a huge TTL are handled");
  return 0;
}
