/* Stubs and unit-local shims for http_chunked_client.
 *
 * parseFullUInt(b, e, base, out) = "[b,e) is a non-empty, pure digit string of the base whose value fits 64 bits; out =
 * value" (its body is `if (b == e) return false; auto r = std::from_chars(b, e, out, base); return r.ec == std::errc()
 * && r.ptr == e;`). Here it is an ASSUMED stub for std::from_chars (C++17 [charconv.from.chars], libstdc++: no sign, no
 * prefix, no whitespace for unsigned types; longest digit prefix; result_out_of_range on overflow, value unmodified on
 * failure). The environment stub proper has scalar parameters only (cheap contract, see iora_sv_find.h note); the inline
 * wrapper reads the bytes the contract speaks about: the first two characters and the characters at the two ghost
 * indices GD (universal witness: "every character is a digit") and GB (existential witness: "some character is not a
 * digit" - the stub's contract fixes GB to such a character when it fails on a short string, so GB must not be used by
 * any other clause). The value is stated exactly for one- and two-digit strings and left unspecified for longer ones. */
#ifndef HTTP_CHUNKED_CLIENT_STUBS_H
#define HTTP_CHUNKED_CLIENT_STUBS_H

size_t GD, GB;                      /* ghost indices relative to the start of a digit run */
/* GL (shims/iora_sv_find.h): ghost position "where the line feed of the size line will turn out to be" (acceptance clause U5) */
size_t G_pfu_calls /* saturates at 2 */, G_pfu_off, G_pfu_len;
_Bool G_pfu_ok;
uint64_t G_pfu_val;
size_t G_src;                       /* offset in the source buffer of the byte copied to decoded[GK] (append shim) */
_Bool G_src_set;

#define DG_IS16(c_) (((c_) >= (char)48 && (c_) <= (char)57) || ((c_) >= (char)65 && (c_) <= (char)70) || ((c_) >= (char)97 && (c_) <= (char)102))
#define DG_IS10(c_) ((c_) >= (char)48 && (c_) <= (char)57)
#define DG_IS(c_, base_) ((base_) == 16 ? DG_IS16(c_) : DG_IS10(c_))
/* digit value; masked to 0..15 so that the expression is total (no overflow obligation for non-digit arguments) */
#define DG_V(c_) ((uint64_t)(((c_) <= (char)57 ? (c_) - 48 : ((c_) | 32) - 87) & 15))
#define DG_MAXLEN(base_) ((base_) == 16 ? 16 : 19)      /* digit strings up to this length cannot overflow 64 bits */

#if defined(IORA_NATIVE) || defined(IORA_SEARCH)
static inline bool parseFullUInt(const char *b, const char *e, int base, uint64_t *out)
{
  if (b == e) return false;
  uint64_t v = 0;
  for (const char *p = b; p != e; p++) {
    if (!DG_IS(*p, base)) return false;
    uint64_t d = DG_V(*p);
    if (v > (UINT64_MAX - d) / (uint64_t)base) return false;
    v = v * (uint64_t)base + d;
  }
  *out = v;
  return true;
}
static inline bool iora_pfu_sv(const iora_sv *s, size_t a, size_t b, int base, uint64_t *out) { return parseFullUInt(s->p + a, s->p + b, base, out); }
#else
#define PF_R __CPROVER_return_value
bool iora_pfu_env(size_t len, size_t off, char c0, char c1, _Bool gd_in, _Bool gd_dig, _Bool gb_in, _Bool gb_dig, int base, uint64_t *out)
  __CPROVER_requires(IORA_TRUE && (base == 10 || base == 16))
  __CPROVER_assigns(*out, G_pfu_calls, G_pfu_off, G_pfu_len, G_pfu_ok, G_pfu_val)
  /* success: non-empty, every character a digit (witnesses GD and GB), value of short strings */
  __CPROVER_ensures(PF_R ==> (len >= 1 && (!gd_in || gd_dig) && (!gb_in || gb_dig)))
  __CPROVER_ensures((PF_R && len == 1) ==> *out == DG_V(c0))
  __CPROVER_ensures((PF_R && len == 2) ==> *out == DG_V(c0) * (uint64_t)base + DG_V(c1))
  /* failure: empty, or some character is not a digit (witness GB), or long enough to overflow; value unmodified */
  __CPROVER_ensures(!PF_R ==> (len == 0 || (gb_in && !gb_dig) || len > DG_MAXLEN(base)))
  __CPROVER_ensures(!PF_R ==> *out == __CPROVER_old(*out))
  /* ghost record */
  __CPROVER_ensures(G_pfu_calls == (__CPROVER_old(G_pfu_calls) >= 2 ? 2 : __CPROVER_old(G_pfu_calls) + 1) && G_pfu_off == off && G_pfu_len == len)
  __CPROVER_ensures(G_pfu_ok == PF_R && (PF_R ==> G_pfu_val == *out));
/* call-site form `parseFullUInt(s.data() + a, s.data() + b, base, out)` (declared rule pfu-sv): index based, so that no
 * pointer difference / pointer offset reaches the solver (measured: 31 M clauses with the pointer form, 2 M with indices) */
static inline bool iora_pfu_sv(const iora_sv *s, size_t a, size_t b, int base, uint64_t *out)
{
  IORA_ASSERT(a <= b && b <= s->n, "parseFullUInt: [b,e) is a range inside the string");
  size_t len = b - a;
  char c0 = len > 0 ? s->p[a] : (char)0;
  char c1 = len > 1 ? s->p[a + 1] : (char)0;
  _Bool gd_in = GD < len, gb_in = GB < len;
  char cd = gd_in ? s->p[a + GD] : (char)0;
  char cb = gb_in ? s->p[a + GB] : (char)0;
  return iora_pfu_env(len, a, c0, c1, gd_in, gd_in && DG_IS(cd, base), gb_in, gb_in && DG_IS(cb, base), base, out);
}
#endif

/* std::string::append(const string& str, size_type pos, size_type n) on the output accumulator: appends
 * min(n, str.size() - pos) characters; std::out_of_range if pos > str.size(). Witness byte at GK; the ghost G_src records
 * which source byte it was. */
static inline void iora_ostr_append_sub(iora_ostr *v, iora_sv src, size_t pos, size_t len)
{
  IORA_ASSERT(pos <= src.n, "string::append(str, pos, n): pos <= str.size() (std::out_of_range otherwise)");
  size_t eff = IORA_MIN(len, src.n - pos);
  if (GK >= v->n && GK - v->n < eff) { v->gk = src.p[pos + (GK - v->n)]; G_src = pos + (GK - v->n); G_src_set = 1; }
  IORA_ASSERT(eff <= (size_t)-1 - v->n, "string growth");
  v->n += eff;
}
#endif
