// Differential run, C++ side: the REAL HttpClient::advanceChunked (private const member). Must print exactly what diff.c prints.
#include "iora/network/http_client.hpp"
#include "diff_io.h"
using namespace iora::network;
int main(int argc, char **argv)
{
  FILE *f = fopen(argv[1], "r"); diff_input in; HttpClient cl;
  while (diff_next(f, &in)) {
    size_t cap = (size_t)diff_param(&in, "cap", 1u << 20), split = (size_t)diff_param(&in, "split", 0); if (split > in.n) split = in.n;
    std::string d((const char *)in.bytes, in.n); HttpClient::ChunkState st; int f1 = -1, f2 = -1;
    if (split > 0) f1 = (int)cl.advanceChunked(d.substr(0, split), cap, st);
    if (f1 == -1 || f1 == (int)HttpClient::FrameStatus::NeedMore) f2 = (int)cl.advanceChunked(d, cap, st);
    printf("fs1=%d fs=%d pos=%zu end=%zu len=%zu decoded=", f1, f2, st.pos, st.messageEnd, st.decoded.size());
    diff_hex((const unsigned char *)st.decoded.data(), st.decoded.size());
    printf("\n"); fflush(stdout); diff_free(&in);
  }
  return 0;
}
