"""Unit-local extractor hooks for http_chunked_client.

ac_step = the body of loop 1 of HttpClient::advanceChunked, cut mechanically (step outlining, DESIGN R18):
the token range between the braces of the first `while (...) { ... }` of the function. No local is live across iterations of that loop (the state is *st), so the body is a function of the
same parameters. Falling off the end of the
body (= the loop goes round again) is marked by the appended ghost statement `G_step_fell = 1; return 0;`.
Nothing else is added, removed or reordered.
"""
from vt.lexer import Tok, match_close
from vt.x2c import ExtractionBreak


def hook_begin(t, rw):
    if rw.prefix != 'ac_step':
        return t
    ws = [i for i, x in enumerate(t) if x.kind == 'id' and x.text in ('while', 'for')]
    if not ws:
        raise ExtractionBreak("ac_step: the function has no loop any more")
    i = ws[0]
    if t[i].text != 'while':
        raise ExtractionBreak("ac_step: first loop is not a while loop")
    rp = match_close(t, i + 1)
    if t[rp + 1].text != '{':
        raise ExtractionBreak("ac_step: loop body is not a braced block")
    rb = match_close(t, rp + 1)
    cond = ' '.join(x.text for x in t[i + 2:rp])
    rw.R.notes.append(f"ac_step: body of `while ( {cond} )` lines {t[rp + 1].line}-{t[rb].line}")
    if cond != 'true':
        raise ExtractionBreak(f"ac_step: loop condition changed to `{cond}` (the step harness assumes an unconditional loop)")
    body = t[rp + 2:rb]
    if any(x.kind == 'id' and x.text in ('break', 'continue') for x in body):
        raise ExtractionBreak("ac_step: break/continue in the loop body needs status codes (not implemented)")
    L = t[rb].line
    tail = [Tok('id', 'G_step_fell', L, final=True), Tok('op', '=', L), Tok('num', '1', L), Tok('op', ';', L),
            Tok('id', 'return', L, final=True), Tok('num', '0', L), Tok('op', ';', L)]
    return body + tail
