/* Contracts for HttpClient::advanceChunked, written from property C15 and RFC 9112 7.1 (DESIGN 5 C15, clauses A1-A4):
 *   chunked-body = *chunk last-chunk trailer-section CRLF
 *   chunk        = chunk-size [chunk-ext] CRLF chunk-data CRLF        chunk-size = 1*HEXDIG
 *   chunk-ext    = *( BWS ";" BWS chunk-ext-name [ BWS "=" BWS chunk-ext-val ] )
 *   last-chunk   = 1*"0" [chunk-ext] CRLF                             trailer-section = *( field-line CRLF )
 * Call sites (frameResponse): st.pos = bodyStart <= data.size() initially, afterwards as left by the previous call on a
 * buffer that only grows, so st.pos <= buf.size(). */
#define R __CPROVER_return_value
#define LF ((char)10)
#define AC_PRE \
__CPROVER_requires(IORA_TRUE && buf.n <= ((size_t)1 << 50) && __CPROVER_is_fresh(buf.p, buf.n) && __CPROVER_is_fresh(st, sizeof(*st))) \
__CPROVER_requires(st->pos <= buf.n && st->decoded.n <= ((size_t)1 << 60) && !G_src_set && G_pfu_calls == 0 && GF <= buf.n) \
__CPROVER_assigns(st->pos, st->decoded.n, st->decoded.gk, st->messageEnd, G_src, G_src_set, G_pfu_calls, G_pfu_off, G_pfu_len, G_pfu_ok, G_pfu_val)

/* proof "safety": every built-in obligation (bounds, pointers, signed and UNSIGNED overflow = no wrap in any position
 * arithmetic), shim preconditions (operator[] / append / parseFullUInt ranges), the four loop invariants + variants
 * (termination), frame, and A1 */
FrameStatus ac_safety(iora_sv buf, size_t effectiveCap, ChunkState *st)
AC_PRE
/* A1 the parse position is monotone and stays inside the buffer */
__CPROVER_ensures(__CPROVER_old(st->pos) <= st->pos && st->pos <= buf.n)
__CPROVER_ensures(R == FrameStatus_NeedMore || R == FrameStatus_Complete || R == FrameStatus_Malformed)
/* A3 (range part) */
__CPROVER_ensures(R == FrameStatus_Complete ==> (st->messageEnd <= buf.n && st->messageEnd >= 5 && st->messageEnd - 5 >= st->pos))
;

/* proof "functional" */
FrameStatus ac_contract(iora_sv buf, size_t effectiveCap, ChunkState *st)
AC_PRE
__CPROVER_ensures(__CPROVER_old(st->pos) <= st->pos && st->pos <= buf.n)
/* A2 decoded only grows, by less than what was consumed; every byte decoded by this call is a byte of the consumed part
 *    of the buffer (witness index GK; exact chunk-relative position: step clause U1) */
__CPROVER_ensures(__CPROVER_old(st->decoded.n) <= st->decoded.n && st->decoded.n - __CPROVER_old(st->decoded.n) <= st->pos - __CPROVER_old(st->pos))
__CPROVER_ensures((GK >= __CPROVER_old(st->decoded.n) && GK < st->decoded.n) ==> (G_src_set && G_src >= __CPROVER_old(st->pos) && G_src < st->pos))
__CPROVER_ensures((GK >= __CPROVER_old(st->decoded.n) && GK < st->decoded.n) ==> st->decoded.gk == buf.p[G_src])
__CPROVER_ensures(GK < __CPROVER_old(st->decoded.n) ==> st->decoded.gk == __CPROVER_old(st->decoded.gk))
/* A3 Complete: the message ends inside the buffer, after the last-chunk line, with the CRLF that closes the trailer
 *    section (so with CRLF CRLF) */
__CPROVER_ensures(R == FrameStatus_Complete ==> (st->messageEnd <= buf.n && st->messageEnd >= 5 && st->messageEnd - 5 >= st->pos))
__CPROVER_ensures(R == FrameStatus_Complete ==> IORA_SV_CRLF2_AT(buf, st->messageEnd - 4))
/* A5 messageEnd is written only on Complete */
__CPROVER_ensures(R != FrameStatus_Complete ==> st->messageEnd == __CPROVER_old(st->messageEnd))
/* A6 NeedMore means the line at the parse position is not complete yet: nothing but a buffer that ends in the middle of
 *    a chunk; in particular an empty remainder is NeedMore, never an error */
__CPROVER_ensures(__CPROVER_old(st->pos) == buf.n ==> R == FrameStatus_NeedMore)
;

void h_ac(void)
{
  iora_sv b; size_t cap; ChunkState *st;
  FrameStatus r = HttpClient_advanceChunked(b, cap, st);
  IORA_CANARY("h_ac: call returns");
  if (r == FrameStatus_Complete) { IORA_CANARY("h_ac: complete"); }
  if (r == FrameStatus_Malformed) { IORA_CANARY("h_ac: malformed"); }
  if (r == FrameStatus_NeedMore) { IORA_CANARY("h_ac: need more"); }
}

/* ---- step clauses (A4): ONE iteration of the chunk loop (mechanically outlined loop body ac_step, with its three inner
 * loops closed by the same loop contracts) for EVERY state satisfying the loop-1 invariant. DFCC harness without an
 * enforced contract; clauses are assertions over the post-state and the ghost record of the parseFullUInt stub. ---- */
void h_step(void)
{
  size_t n = nondet_size_t();
  __CPROVER_assume(n <= ((size_t)1 << 50));
  char *mem = malloc(n);
  __CPROVER_assume(mem != NULL);
  iora_sv buf = { mem, n };
  size_t cap = nondet_size_t();
  ChunkState st;
  st.pos = nondet_size_t(); st.decoded.n = nondet_size_t(); st.decoded.gk = (char)nondet_u8(); st.messageEnd = nondet_size_t();
  __CPROVER_assume(st.pos <= n && st.decoded.n <= ((size_t)1 << 60));
  __CPROVER_assume(GF <= n && GL <= n);
  IORA_TRUE = 1; G_step_fell = 0; G_pfu_calls = 0; G_pfu_ok = 0; G_src_set = 0;
  size_t pos0 = st.pos, n0 = st.decoded.n, me0 = st.messageEnd; char gk0 = st.decoded.gk;
  FrameStatus r = ac_step(buf, cap, &st);
  IORA_CANARY("h_step: returns");
  size_t len = G_pfu_len, val = (size_t)G_pfu_val, hx = pos0 + G_pfu_len /* end of the hex run */;
  __CPROVER_assert(G_pfu_calls <= 1, "U0 at most one chunk-size per iteration");
  __CPROVER_assert(G_pfu_calls == 0 || (G_pfu_off == pos0 && len >= 1 && hx < n), "U0 the chunk-size is the digit run at the parse position");
  __CPROVER_assert(G_pfu_calls == 0 || !(GD < len) || AC_ISHEX(mem[pos0 + GD]), "U0 ... and every character of it is a hex digit (witness GD)");
  if (G_step_fell) {
    IORA_CANARY("h_step: data chunk consumed");
    /* U1 a data chunk: size line, CRLF, exactly `size` data bytes, CRLF - decoded grows by exactly those bytes */
    __CPROVER_assert(G_pfu_calls == 1 && G_pfu_ok && val >= 1 && val <= cap, "U1 a consumed chunk has a valid size within the cap");
    __CPROVER_assert(st.pos >= val + 2 && st.pos <= n, "U1 position inside the buffer");
    size_t ds = st.pos - val - 2;                 /* start of the chunk data */
    __CPROVER_assert(ds >= hx + 2 && IORA_SV_CRLF_AT(buf, ds - 2), "U1 the size line ends with CRLF just before the data");
    __CPROVER_assert(!(pos0 <= GF && GF + 1 < ds) || mem[GF] != LF, "U1 ... and that is the first line feed after the parse position (witness GF)");
    __CPROVER_assert(hx == ds - 2 || mem[hx] == (char)59 || IORA_IS_OWS(mem[hx]), "U1 after the digits: CRLF, or BWS / ';' starting a chunk extension");
    __CPROVER_assert(IORA_SV_CRLF_AT(buf, ds + val), "U1 the data is followed by CRLF");
    __CPROVER_assert(st.decoded.n == n0 + val, "U1 exactly size bytes are appended");
    __CPROVER_assert(!(GK >= n0 && GK < n0 + val) || st.decoded.gk == mem[ds + (GK - n0)], "U1 the appended bytes are the chunk data (witness GK)");
    __CPROVER_assert(!(GK < n0) || st.decoded.gk == gk0, "U1 earlier decoded bytes are untouched (witness GK)");
    __CPROVER_assert(st.messageEnd == me0, "U1 messageEnd untouched");
  } else {
    /* U2 any verdict leaves the parse state untouched: a call consumes whole chunks or nothing (prefix stability) */
    __CPROVER_assert(st.pos == pos0 && st.decoded.n == n0 && st.decoded.gk == gk0, "U2 a verdict leaves position and decoded body untouched");
    __CPROVER_assert(r == FrameStatus_Complete || st.messageEnd == me0, "U2 messageEnd is written only on Complete");
  }
  if (!G_step_fell && r == FrameStatus_Complete) {
    IORA_CANARY("h_step: complete");
    __CPROVER_assert(G_pfu_calls == 1 && G_pfu_ok && val == 0, "U3 only a zero-size chunk ends the body");
    __CPROVER_assert(st.messageEnd <= n && st.messageEnd >= hx + 4 && IORA_SV_CRLF2_AT(buf, st.messageEnd - 4), "U3 the message ends with CRLF CRLF after the last-chunk line");
  }
  /* U4 sizes that are invalid, overflow or exceed the cap are rejected, never framed */
  __CPROVER_assert(!(G_pfu_calls == 1 && !G_pfu_ok) || (!G_step_fell && r == FrameStatus_Malformed), "U4 an unparsable chunk-size is Malformed");
  __CPROVER_assert(!(G_pfu_calls == 1 && !G_pfu_ok) || len > 16, "U4 ... and that happens only for more than 16 hex digits (overflow)");
  __CPROVER_assert(!(G_pfu_calls == 1 && G_pfu_ok && G_pfu_val > cap) || (!G_step_fell && r == FrameStatus_Malformed), "U4 a chunk-size above the cap is Malformed");
  /* U5 acceptance: a well-formed, completely buffered data chunk without extension is neither rejected nor delayed */
  if (G_pfu_calls == 1 && G_pfu_ok && G_pfu_val <= cap && GL == hx + 1 && hx + 1 < n && IORA_SV_CRLF_AT(buf, hx)) {   /* GL: see stubs.h */
    if (val > 0 && n - (hx + 2) >= val && n - (hx + 2) - val >= 2 && IORA_SV_CRLF_AT(buf, hx + 2 + val)) {
      IORA_CANARY("h_step: acceptance, data chunk");
      __CPROVER_assert(G_step_fell && st.pos == hx + 2 + val + 2, "U5 a complete valid chunk is consumed");
    }
  }
  /* U6 NeedMore only while the buffer really ends inside the chunk (never on a complete line that is wrong) */
  __CPROVER_assert(!(G_pfu_calls == 0 && !G_step_fell && r == FrameStatus_NeedMore) || !(pos0 <= GF && GF < n && mem[GF] == LF), "U6 NeedMore before the size is parsed: no line feed has arrived (witness GF)");
}

#ifdef IORA_SEARCH
/* SEARCH: the whole function on a small concrete buffer (bounded; only used to obtain an input for REPLAY) */
void h_search(void)
{
  uint8_t IN[8]; size_t IN_N = nondet_size_t(); size_t CAP = nondet_size_t();
  IORA_NONDET_BYTES(IN, 8);
  __CPROVER_assume(IN_N <= 8);
  IORA_TRUE = 1; G_pfu_calls = 0; G_src_set = 0; G_step_fell = 0;
  iora_sv buf = { (const char *)IN, IN_N };
  ChunkState st = ChunkState_DEFAULT;
  FrameStatus r = HttpClient_advanceChunked(buf, CAP, &st);
  __CPROVER_assert(st.pos <= buf.n, "A1");
  __CPROVER_assert(st.decoded.n <= st.pos, "A2");
  __CPROVER_assert(r != FrameStatus_Complete || (st.messageEnd <= buf.n && st.messageEnd >= 5 && IORA_SV_CRLF2_AT(buf, st.messageEnd - 4)), "A3");
}
#endif
