// REPLAY adapter: feeds the verifier's input to the REAL HttpClient::advanceChunked (private member, -fno-access-control;
// the client object is constructed but never connected) and evaluates the contract clauses natively against a strict
// RFC 9112 7.1 reference decoder, for the one-shot call AND for every single cut point (prefix first, then the whole buffer
// with the same ChunkState): same verdict, same position, same decoded bytes, same messageEnd.
#include "iora/network/http_client.hpp"
#include "replay_io.h"
using namespace iora::network;
typedef HttpClient::FrameStatus FS;
typedef HttpClient::ChunkState CS;

struct Ref { int verdict; /* 0 need more, 1 complete, 2 malformed */ std::string body; size_t end; };
static bool hexd(char c) { return (c >= '0' && c <= '9') || (c >= 'a' && c <= 'f') || (c >= 'A' && c <= 'F'); }
static Ref refdecode(const std::string &d, size_t pos, unsigned long long cap) {
  Ref r{0, "", 0};
  for (;;) {
    size_t nl = d.find('\n', pos);
    if (nl == std::string::npos) return r;
    if (nl == 0 || d[nl - 1] != '\r' || nl - 1 < pos) { r.verdict = 2; return r; }
    size_t le = nl - 1, p = pos; unsigned long long v = 0; size_t nd = 0;
    while (p < le && hexd(d[p])) { if (v >> 60) { r.verdict = 2; return r; } v = (v << 4) | (unsigned long long)(d[p] <= '9' ? d[p] - '0' : (d[p] | 0x20) - 'a' + 10); p++; nd++; }
    if (nd == 0 || v > cap) { r.verdict = 2; return r; }
    size_t q = p; while (q < le && (d[q] == ' ' || d[q] == '\t')) q++;
    if ((q < le && d[q] != ';') || (q == le && q != p)) { r.verdict = 2; return r; }
    pos = nl + 1;
    if (v == 0) {
      for (;;) { size_t t = d.find('\n', pos); if (t == std::string::npos) return r; if (t == 0 || d[t - 1] != '\r') { r.verdict = 2; return r; }
        if (t - 1 == pos) { r.verdict = 1; r.end = t + 1; return r; } pos = t + 1; }
    }
    if (d.size() - pos < v || d.size() - pos - v < 2) return r;
    if (d[pos + v] != '\r' || d[pos + v + 1] != '\n') { r.verdict = 2; return r; }
    r.body.append(d, pos, v);
    pos += v + 2;
  }
}
static int v(FS s) { return s == FS::NeedMore ? 0 : s == FS::Complete ? 1 : 2; }

int main(int argc, char **argv) {
  auto in = replay_io::load(argv[1]);
  std::vector<uint8_t> b = replay_io::bytes(in["IN"]);
  if (in.count("IN_N")) b.resize(std::min<size_t>(b.size(), replay_io::u64(in["IN_N"])));
  size_t cap = in.count("CAP") ? replay_io::u64(in["CAP"]) : (size_t)1 << 20;
  std::string d(b.begin(), b.end());
  HttpClient cl;
  CS st; FS fs;
  try { fs = cl.advanceChunked(d, cap, st); } catch (const std::exception &e) { replay_io::fail(std::string("exception escapes: ") + e.what()); }
  printf("one shot: verdict %d pos %zu decoded %zu messageEnd %zu\n", v(fs), st.pos, st.decoded.size(), st.messageEnd);
  Ref ref = refdecode(d, 0, cap);
  if (st.pos > d.size()) replay_io::fail("A1 pos > size");
  if (st.decoded.size() > st.pos) replay_io::fail("A2 decoded more than consumed");
  if (v(fs) != ref.verdict) replay_io::fail("verdict " + std::to_string(v(fs)) + " differs from the RFC reference " + std::to_string(ref.verdict));
  if (fs == FS::Complete) {
    if (st.messageEnd > d.size() || st.messageEnd < 5 || d.compare(st.messageEnd - 4, 4, "\r\n\r\n") != 0) replay_io::fail("A3 messageEnd");
    if (st.messageEnd != ref.end) replay_io::fail("A3 messageEnd differs from the RFC end");
    if (st.decoded != ref.body) replay_io::fail("A2 decoded body differs from the chunk data");
  }
  if (fs != FS::Malformed && st.decoded != ref.body.substr(0, st.decoded.size())) replay_io::fail("A2 decoded bytes are not the chunk data");
  // every single cut point
  for (size_t k = 0; k <= d.size(); k++) {
    CS s2; FS f1 = cl.advanceChunked(d.substr(0, k), cap, s2);
    if (f1 != FS::NeedMore) { if (v(f1) != v(fs)) replay_io::fail("segmentation: verdict on prefix " + std::to_string(k) + " differs from the verdict on the whole"); continue; }
    FS f2 = cl.advanceChunked(d, cap, s2);
    if (f2 != fs || s2.pos != st.pos || s2.decoded != st.decoded || s2.messageEnd != st.messageEnd) replay_io::fail("segmentation: cut at " + std::to_string(k) + " changes the result");
  }
  replay_io::ok("contract clauses hold on this input (one shot and every single cut)");
  return 0;
}
