/* Differential run, C side: the EXTRACTED HttpClient::advanceChunked, compiled natively (parseFullUInt / string searches are the native
 * bodies of stubs.h / shims/iora_sv_find.h). The function is resumable: with split=k > 0 it is first called on the first k bytes and
 * then on the whole buffer with the SAME ChunkState (as the read loop does). decoded is a witness accumulator (length + byte at GK):
 * the whole call sequence is re-run once per index. Compared: verdict(s), pos, messageEnd, length and every byte of decoded. */
#include "unit_native.c"
#include "diff_io.h"
static void run(const diff_input *in, size_t cap, size_t split, size_t gk, int *f1, int *f2, ChunkState *st)
{
  *st = ChunkState_DEFAULT; GK = gk; *f1 = -1;
  G_pfu_calls = 0; G_src_set = 0; G_step_fell = 0;
  if (split > 0) { iora_sv b1 = { (const char *)in->bytes, split }; *f1 = (int)HttpClient_advanceChunked(b1, cap, st); }
  iora_sv b = { (const char *)in->bytes, in->n };
  *f2 = (*f1 == -1 || *f1 == FrameStatus_NeedMore) ? (int)HttpClient_advanceChunked(b, cap, st) : -1;
}
int main(int argc, char **argv)
{
  FILE *f = fopen(argv[1], "r"); diff_input in;
  IORA_TRUE = 1;
  while (diff_next(f, &in)) {
    size_t cap = (size_t)diff_param(&in, "cap", 1u << 20), split = (size_t)diff_param(&in, "split", 0); if (split > in.n) split = in.n;
    int f1, f2; ChunkState st; run(&in, cap, split, (size_t)-1, &f1, &f2, &st);
    size_t len = st.decoded.n;
    printf("fs1=%d fs=%d pos=%zu end=%zu len=%zu decoded=", f1, f2, st.pos, st.messageEnd, len);
    unsigned char *b = (unsigned char *)malloc(len ? len : 1);
    for (size_t k = 0; k < len; k++) { int a, c; ChunkState s2; run(&in, cap, split, k, &a, &c, &s2); b[k] = (unsigned char)s2.decoded.gk; }
    diff_hex(b, len); free(b);
    printf("\n"); fflush(stdout); diff_free(&in);
  }
  return 0;
}
