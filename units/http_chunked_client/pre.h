/* type environment + ghost state + loop contracts for unit http_chunked_client (HttpClient::advanceChunked) */
typedef struct { size_t pos; iora_ostr decoded; size_t messageEnd; } ChunkState;
/* default member initialisers of struct ChunkState (http_client.hpp) */
#define ChunkState_DEFAULT ((ChunkState){ .pos = 0, .decoded = {0, 0}, .messageEnd = 0 })
_Bool G_step_fell;        /* set by the outlined loop body when it falls off its end (= the loop goes round again) */

/* hex digit test with two reads of its argument (every dereference inside an invariant is expensive: measured ~0.4 M
 * clauses each on this function) */
#define AC_ISHEX(c_) ((((unsigned char)(c_) - 48u) <= 9u) | ((((unsigned char)(c_) | 32u) - 97u) <= 5u))
/* Invariant clauses about buffer CONTENT are switched on per proof (a proof that does not need a clause does not pay for
 * it; dropping an invariant clause can only make a proof fail, never pass wrongly):
 *   AC_INV_BODY     decoded witness byte == source byte, trailer loop stands after a CRLF            (proof functional)
 *   AC_INV_WITNESS  hex run is all hex (GD, GB), BWS run is all BWS (GF), no empty line before tp (GF) (proofs functional/step) */
#ifdef AC_INV_BODY
#define AC_BODY(e_) (e_)
#else
#define AC_BODY(e_) 1
#endif
#ifdef AC_INV_WITNESS
#define AC_WIT(e_) (e_)
#else
#define AC_WIT(e_) 1
#endif
#ifdef AC_INV_HEXWIT
#define AC_HEXWIT(e_) (e_)
#else
#define AC_HEXWIT(e_) 1
#endif

/* loop 1 (chunk loop): position monotone and inside the buffer; decoded grows by less than what is consumed; the witness
 * byte of decoded was copied from a consumed position; messageEnd untouched; variant: distance to the end of the buffer */
#define IORA_LOOP_HttpClient_advanceChunked_1 IORA_LC( \
  __CPROVER_assigns(st->pos, st->decoded.n, st->decoded.gk, st->messageEnd, G_src, G_src_set, G_pfu_calls, G_pfu_off, G_pfu_len, G_pfu_ok, G_pfu_val) \
  __CPROVER_loop_invariant(__CPROVER_loop_entry(st->pos) <= st->pos && st->pos <= buf.n) \
  __CPROVER_loop_invariant(__CPROVER_loop_entry(st->decoded.n) <= st->decoded.n && st->decoded.n - __CPROVER_loop_entry(st->decoded.n) <= st->pos - __CPROVER_loop_entry(st->pos)) \
  __CPROVER_loop_invariant(st->messageEnd == __CPROVER_loop_entry(st->messageEnd)) \
  __CPROVER_loop_invariant((GK >= __CPROVER_loop_entry(st->decoded.n) && GK < st->decoded.n) ==> (G_src_set && G_src >= __CPROVER_loop_entry(st->pos) && G_src < st->pos)) \
  __CPROVER_loop_invariant(AC_BODY((GK >= __CPROVER_loop_entry(st->decoded.n) && GK < st->decoded.n) ==> st->decoded.gk == buf.p[G_src])) \
  __CPROVER_loop_invariant(GK < __CPROVER_loop_entry(st->decoded.n) ==> st->decoded.gk == __CPROVER_loop_entry(st->decoded.gk)) \
  __CPROVER_decreases(buf.n - st->pos))
/* loop 2 (hex run): every byte of [p, hexEnd) is a hex digit (witnesses GD, GB) */
#define AC_LOOP_HEX IORA_LC( \
  __CPROVER_assigns(hexEnd) \
  __CPROVER_loop_invariant(p <= hexEnd && hexEnd <= lineEnd) \
  __CPROVER_loop_invariant(AC_HEXWIT(GD < hexEnd - p ==> AC_ISHEX(buf.p[p + GD]))) \
  __CPROVER_loop_invariant(AC_HEXWIT(GB < hexEnd - p ==> AC_ISHEX(buf.p[p + GB]))) \
  __CPROVER_decreases(lineEnd - hexEnd))
/* loop 3 (BWS run) */
#define AC_LOOP_BWS IORA_LC( \
  __CPROVER_assigns(q, sawBws) \
  __CPROVER_loop_invariant(hexEnd <= q && q <= lineEnd && sawBws == (q > hexEnd)) \
  __CPROVER_loop_invariant(AC_HEXWIT(q > hexEnd ==> IORA_IS_OWS(buf.p[hexEnd]))) \
  __CPROVER_decreases(lineEnd - q))
/* loop 4 (trailer section): tp only moves forward, from line start to line start */
#define AC_LOOP_TRAILER IORA_LC( \
  __CPROVER_assigns(tp, st->messageEnd) \
  __CPROVER_loop_invariant(dataStart <= tp && tp <= buf.n && tp >= 2 && st->messageEnd == __CPROVER_loop_entry(st->messageEnd)) \
  __CPROVER_loop_invariant(AC_BODY(IORA_SV_CRLF_AT(buf, tp - 2))) \
  __CPROVER_loop_invariant(AC_WIT((dataStart - 2 <= GF && GF < tp - 2) ==> !IORA_SV_CRLF2_AT(buf, GF))) \
  __CPROVER_decreases(buf.n - tp))
#define IORA_LOOP_HttpClient_advanceChunked_2 AC_LOOP_HEX
#define IORA_LOOP_HttpClient_advanceChunked_3 AC_LOOP_BWS
#define IORA_LOOP_HttpClient_advanceChunked_4 AC_LOOP_TRAILER
#define IORA_LOOP_ac_step_1 AC_LOOP_HEX
#define IORA_LOOP_ac_step_2 AC_LOOP_BWS
#define IORA_LOOP_ac_step_3 AC_LOOP_TRAILER
