// REPLAY adapter for unit http_response: the REAL HttpServer::processHttpRequest, called directly (no sockets, no pool thread) on a server whose
// _transport is a real Transport over a recording engine (sendAsync completes synchronously like TcpEngine::sendAsync).
// What the server enqueues is split by an independent mini framer and checked against property C16.
//   MODE 1 GET /hello           2 HEAD /hello            3 GET + "Connection: close"      4 handler throws
//   MODE 5 unparsable request   6 "connection: CLOSE"    7 HTTP/1.0 without Connection header (observation H3)   8 GET /missing (404)   9 send fails
#include "../sync_ondata/scripted_engine.h"
#include "iora/network/http_server.hpp"
#include "replay_io.h"
struct RecordingEngine : ScriptedEngine {
  std::vector<std::string> sent; std::vector<std::string> log; bool fail = false;
  bool send(SessionId, const void *d, std::size_t n) override { if (fail) return false; sent.emplace_back((const char *)d, n); log.push_back("send"); return true; }
  void sendAsync(SessionId sid, const void *d, std::size_t n, SendCompleteCallback cb) override {
    bool ok = send(sid, d, n);
    if (cb) { if (ok) cb(sid, SendResult::ok(n)); else cb(sid, SendResult::err(TransportErrorInfo{TransportError::Socket, "send enqueue failed"})); } }
  bool close(SessionId s) override { closed.push_back(s); log.push_back("close"); return true; }
};
struct Parsed { int status = 0; std::map<std::string, std::string> h; std::string body; bool ok = false; };
static Parsed frame(const std::string &w) {
  Parsed p; auto he = w.find("\r\n\r\n"); if (he == std::string::npos) return p;
  std::istringstream ss(w.substr(0, he)); std::string line; std::getline(ss, line);
  if (sscanf(line.c_str(), "HTTP/%*d.%*d %d", &p.status) != 1) return p;
  while (std::getline(ss, line)) { if (!line.empty() && line.back() == '\r') line.pop_back(); auto c = line.find(':'); if (c == std::string::npos) return p;
    std::string k = line.substr(0, c), v = line.substr(c + 1); for (auto &ch : k) ch = (char)tolower(ch); while (!v.empty() && v[0] == ' ') v.erase(0, 1); p.h[k] = v; }
  p.body = w.substr(he + 4); p.ok = true; return p; }
int main(int argc, char **argv) {
  auto in = replay_io::load(argv[1]); int mode = (int)replay_io::u64(in["MODE"]);
  iora::network::HttpServer srv("127.0.0.1", 0);
  auto eng = std::make_unique<RecordingEngine>(); RecordingEngine *e = eng.get(); e->fail = mode == 9;
  srv._transport = Transport::withEngine(std::move(eng), TransportConfig{});
  srv.onGet("/hello", [&](const iora::network::HttpServer::Request &, iora::network::HttpServer::Response &res) {
    if (mode == 4) throw std::runtime_error("handler failed");
    res.set_content("hello world", "text/plain"); });
  const SessionId sid = 5;
  std::string req = mode == 2 ? "HEAD /hello HTTP/1.1\r\nHost: x\r\n\r\n" : mode == 3 ? "GET /hello HTTP/1.1\r\nHost: x\r\nConnection: close\r\n\r\n"
                  : mode == 5 ? "G@T /hello HTTP/1.1\r\nHost: x\r\n\r\n" : mode == 6 ? "GET /hello HTTP/1.1\r\nHost: x\r\nconnection: CLOSE\r\n\r\n"
                  : mode == 7 ? "GET /hello HTTP/1.0\r\n\r\n" : mode == 8 ? "GET /missing HTTP/1.1\r\nHost: x\r\n\r\n" : "GET /hello HTTP/1.1\r\nHost: x\r\n\r\n";
  srv.processHttpRequest(sid, req);
  printf("request: %s", req.substr(0, req.find("\r\n")).c_str()); printf("  ->  %zu send(s), %zu close(s), order:", e->sent.size(), e->closed.size()); for (auto &l : e->log) printf(" %s", l.c_str()); printf("\n");
  if (mode == 9) { if (!e->sent.empty()) replay_io::fail("send was to fail"); if (e->closed.size() != 1) replay_io::fail("CN3 response could not be enqueued: the connection must be closed"); replay_io::ok("send failure closes the connection"); srv._transport.reset(); return 0; }
  if (e->sent.size() != 1) replay_io::fail("N2/ONE exactly one sendAsync per request");
  Parsed p = frame(e->sent[0]); if (!p.ok) replay_io::fail("response is not a well-formed HTTP message");
  printf("response: %d, Content-Length=%s, body %zu bytes, Connection=%s\n", p.status, p.h.count("content-length") ? p.h["content-length"].c_str() : "(none)", p.body.size(), p.h["connection"].c_str());
  bool head = mode == 2;
  if (head) { if (!p.body.empty()) replay_io::fail("HD1 a response to HEAD carries no body"); }
  else if (p.h.count("content-length") ? (size_t)atoll(p.h["content-length"].c_str()) != p.body.size() : !p.body.empty()) replay_io::fail("CL1 Content-Length != size of the body that follows");
  if (mode == 4 && p.status != 500) replay_io::fail("E500 a handler that throws yields a 500");
  if (mode == 5 && !(p.status >= 400 && e->closed.size() == 1)) replay_io::fail("ERR an unparsable request yields an error status and a closed connection");
  if (mode == 8 && p.status != 404) replay_io::fail("T404");
  bool wantClose = mode == 3 || mode == 6 || mode == 5;
  if (wantClose) { if (p.h["connection"] != "close") replay_io::fail("CN1 response must say Connection: close"); if (e->closed.size() != 1 || e->closed[0] != sid || e->log.back() != "close") replay_io::fail("CN2 Connection: close requested: the server must close the connection after the response"); }
  else if (mode != 7 && (!e->closed.empty() || p.h["connection"] != "keep-alive")) replay_io::fail("CN4 keep-alive: connection must stay open");
  if (mode == 7) { printf("H3 (observation): HTTP/1.0 request without Connection header -> Connection=%s, %zu close(s)\n", p.h["connection"].c_str(), e->closed.size());
    if (e->closed.empty()) replay_io::fail("H3 HTTP/1.0 request without keep-alive: connection is kept open (SessionInfo::httpVersion is never written)"); }
  replay_io::ok("contract clauses hold in this scenario");
  srv._transport.reset();
  return 0;
}
