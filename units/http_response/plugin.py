"""Unit-local extraction plugin of http_response.

hook_begin  R21s: a completion lambda passed to `_transport->sendAsync(sid, data, len, [caps](params){ BODY })` is INLINED at the call site:
                { iora_send_result <result> = iora_transport_sendAsync(self, sid, data, len); SessionId <session> = sid; BODY }
            This is the behaviour of TcpEngine::sendAsync (tcp_engine.hpp: `bool ok = send(..); if (cb) cb(sid, ok ? ok(len) : err)`): the completion
            runs synchronously, exactly once, on the calling thread - which the source itself relies on (comment SR-7; the lambdas capture stack
            locals by reference). BODY tokens are kept and go through all later passes; the capture list is dropped (by-reference captures name
            the same locals, by-value captures only keep the buffer alive).
hook_before_loops  RAII scope exit of lock guards (shared text raii.py, see units/sync_ondata/plugin.py)."""
import importlib.util
import os
from vt.lexer import Tok, match_close
from vt.x2c import ExtractionBreak

_sp = importlib.util.spec_from_file_location('http_response_raii', os.path.join(os.path.dirname(os.path.abspath(__file__)), 'raii.py'))
_raii = importlib.util.module_from_spec(_sp)
_sp.loader.exec_module(_raii)


def _split_args(t):
    parts, cur, i = [], [], 0
    while i < len(t):
        x = t[i]
        if x.kind not in ('str', 'chr', 'expr') and x.text in ('(', '[', '{'):
            j = match_close(t, i)
            cur += t[i:j + 1]
            i = j + 1
            continue
        if x.kind == 'op' and x.text == ',':
            parts.append(cur)
            cur = []
        else:
            cur.append(x)
        i += 1
    parts.append(cur)
    return parts


def hook_begin(t, rw):
    out = []
    i = 0
    n = 0
    while i < len(t):
        if t[i].text == '_transport' and i + 3 < len(t) and t[i + 1].text == '->' and t[i + 2].text == 'sendAsync' and t[i + 3].text == '(':
            rp = match_close(t, i + 3)
            args = _split_args(t[i + 4:rp])
            L = t[i].line
            if len(args) != 4 or not args[3] or args[3][0].text != '[':
                raise ExtractionBreak(f"{rw.prefix}: sendAsync call at line {L} is not (sid, data, len, [..](..){{..}})")
            lam = args[3]
            cb = match_close(lam, 0)
            if lam[cb + 1].text != '(':
                raise ExtractionBreak(f"{rw.prefix}: completion lambda at line {L} has no parameter list")
            prp = match_close(lam, cb + 1)
            params = _split_args(lam[cb + 2:prp])
            if lam[prp + 1].text != '{' or match_close(lam, prp + 1) != len(lam) - 1:
                raise ExtractionBreak(f"{rw.prefix}: completion lambda at line {L}: unexpected shape")
            body = lam[prp + 2:len(lam) - 1]
            if len(params) != 2:
                raise ExtractionBreak(f"{rw.prefix}: completion lambda at line {L}: expected (SessionId, const SendResult &)")

            def pname(p):
                return p[-1].text if len(p) >= 2 and p[-1].kind == 'id' and p[-1].text not in ('SessionId', 'SendResult') else None
            sname, rname = pname(params[0]), pname(params[1])
            F = lambda s: Tok('id', s, L, final=True)
            O = lambda s: Tok('op', s, L)
            out += [O('{'), F('iora_send_result'), Tok('id', rname or 'iora_completion_result', L), O('='), F('iora_transport_sendAsync'), O('('), F('self'), O(',')]
            out += args[0] + [O(',')] + args[1] + [O(',')] + args[2] + [O(')'), O(';')]
            if sname:
                out += [F('SessionId'), Tok('id', sname, L), O('=')] + args[0] + [O(';')]
            out += body + [O('}')]
            n += 1
            i = rp + 1
            continue
        out.append(t[i])
        i += 1
    rw.R.fire('R21s completion lambda inlined', n)
    return out


def hook_before_loops(t, rw):
    return _raii.hook_before_loops(t, rw)
