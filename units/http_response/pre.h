/* unit http_response (property C16): type environment, ghost transport, handler / hook stubs.  Abstract strings and header map: http_shims.h */

/* ---- exceptions (R8) ---- */
#define EXC_exception 1           /* std::exception (base): matches every EXC_* except EXC_other */
#define EXC_HttpRequestError 2    /* parsers::HttpRequestError (carries a status) */
#define EXC_other 3               /* a thrown object not derived from std::exception: only `catch (...)` */
#define iora_isa(e, T) ((e) != EXC_NONE && ((T) == EXC_exception ? (e) != EXC_other : (e) == (T)))
typedef struct { int type; int status; } iora_excobj;       /* the object bound by `catch (const std::exception &ex)` */

/* ---- struct HttpServer::Response / Request, parsers::HttpResponse, DispatchDecision, SessionInfo (fields the code under contract uses) ---- */
typedef struct { int status; iora_hdrs headers; iora_astr body; bool _suppressSend; } Response;
static inline Response Response_default(void) { Response r; r.status = 200; for (int i = 0; i < HK_COUNT; i++) { r.headers.s[i].has = 0; r.headers.s[i].v = iora_astr_DEFAULT; } r.body = iora_astr_DEFAULT; r._suppressSend = 0; return r; }
#define Response_DEFAULT Response_default()
typedef struct { int statusCode; iora_astr statusText; iora_hdrs headers; iora_astr body; } HttpResponse;
static inline HttpResponse HttpResponse_make(int code, iora_astr text)
{ HttpResponse r; r.statusCode = code; r.statusText = text; for (int i = 0; i < HK_COUNT; i++) { r.headers.s[i].has = 0; r.headers.s[i].v = iora_astr_DEFAULT; } r.body = iora_astr_DEFAULT; return r; }
#define HttpResponse_DEFAULT HttpResponse_make(200, iora_lit("OK"))
typedef struct { int method; iora_astr path; iora_hdrs headers; iora_astr body; SessionId sid; } Request;
enum { Cat_MATCHED, Cat_MATCHED_AS_HEAD, Cat_AUTO_OPTIONS, Cat_OPTIONS_STAR, Cat_METHOD_NOT_ALLOWED, Cat_NO_ROUTE };   /* DispatchDecision::Cat */
typedef struct { int cat; iora_fn handler; iora_astr allow; bool hasHandler; } DispatchDecision;
typedef struct { iora_astr httpVersion; bool connectionKeepAlive; } SessionInfo;
static inline SessionInfo SessionInfo_default(void) { SessionInfo s; s.httpVersion = iora_lit("1.1"); s.connectionKeepAlive = 1; return s; }
IORA_GMAP1(iora_simap, SessionId, SessionInfo, SessionInfo_default())
static inline void iora_simap_havoc_other(iora_simap *m)
{ m->other.httpVersion.id = nondet_int(); m->other.httpVersion.lcid = m->other.httpVersion.id; m->other.connectionKeepAlive = nondet_bool(); }
typedef struct HttpServer { iora_mutex _mutex; iora_mutex _sessionMutex; iora_simap _sessionInfo; bool _transport; bool _shutdown; } HttpServer;

/* ---- ghost transport: records what the server enqueues. sendAsync's completion runs synchronously, once (plugin.py R21s, TcpEngine::sendAsync) ---- */
typedef struct { bool ok; } iora_send_result;
static inline bool iora_send_result_isOk(const iora_send_result *r) { return r->ok; }
#define WIRE_ID 0xFFFF0001u
unsigned G_sends, G_closes, G_wire_calls; SessionId G_send_sid, G_close_sid; HttpResponse G_wire_src, G_sent; bool G_send_ok, G_close_after_send;
#define LOCKFREE(s) (!(s)->_mutex.held && !(s)->_sessionMutex.held)
/* HttpResponse::toWireFormat(): status line, every header, blank line, body - not under contract here; the stub remembers WHAT was serialised */
static inline iora_astr iora_toWireFormat(const HttpResponse *r)
{
  G_wire_src = *r; if (G_wire_calls < 1000) G_wire_calls++;
  iora_astr w = iora_astr_DEFAULT; w.n = nondet_size_t(); IORA_ASSUME(w.n >= r->body.n); w.id = WIRE_ID; w.lcid = WIRE_ID;
  return w;
}
static iora_astr G_shared;
static inline iora_astr *iora_shared_str(iora_astr s) { G_shared = s; return &G_shared; }
static inline bool iora_tp(const HttpServer *s) { IORA_ASSERT(s->_mutex.held, "LK3 _transport is tested with _mutex held"); return s->_transport; }
static inline iora_send_result iora_transport_sendAsync(HttpServer *s, SessionId sid, const iora_astr *data, size_t len)
{
  IORA_ASSERT(s->_mutex.held && s->_transport, "LK3 _transport is used with _mutex held and non-null");
  IORA_ASSERT(data->id == WIRE_ID && len == data->n, "SND1 one sendAsync carries exactly one whole serialised response");
  if (G_sends < 1000) G_sends++;
  G_send_sid = sid; G_sent = G_wire_src;
  iora_send_result r; r.ok = nondet_bool(); G_send_ok = r.ok;
  return r;
}
static inline bool iora_transport_close(HttpServer *s, SessionId sid)
{
  IORA_ASSERT(s->_mutex.held && s->_transport, "LK3 _transport is used with _mutex held and non-null");
  if (G_closes < 1000) G_closes++;
  G_close_sid = sid; G_close_after_send = G_sends > 0;
  return nondet_bool();
}

/* ---- R21: the user's route handler. Arbitrary user code: any status, any _suppressSend, and then returns or throws.
 * G_h_api = "the handler sets its content only through the response API" (property C16): it may call set_content (the EXTRACTED function) with any
 * content, but does not write res.body or the Content-Length header by hand. Otherwise body and Content-Length are arbitrary. ---- */
void Response_set_content(Response *self, iora_astr content, iora_astr contentType);
unsigned G_h_calls; bool G_h_api, G_h_threw, G_h_suppress; int G_h_exc;
static inline iora_astr nondet_astr(void)
{ iora_astr a; a.n = nondet_size_t(); a.id = nondet_int(); a.lcid = nondet_int(); a.isnum = nondet_bool(); a.num = nondet_size_t(); IORA_ASSUME(a.n <= ((size_t)1 << 50)); return a; }
static inline void iora_call_Handler(HttpServer *s, iora_fn h, const Request *req, Response *res)
{
  (void)req;
  IORA_ASSERT(LOCKFREE(s), "CB2 the handler runs with no server lock held");
  if (G_h_calls < 1000) G_h_calls++;
  if (!h.set) { iora_exc = EXC_exception; G_h_threw = 1; return; }      /* empty std::function: bad_function_call */
  res->status = nondet_int();
  res->headers.s[HK_CONTENT_TYPE].has = nondet_bool(); res->headers.s[HK_CONTENT_TYPE].v = nondet_astr();
  res->headers.s[HK_ALLOW].has = nondet_bool(); res->headers.s[HK_SERVER].has = nondet_bool(); res->headers.s[HK_CONNECTION].has = nondet_bool();
  res->headers.s[HK_CONNECTION].v = nondet_astr();
  if (G_h_api) { if (nondet_bool()) Response_set_content(res, nondet_astr(), nondet_astr()); }
  else { res->body = nondet_astr(); res->headers.s[HK_CONTENT_LENGTH].has = nondet_bool(); res->headers.s[HK_CONTENT_LENGTH].v = nondet_astr(); }
  G_h_suppress = nondet_bool(); res->_suppressSend = G_h_suppress;
  if (G_h_threw) { iora_exc = G_h_exc; }
}
/* virtual hook onResponseSuppressed(sid, req, res): a subclass decision (SSE); arbitrary boolean, assumed not to throw and not to modify res */
unsigned G_hook_calls; bool G_hook_ret;
static inline bool HttpServer_onResponseSuppressed(HttpServer *s, SessionId sid, const Request *req, const Response *res)
{ (void)sid; (void)req; (void)res; IORA_ASSERT(LOCKFREE(s), "CB2 the hook runs with no server lock held"); if (G_hook_calls < 1000) G_hook_calls++; return G_hook_ret; }
/* getStatusText(status): some reason phrase */
static inline iora_astr HttpServer_getStatusText(HttpServer *s, int status) { (void)s; (void)status; iora_astr a = nondet_astr(); IORA_ASSUME(a.n <= 64); return a; }
