/* Shims of unit http_response: abstract strings, the HTTP header map restricted to the header names the code under contract names
 * literally, HttpResponse, the session table entry, the transport handle.  Requires iora_monitor.h, iora_gmap1.h.
 *
 * iora_astr - std::string, CONTENT-ABSTRACTED: length n, a content identifier `id` (two strings are equal iff their ids are equal), the
 *   identifier `lcid` of the ASCII-lower-cased string, and - when the string is the decimal text of a number (std::to_string) - that number.
 *   String LITERALS are turned into iora_astr by iora_lit("...") which computes all four from the literal's characters (a hash as id),
 *   so the comparisons the code makes against literals ("close", "1.0") are decided exactly up to hash collisions among the < 30 literals
 *   of the unit (checked pairwise distinct in post.c). */
#ifndef HTTP_SHIMS_H
#define HTTP_SHIMS_H
typedef struct { size_t n; unsigned id; unsigned lcid; bool isnum; size_t num; } iora_astr;
#define iora_astr_DEFAULT ((iora_astr){0, 5381u, 5381u, 0, 0})
static inline iora_astr iora_lit(const char *s)
{
  iora_astr a = iora_astr_DEFAULT; bool digits = 1; size_t v = 0;
  for (unsigned i = 0; i < 96 && s[i]; i++)
  {
    unsigned char c = (unsigned char)s[i], l = (c >= 65 && c <= 90) ? (unsigned char)(c + 32) : c;
    a.id = a.id * 33u ^ c; a.lcid = a.lcid * 33u ^ l; a.n++;
    if (c >= 48 && c <= 57) v = v * 10 + (c - 48); else digits = 0;
  }
  a.isnum = digits && a.n > 0; a.num = a.isnum ? v : 0;
  return a;
}
/* std::to_string(n): the decimal text of n. Its identifier is a function of n alone (the literal "0" and to_string(0) are the same string). */
static inline iora_astr iora_astr_of_num(size_t v)
{
  iora_astr a; a.isnum = 1; a.num = v;
  if (v < 10) { a.n = 1; a.id = 5381u * 33u ^ (unsigned)(48 + v); a.lcid = a.id; }
  else { a.n = nondet_size_t(); IORA_ASSUME(a.n >= 2 && a.n <= 20); a.id = 0x80000000u | (unsigned)(v & 0x7fffffffu); a.lcid = a.id; }
  return a;
}
static inline size_t iora_astr_size(const iora_astr *a) { return a->n; }
static inline bool iora_astr_empty(const iora_astr *a) { return a->n == 0; }
static inline void iora_astr_clear(iora_astr *a) { *a = iora_astr_DEFAULT; }
static inline const iora_astr *iora_astr_data(const iora_astr *a) { return a; }          /* data(): the string itself stands for its bytes */
static inline bool iora_astr_eq(iora_astr a, iora_astr b) { return a.id == b.id; }
/* dst = std::move(src): libstdc++ leaves the moved-from string empty (the standard: valid but unspecified) */
static inline void iora_astr_move_assign(iora_astr *dst, iora_astr *src) { *dst = *src; *src = iora_astr_DEFAULT; }
/* std::transform(s.begin(), s.end(), s.begin(), ::tolower) */
static inline void iora_astr_tolower(iora_astr *a) { a->id = a->lcid; }

/* HttpHeaders = std::map<std::string, std::string, CaseInsensitiveCompare>, restricted to the names the code under contract uses literally.
 * Lookup is by the lower-cased identifier of the key (the comparator is case-insensitive). Other headers (set by a handler) are not
 * modelled: none of the code under contract reads or removes them. */
enum { HK_CONTENT_LENGTH, HK_CONTENT_TYPE, HK_ALLOW, HK_SERVER, HK_CONNECTION, HK_COUNT };
typedef struct { bool has; iora_astr v; } iora_hslot;
typedef struct { iora_hslot s[HK_COUNT]; } iora_hdrs;
typedef struct { bool found; iora_astr *second; } iora_hdrs_iter;
static inline int iora_hk(iora_astr k)
{
  if (k.lcid == iora_lit("content-length").id) return HK_CONTENT_LENGTH;
  if (k.lcid == iora_lit("content-type").id) return HK_CONTENT_TYPE;
  if (k.lcid == iora_lit("allow").id) return HK_ALLOW;
  if (k.lcid == iora_lit("server").id) return HK_SERVER;
  if (k.lcid == iora_lit("connection").id) return HK_CONNECTION;
  IORA_ASSERT(0, "HK0 header name outside the modelled set (extend http_shims.h)");
  return HK_SERVER;
}
static inline iora_astr *iora_hdrs_index(iora_hdrs *h, iora_astr k)       /* h[k]: inserts an empty value when absent */
{ int i = iora_hk(k); if (!h->s[i].has) { h->s[i].has = 1; h->s[i].v = iora_astr_DEFAULT; } return &h->s[i].v; }
static inline size_t iora_hdrs_erase(iora_hdrs *h, iora_astr k) { int i = iora_hk(k); bool p = h->s[i].has; h->s[i].has = 0; return p; }
static inline iora_hdrs_iter iora_hdrs_find(iora_hdrs *h, iora_astr k) { int i = iora_hk(k); iora_hdrs_iter it = { h->s[i].has, &h->s[i].v }; return it; }

typedef struct { bool set; } iora_fn;                         /* std::function: empty or holding a user callable */
#define iora_fn_DEFAULT ((iora_fn){0})
typedef uint64_t SessionId;
#endif
