/* Contracts for the response side of HttpServer (property C16), written from the property text:
 *   "every complete request receives exactly one response ... bytes of different responses never interleave. Each response is self-consistent on
 *    the wire: when a handler sets its content through the response API the Content-Length equals the body bytes that follow, responses to HEAD
 *    carry no body, a handler that throws yields a 500, and a request that cannot be parsed yields an error status or a closed connection ...
 *    A request asking for Connection: close is followed by the server closing the connection after that response."
 * All targets are loop-free: every harness is a complete proof over the full symbolic domain. "On the wire" = the HttpResponse object handed to
 * toWireFormat() and then, whole, to exactly one sendAsync (G_sent); toWireFormat itself (ostringstream) is not under contract. */
#define HAS(h, k) ((h).s[k].has)
#define VAL(h, k) ((h).s[k].v)
#define CL_OK(r) (HAS((r).headers, HK_CONTENT_LENGTH) ? (VAL((r).headers, HK_CONTENT_LENGTH).isnum && VAL((r).headers, HK_CONTENT_LENGTH).num == (r).body.n) : (r).body.n == 0)

static void wire(HttpServer *srv, SessionId W)
{
  srv->_mutex.held = 0; srv->_sessionMutex.held = 0;           /* a pool worker enters holding no server lock */
  srv->_sessionInfo.guard = &srv->_sessionMutex; srv->_sessionInfo.wkey = W;
  srv->_sessionInfo.present = nondet_bool(); srv->_sessionInfo.wval.connectionKeepAlive = nondet_bool();
  srv->_transport = nondet_bool(); srv->_shutdown = nondet_bool();
  G_sends = 0; G_closes = 0; G_wire_calls = 0; G_h_calls = 0; G_hook_calls = 0; G_close_after_send = 0; G_send_ok = 0;
  G_h_api = nondet_bool(); G_h_threw = nondet_bool(); G_hook_ret = nondet_bool(); G_h_suppress = 0;
  IORA_TRUE = 1;
  G_h_exc = nondet_int(); __CPROVER_assume(G_h_exc == EXC_exception || G_h_exc == EXC_HttpRequestError || G_h_exc == EXC_other);
  iora_exc = EXC_NONE;
}
static Response nondet_response(void)
{
  Response r; r.status = nondet_int(); r._suppressSend = nondet_bool(); r.body = nondet_astr();
  for (int i = 0; i < HK_COUNT; i++) { r.headers.s[i].has = nondet_bool(); r.headers.s[i].v = nondet_astr(); }
  return r;
}

/* the literals the code compares against / uses as header names have pairwise different identifiers (no hash collision in the model) */
void h_literals(void)
{
  const char *L[] = { "close", "keep-alive", "1.0", "1.1", "content-length", "content-type", "allow", "server", "connection", "0", "" };
  for (int i = 0; i < 11; i++) for (int j = i + 1; j < 11; j++) __CPROVER_assert(iora_lit(L[i]).lcid != iora_lit(L[j]).lcid, "LIT literal identifiers are pairwise distinct");
  __CPROVER_assert(iora_lit("0").isnum && iora_lit("0").num == 0 && iora_lit("0").id == iora_astr_of_num(0).id, "LIT \"0\" is the decimal text of 0");
  __CPROVER_assert(iora_lit("Connection").lcid == iora_lit("connection").id && iora_lit("CLOSE").lcid == iora_lit("close").id, "LIT lower-casing");
  IORA_CANARY("h_literals: reachable");
}

/* ---- Response::set_content (both overloads) ---- */
void h_set_content(void)
{
  Response r = nondet_response(), r0 = r; iora_astr content = nondet_astr(), type = nondet_astr();
  if (nondet_bool()) { Response_set_content(&r, content, type); IORA_CANARY("h_set_content: const& overload"); }
  else { Response_set_content_move(&r, content, type); IORA_CANARY("h_set_content: && overload"); }
  __CPROVER_assert(r.body.n == content.n && r.body.id == content.id, "SC1 the body is the content");
  __CPROVER_assert(HAS(r.headers, HK_CONTENT_LENGTH) && VAL(r.headers, HK_CONTENT_LENGTH).isnum && VAL(r.headers, HK_CONTENT_LENGTH).num == r.body.n, "SC2 Content-Length is the decimal text of the body size");
  __CPROVER_assert(HAS(r.headers, HK_CONTENT_TYPE) && VAL(r.headers, HK_CONTENT_TYPE).id == type.id, "SC3 Content-Type is the given type");
  __CPROVER_assert(r.status == r0.status && r._suppressSend == r0._suppressSend && HAS(r.headers, HK_ALLOW) == HAS(r0.headers, HK_ALLOW)
                   && HAS(r.headers, HK_CONNECTION) == HAS(r0.headers, HK_CONNECTION) && HAS(r.headers, HK_SERVER) == HAS(r0.headers, HK_SERVER), "SC4 nothing else changes");
}

/* ---- invokeWithSafetyNet ---- */
void h_safety_net(void)
{
  HttpServer srv; wire(&srv, nondet_u64());
  Request req; Response r = nondet_response(), r0 = r; iora_fn h; h.set = nondet_bool();
  HttpServer_invokeWithSafetyNet(&srv, h, &req, &r);
  IORA_CANARY("h_safety_net: returns");
  __CPROVER_assert(iora_exc == EXC_NONE, "SN1 no exception escapes the safety net (std::exception, anything else, empty handler)");
  __CPROVER_assert(G_h_calls == 1, "SN2 the handler is invoked exactly once");
  if (G_h_threw)
  {
    IORA_CANARY("h_safety_net: handler threw");
    __CPROVER_assert(r.status == 500, "SN3 a handler that throws yields status 500");
    __CPROVER_assert(CL_OK(r) && r.body.n > 0, "SN4 ... with a body set through set_content (Content-Length == body size)");
    __CPROVER_assert(!r._suppressSend, "SN5 ... and suppression is cleared, so the 500 is sent");
  }
  else
  {
    IORA_CANARY("h_safety_net: handler returned");
    __CPROVER_assert(r._suppressSend == G_h_suppress, "SN6 otherwise the response is what the handler left");
  }
}

/* expected close decision, from the property / RFC 9112 9.6: the request carries `Connection: close` (any case), or the session is HTTP/1.0 /
 * not keep-alive according to the session table */
#define REQ_CLOSE(req) (HAS((req).headers, HK_CONNECTION) && VAL((req).headers, HK_CONNECTION).lcid == iora_lit("close").id)
#define SES_CLOSE(srv) ((srv).present && ((srv).wval.httpVersion.id == iora_lit("1.0").id || !(srv).wval.connectionKeepAlive))

static Request nondet_request(SessionId sid)
{
  Request q; q.method = nondet_int(); __CPROVER_assume(q.method >= HttpMethod_GET && q.method <= HttpMethod_TRACE);
  q.sid = sid; q.path = nondet_astr(); q.body = nondet_astr();
  for (int i = 0; i < HK_COUNT; i++) { q.headers.s[i].has = nondet_bool(); q.headers.s[i].v = nondet_astr(); }
  return q;
}

/* ---- dispatch switch + suppression + HEAD block + close decision + build + send + close (the tail of the try block) ---- */
void h_respond(void)
{
  HttpServer srv; SessionId sid = nondet_u64(); wire(&srv, sid);
  srv._sessionInfo.wval.httpVersion = nondet_astr();
  Request req = nondet_request(sid), req0 = req;
  DispatchDecision d; d.cat = nondet_int(); __CPROVER_assume(d.cat >= Cat_MATCHED && d.cat <= Cat_NO_ROUTE);
  d.handler.set = nondet_bool(); d.allow = nondet_astr(); d.hasHandler = nondet_bool();
  HttpServer srv0 = srv;
  bool ran = d.cat == Cat_MATCHED || (d.cat == Cat_NO_ROUTE && d.hasHandler);
  bool invoked = ran || d.cat == Cat_MATCHED_AS_HEAD;

  HttpServer_respond(&srv, sid, &req, d);
  IORA_CANARY("h_respond: returns");

  bool threw = invoked && G_h_threw;
  bool suppressed = ran && ((G_h_suppress && !threw) || G_hook_ret);
  bool can_send = srv0._transport && !srv0._shutdown;
  bool want_close = REQ_CLOSE(req0) || SES_CLOSE(srv0._sessionInfo);
  __CPROVER_assert(LOCKFREE(&srv) && iora_exc == EXC_NONE, "LK5 no server lock is held at the end, no exception escapes");
  __CPROVER_assert(G_h_calls == (invoked ? 1 : 0), "H1 the handler runs exactly once on MATCHED / MATCHED_AS_HEAD / NO_ROUTE-with-default-handler, never otherwise");
  __CPROVER_assert(srv._transport == srv0._transport && srv._shutdown == srv0._shutdown, "F1 server state untouched");
  if (suppressed)
  {
    IORA_CANARY("h_respond: suppressed");
    __CPROVER_assert(G_sends == 0 && G_closes == 0, "N0 suppressed (handler took over the connection): nothing is sent, nothing is closed");
    return;
  }
  if (!can_send)
  {
    IORA_CANARY("h_respond: shutdown / no transport");
    __CPROVER_assert(G_sends == 0 && G_closes == 0, "N1 shutting down or transport gone: nothing is sent, nothing is closed");
    return;
  }
  IORA_CANARY("h_respond: response sent");
  __CPROVER_assert(G_sends == 1 && G_send_sid == sid && G_wire_calls == 1, "N2 EXACTLY ONE sendAsync, to the request's session, of the one serialised response");
  /* well-formedness of what was sent */
  if (req0.method == HttpMethod_HEAD)
  {
    IORA_CANARY("h_respond: HEAD");
    __CPROVER_assert(G_sent.body.n == 0, "HD1 a response to HEAD carries no body, on every terminal path");
    __CPROVER_assert(!(G_sent.statusCode == 204 || G_sent.statusCode == 304) || !HAS(G_sent.headers, HK_CONTENT_LENGTH), "HD2 HEAD with 204/304: no Content-Length");
    __CPROVER_assert(!(!invoked || G_h_api || threw) || !HAS(G_sent.headers, HK_CONTENT_LENGTH) || VAL(G_sent.headers, HK_CONTENT_LENGTH).isnum, "HD3 a retained Content-Length is a number (the size a GET would return)");
  }
  else if (!invoked || G_h_api || threw)
  {
    IORA_CANARY("h_respond: content set through the API");
    __CPROVER_assert(CL_OK(G_sent), "CL1 content set through the response API (or by the server itself): Content-Length == size of the body that follows; no Content-Length ==> no body");
  }
  __CPROVER_assert(!threw || G_sent.statusCode == 500, "E500 a handler that throws yields a 500");
  __CPROVER_assert(d.cat != Cat_METHOD_NOT_ALLOWED || (G_sent.statusCode == 405 && HAS(G_sent.headers, HK_ALLOW) && VAL(G_sent.headers, HK_ALLOW).id == d.allow.id), "T405 405 with the Allow list");
  __CPROVER_assert(d.cat != Cat_AUTO_OPTIONS || (G_sent.statusCode == 204 && G_sent.body.n == 0 && !HAS(G_sent.headers, HK_CONTENT_LENGTH) && !HAS(G_sent.headers, HK_CONTENT_TYPE) && HAS(G_sent.headers, HK_ALLOW)), "T204 automatic OPTIONS: 204, no body, no Content-Length/Type, Allow");
  __CPROVER_assert(d.cat != Cat_OPTIONS_STAR || (G_sent.statusCode == 200 && G_sent.body.n == 0 && HAS(G_sent.headers, HK_CONTENT_LENGTH) && VAL(G_sent.headers, HK_CONTENT_LENGTH).num == 0 && !HAS(G_sent.headers, HK_ALLOW)), "TOPT OPTIONS *: 200, Content-Length 0");
  __CPROVER_assert(!(d.cat == Cat_NO_ROUTE && !d.hasHandler) || G_sent.statusCode == 404, "T404 no route, no default handler: 404");
  /* connection management */
  __CPROVER_assert(HAS(G_sent.headers, HK_SERVER) && HAS(G_sent.headers, HK_CONNECTION), "CN0 Server and Connection headers are set");
  __CPROVER_assert(VAL(G_sent.headers, HK_CONNECTION).id == (want_close ? iora_lit("close").id : iora_lit("keep-alive").id), "CN1 the response says `Connection: close` exactly when the connection will be closed");
  __CPROVER_assert(!(want_close && G_send_ok) || (G_closes == 1 && G_close_sid == sid && G_close_after_send), "CN2 `Connection: close` requested (or HTTP/1.0 / non-keep-alive session): the server closes the connection AFTER the response was enqueued");
  __CPROVER_assert(G_send_ok || (G_closes == 1 && G_close_sid == sid), "CN3 the response could not be enqueued: the connection is closed (never left waiting with neither)");
  __CPROVER_assert(!(G_send_ok && !want_close) || G_closes == 0, "CN4 keep-alive: the connection stays open");
  if (want_close) { IORA_CANARY("h_respond: close"); } else { IORA_CANARY("h_respond: keep-alive"); }
  if (threw) { IORA_CANARY("h_respond: handler threw"); }
}

/* ---- the catch block of processHttpRequest ---- */
void h_catch(void)
{
  HttpServer srv; SessionId sid = nondet_u64(); wire(&srv, nondet_u64());
  iora_excobj ex; ex.type = nondet_int(); ex.status = nondet_int();
  __CPROVER_assume(ex.type == EXC_exception || ex.type == EXC_HttpRequestError);      /* what `catch (const std::exception &)` can bind */
  HttpServer srv0 = srv;
  HttpServer_catch_path(&srv, sid, ex);
  IORA_CANARY("h_catch: returns");
  __CPROVER_assert(LOCKFREE(&srv) && iora_exc == EXC_NONE, "LK5 no server lock is held at the end");
  if (!(srv0._transport && !srv0._shutdown))
  {
    IORA_CANARY("h_catch: shutdown / no transport");
    __CPROVER_assert(G_sends == 0 && G_closes == 0, "N1 shutting down or transport gone: nothing is sent, nothing is closed");
    return;
  }
  __CPROVER_assert(G_sends == 1 && G_send_sid == sid && G_wire_calls == 1, "N2 EXACTLY ONE sendAsync on the catch path");
  __CPROVER_assert(G_sent.statusCode == (ex.type == EXC_HttpRequestError ? ex.status : 500), "EM1 HttpRequestError maps to its status, every other exception to 500");
  __CPROVER_assert(CL_OK(G_sent) && HAS(G_sent.headers, HK_CONTENT_LENGTH), "CL1 Content-Length == size of the body that follows");
  __CPROVER_assert(HAS(G_sent.headers, HK_CONNECTION) && VAL(G_sent.headers, HK_CONNECTION).id == iora_lit("close").id, "CN1 the error response says `Connection: close`");
  __CPROVER_assert(G_closes == 1 && G_close_sid == sid && G_close_after_send, "CN2 ... and the connection is always closed after it");
  if (ex.type == EXC_HttpRequestError) { IORA_CANARY("h_catch: HttpRequestError"); } else { IORA_CANARY("h_catch: other exception"); }
}

/* ---- the shutdown (503) block ---- */
void h_shutdown(void)
{
  HttpServer srv; SessionId sid = nondet_u64(); wire(&srv, nondet_u64());
  HttpServer srv0 = srv;
  HttpServer_shutdown_path(&srv, sid);
  IORA_CANARY("h_shutdown: returns");
  __CPROVER_assert(LOCKFREE(&srv), "LK5 no server lock is held at the end");
  if (!srv0._transport) { IORA_CANARY("h_shutdown: no transport"); __CPROVER_assert(G_sends == 0 && G_closes == 0, "N1 transport gone: nothing"); return; }
  __CPROVER_assert(G_sends == 1 && G_send_sid == sid && G_sent.statusCode == 503 && CL_OK(G_sent) && HAS(G_sent.headers, HK_CONTENT_LENGTH), "SD1 exactly one well-formed 503");
  __CPROVER_assert(VAL(G_sent.headers, HK_CONNECTION).id == iora_lit("close").id && G_closes == 1 && G_close_sid == sid && G_close_after_send, "SD2 `Connection: close`, and the connection is closed after it");
}

/* ---- one request = try { <prefix: parse, query, upgrade check, classify - NOT under contract>; respond } catch (std::exception) { catch_path }.
 * The composition mirrors the try/catch of processHttpRequest by hand: `prefix_throws` stands for an exception raised before the response tail
 * (HttpRequest::fromWireFormat rejecting the request, classifyRequest, ...). Nothing in the tail throws in this model (the handler's exceptions are
 * consumed by the safety net, SN1), so the catch block never runs after a send. ---- */
void h_request(void)
{
  HttpServer srv; SessionId sid = nondet_u64(); wire(&srv, sid);
  srv._sessionInfo.wval.httpVersion = nondet_astr();
  Request req = nondet_request(sid);
  DispatchDecision d; d.cat = nondet_int(); __CPROVER_assume(d.cat >= Cat_MATCHED && d.cat <= Cat_NO_ROUTE);
  d.handler.set = nondet_bool(); d.allow = nondet_astr(); d.hasHandler = nondet_bool();
  bool prefix_throws = nondet_bool(); iora_excobj ex; ex.type = nondet_int(); ex.status = nondet_int();
  __CPROVER_assume(ex.type == EXC_exception || ex.type == EXC_HttpRequestError);
  HttpServer srv0 = srv;
  bool ran = d.cat == Cat_MATCHED || (d.cat == Cat_NO_ROUTE && d.hasHandler);
  if (prefix_throws) { HttpServer_catch_path(&srv, sid, ex); IORA_CANARY("h_request: catch path"); }
  else { HttpServer_respond(&srv, sid, &req, d); if (iora_exc) { HttpServer_catch_path(&srv, sid, ex); } IORA_CANARY("h_request: normal path"); }
  bool threw = !prefix_throws && G_h_calls == 1 && G_h_threw;
  bool suppressed = !prefix_throws && ran && ((G_h_suppress && !threw) || G_hook_ret);
  __CPROVER_assert(G_sends == ((srv0._transport && !srv0._shutdown && !suppressed) ? 1 : 0), "ONE exactly one sendAsync per request on every non-suppressed, non-shutdown path (normal and catch), none otherwise");
  __CPROVER_assert(G_closes <= 1 && (G_closes == 0 || G_close_after_send), "ONEC at most one close, and only after the response");
  __CPROVER_assert(!prefix_throws || !(srv0._transport && !srv0._shutdown) || (G_sent.statusCode == (ex.type == EXC_HttpRequestError ? ex.status : 500) && G_closes == 1), "ERR an unparsable request yields an error status AND a closed connection");
}
