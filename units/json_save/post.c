/* Contracts of unit json_save (C11, JSON file store). */
#define IMPL(a, b) (!(a) || (b))
#define JS_SETUP \
  JsonFileStore st; st._filename = JS_PATH_LIVE; st._dirty = nondet_bool(); \
  G_fs.live = LIVE_OLD; G_fs.tmp = nondet_int(); __CPROVER_assume(G_fs.tmp == TMP_NONE || G_fs.tmp == TMP_PARTIAL || G_fs.tmp == TMP_COMPLETE);   /* a stale temporary of an earlier crash */ \
  G_tmp_data = nondet_bool(); G_renames = 0; G_tmp_opened = false; G_dump_threw = false; iora_exc = EXC_NONE; IORA_TRUE = 1; bool dirty0 = st._dirty;

/* proof "save_to_file" */
void h_save_to_file(void)
{
  JS_SETUP
  (void)JsonFileStore_saveToFile(&st);      /* its result (K10 repair) is judged through flush(): clauses DIRTY / DIRTY2 */
  IORA_CANARY("h_save_to_file: returns");
  if (G_fs.live == LIVE_NEW) { IORA_CANARY("h_save_to_file: new content in place"); }
  if (G_fs.live == LIVE_OLD) { IORA_CANARY("h_save_to_file: failed, old content kept"); }
  __CPROVER_assert(JS_ADMISSIBLE, "END after saveToFile (completed or failed) the live file holds the old or the new content");
  __CPROVER_assert(iora_exc == EXC_NONE, "NOTHROW saveToFile does not throw (it runs in the destructor and on the background thread)");
  __CPROVER_assert(IMPL(G_tmp_opened && G_fs.live != LIVE_NEW && !G_dump_threw, G_fs.tmp == TMP_NONE), "TMP1 a failed write or rename removes the temporary file");
  __CPROVER_assert(IMPL(G_tmp_opened && G_fs.live != LIVE_NEW, G_fs.tmp != TMP_COMPLETE), "TMP2 no complete-looking temporary is ever left behind by a failed flush");
  __CPROVER_assert(IMPL(G_fs.live == LIVE_NEW, G_fs.tmp == TMP_NONE && G_renames == 1), "OK1 success: exactly one rename, no temporary left");
  __CPROVER_assert(st._dirty == dirty0, "FRAME saveToFile does not touch the dirty mark");
}
/* proof "flush_dirty": flush() / tryFlushIfDirty() */
void h_flush_dirty(void)
{
  JS_SETUP
  if (nondet_bool()) JsonFileStore_flush(&st); else JsonFileStore_tryFlushIfDirty(&st);
  IORA_CANARY("h_flush_dirty: returns");
  if (dirty0 && !st._dirty) { IORA_CANARY("h_flush_dirty: flushed"); }
  __CPROVER_assert(JS_ADMISSIBLE && iora_exc == EXC_NONE, "END2 flush: live file old or new, no exception");
  __CPROVER_assert(IMPL(!dirty0, G_fs.live == LIVE_OLD && G_renames == 0 && !st._dirty), "CLEAN a clean store is not rewritten");
  __CPROVER_assert(IMPL(dirty0 && G_fs.live == LIVE_NEW, !st._dirty), "DIRTY2 a successful flush clears the dirty mark");
}

/* ------------------------------------------------------------------ OBSERVATION K10 (proof "flush_failed_observation", "tier": "off": NOT part of the registered check)
 * Clause DIRTY: flush() clears the dirty mark only when the live file holds the current content (a failed flush stays dirty and is retried by the next
 * flush(), the background thread or the destructor).  The failing histories are I/O-error histories (open/write/close/rename fails), which C11 does not
 * quantify over (process-crash points only) - by the coordinator's ruling on K7 the clause demands more than the property states.  Native demo: replay.cpp
 * SCENARIO K10; repair: repair_K10.diff (with it the clause holds). */
void h_flush_failed_observation(void)
{
  JS_SETUP
  if (nondet_bool()) JsonFileStore_flush(&st); else JsonFileStore_tryFlushIfDirty(&st);
  IORA_CANARY("h_flush_failed_observation: returns");
  __CPROVER_assert(IMPL(dirty0 && !st._dirty, G_fs.live == LIVE_NEW), "DIRTY a COMPLETED flush (dirty mark cleared) means the live file holds the current content; a failed flush stays dirty and is retried");
}
