// REPLAY adapter for unit json_save (C11, JsonFileStore). SCENARIO K2 | K10 (default both).
//   K2   store {a,b} flushed; a second flush is cut after 10 bytes (RLIMIT_FSIZE soft limit, SIGXFSZ ignored = crash/disk full in the middle of the rewrite);
//        reopen must show the previous content (a present), never an empty store.
//   K10  a flush() that cannot be written returns normally; once space is back, a CLEAN destruction must put the change on disk (dirty mark kept).
#include "iora/storage/json_file_store.hpp"
#include "replay_io.h"
#include <filesystem>
#include <signal.h>
#include <sys/resource.h>
#include <unistd.h>
using namespace iora::storage;
namespace fs = std::filesystem;
static rlim_t limit(rlim_t v) { struct rlimit rl; getrlimit(RLIMIT_FSIZE, &rl); rlim_t old = rl.rlim_cur; rl.rlim_cur = v; setrlimit(RLIMIT_FSIZE, &rl); return old; }
int main(int argc, char **argv) {
  (void)argc; auto in = replay_io::load(argv[1]);
  std::string which = in.count("SCENARIO") ? in["SCENARIO"] : "K2";      // K10 only on request (observation, not part of the registered check)
  fs::path dir = fs::temp_directory_path() / ("iora_replay_json_save_" + std::to_string(getpid()));
  fs::remove_all(dir); fs::create_directories(dir);
  signal(SIGXFSZ, SIG_IGN);
  std::string verdict;
  if (which == "all" || which == "K2") {
    std::string f = (dir / "a.json").string();
    { JsonFileStore s(f); s.set("a", std::string("1")); s.set("b", std::string("2")); s.flush(); }
    { JsonFileStore s(f); s.set("c", std::string("3")); rlim_t keep = limit(10); s.flush(); limit(keep); s._dirty = false; }
    { JsonFileStore s(f); if (!s.get("a")) verdict += " K2: after a flush cut at 10 bytes the store reopens WITHOUT the previously flushed key a (live file rewritten in place);"; }
  }
  if (which == "all" || which == "K10") {
    std::string f = (dir / "b.json").string();
    { JsonFileStore s(f); s.set("a", std::string("1")); s.flush(); }
    { JsonFileStore s(f); s.set("c", std::string("3")); rlim_t keep = limit(10); s.flush(); limit(keep); }      // clean destruction flushes if still dirty
    { JsonFileStore s(f); if (!s.get("c")) verdict += " K10: flush() failed silently and cleared the dirty mark; after a clean destruction the key c is not on disk;";
      if (!s.get("a")) verdict += " K10: a lost;"; }
  }
  fs::remove_all(dir);
  if (!verdict.empty()) replay_io::fail(verdict);
  replay_io::ok("an interrupted flush keeps the old content; a failed flush is retried");
  return 0;
}
