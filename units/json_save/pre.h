/* type environment + abstract file system ghost for unit json_save (JsonFileStore::saveToFile / flush / tryFlushIfDirty, property C11:
 * "The JSON file store ... reopens to the contents of its last completed flush or of the flush in progress, never to an empty or unreadable store once a
 * flush has completed").
 * Directory image: { live: OLD | NEW | TORN, temporary: NONE | PARTIAL | COMPLETE }.  OLD = content of the last completed flush, NEW = the content being
 * flushed, TORN = truncated / partially rewritten.  ADMISSIBLE iff live is OLD or NEW.  Every FS-mutating stub asserts admissibility before and after
 * its effect (JS_CRASH_POINT): every crash point of the flush, for every failure combination. */
#define EXC_exception 100
#define iora_isa(e, t) ((t) == EXC_exception ? (e) != EXC_NONE : (e) == (t))
enum { LIVE_OLD = 0, LIVE_NEW = 1, LIVE_TORN = 2 };
enum { TMP_NONE = 0, TMP_PARTIAL = 1, TMP_COMPLETE = 2 };
enum { JS_PATH_LIVE = 1, JS_PATH_TMP = 2 };
#define JS_IOS_trunc 16
#define JS_IOS_binary 4
typedef struct { int live; int tmp; } js_fs;
js_fs G_fs; unsigned G_renames; bool G_tmp_data; bool G_tmp_opened; bool G_dump_threw;      /* the whole dump was accepted by the temporary's stream */
#define JS_ADMISSIBLE (G_fs.live == LIVE_OLD || G_fs.live == LIVE_NEW)
#define JS_CRASH_POINT() IORA_ASSERT(JS_ADMISSIBLE, "CRASH a crash at this file-system call leaves the live file with the last completed content or the new content - never truncated")
#define JS_LOCK_NOTE(m) ((void)0)
typedef struct { int v; } iora_ec;
#define iora_ec_DEFAULT ((iora_ec){0})
typedef struct { int _filename; bool _dirty; int _mutex; int _store; } JsonFileStore;
/* std::ofstream with the real iostate bits:  fail() == badbit || failbit,  bad() == badbit,  good()/operator bool == neither.
 *   open failure               -> failbit
 *   operator<< write fault     -> badbit (nondet)
 *   close() / flush(): the final write of what is still buffered fails -> FAILBIT ONLY (libstdc++ basic_ofstream::close: setstate(failbit)) - nondet
 * What the clauses speak about is the GHOST state (G_tmp_data: whole dump accepted; G_fs.tmp == TMP_COMPLETE: accepted AND closed without error), never which accessor the code calls. */
typedef struct { bool open; bool badbit; bool failbit; int path; } js_ofs;
#define JS_FAILED(s) ((s)->badbit || (s)->failbit)
static inline js_ofs js_ofs_ctor(int path, int mode)
{
  js_ofs s; s.path = path; s.badbit = false; s.failbit = false; (void)mode;
  JS_CRASH_POINT();
  if (nondet_bool()) { s.open = false; s.failbit = true; return s; }
  s.open = true;
  if (path == JS_PATH_TMP) { G_fs.tmp = TMP_PARTIAL; G_tmp_data = false; G_tmp_opened = true; }
  else { IORA_ASSERT(0, "LIVE the live file is never opened for truncation (it is only ever replaced by rename)"); G_fs.live = LIVE_TORN; }
  JS_CRASH_POINT();
  return s;
}
static inline bool js_ofs_ok(const js_ofs *s) { return !JS_FAILED(s); }            /* if (file) */
static inline bool js_ofs_fail(const js_ofs *s) { return JS_FAILED(s); }
static inline bool js_ofs_bad(const js_ofs *s) { return s->badbit; }
static inline bool js_ofs_good(const js_ofs *s) { return !JS_FAILED(s); }
static inline bool js_ofs_is_open(const js_ofs *s) { return s->open; }
/* Json::dump: may throw (bad_alloc): the handle of the serialised text */
static inline int js_dump(const JsonFileStore *self) { (void)self; if (nondet_bool()) { iora_exc = EXC_exception; G_dump_threw = true; return 0; } return 1; }
/* file << data: a stream already in a failed state accepts nothing; otherwise the bytes go to the stream buffer / the temporary, or the write faults (badbit) */
static inline void js_ofs_put(js_ofs *s, int data)
{ (void)data; if (!s->open) s->failbit = true;
  if (!JS_FAILED(s) && nondet_bool()) s->badbit = true;
  if (s->path == JS_PATH_LIVE && s->open) { G_fs.live = LIVE_TORN; } else if (!JS_FAILED(s)) G_tmp_data = true; }
/* flush()/the flush inside close(): the buffered bytes reach the OS, or the final write fails -> failbit only */
static inline void js_ofs_flush(js_ofs *s)
{ JS_CRASH_POINT(); if (!s->open) s->failbit = true;
  bool wrote = !s->badbit && s->open && !nondet_bool();             /* a stream with badbit has lost data already */
  if (s->open && !s->badbit && !wrote) s->failbit = true;
  if (wrote && !s->failbit && s->path == JS_PATH_TMP && G_tmp_data) G_fs.tmp = TMP_COMPLETE;
  JS_CRASH_POINT(); }
/* close(): flushes what is buffered (may fail -> failbit), then closes; close() on a closed stream -> failbit */
static inline void js_ofs_close(js_ofs *s) { if (!s->open) { s->failbit = true; return; } js_ofs_flush(s); s->open = false; }
static inline void js_fs_rename(int from, int to, iora_ec *ec)
{
  IORA_ASSERT(from == JS_PATH_TMP && to == JS_PATH_LIVE, "ghost: the only rename is temporary -> live file");
  JS_CRASH_POINT();
  IORA_ASSERT(G_fs.tmp == TMP_COMPLETE, "REN only a COMPLETE temporary (whole dump accepted, stream closed without error) is renamed over the live file");
  if (G_renames < 1000) G_renames++;
  if (nondet_bool()) { ec->v = 5; return; }
  ec->v = 0; G_fs.live = (G_fs.tmp == TMP_COMPLETE) ? LIVE_NEW : LIVE_TORN; G_fs.tmp = TMP_NONE;
  JS_CRASH_POINT();
}
static inline void js_fs_remove(int path, iora_ec *ec) { IORA_ASSERT(path == JS_PATH_TMP, "only the temporary file is ever removed"); JS_CRASH_POINT(); ec->v = 0; G_fs.tmp = TMP_NONE; JS_CRASH_POINT(); }
