/* type environment + ghost state + monitor model for unit thread_pool (iora::core::ThreadPool; sequential lock model R11 with
 * rely/guarantee environment steps). See NOTES.md for what this decides and what stays schedule-quantified.
 *
 * C types:  std::function<void()> -> iora_fn (task IDENTITY, 0 = empty)      std::queue<std::function<void()>> -> iora_gdeque_u64
 *           std::function<void(std::exception_ptr)> -> iora_handler (set or not)
 *           std::unordered_map<thread::id, thread> -> iora_thrmap (number of entries + the calling worker's own entry)
 *           std::mutex / condition_variable -> iora_mutex / iora_cv (shims/iora_monitor.h)        std::atomic<X> -> X (R10) */
typedef uint64_t iora_fn;
#define iora_fn_DEFAULT 0
typedef bool iora_handler;
#define iora_handler_DEFAULT 0
typedef int iora_tid;
#define TP_SELF_TID 1
typedef struct { size_t n; bool has_self; bool self_joinable; const iora_mutex *guard; } iora_thrmap;
typedef struct { bool found; } iora_thrit;
typedef struct { iora_tid id; bool joinable; bool is_witness; } iora_thread;
#define iora_thread_DEFAULT ((iora_thread){0, 0, 0})      /* default-constructed std::thread: not joinable */
typedef struct { size_t idx; } iora_mapit;                 /* position in one traversal of _threads */
typedef struct { int threadsJoined; bool success; } ShutdownPhase4Result;
#define ShutdownPhase4Result_DEFAULT ((ShutdownPhase4Result){0, 0})
typedef struct { bool wasAlreadyShutdown; bool success; } ShutdownPhase1Result;
#define ShutdownPhase1Result_DEFAULT ((ShutdownPhase1Result){0, 0})              /* ShutdownPhase1Result() : wasAlreadyShutdown(false), success(false) */
typedef struct { size_t finalActiveCount; size_t finalPendingCount; int drainTimeMs; bool timedOut; bool success; } ShutdownPhase3Result;
#define ShutdownPhase3Result_DEFAULT ((ShutdownPhase3Result){0, 0, 0, 0, 0})     /* all members 0 / false */

/* data members of ThreadPool in declaration order */
typedef struct ThreadPool {
  iora_thrmap _threads; iora_gdeque_u64 _tasks; iora_mutex _mutex; iora_cv _condition;
  size_t _initialSize; size_t _maxSize; int64_t _idleTimeout; size_t _maxQueueSize; bool _workerScaling;
  bool _shutdown; size_t _activeThreads; size_t _busyThreads;
  int _threadsCreated; int _threadsStarted; int _threadsExited; int _waitingThreads;
  iora_mutex _configMutex; iora_handler _onTaskError; int _shutdownMode; int _lifecycleState; bool _accepting;
} ThreadPool;

#define EXC_runtime_error 1
#define EXC_task 2
#define TP_STEP_NEXT 0       /* worker loop body ran to its end */
#define TP_STEP_CONTINUE 1   /* `continue` */
#define TP_STEP_EXIT 2       /* `return` from the thread function: the worker is gone */
/* the corruption-detection macro of spawnWorker() (a #define inside the lambda; restated here, the lexer drops preprocessor lines) */
#define VALIDATE_CANARY() do { if (canary != CANARY) { abort(); } } while (0)

/* ------------------------------------------------------------------------------------------------ ghost state */
/* GQ (shims/iora_gdeque.h) = an arbitrary LOGICAL index of _tasks: "the GQ-th task ever accepted" (the witness task).
 * Its life: not accepted (GQ >= hi) -> queued (lo <= GQ < hi) -> running (popped; GW.running) -> finished (GW.done). */
struct { bool running, done; } GW;
/* the calling thread's own contribution / actions in the current operation */
struct { size_t active, busy; bool took, took_witness; unsigned pops, runs, pushes, spawns; uint64_t run_id, push_id; size_t push_idx; bool acc_seen; } ME;
/* LIN: protected state at my last acquisition of _mutex (after the environment step) or after my last wait */
struct { size_t lo, hi, nthreads; uint64_t w; bool shutdown, waitres; } LIN, LIN0;      /* LIN0: the same at my FIRST acquisition in this operation */
bool G_acquired;
size_t G_rel_hi;             /* _tasks.hi at my last release of _mutex */

/* ------------------------------------------------------------------------------------------------ start(): Reset -> Running
 * Lifecycle calls (stop/reset/start/drain/shutdown) are serialised by their caller and start() runs in state Reset, i.e. after stop()
 * joined every worker and reset() cleared the map: while G_lifecycle_owner is set, environment steps (submitters, the workers born
 * by this call) leave _shutdown, _accepting and _lifecycleState alone. */
bool G_lifecycle_owner;
typedef struct { bool success; LifecycleState newState; } iora_lcresult;
#define iora_lcresult_DEFAULT ((iora_lcresult){0, 0})
static inline iora_lcresult tp_lcresult(bool ok, LifecycleState st) { iora_lcresult r = { ok, st }; return r; }
struct { size_t spawn_calls, added, live, born_dead; } ST;

/* ------------------------------------------------------------------------------------------------ monitor invariant
 * holds whenever _mutex is free; asserted at every release by this thread (MI*, DR1), assumed after every environment step */
#define TP_QSIZE(p) ((p)->_tasks.hi - (p)->_tasks.lo)
#define TP_INV_Q(p) ((p)->_tasks.lo <= (p)->_tasks.hi && TP_QSIZE(p) <= (p)->_maxQueueSize)
/* size bounds (assumed, never asserted): fewer than 2^63 tasks accepted over the pool's lifetime, fewer than 2^30 workers busy at once */
#define TP_NOWRAP(p) ((p)->_tasks.hi < ((size_t)1 << 63) && (p)->_activeThreads < ((size_t)1 << 30) && (p)->_busyThreads < ((size_t)1 << 30))
#define TP_INV_W(p) (GQ >= (p)->_tasks.lo ? (!GW.running && !GW.done) : (GW.running != GW.done))
#define TP_INV_ME(p) ((p)->_activeThreads >= ME.active && (p)->_busyThreads >= ME.busy)
#define TP_INV_DR(p) (!GW.running || (p)->_activeThreads >= 1)      /* the in-flight witness is visible to the drain predicate */
#define TP_INV_CNT(p) (0 <= (p)->_threadsExited && (p)->_threadsExited <= (p)->_threadsCreated && (p)->_threadsCreated < (1 << 30) \
   && 0 <= (p)->_threadsStarted && (p)->_threadsStarted < (1 << 30) && 0 <= (p)->_waitingThreads && (p)->_waitingThreads < (1 << 30) \
   && (!(p)->_threads.has_self || (p)->_threads.n >= 1))
#define TP_NBOUND(p) ((p)->_threads.n < ((size_t)1 << 40))      /* assumed after every environment step, never asserted */
#define TP_INV(p) (TP_INV_Q(p) && TP_INV_W(p) && TP_INV_ME(p) && TP_INV_DR(p) && TP_INV_CNT(p))

static inline void tp_snapshot(const ThreadPool *p)
{ LIN.lo = p->_tasks.lo; LIN.hi = p->_tasks.hi; LIN.w = p->_tasks.w; LIN.shutdown = p->_shutdown; LIN.nthreads = p->_threads.n; }

/* ENVIRONMENT STEP = what the other threads may do between two of my accesses to shared state (rely condition).
 * While I hold _mutex the protected state (_tasks, _threads, _shutdown) is frozen; atomics change at any time. */
static inline void tp_env_step(ThreadPool *p)
{
  size_t lo = nondet_size_t(), hi = nondet_size_t(), n = nondet_size_t(), act = nondet_size_t(), busy = nondet_size_t();
  uint64_t w = nondet_u64(); bool sh = nondet_bool(), acc = nondet_bool(), hs = nondet_bool(), sj = nondet_bool(), run = nondet_bool(), done = nondet_bool();
  int lc = nondet_int();
  bool was_live = p->_tasks.lo <= GQ && GQ < p->_tasks.hi;
  if (p->_mutex.held) IORA_ASSUME(lo == p->_tasks.lo && hi == p->_tasks.hi && w == p->_tasks.w && sh == p->_shutdown && n == p->_threads.n && hs == p->_threads.has_self && sj == p->_threads.self_joinable);
  if (G_lifecycle_owner) IORA_ASSUME(sh == p->_shutdown && acc == p->_accepting && lc == p->_lifecycleState);      /* serialised lifecycle calls */
  IORA_ASSUME(lo >= p->_tasks.lo && hi >= p->_tasks.hi);                    /* R1 tasks are only appended at the back and taken at the front */
  IORA_ASSUME(!p->_shutdown || (sh && hi == p->_tasks.hi));                 /* R2 once _shutdown is set nothing more is accepted (no restart in scope) */
  IORA_ASSUME(!(was_live && lo <= GQ) || w == p->_tasks.w);                 /* R3 a queued task does not change */
  IORA_ASSUME(!GW.done || done);                                            /* R4 finished stays finished */
  IORA_ASSUME(!GW.running || run || done);                                  /*    running -> running | finished */
  IORA_ASSUME(!ME.took_witness || (run == GW.running && done == GW.done));  /* R5 only I finish the task I took */
  p->_tasks.lo = lo; p->_tasks.hi = hi; p->_tasks.w = w; p->_shutdown = sh; p->_accepting = acc; p->_lifecycleState = lc;
  p->_threads.n = n; p->_threads.has_self = hs; p->_threads.self_joinable = sj; p->_activeThreads = act; p->_busyThreads = busy;
  GW.running = run; GW.done = done;
  IORA_ASSUME(TP_INV(p) && TP_NOWRAP(p) && TP_NBOUND(p));                                   /* R6 the others keep the monitor invariant (incl. the DR discipline) */
}

/* ------------------------------------------------------------------------------------------------ lock hooks */
static inline void tp_on_release(ThreadPool *p)
{
  IORA_ASSERT(TP_INV_Q(p), "MI1 queue bound: 0 <= size <= _maxQueueSize whenever the mutex is released");
  IORA_ASSERT(TP_INV_W(p) && TP_INV_ME(p), "MI2 ghost bookkeeping consistent at release");
  IORA_ASSERT(TP_INV_DR(p), "DR1 a task taken from the queue is counted in _activeThreads before the mutex is released (the drain/shutdown predicates read _activeThreads == 0 && pending == 0)");
  G_rel_hi = p->_tasks.hi;
}
static inline iora_ulock tp_ulock_make(ThreadPool *p, iora_mutex *m) { tp_env_step(p); iora_ulock l = iora_ulock_make(m); if (m == &p->_mutex) { tp_snapshot(p); if (!G_acquired) { LIN0 = LIN; G_acquired = 1; } } return l; }
static inline void tp_ulock_dtor(ThreadPool *p, iora_ulock *l) { if (l->owns && l->m == &p->_mutex) tp_on_release(p); iora_ulock_dtor(l); }
static inline void tp_ulock_unlock(ThreadPool *p, iora_ulock *l) { if (l->owns && l->m == &p->_mutex) tp_on_release(p); iora_ulock_unlock(l); }
#define iora_ulock_make(m) tp_ulock_make(self, m)
#define iora_ulock_dtor(l) tp_ulock_dtor(self, l)
#define iora_ulock_unlock(l) tp_ulock_unlock(self, l)

/* cv.wait_for(lk, t, pred) == while (!pred()) if (timed out) return pred(); return true;  the wait releases and re-takes the mutex */
#define TP_CV_WAIT_FOR(s, c, l, P) IORA_ASSERT((l).owns && (l).m->held, "LK4 condition_variable wait with the lock owned"); bool s = (P); \
  if (!s) { tp_on_release(self); self->_mutex.held = 0; tp_env_step(self); self->_mutex.held = 1; s = (P); } tp_snapshot(self); LIN.waitres = s

/* ------------------------------------------------------------------------------------------------ atomics (R10) */
#define TP_ALOAD(x, mo) (x)                                  /* lifecycle counters: read without interference (see NOTES.md) */
#define TP_ALOAD_ENV(x, mo) (tp_env_step(self), (x))         /* _activeThreads, _accepting: the others may have changed them */
#define TP_ASTORE(x, v, mo) ((x) = (v))
#define TP_AFETCH_ADD(x, n, mo) ((x) += (n))
#define TP_AFETCH_SUB(x, n, mo) ((x) -= (n))
static inline bool tp_cas_weak_int(int *x, int *e, int d) { if (*x == *e && nondet_bool()) { *x = d; return 1; } *e = *x; return 0; }   /* may fail spuriously */
#define TP_ACTIVE_INC() do { if (!self->_mutex.held) tp_env_step(self); ++self->_activeThreads; ME.active++; } while (0)
#define TP_ACTIVE_DEC() do { if (!self->_mutex.held) tp_env_step(self); IORA_ASSERT(self->_activeThreads >= 1 && ME.active >= 1, "CN1 _activeThreads is decremented only by a thread that incremented it"); \
   --self->_activeThreads; ME.active--; if (ME.took_witness) { GW.running = 0; GW.done = 1; ME.took_witness = 0; } } while (0)
#define TP_BUSY_INC() do { if (!self->_mutex.held) tp_env_step(self); ++self->_busyThreads; ME.busy++; } while (0)
#define TP_BUSY_DEC() do { if (!self->_mutex.held) tp_env_step(self); IORA_ASSERT(self->_busyThreads >= 1 && ME.busy >= 1, "CN2 _busyThreads is decremented only by a thread that incremented it"); \
   --self->_busyThreads; ME.busy--; } while (0)
/* CV1: _shutdown is read by the workers' wait predicate */
bool G_constructing;        /* inside the constructor no other thread can wait on the object yet */
#define TP_SET_SHUTDOWN(v) do { IORA_ASSERT(self->_mutex.held || G_constructing, "CV1 wait-predicate state (_shutdown) is modified with the mutex held"); self->_shutdown = (v); } while (0)
#define TP_SLEEP() tp_env_step(self)

/* ------------------------------------------------------------------------------------------------ queue hooks (ghost bookkeeping around the generic FIFO shim) */
static inline void tp_push_back(ThreadPool *p, iora_gdeque_u64 *d, uint64_t v)
{ if (ME.pushes < 1000) ME.pushes++; ME.push_idx = d->hi; ME.push_id = v; iora_gdeque_u64_push_back(d, v); }
static inline void tp_pop_front(ThreadPool *p, iora_gdeque_u64 *d)
{ bool wit = (d->lo == GQ); iora_gdeque_u64_pop_front(d); if (ME.pops < 1000) ME.pops++; ME.took = 1; if (wit) { ME.took_witness = 1; GW.running = 1; } }
/* every queued std::function is callable: enqueueImpl/tryEnqueueImpl are only reached with a lambda (requires f != 0 in EN*) */
static inline uint64_t *tp_front(ThreadPool *p, iora_gdeque_u64 *d) { uint64_t *r = iora_gdeque_u64_front(d); (void)p; IORA_ASSUME(*r != 0); return r; }
#define iora_gdeque_u64_front(d) tp_front(self, d)
#define iora_gdeque_u64_push_back(d, v) tp_push_back(self, d, v)
#define iora_gdeque_u64_pop_front(d) tp_pop_front(self, d)

/* ------------------------------------------------------------------------------------------------ thread map */
#define TP_THR_GUARDED(m) IORA_ASSERT((m)->guard->held, "LK3 _threads accessed with _mutex held")
static inline size_t iora_thrmap_size(const iora_thrmap *m) { TP_THR_GUARDED(m); return m->n; }
static inline iora_thrit iora_thrmap_find(const iora_thrmap *m, iora_tid id) { TP_THR_GUARDED(m); iora_thrit it = { m->has_self }; (void)id; return it; }
static inline void iora_thrmap_erase(iora_thrmap *m, iora_thrit it) { TP_THR_GUARDED(m); IORA_ASSERT(it.found && m->n >= 1, "erase of a valid iterator"); m->n--; m->has_self = 0; }
static inline void tp_threads_emplace(ThreadPool *p, iora_thrmap *m, iora_tid id, iora_thread t)
{ TP_THR_GUARDED(m); (void)id; (void)t;
  IORA_ASSERT(m->n < p->_maxSize, "WB1 a worker is added only while fewer than _maxSize exist, decided under the same lock acquisition");
  m->n++; if (ME.spawns < 1000) ME.spawns++; }
#define iora_thrmap_emplace(m, id, t) tp_threads_emplace(self, m, id, t)
static inline bool tp_thrit_joinable(ThreadPool *p, iora_thrit *it) { (void)it; return p->_threads.self_joinable; }
static inline void tp_thrit_detach(ThreadPool *p, iora_thrit *it) { (void)it; IORA_ASSERT(p->_threads.self_joinable, "detach of a joinable thread"); p->_threads.self_joinable = 0; }
static inline iora_thread tp_thread_start(ThreadPool *p) { (void)p; iora_thread t = { nondet_int(), 1, 0 }; return t; }        /* std::thread(worker): creation succeeds (trusted) */
static inline iora_tid iora_thread_get_id(const iora_thread *t) { return t->id; }

/* traversal of _threads in shutdownPhase4_JoinThreads. The WITNESS entry (has_self / self_joinable: one arbitrary thread of the map)
 * sits at an arbitrary position G_wpos of each traversal; the other entries answer joinable() nondeterministically. */
size_t G_wpos; bool G_last_joinable; int G_thread_budget;
struct { int erased, joined, detached; bool witness_joined; } JN;
static inline iora_mapit tp_it_begin(ThreadPool *p) { TP_THR_GUARDED(&p->_threads); iora_mapit it = { 0 }; G_wpos = nondet_size_t(); IORA_ASSUME(!p->_threads.has_self || G_wpos < p->_threads.n); return it; }
static inline bool tp_it_valid(ThreadPool *p, iora_mapit it) { TP_THR_GUARDED(&p->_threads); return it.idx < p->_threads.n; }
#define TP_IS_W(p, it) ((p)->_threads.has_self && (it).idx == G_wpos)
static inline bool tp_entry_joinable(ThreadPool *p, iora_mapit it) { TP_THR_GUARDED(&p->_threads); IORA_ASSERT(it.idx < p->_threads.n, "iterator dereference in range");
  G_last_joinable = TP_IS_W(p, it) ? p->_threads.self_joinable : nondet_bool(); return G_last_joinable; }
static inline iora_thread tp_entry_take(ThreadPool *p, iora_mapit it) { TP_THR_GUARDED(&p->_threads); IORA_ASSERT(it.idx < p->_threads.n, "iterator dereference in range");
  iora_thread t = { nondet_int(), G_last_joinable, TP_IS_W(p, it) }; if (TP_IS_W(p, it)) p->_threads.self_joinable = 0; return t; }
static inline iora_tid tp_entry_id(ThreadPool *p, iora_mapit it) { TP_THR_GUARDED(&p->_threads); IORA_ASSERT(it.idx < p->_threads.n, "iterator dereference in range"); return nondet_int(); }
static inline void tp_entry_erase(ThreadPool *p, iora_mapit it) { TP_THR_GUARDED(&p->_threads); IORA_ASSERT(it.idx < p->_threads.n, "erase of a valid iterator");
  if (TP_IS_W(p, it)) p->_threads.has_self = 0; else if (p->_threads.has_self && it.idx < G_wpos) G_wpos--;
  p->_threads.n--; IORA_ASSUME(G_thread_budget > 0); G_thread_budget--; JN.erased++; }      /* A: fewer than 2^30 threads over the pool's lifetime */
static inline void tp_thread_join(ThreadPool *p, iora_thread *t) {
  IORA_ASSERT(t->joinable, "join() of a joinable thread");
  IORA_ASSERT(!p->_mutex.held && !p->_configMutex.held, "JN1 join() is called with no pool lock held (the worker needs _mutex to leave its loop)");
  tp_env_step(p); t->joinable = 0; JN.joined++; if (t->is_witness) JN.witness_joined = 1; }
static inline void tp_thread_detach(ThreadPool *p, iora_thread *t) { (void)p; IORA_ASSERT(t->joinable, "detach() of a joinable thread"); t->joinable = 0; JN.detached++; }

/* spawnWorker() as called by start(): effect per its own contract SP2-SP4 (adds one entry iff there is room, under its own lock
 * acquisition = environment step first) PLUS the birth of the worker: its first loop test reads _shutdown. Under the monitor model a
 * worker born while _shutdown is set takes the shutdown exit (WS4) and - unlike the idle exit - leaves its map entry behind. */
static inline void tp_start_spawn(ThreadPool *p)
{
  IORA_ASSERT(!p->_mutex.held, "LK1 spawnWorker() is called with _mutex free (it locks it)");
  tp_env_step(p);
  IORA_ASSERT(!p->_shutdown, "ST1 at every spawnWorker() call made by start(), _shutdown is already false (a new worker's first loop test reads it; born under _shutdown it exits and its map slot stays dead, so accepted tasks never run)");
  ST.spawn_calls++;
  if (p->_threads.n < p->_maxSize) { p->_threads.n++; ST.added++; if (p->_shutdown) ST.born_dead++; else ST.live++; }
}

/* ------------------------------------------------------------------------------------------------ task / handler stubs */
static inline void tp_task_run(ThreadPool *p, iora_fn task)
{
  IORA_ASSERT(!p->_mutex.held && !p->_configMutex.held, "RUN1 a task runs with no pool lock held");
  IORA_ASSERT(ME.active == 1, "RUN2 a task runs while it is counted in _activeThreads");
  if (ME.runs < 1000) ME.runs++; ME.run_id = task;
  tp_env_step(p);                                      /* the task takes time and may itself use the pool */
  if (nondet_bool()) iora_exc = EXC_task;              /* ... and may throw */
}
static inline void tp_handler_call(ThreadPool *p, iora_handler h) { (void)h; IORA_ASSERT(!p->_mutex.held && !p->_configMutex.held, "RUN3 the error handler runs with no pool lock held"); tp_env_step(p); }

/* ------------------------------------------------------------------------------------------------ loop contracts */
/* worker_step loop 1: the CAS retry loop of the idle-exit decision (no variant: a weak CAS may fail spuriously; termination not decided) */
/* (whole sub-structs keep the number of assigns targets small: DFCC's inclusion check does not terminate beyond ~30 targets) */
#define TP_SHARED_BY_ENV self->_tasks, self->_threads, self->_shutdown, self->_accepting, self->_lifecycleState, self->_activeThreads, self->_busyThreads, GW
#define TP_GUARDS_OK (self->_tasks.guard == &self->_mutex && self->_threads.guard == &self->_mutex)
#define IORA_LOOP_ThreadPool_worker_step_1 IORA_LC( \
  __CPROVER_assigns(currentExited, claimedExitSlot, self->_threadsExited) \
  __CPROVER_loop_invariant(!claimedExitSlot && currentExited == self->_threadsExited && 0 <= currentExited && currentExited <= self->_threadsCreated && self->_threadsCreated < (1 << 30)))

#define TP_LOOP_ENV_ASSIGNS TP_SHARED_BY_ENV, self->_mutex.held, ME, LIN, G_rel_hi
#define TP_LOOP_ENV_INV (!self->_mutex.held && !self->_configMutex.held && TP_GUARDS_OK && TP_INV(self) && TP_NOWRAP(self))
/* drain() loop 1 / shutdown() loops 1, 2: the same polling loop as phase 3 */
#define IORA_LOOP_ThreadPool_drain_wait_1 IORA_LC( \
  __CPROVER_assigns(waitMs, finalActiveCount, finalPendingCount, TP_LOOP_ENV_ASSIGNS) \
  __CPROVER_loop_invariant(0 <= waitMs && waitMs <= 2147483600 && TP_LOOP_ENV_INV && !timedOut && G_acquired) \
  __CPROVER_decreases(2147483647 - waitMs))
#define IORA_LOOP_ThreadPool_shutdown_wait_1 IORA_LC( \
  __CPROVER_assigns(waitMs, TP_LOOP_ENV_ASSIGNS) \
  __CPROVER_loop_invariant(0 <= waitMs && waitMs <= maxWaitMs && waitMs % 50 == 0 && TP_LOOP_ENV_INV && G_acquired) \
  __CPROVER_decreases(maxWaitMs - waitMs))
#define IORA_LOOP_ThreadPool_shutdown_wait_2 IORA_LC( \
  __CPROVER_assigns(raceWaitMs, TP_LOOP_ENV_ASSIGNS) \
  __CPROVER_loop_invariant(0 <= raceWaitMs && raceWaitMs <= raceMaxWaitMs && raceWaitMs % 50 == 0 && TP_LOOP_ENV_INV && G_acquired) \
  __CPROVER_decreases(raceMaxWaitMs - raceWaitMs))

/* shutdownPhase4_JoinThreads loop 1: take-one-and-join loop (no variant: other threads may keep adding workers; see NOTES.md);
 * loop 2: one traversal of the map, looking for the first joinable entry */
#define IORA_LOOP_ThreadPool_shutdownPhase4_JoinThreads_1 IORA_LC( \
  __CPROVER_assigns(joinCount, TP_LOOP_ENV_ASSIGNS, LIN0, G_acquired, G_wpos, G_last_joinable, G_thread_budget, JN) \
  __CPROVER_loop_invariant(TP_LOOP_ENV_INV && 0 <= joinCount && joinCount <= (1 << 29) && 0 <= G_thread_budget && G_thread_budget <= (1 << 29) && joinCount + G_thread_budget <= (1 << 29)) \
  __CPROVER_loop_invariant(JN.erased == joinCount && 0 <= JN.erased && JN.erased <= (1 << 29) && 0 <= JN.joined && JN.joined <= JN.erased && 0 <= JN.detached && JN.detached <= JN.erased && JN.erased == JN.joined + JN.detached \
      && (mode != ShutdownMode_DETACHED ==> JN.detached == 0)))
#define IORA_LOOP_ThreadPool_shutdownPhase4_JoinThreads_2 IORA_LC( \
  __CPROVER_assigns(it, found, movedThread, threadId, G_last_joinable, self->_threads, G_wpos, G_thread_budget, JN) \
  __CPROVER_loop_invariant(it.idx <= self->_threads.n && !found && self->_mutex.held && TP_GUARDS_OK) \
  __CPROVER_loop_invariant(self->_threads.n == __CPROVER_loop_entry(self->_threads.n) && self->_threads.has_self == __CPROVER_loop_entry(self->_threads.has_self) \
      && self->_threads.self_joinable == __CPROVER_loop_entry(self->_threads.self_joinable) && G_wpos == __CPROVER_loop_entry(G_wpos) && G_thread_budget == __CPROVER_loop_entry(G_thread_budget)) \
  __CPROVER_loop_invariant(JN.erased == __CPROVER_loop_entry(JN.erased) && JN.joined == __CPROVER_loop_entry(JN.joined) && JN.detached == __CPROVER_loop_entry(JN.detached) \
      && JN.witness_joined == __CPROVER_loop_entry(JN.witness_joined)) \
  __CPROVER_loop_invariant((self->_threads.has_self && G_wpos < it.idx) ==> !self->_threads.self_joinable) \
  __CPROVER_decreases(self->_threads.n - it.idx))

/* start() loop 1: spawn the initial workers of the new generation */
#define IORA_LOOP_ThreadPool_start_restart_1 IORA_LC( \
  __CPROVER_assigns(i, TP_SHARED_BY_ENV, ST) \
  __CPROVER_loop_invariant(i <= workerCount && workerCount < ((size_t)1 << 40) && TP_LOOP_ENV_INV && G_lifecycle_owner && ST.spawn_calls == i && ST.added <= i && ST.live <= i && ST.born_dead <= i && ST.live + ST.born_dead == ST.added) \
  __CPROVER_loop_invariant(self->_shutdown == __CPROVER_loop_entry(self->_shutdown) && self->_accepting == __CPROVER_loop_entry(self->_accepting) \
      && self->_lifecycleState == __CPROVER_loop_entry(self->_lifecycleState) && (!self->_shutdown ==> ST.born_dead == 0)) \
  __CPROVER_decreases(workerCount - i))

/* shutdownPhase3_DrainTasks loop 1: the polling loop */
#define IORA_LOOP_ThreadPool_shutdownPhase3_DrainTasks_1 IORA_LC( \
  __CPROVER_assigns(waitMs, TP_LOOP_ENV_ASSIGNS, LIN0, G_acquired) \
  __CPROVER_loop_invariant(0 <= waitMs && waitMs <= maxWaitMs && waitMs % 50 == 0 && TP_LOOP_ENV_INV) \
  __CPROVER_decreases(maxWaitMs - waitMs))
