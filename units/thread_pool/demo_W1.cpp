// Native demonstration of finding W1 (property C09: "While it accepts work the pool never runs more worker threads than its
// configured maximum").
//
//   g++ -std=c++17 -O2 -I/repo/include /verif/units/thread_pool/demo_W1.cpp -o /tmp/demo_W1 -lpthread && /tmp/demo_W1
//
// enqueueImpl()/tryEnqueueImpl() decide `_threads.size() < _maxSize` in one critical section and insert the new worker in another
// one (spawnWorker() locks again): 16 submitters that pass the check together all spawn. On the unrepaired header:
//     maxSize = 2, observed getTotalThreadCount() = 11        (exit 1)
// With repair_W1.diff (limit re-checked under the lock acquisition that inserts the worker): observed <= 2 (exit 0).
#include "iora/core/thread_pool.hpp"
#include <atomic>
#include <cstdio>
int main()
{
  size_t worst = 0;
  for (int trial = 0; trial < 50; trial++)
  {
    iora::core::ThreadPool pool(1, 2, std::chrono::seconds(30), 4096);
    const int N = 16;
    std::atomic<int> go{0};
    std::atomic<int> ran{0};
    std::vector<std::thread> subs;
    for (int i = 0; i < N; i++)
      subs.emplace_back([&] { go.fetch_add(1); while (go.load() < N) {}
                              for (int k = 0; k < 4; k++) pool.enqueue([&] { std::this_thread::sleep_for(std::chrono::milliseconds(2)); ran.fetch_add(1); }); });
    for (auto &t : subs) t.join();
    size_t n = pool.getTotalThreadCount();
    if (n > worst) worst = n;
  }
  printf("maxSize = 2, observed getTotalThreadCount() = %zu\n", worst);
  return worst > 2 ? 1 : 0;
}
