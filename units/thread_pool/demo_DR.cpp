// Native demonstration of finding DR (property C09: stop/drain/destruction "returns only after every accepted task has finished").
//
//   g++ -std=c++17 -O2 -I/repo/include /verif/units/thread_pool/demo_DR.cpp -o /tmp/demo_DR -lpthread && /tmp/demo_DR [trials]
//
// drain(), shutdown() and shutdownPhase3_DrainTasks() poll `_activeThreads == 0 && getPendingTaskCount() == 0`. A worker takes a task
// from the queue under the mutex but increments `_activeThreads` only AFTER releasing it, and the pollers read the active count
// BEFORE the pending count: a task that has just been taken is in neither number, so "drained" is reported while it has not run.
// Each trial keeps the single worker busy with task 1, queues task 2, lets task 1 end and calls drain() at that moment.
// On the unrepaired header (measured: trial 2748 of a 4000-trial run, 2 min 48 s):
//     DRAIN RETURNED EARLY at trial N: drain() reported success ("Drain completed, all 2 tasks finished") but the accepted task had not finished
// and exit 1. With repair_DR.diff (count the task before the unlock; read pending before active) the run completes: exit 0.
// (Every trial that does not hit the window costs one 50 ms polling interval.)
#include "iora/core/thread_pool.hpp"
#include <atomic>
#include <cstdio>
#include <cstdlib>
int main(int argc, char **argv)
{
  long trials = argc > 1 ? atol(argv[1]) : 6000;
  for (long t = 0; t < trials; t++)
  {
    iora::core::ThreadPool pool(1, 1, std::chrono::seconds(30), 16);
    std::atomic<bool> started{false}, release{false}, done2{false};
    pool.enqueue([&] { started = true; while (!release.load(std::memory_order_acquire)) {} });        // task 1 keeps the only worker busy
    while (!started) {}
    pool.enqueue([&] { std::this_thread::sleep_for(std::chrono::milliseconds(3)); done2 = true; });   // task 2 waits in the queue
    release.store(true, std::memory_order_release);                                                    // the worker ends task 1 and goes for task 2
    for (volatile int k = 0; k < (t % 64) * 4; k++) {}
    auto r = pool.drain(2000);
    bool finished = done2.load();
    if (r.success && !finished)
    {
      printf("DRAIN RETURNED EARLY at trial %ld: drain() reported success (\"%s\") but the accepted task had not finished\n", t, r.message.c_str());
      return 1;
    }
  }
  printf("no early drain in %ld trials\n", trials);
  return 0;
}
