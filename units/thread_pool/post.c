/* Contracts of the sequential / monitor core of iora::core::ThreadPool, written from property C09, not from the code.
 *
 * Model (pre.h): every operation runs as ONE thread; before each of its accesses to shared state outside a critical section, at
 * every lock acquisition and inside every wait, the OTHER threads take an environment step constrained only by the rely condition
 * R1-R6. Each operation must (guarantee) re-establish the monitor invariant at every release of _mutex (MI1, MI2, DR1) and satisfy
 * its own clauses relative to LIN, the protected state at its last acquisition of _mutex.
 * Task queue = ghost FIFO of logical indices [lo,hi) with the witness element at GQ; GW = life of that witness task. */

#define TP_PRE \
  __CPROVER_requires(IORA_TRUE && iora_exc == EXC_NONE) \
  __CPROVER_requires(__CPROVER_is_fresh(self, sizeof(*self))) \
  __CPROVER_requires(!self->_mutex.held && !self->_configMutex.held && self->_tasks.guard == &self->_mutex && self->_threads.guard == &self->_mutex) \
  __CPROVER_requires(TP_INV(self) && TP_NOWRAP(self) && !G_acquired && !G_constructing && !G_lifecycle_owner && self->_maxQueueSize < ((size_t)1 << 30)) \
  __CPROVER_requires(ME.active == 0 && ME.busy == 0 && !ME.took && !ME.took_witness && ME.pops == 0 && ME.runs == 0 && ME.pushes == 0 && ME.spawns == 0)
#define TP_ASSIGNS TP_SHARED_BY_ENV, self->_mutex.held, self->_configMutex.held, ME, LIN, LIN0, G_acquired, G_rel_hi
#define TP_UNLOCKED (!self->_mutex.held && !self->_configMutex.held)

/* ------------------------------------------------------------------ submission path */
#define ENQ_PRE \
  TP_PRE \
  __CPROVER_requires(f != 0 && self->_maxSize >= 1)          /* a callable task; _maxSize >= 1 is the constructor's clause CT1 */ \
  __CPROVER_assigns(TP_ASSIGNS, iora_exc, self->_condition.n_one)

void ThreadPool_enqueueImpl_contract(ThreadPool *self, iora_fn f)
ENQ_PRE
/* EN1 locks released on every path */ __CPROVER_ensures(TP_UNLOCKED)
/* EN2 refused only by exception runtime_error */ __CPROVER_ensures(iora_exc == EXC_NONE || iora_exc == EXC_runtime_error)
/* EN3 refused only because draining, shut down or full */ __CPROVER_ensures(iora_exc != EXC_NONE ==> (!ME.acc_seen || LIN0.shutdown || LIN0.hi - LIN0.lo >= self->_maxQueueSize))
/* EN4 refused: nothing was queued, no worker spawned, nobody notified */ __CPROVER_ensures(iora_exc != EXC_NONE ==> (ME.pushes == 0 && ME.spawns == 0 && self->_condition.n_one == __CPROVER_old(self->_condition.n_one)))
/* EN5 accepted only when accepting, not shut down, not full */ __CPROVER_ensures(iora_exc == EXC_NONE ==> (ME.acc_seen && !LIN0.shutdown && LIN0.hi - LIN0.lo < self->_maxQueueSize))
/* EN6 accepted: pushed exactly once, at the back, and it is the argument */ __CPROVER_ensures(iora_exc == EXC_NONE ==> (ME.pushes == 1 && ME.push_id == f && ME.push_idx == LIN0.hi))
/* EN7 accepted: a waiting worker is notified after the push */ __CPROVER_ensures(iora_exc == EXC_NONE ==> self->_condition.n_one == __CPROVER_old(self->_condition.n_one) + (__CPROVER_old(self->_condition.n_one) < 0x7fffffffu ? 1 : 0))
/* EN8 at most one worker is spawned per submission */ __CPROVER_ensures(ME.spawns <= 1)
/* EN9 accepted: some worker exists to take it (one existed in a critical section of this call, or one was spawned) */ __CPROVER_ensures(iora_exc == EXC_NONE ==> (ME.spawns == 1 || LIN0.nthreads >= 1 || LIN.nthreads >= 1))
;
bool ThreadPool_tryEnqueueImpl_contract(ThreadPool *self, iora_fn f)
ENQ_PRE
/* EN1 */ __CPROVER_ensures(TP_UNLOCKED)
/* EN2 never throws */ __CPROVER_ensures(iora_exc == EXC_NONE)
/* EN3 refused only because draining, shut down or full */ __CPROVER_ensures(!__CPROVER_return_value ==> (!ME.acc_seen || LIN0.shutdown || LIN0.hi - LIN0.lo >= self->_maxQueueSize))
/* EN4 refused: nothing was queued, no worker spawned, nobody notified */ __CPROVER_ensures(!__CPROVER_return_value ==> (ME.pushes == 0 && ME.spawns == 0 && self->_condition.n_one == __CPROVER_old(self->_condition.n_one)))
/* EN5 accepted only when accepting, not shut down, not full */ __CPROVER_ensures(__CPROVER_return_value ==> (ME.acc_seen && !LIN0.shutdown && LIN0.hi - LIN0.lo < self->_maxQueueSize))
/* EN6 accepted: pushed exactly once, at the back, and it is the argument */ __CPROVER_ensures(__CPROVER_return_value ==> (ME.pushes == 1 && ME.push_id == f && ME.push_idx == LIN0.hi))
/* EN7 accepted: a waiting worker is notified after the push */ __CPROVER_ensures(__CPROVER_return_value ==> self->_condition.n_one == __CPROVER_old(self->_condition.n_one) + (__CPROVER_old(self->_condition.n_one) < 0x7fffffffu ? 1 : 0))
/* EN8 */ __CPROVER_ensures(ME.spawns <= 1)
/* EN9 accepted: some worker exists to take it */ __CPROVER_ensures(__CPROVER_return_value ==> (ME.spawns == 1 || LIN0.nthreads >= 1 || LIN.nthreads >= 1))
;
void h_enqueueImpl(void)
{
  ThreadPool *s; iora_fn f;
  ThreadPool_enqueueImpl(s, f);
  IORA_CANARY("h_enqueueImpl: returns");
  if (iora_exc) { IORA_CANARY("h_enqueueImpl: refused"); } else { IORA_CANARY("h_enqueueImpl: accepted"); }
  if (ME.spawns) { IORA_CANARY("h_enqueueImpl: spawned"); }
}
void h_tryEnqueueImpl(void)
{
  ThreadPool *s; iora_fn f;
  bool r = ThreadPool_tryEnqueueImpl(s, f);
  IORA_CANARY("h_tryEnqueueImpl: returns");
  if (r) { IORA_CANARY("h_tryEnqueueImpl: accepted"); } else { IORA_CANARY("h_tryEnqueueImpl: refused"); }
}

/* ------------------------------------------------------------------ spawnWorker */
void ThreadPool_spawnWorker_contract(ThreadPool *self)
__CPROVER_requires(IORA_TRUE && iora_exc == EXC_NONE)
__CPROVER_requires(__CPROVER_is_fresh(self, sizeof(*self)))
__CPROVER_requires(!self->_mutex.held && !self->_configMutex.held && self->_tasks.guard == &self->_mutex && self->_threads.guard == &self->_mutex)
__CPROVER_requires(TP_INV(self) && TP_NOWRAP(self) && ME.spawns < 999)
__CPROVER_assigns(TP_ASSIGNS)
/* SP1 */ __CPROVER_ensures(TP_UNLOCKED)
/* SP2 at most one map entry is added, under the lock */ __CPROVER_ensures(ME.spawns - __CPROVER_old(ME.spawns) <= 1 && self->_threads.n == LIN.nthreads + (ME.spawns - __CPROVER_old(ME.spawns)))
/* SP3 never beyond the configured maximum */ __CPROVER_ensures(ME.spawns != __CPROVER_old(ME.spawns) ==> LIN.nthreads < self->_maxSize)
/* SP4 while there is room a worker IS added */ __CPROVER_ensures(LIN.nthreads < self->_maxSize ==> ME.spawns == __CPROVER_old(ME.spawns) + 1)
/* SP5 monitor invariant (used where this contract replaces the call: constructor) */ __CPROVER_ensures(TP_INV(self) && TP_NOWRAP(self) && G_acquired && TP_GUARDS_OK)
;
void h_spawnWorker(void)
{
  ThreadPool *s;
  ThreadPool_spawnWorker(s);
  IORA_CANARY("h_spawnWorker: returns");
}

/* ------------------------------------------------------------------ worker thread: prologue and ONE iteration of its loop */
void ThreadPool_worker_prologue_contract(ThreadPool *self)
TP_PRE
__CPROVER_assigns(self->_threadsCreated, self->_threadsStarted)
/* WP1 */ __CPROVER_ensures(self->_threadsCreated == __CPROVER_old(self->_threadsCreated) + 1 && self->_threadsStarted == __CPROVER_old(self->_threadsStarted) + 1)
;
void h_worker_prologue(void)
{
  ThreadPool *s;
  ThreadPool_worker_prologue(s);
  IORA_CANARY("h_worker_prologue: returns");
}

int ThreadPool_worker_step_contract(ThreadPool *self, const uint32_t CANARY, uint32_t canary)
TP_PRE
__CPROVER_requires(canary == CANARY)
__CPROVER_assigns(TP_ASSIGNS, iora_exc, iora_exc_caught, self->_threadsExited, self->_waitingThreads)
/* WS1 no lock is held when the iteration ends */ __CPROVER_ensures(TP_UNLOCKED)
/* WS2 result is one of: next iteration / continue / thread exits */ __CPROVER_ensures(__CPROVER_return_value == TP_STEP_NEXT || __CPROVER_return_value == TP_STEP_CONTINUE || __CPROVER_return_value == TP_STEP_EXIT)
/* WS3 the worker leaves ONLY with the queue empty (decided under the lock): no task is lost by an exit */ __CPROVER_ensures(__CPROVER_return_value == TP_STEP_EXIT ==> (LIN.lo == LIN.hi && !ME.took && ME.runs == 0))
/* WS4 ... and only on shutdown, or on an idle timeout while not shut down */ __CPROVER_ensures(__CPROVER_return_value == TP_STEP_EXIT ==> (LIN.waitres ? LIN.shutdown : (!LIN.shutdown && self->_workerScaling)))
/* WS5 `continue` takes nothing */ __CPROVER_ensures(__CPROVER_return_value == TP_STEP_CONTINUE ==> (!ME.took && ME.runs == 0 && !LIN.waitres && LIN.lo == LIN.hi))
/* WS6 a full iteration takes exactly one task and runs it exactly once (also when it throws) */ __CPROVER_ensures(__CPROVER_return_value == TP_STEP_NEXT ==> (LIN.lo != LIN.hi && ME.pops == 1 && ME.runs == 1))
/* WS7 the task run is the FRONT task of the queue (witness) and it is finished afterwards */ __CPROVER_ensures((__CPROVER_return_value == TP_STEP_NEXT && GQ == LIN.lo) ==> (ME.run_id == LIN.w && GW.done && !GW.running))
/* WS8 a queued task is taken even when _shutdown is set (accepted tasks run before the worker may leave) */ __CPROVER_ensures((LIN.lo != LIN.hi) ==> __CPROVER_return_value == TP_STEP_NEXT)
/* WS9 every counter increment of this iteration is matched by its decrement */ __CPROVER_ensures(ME.active == 0 && ME.busy == 0 && !ME.took_witness)
/* WS10 no exception leaves the worker */ __CPROVER_ensures(iora_exc == EXC_NONE)
/* WS11 monitor invariant */ __CPROVER_ensures(TP_INV_Q(self) && TP_INV_W(self))
;
void h_worker_step(void)
{
  ThreadPool *s; uint32_t c1, c2;
  int r = ThreadPool_worker_step(s, c1, c2);
  IORA_CANARY("h_worker_step: returns");
  if (r == TP_STEP_NEXT) { IORA_CANARY("h_worker_step: ran a task"); if (iora_exc_caught) { IORA_CANARY("h_worker_step: task threw"); } }
  if (r == TP_STEP_CONTINUE) { IORA_CANARY("h_worker_step: continue"); }
  if (r == TP_STEP_EXIT) { if (LIN.waitres) { IORA_CANARY("h_worker_step: exit on shutdown"); } else { IORA_CANARY("h_worker_step: idle exit"); } }
}

/* ------------------------------------------------------------------ observers */
void h_observers_contract(ThreadPool *self)
TP_PRE
__CPROVER_assigns(TP_ASSIGNS)
__CPROVER_ensures(TP_UNLOCKED)
;
void h_observers_body(ThreadPool *self)
{
  size_t n = ThreadPool_getPendingTaskCount(self);
  __CPROVER_assert(TP_UNLOCKED && n == LIN.hi - LIN.lo && n <= self->_maxQueueSize, "OB1 getPendingTaskCount(): queue length read under the lock, <= _maxQueueSize");
  size_t t = ThreadPool_getTotalThreadCount(self);
  __CPROVER_assert(TP_UNLOCKED && t == LIN.nthreads, "OB2 getTotalThreadCount(): map size read under the lock");
  size_t a = ThreadPool_getActiveThreadCount(self);
  uint32_t i = ThreadPool_getInFlightCount(self);
  __CPROVER_assert(TP_UNLOCKED, "OB3 observers release the lock");
  IORA_CANARY("h_observers: done");
}
void h_observers(void)
{
  ThreadPool *s;
  h_observers_body(s);
  IORA_CANARY("h_observers: returns");
}

/* ------------------------------------------------------------------ shutdown phase 1: signal */
ShutdownPhase1Result ThreadPool_shutdownPhase1_SignalShutdown_contract(ThreadPool *self)
TP_PRE
__CPROVER_assigns(TP_ASSIGNS, self->_condition.n_all)
/* S1a */ __CPROVER_ensures(TP_UNLOCKED && __CPROVER_return_value.success)
/* S1b already shut down: reported, nothing signalled */ __CPROVER_ensures(__CPROVER_return_value.wasAlreadyShutdown == LIN.shutdown)
/* S1c otherwise every waiting worker is notified AFTER the flag was set under the lock (CV1 is asserted at the assignment) */ __CPROVER_ensures(self->_condition.n_all == __CPROVER_old(self->_condition.n_all) + ((!LIN.shutdown && __CPROVER_old(self->_condition.n_all) < 0x7fffffffu) ? 1 : 0))
;
void h_phase1(void)
{
  ThreadPool *s;
  ShutdownPhase1Result r = ThreadPool_shutdownPhase1_SignalShutdown(s);
  IORA_CANARY("h_phase1: returns");
  if (r.wasAlreadyShutdown) { IORA_CANARY("h_phase1: already"); } else { IORA_CANARY("h_phase1: signalled"); }
}

/* ------------------------------------------------------------------ shutdown phase 3: drain */
ShutdownPhase3Result ThreadPool_shutdownPhase3_DrainTasks_contract(ThreadPool *self)
TP_PRE
__CPROVER_assigns(TP_ASSIGNS)
/* S3a */ __CPROVER_ensures(TP_UNLOCKED)
/* S3b success xor timed out */ __CPROVER_ensures(__CPROVER_return_value.success == !__CPROVER_return_value.timedOut)
/* DR2 "drained" is sound: every task accepted before the pending-count was read has FINISHED (witness) */ __CPROVER_ensures((__CPROVER_return_value.success && GQ < G_rel_hi) ==> GW.done)
;
void h_phase3(void)
{
  ThreadPool *s;
  ShutdownPhase3Result r = ThreadPool_shutdownPhase3_DrainTasks(s);
  IORA_CANARY("h_phase3: returns");
  if (r.success) { IORA_CANARY("h_phase3: drained"); } else { IORA_CANARY("h_phase3: timed out"); }
}

/* ------------------------------------------------------------------ constructor: member-initialiser list + body up to the spawn loop
 * (block target; the rest of the constructor is `for (i < workerCount) spawnWorker();`, and spawnWorker has its own proof) */
size_t ThreadPool_ctor_contract(ThreadPool *self, size_t initialSize, size_t maxSize, int64_t idleTimeout, size_t maxQueueSize, iora_handler onTaskError, ShutdownMode shutdownMode)
__CPROVER_requires(IORA_TRUE && iora_exc == EXC_NONE && __CPROVER_is_fresh(self, sizeof(*self)) && G_constructing)
/* default member initialisers of the class */
__CPROVER_requires(self->_workerScaling && !self->_accepting && self->_lifecycleState == LifecycleState_Created)
__CPROVER_assigns(self->_initialSize, self->_maxSize, self->_idleTimeout, self->_maxQueueSize, self->_shutdown, self->_activeThreads, self->_busyThreads, self->_onTaskError, self->_shutdownMode, self->_accepting, self->_lifecycleState)
/* CT1 the configuration admits a worker: with _maxSize == 0 every accepted task waits forever and the destructor gives up on it */ __CPROVER_ensures(self->_maxSize >= 1)
/* CT2 */ __CPROVER_ensures(self->_maxQueueSize == maxQueueSize && self->_initialSize == initialSize && self->_activeThreads == 0 && self->_busyThreads == 0)
/* CT3 the pool starts open */ __CPROVER_ensures(self->_accepting && !self->_shutdown && self->_lifecycleState == LifecycleState_Running)
/* CT4 number of initial workers requested */ __CPROVER_ensures(__CPROVER_return_value == (self->_workerScaling ? self->_initialSize : self->_maxSize))
;
void h_ctor(void)
{
  ThreadPool *s; size_t a, b, d; int64_t c; iora_handler e; ShutdownMode m;
  size_t n = ThreadPool_ctor(s, a, b, c, d, e, m);
  IORA_CANARY("h_ctor: returns");
}

/* ------------------------------------------------------------------ drain(): the waiting part (block target) */
bool ThreadPool_drain_wait_contract(ThreadPool *self, uint32_t timeoutMs)
TP_PRE
__CPROVER_requires(timeoutMs <= 2147483000u)
__CPROVER_assigns(TP_ASSIGNS)
/* D1 */ __CPROVER_ensures(TP_UNLOCKED)
/* DR2 "drain completed" is sound: every task accepted before the pending-count was read has FINISHED (witness) */ __CPROVER_ensures((__CPROVER_return_value && GQ < G_rel_hi) ==> GW.done)
;
void h_drain_wait(void)
{
  ThreadPool *s; uint32_t t;
  bool r = ThreadPool_drain_wait(s, t);
  IORA_CANARY("h_drain_wait: returns");
  if (r) { IORA_CANARY("h_drain_wait: drained"); } else { IORA_CANARY("h_drain_wait: timed out"); }
}

/* ------------------------------------------------------------------ shutdown(): flag + best-effort waits (block target; the guarantee of shutdown() is its join loop) */
void ThreadPool_shutdown_wait_contract(ThreadPool *self)
TP_PRE
__CPROVER_assigns(TP_ASSIGNS, self->_condition.n_all)
/* SH1 */ __CPROVER_ensures(TP_UNLOCKED)
/* SH2 the flag was set under the lock (CV1 at the assignment) and every waiting worker notified afterwards; a second call does nothing */ __CPROVER_ensures(self->_condition.n_all == __CPROVER_old(self->_condition.n_all) + ((!LIN0.shutdown && __CPROVER_old(self->_condition.n_all) < 0x7fffffffu) ? 1 : 0))
;
void h_shutdown_wait(void)
{
  ThreadPool *s;
  ThreadPool_shutdown_wait(s);
  IORA_CANARY("h_shutdown_wait: returns");
}

/* ------------------------------------------------------------------ shutdown phase 4: join */
ShutdownPhase4Result ThreadPool_shutdownPhase4_JoinThreads_contract(ThreadPool *self)
TP_PRE
__CPROVER_requires(JN.erased == 0 && JN.joined == 0 && JN.detached == 0 && !JN.witness_joined && 0 <= G_thread_budget && G_thread_budget <= (1 << 29))
__CPROVER_assigns(TP_ASSIGNS, G_wpos, G_last_joinable, G_thread_budget, JN)
/* S4a */ __CPROVER_ensures(TP_UNLOCKED && __CPROVER_return_value.success)
/* S4b when phase 4 returns no joinable thread is left in the map (witness entry; state of the last traversal, under the lock) */ __CPROVER_ensures(self->_threads.has_self ==> !self->_threads.self_joinable)
/* S4c every thread removed from the map was joined - or detached, and that only in DETACHED mode */ __CPROVER_ensures(0 <= JN.joined && 0 <= JN.detached && JN.joined <= (1 << 29) && JN.detached <= (1 << 29) && JN.erased == JN.joined + JN.detached && (self->_shutdownMode != ShutdownMode_DETACHED ==> JN.detached == 0))
/* S4d the reported number is the number of threads removed */ __CPROVER_ensures(__CPROVER_return_value.threadsJoined == JN.erased)
;
void h_phase4(void)
{
  ThreadPool *s;
  ShutdownPhase4Result r = ThreadPool_shutdownPhase4_JoinThreads(s);
  IORA_CANARY("h_phase4: returns");
  if (JN.joined) { IORA_CANARY("h_phase4: joined one"); }
  if (JN.detached) { IORA_CANARY("h_phase4: detached one"); }
}

/* ------------------------------------------------------------------ start(): the Reset -> Running path (block target, from the `currentState == Created` test to the final return) */
iora_lcresult ThreadPool_start_restart_contract(ThreadPool *self, LifecycleState currentState)
__CPROVER_requires(IORA_TRUE && iora_exc == EXC_NONE)
__CPROVER_requires(__CPROVER_is_fresh(self, sizeof(*self)))
__CPROVER_requires(!self->_mutex.held && !self->_configMutex.held && self->_tasks.guard == &self->_mutex && self->_threads.guard == &self->_mutex)
__CPROVER_requires(TP_INV(self) && TP_NOWRAP(self) && TP_NBOUND(self) && !G_acquired && !G_constructing && G_lifecycle_owner)
__CPROVER_requires(ME.active == 0 && ME.busy == 0 && !ME.took && !ME.took_witness)
__CPROVER_requires(ST.spawn_calls == 0 && ST.added == 0 && ST.live == 0 && ST.born_dead == 0)
__CPROVER_requires(self->_initialSize < ((size_t)1 << 40) && self->_maxSize < ((size_t)1 << 40))      /* size bound: fewer than 2^40 initial workers */
/* the states start() lets through to this point; in state Reset the pool is as stop() + reset() left it: shut down, not accepting */
__CPROVER_requires(currentState == LifecycleState_Created || (currentState == LifecycleState_Reset && self->_shutdown && !self->_accepting && self->_lifecycleState == LifecycleState_Reset))
__CPROVER_assigns(TP_ASSIGNS, ST)
/* ST0 */ __CPROVER_ensures(TP_UNLOCKED && __CPROVER_return_value.success && __CPROVER_return_value.newState == LifecycleState_Running)
/* ST2 restarted: the pool is open - _shutdown cleared (under the mutex, CV1), accepting, Running */ __CPROVER_ensures(currentState == LifecycleState_Reset ==> (!self->_shutdown && self->_accepting && self->_lifecycleState == LifecycleState_Running))
/* ST3 restarted: one spawnWorker() per initial worker */ __CPROVER_ensures(currentState == LifecycleState_Reset ==> ST.spawn_calls == (self->_workerScaling ? self->_initialSize : self->_maxSize))
/* ST4 restarted: every worker born by start() observed _shutdown == false at birth, so every map entry it added is a live worker */ __CPROVER_ensures(ST.born_dead == 0 && ST.live == ST.added)
/* ST5 state Created (constructor already started the pool): nothing is done */ __CPROVER_ensures(currentState == LifecycleState_Created ==> (ST.spawn_calls == 0 && self->_shutdown == __CPROVER_old(self->_shutdown)))
;
void h_start_restart(void)
{
  ThreadPool *s; LifecycleState st;
  iora_lcresult r = ThreadPool_start_restart(s, st);
  IORA_CANARY("h_start_restart: returns");
  if (st == LifecycleState_Reset) { IORA_CANARY("h_start_restart: restarted"); if (ST.live > 1) { IORA_CANARY("h_start_restart: several workers born"); } }
  else { IORA_CANARY("h_start_restart: created"); }
}
