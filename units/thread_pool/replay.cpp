// REPLAY adapter for unit thread_pool: runs one submission / drain / stop scenario on the REAL iora::core::ThreadPool and checks the
// observable clauses of post.c natively (each accepted task ran exactly once before stop() returned; refusal reasons; worker bound).
// The concurrent findings are demonstrated by demo_W1.cpp / demo_DR.cpp / demo_CT.cpp; this adapter is single-submitter.
//
// input file (name value lines, see native/replay_io.h):  INIT <initialSize> MAX <maxSize> QUEUE <maxQueueSize> TASKS <n> THROW <k: every k-th task throws, 0 = none>
//   SCENARIO W1 | DR | CT | RS   runs the committed concurrent scenario of that finding instead (same logic as demo_W1/DR/CT.cpp; unit.json
//   replay_scenarios maps the obligations WB1/SP3, DR1/DR2, CT1 to them); optional TRIALS <n> for W1 / DR
#include "iora/core/thread_pool.hpp"
#include "replay_io.h"
#include <atomic>
#include <future>
// W1: submitters that pass the `_threads.size() < _maxSize` check together all spawn
static void scenario_W1(long trials)
{
  size_t worst = 0;
  for (long trial = 0; trial < trials; trial++)
  {
    iora::core::ThreadPool pool(1, 2, std::chrono::seconds(30), 4096);
    const int N = 16;
    std::atomic<int> go{0}, ran{0};
    std::vector<std::thread> subs;
    for (int i = 0; i < N; i++)
      subs.emplace_back([&] { go.fetch_add(1); while (go.load() < N) {}
                              for (int k = 0; k < 4; k++) pool.enqueue([&] { std::this_thread::sleep_for(std::chrono::milliseconds(2)); ran.fetch_add(1); }); });
    for (auto &t : subs) t.join();
    size_t n = pool.getTotalThreadCount();
    if (n > worst) worst = n;
  }
  if (worst > 2) replay_io::fail("WB1 maxSize = 2 but getTotalThreadCount() = " + std::to_string(worst) + " after 16 concurrent submitters");
  replay_io::ok("W1 scenario: worker count stayed <= maxSize (observed " + std::to_string(worst) + ")");
}
// DR: drain() polls `_activeThreads == 0 && pending == 0`; a task just taken from the queue is in neither number
static void scenario_DR(long trials)
{
  for (long t = 0; t < trials; t++)
  {
    iora::core::ThreadPool pool(1, 1, std::chrono::seconds(30), 16);
    std::atomic<bool> started{false}, release{false}, done2{false};
    pool.enqueue([&] { started = true; while (!release.load(std::memory_order_acquire)) {} });
    while (!started) {}
    pool.enqueue([&] { std::this_thread::sleep_for(std::chrono::milliseconds(3)); done2 = true; });
    release.store(true, std::memory_order_release);
    for (volatile int k = 0; k < (t % 64) * 4; k++) {}
    auto r = pool.drain(2000);
    bool finished = done2.load();
    if (r.success && !finished)
      replay_io::fail("DR2 drain() reported success (\"" + r.message + "\") at trial " + std::to_string(t) + " but the accepted task had not finished");
  }
  replay_io::ok("DR scenario: no early drain in " + std::to_string(trials) + " trials");
}
// RS: stop() -> reset() -> start() on a fixed-size pool; every round submits N tasks that must all be running at the same time.
// A worker born by start() while _shutdown is still set exits at once and its map slot stays dead: the round cannot complete.
static void scenario_RS(long rounds)
{
  constexpr std::size_t N = 16;      // many initial workers: the spawn loop is long, so early workers run before start() gets any further
  iora::core::ThreadPool pool(N, N, std::chrono::seconds(30), 64);
  for (long round = 0; round < rounds; ++round)
  {
    std::atomic<std::size_t> arrived{0};
    std::atomic<bool> giveUp{false};
    std::vector<std::future<bool>> futs;
    for (std::size_t i = 0; i < N; ++i)
      futs.push_back(pool.enqueueWithResult([&arrived, &giveUp]() { arrived.fetch_add(1);
        while (arrived.load() < N && !giveUp.load()) std::this_thread::sleep_for(std::chrono::milliseconds(1));
        return arrived.load() >= N; }));
    bool ok = true;
    for (auto &f : futs) if (f.wait_for(std::chrono::seconds(2)) != std::future_status::ready) { ok = false; break; }
    if (!ok)
    {
      std::string msg = "ST4 round " + std::to_string(round) + ": accepted tasks not executed after restart: " + std::to_string(arrived.load()) + " of 16 started, map holds " +
        std::to_string(pool.getTotalThreadCount()) + " workers, " + std::to_string(pool._threadsCreated.load() - pool._threadsExited.load()) + " alive, " + std::to_string(pool.getPendingTaskCount()) + " tasks still queued";
      giveUp = true;
      for (auto &f : futs) f.wait_for(std::chrono::seconds(1));
      printf("REPLAY-FAIL: %s\n", msg.c_str()); fflush(stdout); _Exit(1);
    }
    for (auto &f : futs) f.get();
    if (!pool.stop().success || !pool.reset().success || !pool.start().success) replay_io::fail("restart cycle stop/reset/start failed");
  }
  replay_io::ok("RS scenario: " + std::to_string(rounds) + " restart rounds, every accepted task ran");
}
// CT: a pool that can never have a worker accepts work
static void scenario_CT()
{
  std::atomic<bool> ran{false};
  bool acc;
  { iora::core::ThreadPool p(0, 0); acc = p.tryEnqueue([&] { ran = true; }); }
  if (acc && !ran) replay_io::fail("CT1 ThreadPool(0,0) accepted a task that never ran; the destructor returned without it");
  replay_io::ok("CT scenario: accepted task ran before the destructor returned");
}

int main(int argc, char **argv)
{
  std::map<std::string, std::string> in;
  if (argc > 1) in = replay_io::load(argv[1]);
  if (in.count("SCENARIO"))
  {
    std::string sc = in["SCENARIO"];
    long trials = in.count("TRIALS") ? (long)replay_io::u64(in["TRIALS"]) : 0;
    if (sc == "W1") { scenario_W1(trials ? trials : 50); return 0; }
    if (sc == "DR") { scenario_DR(trials ? trials : 10000); return 0; }
    if (sc == "CT") { scenario_CT(); return 0; }
    if (sc == "RS") { scenario_RS(trials ? trials : 40); return 0; }
    replay_io::fail("unknown SCENARIO " + sc);
  }
  auto get = [&](const char *k, size_t d) { return in.count(k) ? (size_t)replay_io::u64(in[k]) : d; };
  size_t init = get("INIT", 1), max = get("MAX", 2), queue = get("QUEUE", 8), n = get("TASKS", 40), thr = get("THROW", 7);
  std::vector<std::atomic<int>> runs(n);
  std::atomic<int> handled{0};
  size_t accepted = 0, refused_full = 0;
  {
    iora::core::ThreadPool pool(init, max, std::chrono::milliseconds(50), queue, [&](std::exception_ptr) { handled++; });
    for (size_t i = 0; i < n; i++)
    {
      bool ok = pool.tryEnqueue([&, i] { runs[i]++; if (thr && i % thr == thr - 1) throw std::runtime_error("task"); });
      if (ok) accepted++;
      else { refused_full++; runs[i] = -1; if (pool.getPendingTaskCount() < queue) replay_io::fail("EN3 refused although accepting, not shut down and not full"); std::this_thread::sleep_for(std::chrono::milliseconds(1)); }
      if (pool.getPendingTaskCount() > queue) replay_io::fail("MI1 queue longer than maxQueueSize");
      if (max >= 1 && pool.getTotalThreadCount() > max) replay_io::fail("WB1 more workers than maxSize");
    }
    auto r = pool.stop();
    if (!r.success) replay_io::fail("stop() failed: " + r.message);
    for (size_t i = 0; i < n; i++) if (runs[i] != -1 && runs[i] != 1) replay_io::fail("WS6 accepted task " + std::to_string(i) + " ran " + std::to_string(runs[i].load()) + " times before stop() returned");
    if (pool.tryEnqueue([] {})) replay_io::fail("EN5 submission accepted after stop()");
    bool threw = false;
    try { pool.enqueue([] {}); } catch (const std::runtime_error &) { threw = true; }
    if (!threw) replay_io::fail("EN5 enqueue() accepted after stop()");
  }
  replay_io::ok("accepted " + std::to_string(accepted) + ", refused(full) " + std::to_string(refused_full) + ": every accepted task ran exactly once before stop() returned");
  return 0;
}
