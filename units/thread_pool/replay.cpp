// REPLAY adapter for unit thread_pool: runs one submission / drain / stop scenario on the REAL iora::core::ThreadPool and checks the
// observable clauses of post.c natively (each accepted task ran exactly once before stop() returned; refusal reasons; worker bound).
// The concurrent findings are demonstrated by demo_W1.cpp / demo_DR.cpp / demo_CT.cpp; this adapter is single-submitter.
//
// input file (name value lines, see native/replay_io.h):  INIT <initialSize> MAX <maxSize> QUEUE <maxQueueSize> TASKS <n> THROW <k: every k-th task throws, 0 = none>
#include "iora/core/thread_pool.hpp"
#include "replay_io.h"
#include <atomic>
int main(int argc, char **argv)
{
  std::map<std::string, std::string> in;
  if (argc > 1) in = replay_io::load(argv[1]);
  auto get = [&](const char *k, size_t d) { return in.count(k) ? (size_t)replay_io::u64(in[k]) : d; };
  size_t init = get("INIT", 1), max = get("MAX", 2), queue = get("QUEUE", 8), n = get("TASKS", 40), thr = get("THROW", 7);
  std::vector<std::atomic<int>> runs(n);
  std::atomic<int> handled{0};
  size_t accepted = 0, refused_full = 0;
  {
    iora::core::ThreadPool pool(init, max, std::chrono::milliseconds(50), queue, [&](std::exception_ptr) { handled++; });
    for (size_t i = 0; i < n; i++)
    {
      bool ok = pool.tryEnqueue([&, i] { runs[i]++; if (thr && i % thr == thr - 1) throw std::runtime_error("task"); });
      if (ok) accepted++;
      else { refused_full++; runs[i] = -1; if (pool.getPendingTaskCount() < queue) replay_io::fail("EN3 refused although accepting, not shut down and not full"); std::this_thread::sleep_for(std::chrono::milliseconds(1)); }
      if (pool.getPendingTaskCount() > queue) replay_io::fail("MI1 queue longer than maxQueueSize");
      if (max >= 1 && pool.getTotalThreadCount() > max) replay_io::fail("WB1 more workers than maxSize");
    }
    auto r = pool.stop();
    if (!r.success) replay_io::fail("stop() failed: " + r.message);
    for (size_t i = 0; i < n; i++) if (runs[i] != -1 && runs[i] != 1) replay_io::fail("WS6 accepted task " + std::to_string(i) + " ran " + std::to_string(runs[i].load()) + " times before stop() returned");
    if (pool.tryEnqueue([] {})) replay_io::fail("EN5 submission accepted after stop()");
    bool threw = false;
    try { pool.enqueue([] {}); } catch (const std::runtime_error &) { threw = true; }
    if (!threw) replay_io::fail("EN5 enqueue() accepted after stop()");
  }
  replay_io::ok("accepted " + std::to_string(accepted) + ", refused(full) " + std::to_string(refused_full) + ": every accepted task ran exactly once before stop() returned");
  return 0;
}
