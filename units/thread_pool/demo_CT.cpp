// Native demonstration of finding CT (property C09: "every task whose submission is accepted is executed exactly once ... destroying
// the pool returns only after every accepted task has finished"). Deterministic, single-threaded caller.
//
//   g++ -std=c++17 -O2 -I/repo/include /verif/units/thread_pool/demo_CT.cpp -o /tmp/demo_CT -lpthread && /tmp/demo_CT
//
// The constructor does not validate its sizes. maxSize == 0 (which is also what the DEFAULT arguments produce on a platform where
// std::thread::hardware_concurrency() returns 0) gives a pool that accepts work but can never create a worker. Unrepaired header:
//     ThreadPool(0,0): tryEnqueue accepted = 1
//     destructor returned after 5014 ms, accepted task ran = 0                      (exit 1)
// With repair_CT.diff (_maxSize clamped to >= 1): the task runs, the destructor returns at once (exit 0).
#include "iora/core/thread_pool.hpp"
#include <atomic>
#include <cstdio>
int main()
{
  std::atomic<bool> ran{false};
  auto t0 = std::chrono::steady_clock::now();
  {
    iora::core::ThreadPool p(0, 0);
    bool acc = p.tryEnqueue([&] { ran = true; });
    printf("ThreadPool(0,0): tryEnqueue accepted = %d\n", (int)acc);
  }
  long long ms = std::chrono::duration_cast<std::chrono::milliseconds>(std::chrono::steady_clock::now() - t0).count();
  printf("destructor returned after %lld ms, accepted task ran = %d\n", ms, (int)ran.load());
  return ran ? 0 : 1;
}
