"""Unit-local extraction plugin for thread_pool (same as units/blocking_queue/plugin.py): RAII scope exit of lock guards (R11).

`std::unique_lock<std::mutex> lock(_mutex);` / `std::lock_guard<...> lock(_mutex);` is rewritten by a declared rule into
`iora_ulock lock = iora_ulock_make(&_mutex);`. C has no destructors, so this hook makes every scope exit explicit:
  * every `return E;` between the declaration and the end of its enclosing block becomes
        { RET iora_rv = E; iora_ulock_dtor(&lock); return iora_rv; }      (E is evaluated BEFORE the guard is released, as in C++)
  * `iora_ulock_dtor(&lock);` is inserted before the closing brace of the enclosing block (or at the end of a void function).
`break` / `continue` inside a loop or switch that is itself nested in the guarded block are fine; `break` / `continue` / `goto`
that would LEAVE the guarded block are outside the subset (extraction break)."""
from vt.lexer import Tok, match_close
from vt.x2c import ExtractionBreak


def _dtor(name, L):
    return [Tok('id', 'iora_ulock_dtor', L, final=True), Tok('op', '(', L), Tok('op', '&', L), Tok('id', name, L, final=True),
            Tok('op', ')', L), Tok('op', ';', L)]


def _one(t, rw, decl, rett):
    name = t[decl + 1].text
    # end of the enclosing block
    depth = 0
    end = len(t)
    for i in range(decl, len(t)):
        x = t[i]
        if x.kind in ('str', 'chr', 'expr'):
            continue
        if x.text == '{':
            depth += 1
        elif x.text == '}':
            depth -= 1
            if depth < 0:
                end = i
                break
    out = list(t[:decl])
    t[decl].final = True
    i = decl
    n = 0
    inner = []          # token ranges of loop / switch bodies nested inside the guarded block
    for k in range(decl, end):
        y = t[k]
        if y.kind == 'id' and y.text in ('while', 'for', 'switch') and k + 1 < end and t[k + 1].text == '(':
            rp = match_close(t, k + 1)
            if rp + 1 < end and t[rp + 1].text == '{':
                inner.append((rp + 1, match_close(t, rp + 1)))
            else:
                inner.append((rp + 1, rw._stmt_end(t, rp + 1)))
    while i < end:
        x = t[i]
        if x.kind == 'id' and x.text == 'goto' or (x.kind == 'id' and x.text in ('break', 'continue') and not any(a <= i <= b for a, b in inner)):
            raise ExtractionBreak(f"{rw.prefix}: `{x.text}` leaving a lock-guarded block is outside the subset")
        if x.kind == 'id' and x.text == 'return':
            e = rw._stmt_end(t, i)
            L = x.line
            expr = t[i + 1:e]
            if len(expr) == 1 and expr[0].text == 'iora_rv' or (not expr and x.final):
                out += _dtor(name, L) + t[i:e + 1]          # already made explicit for an inner guard: release this one too
            elif rett == 'void' or not expr:
                out += [Tok('op', '{', L)] + _dtor(name, L) + [Tok('id', 'return', L, final=True), Tok('op', ';', L), Tok('op', '}', L)]
            else:
                out += [Tok('op', '{', L)] + [Tok('id', w, L, final=True) for w in rett.split()] + [Tok('id', 'iora_rv', L, final=True), Tok('op', '=', L)] + expr + [Tok('op', ';', L)]
                out += _dtor(name, L) + [Tok('id', 'return', L), Tok('id', 'iora_rv', L, final=True), Tok('op', ';', L), Tok('op', '}', L)]
            n += 1
            i = e + 1
            continue
        out.append(x)
        i += 1
    if end < len(t) or rett == 'void':
        L = t[end - 1].line if end > 0 else 0
        out += _dtor(name, L)
        n += 1
    out += t[end:]
    rw.R.fire('R11 scope exit', n)
    return out


def hook_before_loops(t, rw):
    cdecl = rw.fn['cdecl'].strip()
    rett = cdecl.split(rw.fn.get('cname', rw.fn['name']))[0].replace('static', '').replace('inline', '').strip()
    while True:
        decl = None
        for i, x in enumerate(t):
            if x.kind == 'id' and x.text == 'iora_ulock' and not x.final and i + 2 < len(t) and t[i + 1].kind == 'id' and t[i + 2].text == '=':
                decl = i
        if decl is None:
            return t
        t = _one(t, rw, decl, rett)       # innermost/last first, so an outer guard sees the inner one's explicit returns
