/* type environment + loop contract for unit dns_typed (typed record parsers of DnsMessage) */
#include "iora_dns_contracts.h"
#include "iora_dns_types.h"
#include "iora_dns_record_contracts.h"     /* decodeNameFromRdata: proved in unit dns_rdata, called here only through its contract (use form) */
size_t decodeNameFromRdata(const uint8_t *messageData, size_t messageSize, size_t rdataStart, size_t rdataOffset, const uint8_t *rdata, size_t rdataSize, iora_ostr *name);
/* functions of dns_rdata referenced by the shared contract header but not part of this unit */

/* loop 1 of parseTxtRecord: <character-string>s, each one length octet + that many octets (RFC 1035 3.3.14).
 * Exact accounting: at the loop head every octet consumed so far is a length octet (one per string) or a string octet. */
#define IORA_LOOP_parseTxtRecord_1 IORA_LC( \
  __CPROVER_assigns(offset, record.text) \
  __CPROVER_loop_invariant(offset <= rr->rdata.n && record.text.n <= offset && record.text.bytes <= offset && record.text.n + record.text.bytes == offset) \
  /* the first string: once past it, at least 1 + its length octets are consumed; exactly that many <=> exactly one string so far */ \
  __CPROVER_loop_invariant(offset > 0 ==> offset >= 1 + (size_t)rr->rdata.p[0]) \
  __CPROVER_loop_invariant((offset > 0 && offset == 1 + (size_t)rr->rdata.p[0]) ==> (record.text.n == 1 && record.text.last.n == rr->rdata.p[0])) \
  /* the string pushed last: its length octet and (witness index GK) its bytes are the RDATA octets right before offset */ \
  __CPROVER_loop_invariant(record.text.n > 0 ==> (record.text.last.n < offset && rr->rdata.p[offset - record.text.last.n - 1] == record.text.last.n)) \
  __CPROVER_loop_invariant((record.text.n > 0 && GK < record.text.last.n) ==> (record.text.last.gk & 0xFF) == rr->rdata.p[offset - record.text.last.n + GK]) \
  __CPROVER_decreases(rr->rdata.n - offset))

/* parseARecord / parseAAAARecord format the address through std::ostringstream / inet_ntop (outside the extractable subset):
 * NOT under contract. For the dispatch proof they are environment stubs with an ASSUMED contract (trusted base): they write only
 * their result and raise nothing but DnsParseException. */
void parseARecord(const DnsResourceRecord *rr, ARecord *iora_ret);
void parseAAAARecord(const DnsResourceRecord *rr, AAAARecord *iora_ret);
