/* Contracts + harnesses of unit dns_typed (property C19: "every supported record type ... decodes to exactly the records it encodes",
 * "without reading outside the buffer"; RFC 1035 3.3, RFC 2782 (SRV), RFC 3403 (NAPTR)).
 * RDATA of the record [rdataOffset, rdataOffset + rdata.size()) lies inside the message (parseResourceRecord clauses R1/R3). */
#define TR_PRE \
__CPROVER_requires(IORA_TRUE && iora_exc == EXC_NONE && __CPROVER_is_fresh(rr, sizeof(*rr))) \
__CPROVER_requires(rr->rdata.n <= 65535 && __CPROVER_is_fresh(rr->rdata.p, rr->rdata.n)) \
__CPROVER_requires(messageSize <= DN_MAX_MSG && __CPROVER_is_fresh(messageData, messageSize)) \
__CPROVER_requires(rdataOffset <= messageSize && rr->rdata.n <= messageSize - rdataOffset) \
__CPROVER_requires(__CPROVER_is_fresh(iora_ret, sizeof(*iora_ret)) && G_msg_size == messageSize && G_rd_calls == 0) \
__CPROVER_assigns(iora_exc, *iora_ret, G_rd_off, G_rd_ret, G_rd_calls)
#define RD (rr->rdata.p)
#define RN (rr->rdata.n)
#define OKAY (iora_exc == EXC_NONE)
#define TR_COMMON(T) \
/* only DnsParseException; type/class/ttl of the typed record */ \
__CPROVER_ensures(OKAY || iora_exc == EXC_DnsParseException) \
__CPROVER_ensures(OKAY ==> (iora_ret->type == (T) && iora_ret->ttl == rr->ttl))

/* SRV (RFC 2782): priority(2) weight(2) port(2) target */
void parseSrvRecord_contract(const DnsResourceRecord *rr, const uint8_t *messageData, size_t messageSize, size_t rdataOffset, SrvRecord *iora_ret)
TR_PRE
TR_COMMON(DnsType_SRV)
/* SV1 */ __CPROVER_ensures(RN < 6 ==> !OKAY)
/* SV2 */ __CPROVER_ensures(OKAY ==> iora_ret->priority == U16BE(RD, 0))
__CPROVER_ensures(OKAY ==> iora_ret->weight == U16BE(RD, 2))
__CPROVER_ensures(OKAY ==> iora_ret->port == U16BE(RD, 4))
/* SV3 the target name is decoded at RDATA offset 6, once, when there is one */
__CPROVER_ensures((OKAY && RN > 6 && messageSize > 0) ==> (G_rd_calls == 1 && G_rd_off == 6))
__CPROVER_ensures((OKAY && RN == 6) ==> (G_rd_calls == 0 && iora_ret->target.n == 0))
/* SV4 */ __CPROVER_ensures(OKAY ==> iora_ret->target.n <= RFC_MAX_TEXT)
;
void h_srv(void) { const DnsResourceRecord *rr; const uint8_t *m; size_t ms, ro; SrvRecord *o; parseSrvRecord(rr, m, ms, ro, o); IORA_CANARY("h_srv: returns"); if (iora_exc) { IORA_CANARY("h_srv: rejected"); } else { IORA_CANARY("h_srv: decoded"); } }

/* MX: preference(2) exchange */
void parseMxRecord_contract(const DnsResourceRecord *rr, const uint8_t *messageData, size_t messageSize, size_t rdataOffset, MxRecord *iora_ret)
TR_PRE
TR_COMMON(DnsType_MX)
/* MX1 */ __CPROVER_ensures(RN < 2 ==> !OKAY)
/* MX2 */ __CPROVER_ensures(OKAY ==> iora_ret->preference == U16BE(RD, 0))
/* MX3 */ __CPROVER_ensures((OKAY && RN > 2 && messageSize > 0) ==> (G_rd_calls == 1 && G_rd_off == 2))
__CPROVER_ensures((OKAY && RN == 2) ==> (G_rd_calls == 0 && iora_ret->exchange.n == 0))
/* MX4 */ __CPROVER_ensures(OKAY ==> iora_ret->exchange.n <= RFC_MAX_TEXT)
;
void h_mx(void) { const DnsResourceRecord *rr; const uint8_t *m; size_t ms, ro; MxRecord *o; parseMxRecord(rr, m, ms, ro, o); IORA_CANARY("h_mx: returns"); if (iora_exc) { IORA_CANARY("h_mx: rejected"); } else { IORA_CANARY("h_mx: decoded"); } }

/* CNAME / PTR: one name at RDATA offset 0 */
void parseCnameRecord_contract(const DnsResourceRecord *rr, const uint8_t *messageData, size_t messageSize, size_t rdataOffset, CnameRecord *iora_ret)
TR_PRE
TR_COMMON(DnsType_CNAME)
/* CN1 */ __CPROVER_ensures((OKAY && RN > 0 && messageSize > 0) ==> (G_rd_calls == 1 && G_rd_off == 0))
/* CN2 */ __CPROVER_ensures(RN == 0 ==> (OKAY && G_rd_calls == 0 && iora_ret->cname.n == 0))
/* CN3 */ __CPROVER_ensures(OKAY ==> iora_ret->cname.n <= RFC_MAX_TEXT)
;
void h_cname(void) { const DnsResourceRecord *rr; const uint8_t *m; size_t ms, ro; CnameRecord *o; parseCnameRecord(rr, m, ms, ro, o); IORA_CANARY("h_cname: returns"); if (iora_exc) { IORA_CANARY("h_cname: rejected"); } else { IORA_CANARY("h_cname: decoded"); } }

void parsePtrRecord_contract(const DnsResourceRecord *rr, const uint8_t *messageData, size_t messageSize, size_t rdataOffset, PtrRecord *iora_ret)
TR_PRE
TR_COMMON(DnsType_PTR)
/* PT1 */ __CPROVER_ensures((OKAY && RN > 0 && messageSize > 0) ==> (G_rd_calls == 1 && G_rd_off == 0))
/* PT2 */ __CPROVER_ensures(RN == 0 ==> (OKAY && G_rd_calls == 0 && iora_ret->ptrdname.n == 0))
/* PT3 */ __CPROVER_ensures(OKAY ==> iora_ret->ptrdname.n <= RFC_MAX_TEXT)
;
void h_ptr(void) { const DnsResourceRecord *rr; const uint8_t *m; size_t ms, ro; PtrRecord *o; parsePtrRecord(rr, m, ms, ro, o); IORA_CANARY("h_ptr: returns"); if (iora_exc) { IORA_CANARY("h_ptr: rejected"); } else { IORA_CANARY("h_ptr: decoded"); } }

/* SOA (RFC 1035 3.3.13): MNAME RNAME SERIAL(4) REFRESH(4) RETRY(4) EXPIRE(4) MINIMUM(4); G_rd_ret = RDATA offset after the names */
void parseSoaRecord_contract(const DnsResourceRecord *rr, const uint8_t *messageData, size_t messageSize, size_t rdataOffset, SoaRecord *iora_ret)
TR_PRE
TR_COMMON(DnsType_SOA)
/* SO1 */ __CPROVER_ensures((RN < 20 || messageSize == 0) ==> !OKAY)
/* SO2 the five numbers are the 20 octets after the two names, inside RDATA */
__CPROVER_ensures(OKAY ==> (G_rd_calls >= 1 && G_rd_calls <= 2 && G_rd_ret <= RN && RN - G_rd_ret >= 20))
__CPROVER_ensures(OKAY ==> iora_ret->serial == U32BE(RD, G_rd_ret))
__CPROVER_ensures(OKAY ==> iora_ret->refresh == U32BE(RD, G_rd_ret + 4))
__CPROVER_ensures(OKAY ==> iora_ret->retry == U32BE(RD, G_rd_ret + 8))
__CPROVER_ensures(OKAY ==> iora_ret->expire == U32BE(RD, G_rd_ret + 12))
__CPROVER_ensures(OKAY ==> iora_ret->minimum == U32BE(RD, G_rd_ret + 16))
/* SO3 */ __CPROVER_ensures(OKAY ==> (iora_ret->mname.n <= RFC_MAX_TEXT && iora_ret->rname.n <= RFC_MAX_TEXT))
;
void h_soa(void) { const DnsResourceRecord *rr; const uint8_t *m; size_t ms, ro; SoaRecord *o; parseSoaRecord(rr, m, ms, ro, o); IORA_CANARY("h_soa: returns"); if (iora_exc) { IORA_CANARY("h_soa: rejected"); } else { IORA_CANARY("h_soa: decoded"); } }

/* NAPTR helper lambda parseString: one <character-string> at *offset (loop-free -> plain harness, full domain) */
void *malloc(size_t);
void h_naptr_string(void)
{
  DnsResourceRecord rr; size_t off = nondet_size_t(); iora_ostr str;
  rr.rdata.n = nondet_size_t();
  __CPROVER_assume(rr.rdata.n <= 65535 && off <= 65536);
  uint8_t *buf = malloc(rr.rdata.n); __CPROVER_assume(buf != 0);
  rr.rdata.p = buf;
  IORA_TRUE = 1; iora_exc = EXC_NONE; GK = nondet_size_t();
  const size_t off0 = off, n = rr.rdata.n; const iora_ostr s0 = str;
  naptr_parseString(&rr, &off, &str);
  IORA_CANARY("h_naptr_string: returns");
  const bool has_len = off0 < n;
  const uint8_t len = has_len ? buf[off0] : 0;
  const bool fits = has_len && (size_t)len <= n - off0 - 1;
  __CPROVER_assert(iora_exc == EXC_NONE, "NS1 never raises");
  __CPROVER_assert(!has_len ==> (off == off0 && str.n == s0.n && str.gk == s0.gk), "NS2 nothing left: nothing consumed, string untouched");
  __CPROVER_assert(fits ==> (off == off0 + 1 + len && str.n == len), "NS3 a complete string: length octet + that many octets consumed");
  __CPROVER_assert((fits && GK < len) ==> (str.gk & 0xFF) == buf[off0 + 1 + GK], "NS4 string bytes copied verbatim");
  __CPROVER_assert((has_len && !fits) ==> (off == off0 + 1 && str.n == s0.n && str.gk == s0.gk), "NS5 a truncated string: only its length octet is consumed, string untouched");
  __CPROVER_assert(off <= (off0 > n ? off0 : n), "NS6 the offset never passes the end of RDATA");
}

/* NAPTR (RFC 3403 4.1): order(2) preference(2) flags service regexp (character-strings) replacement (name) */
void parseNaptrRecord_contract(const DnsResourceRecord *rr, const uint8_t *messageData, size_t messageSize, size_t rdataOffset, NaptrRecord *iora_ret)
TR_PRE
TR_COMMON(DnsType_NAPTR)
/* NP1 */ __CPROVER_ensures(RN < 4 ==> !OKAY)
/* NP2 */ __CPROVER_ensures(OKAY ==> iora_ret->order == U16BE(RD, 0))
__CPROVER_ensures(OKAY ==> iora_ret->preference == U16BE(RD, 2))
/* NP3 the flags string is the character-string at RDATA offset 4 */
__CPROVER_ensures((OKAY && RN > 4 && (size_t)RD[4] <= RN - 5) ==> iora_ret->flags.n == RD[4])
__CPROVER_ensures((OKAY && RN > 4 && (size_t)RD[4] <= RN - 5 && GK < RD[4]) ==> (iora_ret->flags.gk & 0xFF) == RD[5 + GK])
/* NP4 the replacement name, when there is one, is decoded once at an RDATA offset inside RDATA, after the fixed fields */
__CPROVER_ensures((OKAY && G_rd_calls > 0) ==> (G_rd_calls == 1 && G_rd_off >= 4 && G_rd_off < RN))
/* NP5 */ __CPROVER_ensures(OKAY ==> (iora_ret->flags.n <= 255 && iora_ret->service.n <= 255 && iora_ret->regexp.n <= 255 && iora_ret->replacement.n <= RFC_MAX_TEXT))
;
void h_naptr(void) { const DnsResourceRecord *rr; const uint8_t *m; size_t ms, ro; NaptrRecord *o; parseNaptrRecord(rr, m, ms, ro, o); IORA_CANARY("h_naptr: returns"); if (iora_exc) { IORA_CANARY("h_naptr: rejected"); } else { IORA_CANARY("h_naptr: decoded"); } }

/* TXT (RFC 1035 3.3.14): one or more character-strings */
void parseTxtRecord_contract(const DnsResourceRecord *rr, TxtRecord *iora_ret)
__CPROVER_requires(IORA_TRUE && iora_exc == EXC_NONE && __CPROVER_is_fresh(rr, sizeof(*rr)))
__CPROVER_requires(rr->rdata.n <= 65535 && __CPROVER_is_fresh(rr->rdata.p, rr->rdata.n))
__CPROVER_requires(__CPROVER_is_fresh(iora_ret, sizeof(*iora_ret)))
__CPROVER_assigns(*iora_ret)
/* TX1 never raises */ __CPROVER_ensures(OKAY)
/* TX2 */ __CPROVER_ensures(iora_ret->type == DnsType_TXT && iora_ret->ttl == rr->ttl)
/* TX3 every string costs its length octet and its bytes: strings + bytes <= RDATA size */
__CPROVER_ensures(iora_ret->text.n <= RN && iora_ret->text.bytes <= RN - iora_ret->text.n)
/* TX4 a single complete character-string filling RDATA is decoded as exactly that string */
__CPROVER_ensures((RN >= 1 && (size_t)RD[0] == RN - 1) ==> (iora_ret->text.n == 1 && iora_ret->text.last.n == RN - 1))
__CPROVER_ensures((RN >= 1 && (size_t)RD[0] == RN - 1 && GK < RN - 1) ==> (iora_ret->text.last.gk & 0xFF) == RD[1 + GK])
/* TX5 empty RDATA: no strings */
__CPROVER_ensures(RN == 0 ==> iora_ret->text.n == 0)
;
void h_txt(void) { const DnsResourceRecord *rr; TxtRecord *o; parseTxtRecord(rr, o); IORA_CANARY("h_txt: returns"); }

/* ------------------------------------------------------------------------------------------------------------------
 * parseTypedRecord: the dispatch on rr.type with the try/catch that contains typed-decoding errors (R8 lowering).
 * The seven parsers above are replaced by their proved contracts; parseARecord/parseAAAARecord by assumed ones. */
void parseARecord_assumed(const DnsResourceRecord *rr, ARecord *iora_ret)
__CPROVER_requires(IORA_TRUE && iora_exc == EXC_NONE && __CPROVER_is_fresh(iora_ret, sizeof(*iora_ret)))
__CPROVER_assigns(iora_exc, *iora_ret)
__CPROVER_ensures(OKAY || iora_exc == EXC_DnsParseException)
;
void parseAAAARecord_assumed(const DnsResourceRecord *rr, AAAARecord *iora_ret)
__CPROVER_requires(IORA_TRUE && iora_exc == EXC_NONE && __CPROVER_is_fresh(iora_ret, sizeof(*iora_ret)))
__CPROVER_assigns(iora_exc, *iora_ret)
__CPROVER_ensures(OKAY || iora_exc == EXC_DnsParseException)
;

/* contract text: shims/iora_dns_record_contracts.h (shared with unit dns_parse) */
void h_dispatch(void)
{
  const DnsResourceRecord *rr; DnsResult *res; const uint8_t *m; size_t ms, ro;
  parseTypedRecord(rr, res, m, ms, ro);
  IORA_CANARY("h_dispatch: returns");
}
