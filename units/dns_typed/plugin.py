"""Unit-local extractor hook for dns_typed.

DnsMessage::parseNaptrRecord defines its helper `parseString` as a local lambda capturing by reference:
    auto parseString = [&](std::string &str) { ... };
The lambda body is extracted as its own C function (`naptr_parseString`, unit.json "lambda_in"; the captured `rr` and `offset` become
pointer parameters), so the defining statement is cut out of the host's token stream here. The calls `parseString(record.x);` stay
and are mapped to `naptr_parseString(rr, &offset, &record.x)` by a declared rule. Checked on every run (else exit 2): exactly one
definition, capture list `[&]`, parameter list `std::string &str`, plain statement. Nothing else is added, removed or reordered.
"""
from vt.lexer import match_close, text_of
from vt.x2c import ExtractionBreak


def hook_begin(t, rw):
    if rw.prefix != 'parseNaptrRecord':
        return t
    hits = [i for i in range(len(t) - 3) if t[i].text == 'auto' and t[i + 1].text == 'parseString' and t[i + 2].text == '=' and t[i + 3].text == '[']
    if len(hits) != 1:
        raise ExtractionBreak(f"parseNaptrRecord: {len(hits)} definitions of the local lambda `parseString` (need exactly 1)")
    i = hits[0]
    rbk = match_close(t, i + 3)
    if text_of(t[i + 3:rbk + 1]).replace(' ', '') != '[&]':
        raise ExtractionBreak("parseNaptrRecord: capture list of `parseString` changed: " + text_of(t[i + 3:rbk + 1]))
    if t[rbk + 1].text != '(':
        raise ExtractionBreak("parseNaptrRecord: lambda `parseString` has no parameter list")
    rp = match_close(t, rbk + 1)
    if text_of(t[rbk + 2:rp]).replace(' ', '') != 'std::string&str':
        raise ExtractionBreak("parseNaptrRecord: lambda `parseString` parameter list changed: " + text_of(t[rbk + 2:rp]))
    if t[rp + 1].text != '{':
        raise ExtractionBreak("parseNaptrRecord: lambda `parseString` has a trailing return type / specifier")
    rb = match_close(t, rp + 1)
    if t[rb + 1].text != ';':
        raise ExtractionBreak("parseNaptrRecord: lambda `parseString` definition is not a plain statement")
    rw.R.notes.append(f"parseNaptrRecord: definition of local lambda `parseString` (lines {t[i].line}-{t[rb].line}) cut from the host; its body is extracted as naptr_parseString")
    return t[:i] + t[rb + 2:]
