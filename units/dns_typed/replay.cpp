// REPLAY adapter of unit dns_typed: IN is a whole DNS message with exactly ONE answer record; it goes to the REAL DnsMessage::parse
// on an exact-size heap buffer (ASan/UBSan see any read outside RDATA / the message); the typed record is compared with an
// independent decoding of the fixed RDATA fields (SRV, MX, SOA numbers, NAPTR order/preference, TXT single string).
// input file:  IN <hex bytes>
#include "iora/network/dns/dns_message.hpp"
#include "replay_io.h"
using namespace iora::network::dns;
int main(int argc, char **argv)
{
  auto in = replay_io::load(argv[1]);
  std::vector<uint8_t> d = replay_io::bytes(in["IN"]);
  uint8_t *buf = new uint8_t[d.size() ? d.size() : 1];
  std::copy(d.begin(), d.end(), buf);
  DnsResult r; bool threw = false; std::string what;
  try { r = DnsMessage::parse(buf, d.size()); }
  catch (const DnsParseException &e) { threw = true; what = e.what(); }
  catch (const std::exception &e) { replay_io::fail(std::string("an exception other than DnsParseException escaped: ") + e.what()); }
  if (!threw && r.answers.size() == 1)
  {
    const DnsResourceRecord &rr = r.answers[0];
    const std::vector<uint8_t> &x = rr.rdata;
    auto u16 = [&](size_t o) { return (unsigned)((x[o] << 8) | x[o + 1]); };
    auto u32 = [&](size_t o) { return ((unsigned long)x[o] << 24) | (x[o + 1] << 16) | (x[o + 2] << 8) | x[o + 3]; };
    if (rr.type == DnsType::SRV && r.srv_records.size() == 1)
    { const auto &s = r.srv_records[0]; if (s.priority != u16(0) || s.weight != u16(2) || s.port != u16(4) || s.ttl != rr.ttl) replay_io::fail("SV2: SRV fixed fields"); }
    if (rr.type == DnsType::SRV && x.size() < 6 && !r.srv_records.empty()) replay_io::fail("SV1: SRV with short RDATA decoded");
    if (rr.type == DnsType::MX && r.mx_records.size() == 1)
    { const auto &s = r.mx_records[0]; if (s.preference != u16(0) || s.ttl != rr.ttl) replay_io::fail("MX2: MX preference"); }
    if (rr.type == DnsType::NAPTR && r.naptr_records.size() == 1)
    { const auto &s = r.naptr_records[0]; if (s.order != u16(0) || s.preference != u16(2)) replay_io::fail("NP2: NAPTR order/preference");
      if (x.size() > 4 && (size_t)x[4] <= x.size() - 5 && s.flags != std::string(x.begin() + 5, x.begin() + 5 + x[4])) replay_io::fail("NP3: NAPTR flags string"); }
    if (rr.type == DnsType::SOA && r.soa_records.size() == 1 && x.size() >= 22 && x[0] == 0 && x[1] == 0)       // two root names
    { const auto &s = r.soa_records[0]; if (s.serial != u32(2) || s.refresh != u32(6) || s.retry != u32(10) || s.expire != u32(14) || s.minimum != u32(18)) replay_io::fail("SO2: SOA numbers"); }
    if (rr.type == DnsType::TXT)
    { if (r.txt_records.size() != 1) replay_io::fail("TD3: TXT record without typed record");
      const auto &t = r.txt_records[0]; size_t tot = t.text.size(); for (auto &s : t.text) tot += s.size();
      if (tot > x.size()) replay_io::fail("TX3: TXT strings exceed RDATA");
      if (x.size() >= 1 && (size_t)x[0] == x.size() - 1 && (t.text.size() != 1 || t.text[0] != std::string(x.begin() + 1, x.end()))) replay_io::fail("TX4: single TXT string"); }
  }
  delete[] buf;
  replay_io::ok(threw ? "rejected with DnsParseException: " + what : "decoded; typed-record clauses hold");
  return 0;
}
