// REPLAY adapter: feeds the verifier's input to the REAL HttpServer::findChunkedRequestEnd (private member, reached with
// -fno-access-control; the server object is constructed but never started) and evaluates the contract clauses natively
// against a strict RFC 9112 7.1 reference scan. A call that does not return is killed by the pipeline's replay timeout and
// counts as reproduced ("can never loop forever").
#include "iora/network/http_server.hpp"
#include "replay_io.h"
using namespace iora::network;

enum RefKind { REF_END, REF_NEEDMORE, REF_BAD_SIZE, REF_BAD_DATA_CRLF };
struct Ref { RefKind k; size_t end; };
static bool hexd(char c) { return (c >= '0' && c <= '9') || (c >= 'a' && c <= 'f') || (c >= 'A' && c <= 'F'); }
// chunked-body = *chunk last-chunk trailer-section CRLF ; chunk-size = 1*HEXDIG ; chunk-ext starts with BWS ";"
static Ref refscan(const std::string &d, size_t pos) {
  for (;;) {
    size_t le = d.find("\r\n", pos);
    if (le == std::string::npos) return {REF_NEEDMORE, 0};
    size_t p = pos; unsigned long long v = 0; size_t nd = 0;
    while (p < le && hexd(d[p])) { if (v >> 60) return {REF_BAD_SIZE, 0}; v = (v << 4) | (unsigned long long)(d[p] <= '9' ? d[p] - '0' : (d[p] | 0x20) - 'a' + 10); p++; nd++; }
    if (nd == 0) return {REF_BAD_SIZE, 0};
    size_t q = p; while (q < le && (d[q] == ' ' || d[q] == '\t')) q++;
    if (q < le && d[q] != ';') return {REF_BAD_SIZE, 0};
    if (q == le && q != p) return {REF_BAD_SIZE, 0};
    pos = le + 2;
    if (v == 0) {
      for (;;) { size_t t = d.find("\r\n", pos); if (t == std::string::npos) return {REF_NEEDMORE, 0}; if (t == pos) return {REF_END, t + 2}; pos = t + 2; }
    }
    if (d.size() - pos < v || d.size() - pos - v < 2) return {REF_NEEDMORE, 0};
    if (d[pos + v] != '\r' || d[pos + v + 1] != '\n') return {REF_BAD_DATA_CRLF, 0};
    pos += v + 2;
  }
}

int main(int argc, char **argv) {
  auto in = replay_io::load(argv[1]);
  std::vector<uint8_t> b = replay_io::bytes(in["IN"]);
  if (in.count("IN_N")) b.resize(std::min<size_t>(b.size(), replay_io::u64(in["IN_N"])));
  size_t bodyStart = in.count("BODY_START") ? replay_io::u64(in["BODY_START"]) : 0;
  std::string d(b.begin(), b.end());
  HttpServer srv;
  size_t r = 0;
  printf("calling findChunkedRequestEnd on %zu bytes, bodyStart=%zu\n", d.size(), bodyStart); fflush(stdout);
  try { r = srv.findChunkedRequestEnd(d, bodyStart); }
  catch (const std::exception &e) { replay_io::fail(std::string("S2 exception escapes: ") + e.what()); }
  printf("result: %s%zu\n", r == std::string::npos ? "npos " : "", r);
  Ref ref = refscan(d, bodyStart);
  if (r != std::string::npos) {
    if (!(bodyStart < r && r <= d.size())) replay_io::fail("S1 boundary outside (bodyStart, size]");
    if (r - bodyStart < 5) replay_io::fail("F1 body shorter than \"0\\r\\n\\r\\n\"");
    if (ref.k == REF_BAD_SIZE) replay_io::fail("invalid chunk-size line (not 1*HEXDIG [BWS ; ext], or overflowing) was framed instead of rejected");
    if (d.compare(r - 4, 4, "\r\n\r\n") != 0) replay_io::fail("F2 framed body does not end with CRLF CRLF (trailer section not consumed): boundary " + std::to_string(r) + (ref.k == REF_END ? ", RFC end " + std::to_string(ref.end) : ""));
    if (ref.k == REF_END && ref.end != r) replay_io::fail("valid chunked body framed at " + std::to_string(r) + ", RFC end is " + std::to_string(ref.end));
    if (ref.k == REF_NEEDMORE) replay_io::fail("incomplete chunked body framed");
  } else {
    if (ref.k == REF_END) replay_io::fail("complete valid chunked body not framed (RFC end " + std::to_string(ref.end) + ")");
  }
  replay_io::ok("contract clauses hold on this input");
  return 0;
}
