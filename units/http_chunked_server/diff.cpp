// Differential run, C++ side: the REAL HttpServer::findChunkedRequestEnd (private const member; the server is constructed, never started).
#include "iora/network/http_server.hpp"
#include "diff_io.h"
using namespace iora::network;
int main(int argc, char **argv)
{
  FILE *f = fopen(argv[1], "r"); diff_input in; HttpServer srv;
  while (diff_next(f, &in)) {
    size_t bs = (size_t)diff_param(&in, "body_start", 0); if (bs > in.n) bs = in.n;
    std::string d((const char *)in.bytes, in.n); size_t r = 0; int esc = 0;
    try { r = srv.findChunkedRequestEnd(d, bs); } catch (const std::exception &) { esc = 1; }
    printf("end=%zu escaped_exc=%d\n", r, esc); fflush(stdout); diff_free(&in);
  }
  return 0;
}
