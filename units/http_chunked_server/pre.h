/* type environment + ghost state + loop contract for unit http_chunked_server (HttpServer::findChunkedRequestEnd) */
_Bool G_step_fell;        /* set by the outlined loop body when it falls off its end (= the loop goes round again) */

/* loop 1: the chunk loop. pos never leaves [bodyStart, size]; no exception is pending at the loop head;
 * variant: the distance to the end of the buffer (every iteration consumes at least the 2-byte line terminator). */
#define IORA_LOOP_HttpServer_findChunkedRequestEnd_1 IORA_LC( \
  __CPROVER_assigns(pos, iora_exc, iora_exc_caught, G_stoul_calls, G_stoul_off, G_stoul_n, G_stoul_ret, G_stoul_exc, G_stoul_used) \
  __CPROVER_loop_invariant(bodyStart <= pos && pos <= data.n && iora_exc == EXC_NONE) \
  __CPROVER_loop_invariant(G_stoul_calls == 0 || G_stoul_off < pos) \
  __CPROVER_decreases(data.n - pos))
