/* Environment stub: std::stoul(str, nullptr, 16) as implemented by libstdc++ (__gnu_cxx::__stoa over strtoul):
 *   leading isspace() skipped, optional '+'/'-', optional "0x"/"0X" (base 16), the longest run of hex digits, trailing
 *   junk ignored; no digit converted -> std::invalid_argument; value > ULONG_MAX -> std::out_of_range; '-' negates
 *   modulo 2^64. The contract states these facts exactly where the unit's clauses need them and leaves the value of
 *   longer digit strings unspecified (any value: an under-specified stub only adds behaviours, so it is sound for the
 *   clauses proved). The ghost record (offset/length of the argument, returned value) lets the step clauses speak
 *   about "the chunk-size line the code parsed". */
#ifndef HTTP_CHUNKED_SERVER_STUBS_H
#define HTTP_CHUNKED_SERVER_STUBS_H
#define EXC_invalid_argument 1
#define EXC_out_of_range 2
static inline int iora_isa(int exc, int ty) { return exc == ty; }

size_t G_stoul_calls /* saturates at 2 */, G_stoul_off, G_stoul_n;
size_t G_stoul_used;        /* number of characters std::stoul consumed (what it stores through its idx out-parameter) */
size_t GH;                  /* arbitrary offset inside the consumed hex digit run (never assigned) */
unsigned long G_stoul_ret;
int G_stoul_exc;
const char *G_stoul_base;   /* native/SEARCH builds: start of the request buffer (offsets are relative to it) */

#define HX_IS(c_) (((c_) >= (char)48 && (c_) <= (char)57) || ((c_) >= (char)65 && (c_) <= (char)70) || ((c_) >= (char)97 && (c_) <= (char)102))
#define HX_V(c_) ((unsigned long)((c_) <= (char)57 ? (c_) - 48 : ((c_) <= (char)70 ? (c_) - 55 : (c_) - 87)))
#define HX_SPACE(c_) ((c_) == (char)32 || ((c_) >= (char)9 && (c_) <= (char)13))
#define HX_SIGN(c_) ((c_) == (char)43 || (c_) == (char)45)
#define HX_X(c_) ((c_) == (char)120 || (c_) == (char)88)

#if defined(IORA_NATIVE) || defined(IORA_SEARCH)
/* executable body (bounded SEARCH / native differential builds) */
static inline unsigned long iora_stoul(iora_sv s, size_t *idx, int base)
{
  (void)base;
  size_t i = 0; int neg = 0, any = 0, ovf = 0; unsigned long v = 0;
  while (i < s.n && HX_SPACE(s.p[i])) i++;
  if (i < s.n && HX_SIGN(s.p[i])) { neg = s.p[i] == (char)45; i++; }
  if (i + 1 < s.n && s.p[i] == (char)48 && HX_X(s.p[i + 1]) && i + 2 < s.n && HX_IS(s.p[i + 2])) i += 2;
  while (i < s.n && HX_IS(s.p[i])) { if (v >> 60) ovf = 1; v = (v << 4) | HX_V(s.p[i]); any = 1; i++; }
  IORA_ASSERT(G_stoul_calls == 0 || (size_t)(s.p - G_stoul_base) > G_stoul_off, "progress: every chunk-size line the scan parses starts after the previous one");
  if (G_stoul_calls < 2) G_stoul_calls++; G_stoul_off = (size_t)(s.p - G_stoul_base); G_stoul_n = s.n;
  if (!any) { iora_exc = EXC_invalid_argument; G_stoul_exc = iora_exc; return 0; }
  if (ovf) { iora_exc = EXC_out_of_range; G_stoul_exc = iora_exc; return 0; }
  G_stoul_exc = 0;
  G_stoul_used = i; if (idx) *idx = i;
  G_stoul_ret = neg ? (unsigned long)0 - v : v;
  return G_stoul_ret;
}
#else
/* The environment stub proper has scalar parameters only (length, first two bytes, offset of the argument inside the
 * request buffer): a contract over scalars costs nothing, a contract that dereferences the string in a dozen clauses
 * multiplies the formula (measured). The inline wrapper reads the two bytes. */
#define ST_R __CPROVER_return_value
unsigned long iora_stoul_env(size_t n, char c0, char c1, size_t off, int base)
  __CPROVER_requires(IORA_TRUE && base == 16 && iora_exc == EXC_NONE)
  /* progress (ghost check at the point of use): every chunk-size line the scan parses starts after the previous one */
  __CPROVER_requires(G_stoul_calls == 0 || off > G_stoul_off)
  __CPROVER_assigns(iora_exc, G_stoul_calls, G_stoul_off, G_stoul_n, G_stoul_ret, G_stoul_exc)
  __CPROVER_ensures(iora_exc == EXC_NONE || iora_exc == EXC_invalid_argument || iora_exc == EXC_out_of_range)
  /* nothing to convert */
  __CPROVER_ensures(n == 0 ==> iora_exc == EXC_invalid_argument)
  __CPROVER_ensures((n > 0 && !HX_SPACE(c0) && !HX_SIGN(c0) && !HX_IS(c0)) ==> iora_exc == EXC_invalid_argument)
  /* a leading digit always converts; up to 16 digits cannot overflow */
  __CPROVER_ensures((n > 0 && HX_IS(c0)) ==> iora_exc != EXC_invalid_argument)
  __CPROVER_ensures((n > 0 && n <= 16 && HX_IS(c0)) ==> iora_exc == EXC_NONE)
  /* exact value of short digit strings; trailing junk after the digits is ignored */
  __CPROVER_ensures((n == 1 && HX_IS(c0)) ==> ST_R == HX_V(c0))
  __CPROVER_ensures((n >= 2 && HX_IS(c0) && !HX_IS(c1) && !(c0 == (char)48 && HX_X(c1))) ==> ST_R == HX_V(c0))
  __CPROVER_ensures((n == 2 && HX_IS(c0) && HX_IS(c1)) ==> ST_R == ((HX_V(c0) << 4) | HX_V(c1)))
  /* ghost record */
  __CPROVER_ensures(G_stoul_calls == (__CPROVER_old(G_stoul_calls) >= 2 ? 2 : __CPROVER_old(G_stoul_calls) + 1) && G_stoul_off == off && G_stoul_n == n)
  __CPROVER_ensures(G_stoul_exc == iora_exc && (iora_exc == EXC_NONE ==> G_stoul_ret == ST_R));
/* idx out-parameter (std::stoul(str, &used, 16)): on success *idx = number of characters consumed. For a string that starts with a hex digit (no
 * whitespace / sign / 0x prefix) that is exactly the length of the leading hex digit run: 1 <= used <= n, the character at `used` (if any) is not a hex
 * digit - chunk-extension text is NOT consumed - and every character below it is one (arbitrary offset GH). Otherwise only 1 <= used <= n is stated.
 * The candidate is chosen here (the env stub has scalar parameters only); every assumed fact is true of the library's result. */
static inline unsigned long iora_stoul(iora_sv s, size_t *idx, int base)
{
  char c0 = s.n > 0 ? s.p[0] : (char)0;
  char c1 = s.n > 1 ? s.p[1] : (char)0;
  size_t used = nondet_size_t();
  IORA_ASSUME(s.n == 0 || (1 <= used && used <= s.n));
#ifndef IORA_FIND_NO_CONTENT
  if (s.n > 0 && HX_IS(c0) && !(c0 == (char)48 && HX_X(c1))) {
    char cu = used < s.n ? s.p[used < s.n ? used : 0] : (char)0;
    char ch = s.p[GH < used ? GH : 0];
    IORA_ASSUME(used == s.n || !HX_IS(cu));
    IORA_ASSUME(GH >= used || HX_IS(ch));
  }
#endif
  unsigned long r = iora_stoul_env(s.n, c0, c1, (size_t)__CPROVER_POINTER_OFFSET(s.p), base);
  if (iora_exc == EXC_NONE) { G_stoul_used = used; if (idx != NULL) *idx = used; }
  return r;
}
#endif
#endif
