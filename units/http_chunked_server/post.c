/* Contracts for HttpServer::findChunkedRequestEnd, written from property C15 and RFC 9112 7.1:
 *   chunked-body = *chunk last-chunk trailer-section CRLF
 *   chunk        = chunk-size [chunk-ext] CRLF chunk-data CRLF        chunk-size = 1*HEXDIG
 *   last-chunk   = 1*"0" [chunk-ext] CRLF                             trailer-section = *( field-line CRLF )
 * "result" is the offset just past the end of the chunked body, or npos ("need more data" / rejected).
 * Call site (handleIncomingData): bodyStart = headerEnd + 4 with "\r\n\r\n" found at headerEnd, so bodyStart <= size. */
#define R __CPROVER_return_value
#define FCRE_PRE \
__CPROVER_requires(IORA_TRUE && iora_exc == EXC_NONE && data.n <= ((size_t)1 << 50) && __CPROVER_is_fresh(data.p, data.n)) \
__CPROVER_requires(bodyStart <= data.n && GF <= data.n && G_stoul_calls == 0) \
__CPROVER_assigns(iora_exc, iora_exc_caught, G_stoul_calls, G_stoul_off, G_stoul_n, G_stoul_ret, G_stoul_exc, G_stoul_used)

/* proof "safety": all built-in obligations (bounds, pointers, signed + UNSIGNED overflow = "no wrap in position
 * arithmetic", conversions), shim preconditions (substr/operator[] in range), loop invariant + variant (termination:
 * "can never loop forever"), frame, and: */
size_t fcre_safety(iora_sv data, size_t bodyStart)
FCRE_PRE
/* S1 the returned boundary lies inside the buffer and after the start of the body */
__CPROVER_ensures(R == IORA_NPOS || (bodyStart < R && R <= data.n))
/* S2 nothing is thrown out of the I/O thread */
__CPROVER_ensures(iora_exc == EXC_NONE)
;

/* proof "functional" (no built-in checks; they are in "safety") */
size_t fcre_contract(iora_sv data, size_t bodyStart)
FCRE_PRE
__CPROVER_ensures(R == IORA_NPOS || (bodyStart < R && R <= data.n))
/* F1 the shortest chunked body is "0" CRLF CRLF */
__CPROVER_ensures(R != IORA_NPOS ==> R - bodyStart >= 5)
/* F2 a chunked body ends with the CRLF that follows the (possibly empty) trailer section, i.e. with CRLF CRLF: either
 *    last-chunk CRLF + CRLF or field-line CRLF + CRLF. A boundary anywhere else splits the message. */
__CPROVER_ensures(R != IORA_NPOS ==> IORA_SV_CRLF2_AT(data, R - 4))
/* F3 an empty buffer / a buffer without any line terminator is never framed */
__CPROVER_ensures(data.n - bodyStart < 5 ==> R == IORA_NPOS)
;

/* never called: keeps both search stubs in the symbol table so that the same `replace` list fits the tree with either
 * form of the final-CRLF search (find("\r\n") today, find("\r\n\r\n") after the suggested H3 repair) */
void iora_keep_symbols(void) { iora_sv s = { 0, 0 }; (void)iora_sv_find_crlf(&s, 0); (void)iora_sv_find_crlf2(&s, 0); }

void h_fcre(void)
{
  iora_sv d; size_t b;
  size_t r = HttpServer_findChunkedRequestEnd(d, b);
  IORA_CANARY("h_fcre: call returns");
  if (r == IORA_NPOS) { IORA_CANARY("h_fcre: npos"); } else { IORA_CANARY("h_fcre: framed"); }
}

/* ---- step clauses: ONE iteration of the chunk loop (the mechanically outlined loop body fcre_step) for EVERY state
 * that satisfies loop invariant ∧ loop condition. DFCC harness without an enforced contract: find/stoul are replaced
 * by their contracts, the clauses are assertions over the ghost record of the stoul stub. ---- */
#define LINE_END (pos0 + G_stoul_n)            /* offset of the CRLF ending the chunk-size line the code parsed */
void h_step(void)
{
  size_t n = nondet_size_t();
  __CPROVER_assume(n <= ((size_t)1 << 50));
  char *buf = malloc(n);
  __CPROVER_assume(buf != NULL);
  iora_sv data = { buf, n };
  size_t bodyStart = nondet_size_t(), pos = nondet_size_t();
  IORA_TRUE = 1; iora_exc = EXC_NONE; iora_exc_caught = EXC_NONE; G_step_fell = 0; G_stoul_calls = 0; G_stoul_exc = EXC_NONE;
  __CPROVER_assume(bodyStart <= pos && pos <= data.n);          /* loop invariant */
  __CPROVER_assume(pos < data.n);                                /* loop condition */
  __CPROVER_assume(GF <= n);
  size_t pos0 = pos;
  size_t r = fcre_step(data, &pos);
  IORA_CANARY("h_step: returns");
  __CPROVER_assert(iora_exc == EXC_NONE, "T0 no exception leaves the iteration");
  __CPROVER_assert(G_stoul_calls <= 1, "T0 at most one size line per iteration");
  if (G_stoul_calls == 0) {
    IORA_CANARY("h_step: no line terminator");
    __CPROVER_assert(r == IORA_NPOS && !G_step_fell && pos == pos0, "T1 no CRLF at or after pos: need more data, nothing consumed");
    __CPROVER_assert(!(pos0 <= GF && GF + 2 <= n && IORA_SV_CRLF_AT(data, GF)), "T1 ... and there really is no CRLF at or after pos (witness GF)");
  } else {
    /* T2 the chunk-size line is exactly the bytes from pos up to the FIRST CRLF */
    __CPROVER_assert(G_stoul_off == pos0 && LINE_END + 2 <= n && IORA_SV_CRLF_AT(data, LINE_END), "T2 size line starts at pos and ends at a CRLF");
    __CPROVER_assert(!(pos0 <= GF && GF < LINE_END && IORA_SV_CRLF_AT(data, GF)), "T2 no earlier CRLF (witness GF)");
    /* T6 (RFC 9112 7.1.1: chunk = chunk-size [chunk-ext] CRLF, chunk-size = 1*HEXDIG, chunk-ext = *( BWS ";" ... )): a size line that starts with a hex digit
     *    and whose digit run (the characters std::stoul consumed: all hex, witness GH; not followed by another hex digit) is followed by nothing or by ';'-introduced
     *    extension text up to the CRLF is NEVER rejected as an invalid size: the conversion handler does not run. Acceptance does not depend on the bytes after
     *    the digits; the size used is the value of the digits (stub value clauses + T4/T5). */
    if (G_stoul_exc == EXC_NONE) {
      _Bool digits_then_ext = HX_IS(data.p[pos0]) && G_stoul_used >= 1 && G_stoul_used <= G_stoul_n && (G_stoul_used == G_stoul_n || data.p[pos0 + (G_stoul_used < G_stoul_n ? G_stoul_used : 0)] == (char)59);
      if (digits_then_ext && G_stoul_used < G_stoul_n) { IORA_CANARY("h_step: size line with a chunk extension"); }
      __CPROVER_assert(!digits_then_ext || iora_exc_caught == EXC_NONE, "T6 a chunk-size line 1*HEXDIG [chunk-ext] is not rejected as an invalid size (chunk extensions are allowed)");
    }
    if (G_stoul_exc != EXC_NONE) {
      IORA_CANARY("h_step: size rejected");
      __CPROVER_assert(r == IORA_NPOS && !G_step_fell, "T3 a chunk-size that does not convert is rejected, not framed");
    } else if (G_stoul_ret == 0) {
      IORA_CANARY("h_step: last chunk");
      __CPROVER_assert(!G_step_fell, "T4 the last chunk ends the scan");
      __CPROVER_assert(r == IORA_NPOS || (r <= n && r >= LINE_END + 4 && IORA_SV_CRLF2_AT(data, r - 4)), "T4 the body ends with CRLF CRLF (trailer section consumed)");
      __CPROVER_assert(r == IORA_NPOS || !(LINE_END <= GF && GF < r - 4 && IORA_SV_CRLF2_AT(data, GF)), "T4 ... at the first empty line after the last-chunk line (witness GF)");
      __CPROVER_assert(r != IORA_NPOS || !(LINE_END <= GF && GF + 4 <= n && IORA_SV_CRLF2_AT(data, GF)), "T4 need-more only if no empty line has arrived yet (witness GF)");
    } else {
      IORA_CANARY("h_step: data chunk");
      /* T5 a data chunk of `size` bytes: the next chunk starts exactly at line end + 2 + size + 2 (mathematical sum) */
      __CPROVER_assert(!G_step_fell || (G_stoul_ret <= n && pos == LINE_END + 2 + G_stoul_ret + 2 && pos <= n), "T5 next chunk starts at line end + 2 + size + 2");
      __CPROVER_assert(G_step_fell || r == IORA_NPOS, "T5 a data chunk never ends the body");
      __CPROVER_assert(!(G_stoul_ret <= n && LINE_END + 2 + G_stoul_ret + 2 <= n) || G_step_fell, "T5 a chunk that is completely buffered is consumed");
      __CPROVER_assert(!G_step_fell || pos > pos0, "T5 progress");
    }
  }
  if (G_step_fell) { IORA_CANARY("h_step: loop continues"); }
}

#ifdef IORA_SEARCH
/* SEARCH: the whole function on a small concrete buffer (bounded; only used to obtain an input for REPLAY) */
void h_search(void)
{
  uint8_t IN[8]; size_t IN_N = nondet_size_t();
  IORA_NONDET_BYTES(IN, 8);
  __CPROVER_assume(IN_N <= 8);
  IORA_TRUE = 1; iora_exc = EXC_NONE; G_stoul_calls = 0; G_step_fell = 0; G_stoul_base = (const char *)IN;
  iora_sv data = { (const char *)IN, IN_N };
  size_t r = HttpServer_findChunkedRequestEnd(data, 0);
  __CPROVER_assert(r == IORA_NPOS || (0 < r && r <= data.n), "S1");
  __CPROVER_assert(r == IORA_NPOS || r >= 5, "F1");
  __CPROVER_assert(r == IORA_NPOS || IORA_SV_CRLF2_AT(data, r - 4), "F2 body ends with CRLF CRLF");
  /* X1 (bounded): `0 [";" chunk-ext] CRLF CRLF` is a complete chunked body and is framed at its end (T4/T6 on a concrete input) */
  for (size_t k = 1; k <= 4; k++) {
    _Bool shape = k + 4 <= IN_N && IN[0] == 48 && (k == 1 || IN[1] == 59) && IN[k] == 13 && IN[k + 1] == 10 && IN[k + 2] == 13 && IN[k + 3] == 10;
    for (size_t j = 1; j < 4; j++) if (j < k && (IN[j] == 13 || IN[j] == 10)) shape = 0;
    __CPROVER_assert(!shape || r == k + 4, "T6 a chunk-size line 1*HEXDIG [chunk-ext] is not rejected as an invalid size (chunk extensions are allowed)");
  }
}
#endif
