/* Differential run, C side: the EXTRACTED HttpServer::findChunkedRequestEnd, compiled natively. std::stoul is the executable body of
 * stubs.h (IORA_NATIVE branch), the string searches are the native bodies of shims/iora_sv_find.h. Compared: the returned offset
 * (npos = 18446744073709551615). The block target fcre_step is a second extraction of the loop body, compared through the function. */
#include "unit_native.c"
#include "diff_io.h"
int main(int argc, char **argv)
{
  FILE *f = fopen(argv[1], "r"); diff_input in;
  IORA_TRUE = 1;
  while (diff_next(f, &in)) {
    size_t bs = (size_t)diff_param(&in, "body_start", 0); if (bs > in.n) bs = in.n;
    iora_sv d = { (const char *)in.bytes, in.n };
    iora_exc = EXC_NONE; iora_exc_caught = 0; G_stoul_calls = 0; G_stoul_off = 0; G_stoul_base = d.p;
    size_t r = HttpServer_findChunkedRequestEnd(d, bs);
    printf("end=%zu escaped_exc=%d\n", r, iora_exc != EXC_NONE); fflush(stdout); diff_free(&in);
  }
  return 0;
}
