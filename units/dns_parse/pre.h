/* type environment + loop contracts for unit dns_parse (DnsMessage::parse) */
#include "iora_dns_contracts.h"
#include "iora_dns_types.h"
#include "iora_dns_record_contracts.h"     /* contracts of the callees: proved in units dns_rdata / dns_typed, used here by replacement */
#define iora_cntlist_push_back_v(l, v) iora_cntlist_push_back(l)      /* list.push_back(x): only the count is modelled */
size_t parseHeader(const uint8_t *data, size_t offset, size_t size, DnsHeader *header);
size_t parseQuestion(const uint8_t *data, size_t offset, size_t size, DnsQuestion *question);
size_t parseResourceRecord5(const uint8_t *data, size_t offset, size_t size, DnsResourceRecord *rr, size_t *rdataOffset);
void parseTypedRecord(const DnsResourceRecord *rr, DnsResult *result, const uint8_t *messageData, size_t messageSize, size_t rdataOffset);

#define P_QD ((size_t)result.header.qdcount)
#define P_AN ((size_t)result.header.ancount)
#define P_NS ((size_t)result.header.nscount)
#define P_AR ((size_t)result.header.arcount)
/* every typed collection holds at most `b` records */
#define TYPED_LE(b) (result.a_records.n <= (b) && result.aaaa_records.n <= (b) && result.srv_records.n <= (b) && result.naptr_records.n <= (b) && result.cname_records.n <= (b) \
                  && result.mx_records.n <= (b) && result.txt_records.n <= (b) && result.ptr_records.n <= (b) && result.soa_records.n <= (b))
#define TYPED_ASSIGN result.a_records, result.aaaa_records, result.srv_records, result.naptr_records, result.cname_records, result.mx_records, \
                     result.txt_records, result.ptr_records, result.soa_records
#define GHOSTS G_name_end, G_name_start, G_rd_off, G_rd_ret, G_rd_calls

/* the lower bound on the offset ("every announced question/record took its minimum size") is only carried in proof `parse_counts`
 * (define PARSE_COUNTS): it is what clause M5 needs and it is the expensive part (multiplications by the loop counters) */
#ifdef PARSE_COUNTS
#define MIN_OFF(e) (offset >= (e))
#else
#define MIN_OFF(e) 1
#endif

/* loop 1: questions. Every question consumes at least one octet (in fact >= 5; the bound with the factors 5 and 11 verifies for
 * two loops but not for four within 900 s on any back end here, the bound with factor 1: 40 s with CaDiCaL). */
#define IORA_LOOP_DnsMessage_parse_1 IORA_LC( \
  __CPROVER_assigns(i, offset, iora_exc, result.questions, GHOSTS) \
  __CPROVER_loop_invariant(iora_exc == EXC_NONE && i <= result.header.qdcount && result.questions.n == i) \
  __CPROVER_loop_invariant(offset <= size && offset >= 12 && MIN_OFF(12 + (size_t)i)) \
  __CPROVER_decreases(result.header.qdcount - i))
/* loops 2-4: answer / authority / additional records; every record consumes at least one octet. */
#define RR_LOOP(list, cnt, base_off, base_typed) IORA_LC( \
  __CPROVER_assigns(i, offset, iora_exc, iora_exc_caught, result.list, TYPED_ASSIGN, GHOSTS) \
  __CPROVER_loop_invariant(iora_exc == EXC_NONE && i <= (cnt) && result.list.n == i) \
  __CPROVER_loop_invariant(offset <= size && offset >= 12 && MIN_OFF((base_off) + (size_t)i)) \
  __CPROVER_loop_invariant(TYPED_LE((base_typed) + (size_t)i)) \
  __CPROVER_decreases((cnt) - i))
#define IORA_LOOP_DnsMessage_parse_2 RR_LOOP(answers, result.header.ancount, 12 + P_QD, 0)
#define IORA_LOOP_DnsMessage_parse_3 RR_LOOP(authority, result.header.nscount, 12 + P_QD + P_AN, P_AN)
#define IORA_LOOP_DnsMessage_parse_4 RR_LOOP(additional, result.header.arcount, 12 + P_QD + P_AN + P_NS, P_AN + P_NS)
