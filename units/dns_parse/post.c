/* Contract + harness of unit dns_parse (property C19): DnsMessage::parse(data, size) for ANY byte string of ANY size <= 2^32 -
 * "decoding terminates promptly without reading outside the buffer, ending in a decoded message or a reported error";
 * "counts exceeding the content" are errors. Callees are replaced by their proved contracts (shims/iora_dns_record_contracts.h). */
#define OKAY (iora_exc == EXC_NONE)
#define R_QD ((size_t)iora_ret->header.qdcount)
#define R_RR ((size_t)iora_ret->header.ancount + (size_t)iora_ret->header.nscount + (size_t)iora_ret->header.arcount)
/* proof "parse": safety (built-in checks, callee preconditions at every call site, frame, loop invariants/variants) + M1 M2 M4 */
void DnsMessage_parse_contract(const uint8_t *data, size_t size, DnsResult *iora_ret)
__CPROVER_requires(IORA_TRUE && iora_exc == EXC_NONE && size <= DN_MAX_MSG && __CPROVER_is_fresh(data, size))
__CPROVER_requires(__CPROVER_is_fresh(iora_ret, sizeof(*iora_ret)) && G_msg_size == size)
__CPROVER_assigns(iora_exc, iora_exc_caught, *iora_ret, G_name_end, G_name_start, G_rd_off, G_rd_ret, G_rd_calls)
/* M1 a decoded message or a reported error of the documented type */
__CPROVER_ensures(OKAY || iora_exc == EXC_DnsParseException)
/* M2 fewer than 12 octets is an error */
__CPROVER_ensures(size < 12 ==> !OKAY)
/* M4 exactly as many questions / records per section as the header announces */
__CPROVER_ensures(OKAY ==> iora_ret->questions.n == iora_ret->header.qdcount)
__CPROVER_ensures(OKAY ==> iora_ret->answers.n == iora_ret->header.ancount)
__CPROVER_ensures(OKAY ==> iora_ret->authority.n == iora_ret->header.nscount)
__CPROVER_ensures(OKAY ==> iora_ret->additional.n == iora_ret->header.arcount)
;

/* proof "parse_header": M3 */
void DnsMessage_parse_header_contract(const uint8_t *data, size_t size, DnsResult *iora_ret)
__CPROVER_requires(IORA_TRUE && iora_exc == EXC_NONE && size <= DN_MAX_MSG && __CPROVER_is_fresh(data, size))
__CPROVER_requires(__CPROVER_is_fresh(iora_ret, sizeof(*iora_ret)) && G_msg_size == size)
__CPROVER_assigns(iora_exc, iora_exc_caught, *iora_ret, G_name_end, G_name_start, G_rd_off, G_rd_ret, G_rd_calls)
/* M3 header fields against RFC 1035 4.1.1 (through the contract of parseHeader) */
__CPROVER_ensures(OKAY ==> iora_ret->header.id == U16BE(data, 0))
__CPROVER_ensures(OKAY ==> iora_ret->header.qr == ((U16BE(data, 2) >> 15) & 1))
__CPROVER_ensures(OKAY ==> iora_ret->header.tc == ((U16BE(data, 2) >> 9) & 1))
__CPROVER_ensures(OKAY ==> iora_ret->header.rcode == (U16BE(data, 2) & 15))
__CPROVER_ensures(OKAY ==> iora_ret->header.qdcount == U16BE(data, 4))
__CPROVER_ensures(OKAY ==> iora_ret->header.ancount == U16BE(data, 6))
__CPROVER_ensures(OKAY ==> iora_ret->header.nscount == U16BE(data, 8))
__CPROVER_ensures(OKAY ==> iora_ret->header.arcount == U16BE(data, 10))
;

/* proof "parse_counts": M5 M6 */
void DnsMessage_parse_counts_contract(const uint8_t *data, size_t size, DnsResult *iora_ret)
__CPROVER_requires(IORA_TRUE && iora_exc == EXC_NONE && size <= DN_MAX_MSG && __CPROVER_is_fresh(data, size))
__CPROVER_requires(__CPROVER_is_fresh(iora_ret, sizeof(*iora_ret)) && G_msg_size == size)
__CPROVER_assigns(iora_exc, iora_exc_caught, *iora_ret, G_name_end, G_name_start, G_rd_off, G_rd_ret, G_rd_calls)
/* M5 counts exceeding the content are errors: a decoded message has at least one octet after the header for every announced question and record */
__CPROVER_ensures(OKAY ==> 12 + R_QD + R_RR <= size)
/* M6 typed records come from records: no typed collection is larger than the number of records */
__CPROVER_ensures(OKAY ==> iora_ret->soa_records.n <= R_RR)
__CPROVER_ensures(OKAY ==> iora_ret->a_records.n <= R_RR)
__CPROVER_ensures(OKAY ==> iora_ret->srv_records.n <= R_RR)
;

void h_parse(void)
{
  const uint8_t *data; size_t size; DnsResult *res;
  DnsMessage_parse(data, size, res);
  IORA_CANARY("h_parse: returns");
  if (iora_exc) { IORA_CANARY("h_parse: error reported"); } else { IORA_CANARY("h_parse: message decoded"); }
}
