// REPLAY adapter of unit dns_parse: the bytes go to the REAL DnsMessage::parse on an exact-size heap buffer (ASan/UBSan see any
// read outside it); the contract clauses M1-M6 are evaluated natively.   input file:  IN <hex bytes>   IN_N <size, optional>
#include "iora/network/dns/dns_message.hpp"
#include "replay_io.h"
using namespace iora::network::dns;
int main(int argc, char **argv)
{
  auto in = replay_io::load(argv[1]);
  std::vector<uint8_t> d = replay_io::bytes(in["IN"]);
  if (in.count("IN_N")) d.resize(std::min<size_t>(d.size(), replay_io::u64(in["IN_N"])));
  uint8_t *buf = new uint8_t[d.size() ? d.size() : 1];
  std::copy(d.begin(), d.end(), buf);
  DnsResult r; bool threw = false; std::string what;
  try { r = DnsMessage::parse(buf, d.size()); }
  catch (const DnsParseException &e) { threw = true; what = e.what(); }
  catch (const std::exception &e) { replay_io::fail(std::string("M1: an exception other than DnsParseException escaped: ") + e.what()); }
  if (!threw)
  {
    auto u16 = [&](size_t o) { return (unsigned)((d[o] << 8) | d[o + 1]); };
    if (d.size() < 12) replay_io::fail("M2: fewer than 12 octets decoded");
    if (r.header.id != u16(0) || r.header.qdcount != u16(4) || r.header.ancount != u16(6) || r.header.nscount != u16(8) || r.header.arcount != u16(10)
        || r.header.qr != ((u16(2) >> 15) & 1) || r.header.tc != ((u16(2) >> 9) & 1) || (unsigned)r.header.rcode != (u16(2) & 15)) replay_io::fail("M3: header fields");
    if (r.questions.size() != r.header.qdcount || r.answers.size() != r.header.ancount || r.authority.size() != r.header.nscount || r.additional.size() != r.header.arcount)
      replay_io::fail("M4: section sizes differ from the header counts");
    size_t rr = r.answers.size() + r.authority.size() + r.additional.size();
    if (12 + 5 * r.questions.size() + 11 * rr > d.size()) replay_io::fail("M5: more questions/records than the message has room for");
    if (r.soa_records.size() > rr || r.a_records.size() > rr || r.srv_records.size() > rr) replay_io::fail("M6: more typed records than records");
    // M7 (precondition of parseTypedRecord: it is given the record's own RDATA offset): every MX record whose exchange is an uncompressed
    // literal name ending inside RDATA must come out as a typed MX record with exactly that exchange
    size_t want_mx = 0; std::vector<std::string> exch;
    auto scan = [&](const std::vector<DnsResourceRecord> &sec) {
      for (const auto &x : sec) if (x.type == DnsType::MX && x.rdata.size() >= 3) {
        size_t o = 2; std::string nm; bool ok = true;
        while (ok) { if (o >= x.rdata.size()) { ok = false; break; } uint8_t l = x.rdata[o]; if (l == 0) break; if (l > 63 || o + 1 + l > x.rdata.size()) { ok = false; break; }
                     if (!nm.empty()) nm += '.'; nm.append((const char *)&x.rdata[o + 1], l); o += 1 + l; }
        if (ok) { want_mx++; exch.push_back(nm); } } };
    scan(r.answers); scan(r.authority); scan(r.additional);
    if (r.mx_records.size() < want_mx) replay_io::fail("M7: a well-formed MX record (literal exchange '" + exch.back() + "') has no typed record: typed decoding was given a wrong RDATA offset");
    for (size_t i = 0; i < want_mx && want_mx == r.mx_records.size(); i++) if (r.mx_records[i].exchange != exch[i]) replay_io::fail("M7: MX exchange differs from RDATA");
  }
  delete[] buf;
  replay_io::ok(threw ? "rejected with DnsParseException: " + what : "decoded; clauses M2-M6 hold");
  return 0;
}
