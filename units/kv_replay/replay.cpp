// REPLAY adapter for unit kv_replay (C11).  Input: IN / IN_N = the content of <path>.log found at start-up (arbitrary bytes, e.g. a torn tail).
// The K1 clause "after load() the log ends at the last record boundary" is evaluated natively through its consequence in the property's own
// terms: operations acknowledged AFTER this start-up must be visible after a clean close and the next start-up.
//   1. write IN to <path>.log            (what a crash left behind)
//   2. open the real KVStore; set b, c   (both return normally = acknowledged); destroy the store (clean close)
//   3. open again: b and c must be present with their values; a record set before the crash ("a") must have survived as well.
#include "iora/storage/kvstore.hpp"
#include "replay_io.h"
#include <filesystem>
#include <unistd.h>
using namespace iora::storage;
namespace fs = std::filesystem;
static std::vector<uint8_t> V(const char *s) { return std::vector<uint8_t>(s, s + strlen(s)); }
int main(int argc, char **argv) {
  auto in = replay_io::load(argv[1]);
  std::vector<uint8_t> tail = replay_io::bytes(in["IN"]);
  if (in.count("IN_N")) { size_t n = replay_io::u64(in["IN_N"]); tail.resize(n, 0); }
  fs::path dir = fs::temp_directory_path() / ("iora_replay_kv_replay_" + std::to_string(getpid()));
  fs::remove_all(dir); fs::create_directories(dir);
  std::string path = (dir / "store.bin").string();
  KVStoreConfig cfg; cfg.enableBackgroundCompaction = false;
  std::string verdict;
  if (in.count("MAXKEY")) {
    // W1..W4: a key of exactly MAX_KEY_LENGTH bytes is accepted by set(); its records must be accepted by the replay
    try {
      std::string k(MAX_KEY_LENGTH, 'k');
      { KVStore s(path, cfg); s.set(k, V("v")); s.set("other", V("o")); }
      { KVStore s(path, cfg); auto v = s.get(k); if (!v || *v != V("v")) verdict += " key of MAX_KEY_LENGTH bytes MISSING after restart;"; if (!s.get("other")) verdict += " other MISSING;"; }
    } catch (const std::exception &e) { verdict = std::string(" store threw: ") + e.what(); }
    fs::remove_all(dir);
    if (!verdict.empty()) replay_io::fail("W1 set(key of MAX_KEY_LENGTH bytes) acknowledged; clean close; reopen =>" + verdict);
    replay_io::ok("a maximum-length key survives a restart");
    return 0;
  }
  if (in.count("BIG")) {
    // K6 / RT1: every record the writer can produce must be accepted by the reader - the largest value validateKeyValue admits
    try {
      cfg.maxLogSizeBytes = 0xFFFFFFFFu;
      { KVStore s(path, cfg); s.setString("before", "1"); s.set("big", std::vector<uint8_t>(MAX_VALUE_LENGTH, 7)); s.setString("after", "2"); }
      { KVStore s(path, cfg);
        if (!s.get("before")) verdict += " before MISSING;";
        auto b = s.get("big"); if (!b || b->size() != MAX_VALUE_LENGTH) verdict += " big MISSING;";
        if (!s.get("after")) verdict += " after MISSING;"; }
    } catch (const std::exception &e) { verdict = std::string(" store threw: ") + e.what(); }
    fs::remove_all(dir);
    if (!verdict.empty()) replay_io::fail("RT1/K6 set(before); set(big, MAX_VALUE_LENGTH bytes); set(after) all acknowledged; clean close; reopen =>" + verdict);
    replay_io::ok("a maximum-size value and the records after it survive a restart");
    return 0;
  }
  try {
    { KVStore s(path, cfg); s.set("a", V("1")); }                       // a valid record, acknowledged and cleanly closed
    { std::ofstream log(path + ".log", std::ios::binary | std::ios::app); log.write((const char *)tail.data(), (std::streamsize)tail.size()); }  // crash leftovers
    auto sizeBefore = fs::file_size(path + ".log");
    { KVStore s(path, cfg);
      if (!s.get("a")) verdict = "record written before the crash is not recovered";
      s.set("b", V("2")); s.set("c", V("3")); }                         // acknowledged after the restart
    { KVStore s(path, cfg);
      auto a = s.get("a"), b = s.get("b"), c = s.get("c");
      if (!a) verdict += " a MISSING;";
      if (!b || *b != V("2")) verdict += " b MISSING;";
      if (!c || *c != V("3")) verdict += " c MISSING;";
      if (!verdict.empty()) verdict = "K1 log with " + std::to_string(tail.size()) + " leftover bytes (size " + std::to_string(sizeBefore) +
                                      "): set b, set c were acknowledged after the restart, clean close, reopen =>" + verdict; }
  } catch (const std::exception &e) { verdict = std::string("store threw: ") + e.what(); }
  fs::remove_all(dir);
  if (!verdict.empty()) replay_io::fail(verdict);
  replay_io::ok("records acknowledged after a restart over these log leftovers are recovered");
  return 0;
}
