/* Differential run, C side: the EXTRACTED log-replay loop of KVStore::load (block target KVStore_load_log, with validateLogEntry,
 * isPlausibleEpochMs, fromEpochMs), compiled natively. The input bytes are the CONTENT OF THE LOG FILE.
 * Environment natively: the input stream / file are the real-memory shims of shims/iora_fstream.h; crc32 is the extracted text of unit
 * kv_codec (link_units) - the unit's crc stub records its argument and then asks nondet_u32(), which is defined HERE as the real crc of
 * that argument; fromEpochMs' ms -> time_point stub asks nondet_i64(), defined here as ms * 1000000 (system_clock ticks are ns);
 * nondet_bool() is false (resize_file succeeds; lookups of keys other than the ghost key answer "absent": they only touch the `other`
 * slot of the witness map, which is not observed). _kv / _expiry are WITNESS-KEY maps: natively THE ghost key is a concrete string
 * (shims/iora_smap1.h, IORA_NATIVE branch) and the whole replay is run once per key of KEYS; the generator builds logs over these keys.
 * Compared: exception or not, size of the log file afterwards (torn-tail truncation), and per key: present?, every value byte, expiry. */
#include <stdint.h>
#include <stddef.h>
int64_t nondet_i64(void); _Bool nondet_bool(void); size_t nondet_size_t(void); uint32_t nondet_u32(void); uint8_t nondet_u8(void); int nondet_int(void);
#include "unit_native.c"
#include "diff_io.h"
uint32_t KVStore_crc32(iora_bv data);                                   /* extracted in unit kv_codec */
uint32_t nondet_u32(void) { iora_bv d = { G_crc_p, G_crc_n }; return KVStore_crc32(d); }
int64_t nondet_i64(void) { return G_fromms_arg * 1000000; }
_Bool nondet_bool(void) { return 0; }
size_t nondet_size_t(void) { return 0; }
uint8_t nondet_u8(void) { return 0; }
int nondet_int(void) { return 0; }
static const char *KEYS[] = { "a", "b", "k", "key", "kk" };
int main(int argc, char **argv)
{
  FILE *f = fopen(argv[1], "r"); diff_input in;
  IORA_TRUE = 1; G_alloc_cap = (size_t)1 << 40;
  while (diff_next(f, &in)) {
    printf("log");
    for (size_t q = 0; q < sizeof KEYS / sizeof KEYS[0]; q++) {
      iora_gfile gf = { true, in.bytes, in.n }; KVStore s; memset(&s, 0, sizeof s); s._logPath = &gf;
      G_native_gkey_p = KEYS[q]; G_native_gkey_n = strlen(KEYS[q]); iora_exc = 0;
      KVStore_load_log(&s, 0);
      if (q == 0) printf(" threw=%d size=%zu", iora_exc != 0, gf.n);
      printf(" | %s:", KEYS[q]);
      if (s._kv.has) { printf("val="); diff_hex(s._kv.val.n ? s._kv.val.p : (const unsigned char *)"", s._kv.val.n); } else printf("absent");
      if (s._expiry.has) printf(" exp=%lld", (long long)s._expiry.val.expiry); else printf(" noexp");
    }
    printf("\n"); fflush(stdout); diff_free(&in);
  }
  return 0;
}
