// Differential run, C++ side: the REAL KVStore::load() (private) on a store whose log file holds the input bytes (no snapshot file, so
// load() is exactly the replay loop). One store object is reused: maps cleared, log file rewritten, load() called.
#include "iora/storage/kvstore.hpp"
#include "diff_io.h"
#include <filesystem>
#include <unistd.h>
using namespace iora::storage;
namespace fs = std::filesystem;
static const char *KEYS[] = { "a", "b", "k", "key", "kk" };
int main(int argc, char **argv)
{
  FILE *f = fopen(argv[1], "r"); diff_input in;
  fs::path dir = fs::temp_directory_path() / ("iora_diff_kv_replay_" + std::to_string(getpid()));
  fs::remove_all(dir); fs::create_directories(dir);
  {
    KVStoreConfig cfg; cfg.enableBackgroundCompaction = false;
    std::string path = (dir / "a.bin").string(); KVStore s(path, cfg);
    while (diff_next(f, &in)) {
      s._kv.clear(); s._expiry.clear();
      { std::ofstream o(path + ".log", std::ios::binary | std::ios::trunc); o.write((const char *)in.bytes, (std::streamsize)in.n); }
      bool threw = false; try { s.load(); } catch (const std::exception &) { threw = true; }
      printf("log threw=%d size=%zu", (int)threw, (size_t)fs::file_size(path + ".log"));
      for (const char *k : KEYS) {
        printf(" | %s:", k);
        auto it = s._kv.find(k); if (it != s._kv.end()) { printf("val="); diff_hex(it->second.data(), it->second.size()); } else printf("absent");
        auto e = s._expiry.find(k); if (e != s._expiry.end()) printf(" exp=%lld", (long long)e->second.expiry.time_since_epoch().count()); else printf(" noexp");
      }
      printf("\n"); fflush(stdout); diff_free(&in);
    }
    s._kv.clear(); s._expiry.clear();
  }
  fs::remove_all(dir);
  return 0;
}
