/* Contracts of unit kv_replay (property C11: "replay stops at the first incomplete record and skips records failing the CRC";
 * "shows, for every key, the effect of the last operation on that key that had returned before the crash ... never a torn, foreign
 * or resurrected value"; anchors: load() loop exit, openLogFile()).  Specification = the READER's view of the record format of
 * unit kv_codec (len32 | op | klen32 | key | [exp64] | [vlen32 | val] | crc32), written over the bytes of the file, not from the code. */

/* ---- the log file: an arbitrary byte sequence LOG[0..LOG_N) ; b = a record boundary (read position at the top of an iteration) */
#define U32AT(o) ((uint32_t)((uint32_t)LOG[(o)] | ((uint32_t)LOG[(o) + 1] << 8) | ((uint32_t)LOG[(o) + 2] << 16) | ((uint32_t)LOG[(o) + 3] << 24)))
#define U64AT(o) ((uint64_t)U32AT(o) | ((uint64_t)U32AT((o) + 4) << 32))
/* the reader's cap on len32: the named constant when the header has one (K6 repair), else the literal of the unrepaired text.  What the cap
 * MUST admit is not taken from the code: lemma codec_roundtrip (RT1) demands that every record the writer can produce is accepted. */
#ifdef MAX_LOG_RECORD_LENGTH
#define REC_CAP ((uint32_t)(MAX_LOG_RECORD_LENGTH))
#else
#define REC_CAP ((uint32_t)(100 * 1024 * 1024))
#endif
#define VAL_CAP ((uint32_t)(100 * 1024 * 1024))            /* the reader's cap on vlen32 */
#define AVAIL (LOG_N - b)
#define HAVE_LEN (AVAIL >= 4)
#define TL ((size_t)U32AT(b))                              /* declared record length (payload + crc) */
#define LEN_OK (TL >= 10 && TL <= REC_CAP)
#define COMPLETE (HAVE_LEN && LEN_OK && AVAIL - 4 >= TL)   /* the whole record is in the file */
#define P0 (b + 4)                                         /* file offset of the payload */
#define OPB ((char)LOG[P0])
#define STORED (U32AT(P0 + TL - 4))                        /* trailer */
#undef OP_S
#define OP_S ((char)83)
#undef OP_D
#define OP_D ((char)68)
#undef OP_E
#define OP_E ((char)69)
#undef OP_X
#define OP_X ((char)88)
#define OP_OK (OPB == OP_S || OPB == OP_D || OPB == OP_E || OPB == OP_X)
#define KL ((size_t)U32AT(P0 + 1))
#define KEY_OK (KL >= 1 && KL <= 65536 && 5 + KL <= TL)      /* the reader's own acceptance domain (documented cap 65536) */
/* WRITE-SIDE bound, taken from the real validation in set()/setBatch (validateKeyValue: 1 <= key.size() <= MAX_KEY_LENGTH, constant extracted from the header):
 * every key the store can have written.  The replay bound must not be tighter than this (clauses W1..W4, RT2w). */
#define KEY_WRITABLE (KL >= 1 && KL <= MAX_KEY_LENGTH && 5 + KL <= TL)
#define FOFF (5 + KL)                                      /* payload offset of the first field after the key */
/* S: vlen32 | val | crc */
#define S_VL ((size_t)U32AT(P0 + FOFF))
#define S_OK (FOFF + 4 <= TL && S_VL <= VAL_CAP && FOFF + 4 + S_VL + 4 <= TL)
/* E: exp64 | vlen32 | val | crc */
#define E_EXP ((int64_t)U64AT(P0 + FOFF))
#define E_VL ((size_t)U32AT(P0 + FOFF + 8))
#define E_OK (FOFF + 12 <= TL && E_VL <= VAL_CAP && FOFF + 12 + E_VL + 4 <= TL)
/* X: exp64 | crc */
#define X_OK (FOFF + 12 <= TL)
/* the window's ceiling is the constant extracted from the header (a changed limit is seen); unit kv_expiry pins what it may be: every expiry
 * the store can write is inside (P2) and every value inside is representable as a time_point (P3) */
#define PLAUSIBLE(ms) ((ms) > 0 && (ms) <= kMaxPlausibleEpochMs)
#define IMPL(a, b) (!(a) || (b))

/* ---- one iteration of the replay loop (block target KVStore_load_step = the real `while (log.peek() != EOF) {...}` with the
 * header turned into a guard and break/continue into status codes), for EVERY state satisfying the loop invariant of proof
 * replay_loop (stream good, 0 <= pos <= n) and every file content.  Plain loop-free harness = complete proof. */
/* BPRE: what is assumed about the boundary b.  The framing and safety proofs take ANY b <= n.  The decode proofs view the file from the
 * boundary (b == 0, LOG = the rest of the file): the stream shim depends on (p + pos, n - pos) only, so this is no restriction, and it removes
 * one 64-bit addition from every array index (measured: E1 88 s -> 6 s). */
#define STEP_SETUP(BPRE) \
  size_t LOG_N = nondet_size_t(); __CPROVER_assume(LOG_N <= ((size_t)1 << 40)); \
  uint8_t *LOG = (uint8_t *)malloc(LOG_N); __CPROVER_assume(LOG != NULL); \
  iora_gfile gf; gf.exists = true; gf.p = LOG; gf.n = LOG_N; \
  size_t b = nondet_size_t(); __CPROVER_assume(b <= LOG_N); __CPROVER_assume(BPRE);    /* loop invariant: read position inside the file */ \
  iora_ifs log; log.open = true; log.fail = false; log.eof = false; log.p = LOG; log.n = LOG_N; log.pos = b; \
  KVStore st; st._logPath = &gf; \
  st._kv.has = nondet_bool(); st._kv.val.n = nondet_size_t(); st._kv.touched = false; st._kv.gtouched = false; \
  st._expiry.has = nondet_bool(); st._expiry.val.expiry = nondet_i64(); st._expiry.val.timerId = nondet_u64(); st._expiry.touched = false; st._expiry.gtouched = false; \
  bool kv_has0 = st._kv.has; iora_vec kv_val0 = st._kv.val; bool ex_has0 = st._expiry.has; ExpiryEntry ex_val0 = st._expiry.val; \
  iora_tp now = nondet_i64(); GK = nondet_size_t(); \
  G_alloc_cap = REC_CAP; G_step = IORA_STEP_NEXT; G_crc_called = false; G_skey_made = false; G_fromms_called = false; G_ifs_boundary = nondet_size_t(); iora_exc = EXC_NONE; IORA_TRUE = 1; \
  KVStore_load_step(&st, &log, now); \
  bool touched = st._kv.touched || st._expiry.touched; \
  iora_skey LK = st._kv.touched ? st._kv.lastkey : st._expiry.lastkey; \
  bool crc_match = G_crc_called && G_crc_ret == STORED; \
  IORA_CANARY("h_step: returns"); \
  if (G_step == IORA_STEP_BREAK) { IORA_CANARY("h_step: break"); } \
  if (G_step == IORA_STEP_CONTINUE) { IORA_CANARY("h_step: continue"); } \
  if (touched && OPB == OP_S && LK.is_g) { IORA_CANARY("h_step: S applied to the ghost key"); } \
  if (touched && OPB == OP_E && LK.is_g && st._kv.has) { IORA_CANARY("h_step: E applied to the ghost key"); } \
  if (touched && OPB == OP_X && LK.is_g) { IORA_CANARY("h_step: X applied to the ghost key"); } \
  if (touched && OPB == OP_D) { IORA_CANARY("h_step: D applied"); }
#define KV (st._kv)
#define EX (st._expiry)
#define UNCHANGED_KV (KV.has == kv_has0 && KV.val.p == kv_val0.p && KV.val.n == kv_val0.n)
#define UNCHANGED_EX (EX.has == ex_has0 && EX.val.expiry == ex_val0.expiry && EX.val.timerId == ex_val0.timerId)

/* proof "step_safety": every built-in check (each read of the record buffer is inside it: the bounds test precedes the read it guards),
 * shim preconditions (read destinations, string(ptr,n) source, iterator ranges, allocation cap) */
void h_step_safety(void)
{
  STEP_SETUP(b <= LOG_N)
  __CPROVER_assert(iora_exc == EXC_NONE || iora_exc == EXC_KVStoreException, "X1 only KVStoreException");
}

/* proof "step_framing": framing of the iteration */
void h_step_framing(void)
{
  STEP_SETUP(b <= LOG_N)
  __CPROVER_assert(IMPL(AVAIL == 0, G_step == IORA_STEP_NEXT && !touched && log.pos == b && !log.fail), "F0 at the end of the file the loop is left and nothing happens");
  __CPROVER_assert(IMPL(iora_exc == EXC_NONE, G_ifs_boundary == b), "F1 peek() is called exactly at the record boundary");
  __CPROVER_assert(IMPL(AVAIL > 0 && !COMPLETE && iora_exc == EXC_NONE, G_step == IORA_STEP_BREAK), "F2 short read or invalid length => the loop is left (break)");
  __CPROVER_assert(IMPL(AVAIL > 0 && !COMPLETE, !touched && UNCHANGED_KV && UNCHANGED_EX), "F3 short read or invalid length => NO state change");
  __CPROVER_assert(IMPL(COMPLETE, G_step != IORA_STEP_BREAK && iora_exc == EXC_NONE), "F4 a complete record never ends the replay");
  __CPROVER_assert(IMPL(COMPLETE, log.pos == b + 4 + TL && !log.fail && log.open), "F5 a complete record is consumed exactly (next boundary = b + 4 + len32), applied or skipped");
  __CPROVER_assert(IMPL(touched, COMPLETE), "F6 a record is applied only if it is complete");
}

/* proof "step_crc": CRC gating */
void h_step_crc(void)
{
  STEP_SETUP(b == 0)
  __CPROVER_assert(IMPL(COMPLETE, G_crc_called && G_crc_n == TL - 4), "C1 crc32 is computed over len32-4 bytes of every complete record");
  __CPROVER_assert(IMPL(COMPLETE && GK < TL - 4, G_crc_p[GK] == LOG[P0 + GK]), "C2 the bytes crc32 is computed over are the record's payload bytes (arbitrary byte GK)");
  __CPROVER_assert(IMPL(touched, crc_match), "C3 a record is applied only if crc32(payload) equals the stored trailer");
  __CPROVER_assert(IMPL(COMPLETE && !crc_match, G_step == IORA_STEP_CONTINUE && !touched && UNCHANGED_KV && UNCHANGED_EX), "C4 CRC mismatch => skipped, no state change");
}

/* proof "step_decode_key": op and key are the inverse of enc */
void h_step_decode_key(void)
{
  STEP_SETUP(b == 0)
  __CPROVER_assert(IMPL(touched, OP_OK && KEY_OK), "D1 applied => known op and 1 <= klen <= 65536 inside the record");
  __CPROVER_assert(IMPL(COMPLETE && crc_match && !(OP_OK && KEY_OK), G_step == IORA_STEP_CONTINUE && !touched), "D2 unknown op / bad key length => skipped");
  __CPROVER_assert(IMPL(touched, LK.n == KL), "D3 decoded key length == klen32");
  __CPROVER_assert(IMPL(touched && GK < KL, (uint8_t)LK.p[GK] == LOG[P0 + 5 + GK]), "D4 decoded key bytes == record bytes 5..5+klen (arbitrary byte GK)");
  __CPROVER_assert(IMPL(KV.touched && EX.touched, KV.lastkey.p == EX.lastkey.p && KV.lastkey.n == EX.lastkey.n && KV.lastkey.is_g == EX.lastkey.is_g), "D5 value map and expiry map are updated under the same key");
  __CPROVER_assert(IMPL(touched && !LK.is_g, UNCHANGED_KV && UNCHANGED_EX), "D6 frame: a record for another key leaves the entry of the ghost key untouched");
}

/* proof "step_apply_SD": S and D records */
void h_step_apply_sd(void)
{
  STEP_SETUP(b == 0)
  __CPROVER_assert(IMPL(COMPLETE && crc_match && OPB == OP_S && KEY_OK && S_OK, KV.touched && EX.touched), "S1 a complete, CRC-correct, well-formed S record IS applied (acknowledged writes are recovered)");
  __CPROVER_assert(IMPL(COMPLETE && crc_match && OPB == OP_S && KEY_WRITABLE && S_OK, KV.touched && EX.touched), "W1 every S record the encoder emits for a key set() accepts (1 <= klen <= MAX_KEY_LENGTH) is ACCEPTED and applied by the replay");
  __CPROVER_assert(IMPL(COMPLETE && crc_match && OPB == OP_D && KEY_WRITABLE, KV.touched && EX.touched), "W2 every D record for a key set() accepts is ACCEPTED and applied by the replay");
  __CPROVER_assert(IMPL(touched && OPB == OP_S, S_OK), "S2 S applied => vlen32 and value inside the record");
  __CPROVER_assert(IMPL(touched && OPB == OP_S && LK.is_g, KV.has && KV.val.n == S_VL && !EX.has), "S3 S: key present with |val| == vlen32; a plain set clears the expiry");
  __CPROVER_assert(IMPL(touched && OPB == OP_S && LK.is_g && GK < S_VL, KV.val.p[GK] == LOG[P0 + FOFF + 4 + GK]), "S4 S: value bytes == record bytes (arbitrary byte GK)");
  __CPROVER_assert(IMPL(COMPLETE && crc_match && OPB == OP_S && KEY_OK && !S_OK, !touched), "S5 malformed S => skipped");
  __CPROVER_assert(IMPL(COMPLETE && crc_match && OPB == OP_D && KEY_OK, KV.touched && EX.touched), "D7 a complete, CRC-correct D record IS applied");
  __CPROVER_assert(IMPL(touched && OPB == OP_D && LK.is_g, !KV.has && !EX.has), "D8 D: key and expiry removed");
}

/* proofs "step_apply_e" / "step_apply_x": E and X records (decoding; the expired-at-load / implausible cases are clauses of unit kv_expiry, C12) */
void h_step_apply_e(void)
{
  STEP_SETUP(b == 0)
  __CPROVER_assert(IMPL(COMPLETE && crc_match && OPB == OP_E && KEY_OK && E_OK && PLAUSIBLE(E_EXP), KV.touched && EX.touched), "E1 a complete, CRC-correct, well-formed E record IS applied");
  __CPROVER_assert(IMPL(COMPLETE && crc_match && OPB == OP_E && KEY_WRITABLE && E_OK && PLAUSIBLE(E_EXP), KV.touched && EX.touched), "W3 every E record for a key set() accepts is ACCEPTED and applied by the replay");
  __CPROVER_assert(IMPL(touched && OPB == OP_E, E_OK && PLAUSIBLE(E_EXP)), "E2 E applied => fields inside the record, expiry plausible");
  __CPROVER_assert(IMPL(touched && OPB == OP_E, G_fromms_called && G_fromms_arg == E_EXP), "E3a E: the expiry handed to fromEpochMs is the record's exp64 field");
  __CPROVER_assert(IMPL(touched && OPB == OP_E && LK.is_g && G_fromms_ret > now, KV.has && KV.val.n == E_VL && EX.has && EX.val.expiry == G_fromms_ret && EX.val.timerId == 0),
                   "E3 E (not yet expired): key present with |val| == vlen32, expiry == fromEpochMs(exp64), no timer armed");
  __CPROVER_assert(IMPL(COMPLETE && crc_match && OPB == OP_E && KEY_OK && !(E_OK && PLAUSIBLE(E_EXP)), !touched), "E5 malformed E => skipped");
}
void h_step_apply_e_bytes(void)
{
  STEP_SETUP(b == 0)
  __CPROVER_assert(IMPL(touched && OPB == OP_E && LK.is_g && KV.has && GK < E_VL, KV.val.p[GK] == LOG[P0 + FOFF + 12 + GK]), "E4 E: value bytes == record bytes (arbitrary byte GK)");
}
void h_step_apply_x(void)
{
  STEP_SETUP(b == 0)
  __CPROVER_assert(IMPL(COMPLETE && crc_match && OPB == OP_X && KEY_WRITABLE && X_OK && kv_has0 && G_skey_made && G_skey_last.is_g && (E_EXP == IORA_LIMIT_int64_t_min || PLAUSIBLE(E_EXP)), EX.touched), "W4 every X record for a present key set() accepts is ACCEPTED and applied by the replay");
  __CPROVER_assert(IMPL(touched && OPB == OP_X, X_OK), "X1 X applied => exp64 inside the record");
  __CPROVER_assert(IMPL(COMPLETE && crc_match && OPB == OP_X && KEY_OK && !X_OK, !touched), "X2 malformed X => skipped");
  __CPROVER_assert(IMPL(OPB == OP_X && touched && LK.is_g, kv_has0), "X3 X is applied only to a present key");
  __CPROVER_assert(IMPL(OPB == OP_X && touched && LK.is_g && E_EXP == IORA_LIMIT_int64_t_min, UNCHANGED_KV && !EX.has), "X4 X with the no-expiry sentinel (persist): expiry cleared, value untouched");
  __CPROVER_assert(IMPL(OPB == OP_X && touched && LK.is_g && E_EXP != IORA_LIMIT_int64_t_min, PLAUSIBLE(E_EXP) && G_fromms_called && G_fromms_arg == E_EXP), "X5a X: the expiry handed to fromEpochMs is the record's exp64 field, and it is plausible");
  __CPROVER_assert(IMPL(OPB == OP_X && touched && LK.is_g && E_EXP != IORA_LIMIT_int64_t_min && G_fromms_ret > now, UNCHANGED_KV && EX.has && EX.val.expiry == G_fromms_ret && EX.val.timerId == 0), "X5 X (future expiry): expiry == fromEpochMs(exp64), value untouched");
  __CPROVER_assert(IMPL(COMPLETE && crc_match && OPB == OP_X && KEY_OK && X_OK && kv_has0 && G_skey_made && G_skey_last.is_g && (E_EXP == IORA_LIMIT_int64_t_min || PLAUSIBLE(E_EXP)), EX.touched), "X6 a complete, CRC-correct X record for a present key IS applied");
}

/* ---- the whole log phase of load() (block target KVStore_load_log: from the ifstream to the end of the function), loop contract
 * IORA_LOOP_KVStore_load_log_1 (applied without DFCC: the DFCC form of this loop is 3.2 M variables / 22 M clauses, no verdict in 900 s).
 * Proved: the invariant is established by the open, preserved by every iteration, the loop terminates (bytes left strictly decrease), and
 *   K1  after load(), the size of the log file - i.e. the position at which openLogFile()'s ios::app stream appends - equals the last
 *       record boundary (the stream position at the last peek()).  Otherwise the records acknowledged from now on are written BEHIND a torn
 *       tail and are swallowed by its length field at the next start (acknowledged writes lost: finding K1). */
void h_load_log(void)
{
  size_t LOG_N = nondet_size_t(); __CPROVER_assume(LOG_N <= ((size_t)1 << 40));
  uint8_t *LOG = (uint8_t *)malloc(LOG_N); __CPROVER_assume(LOG != NULL);
  iora_gfile gf; gf.exists = nondet_bool(); gf.p = LOG; gf.n = LOG_N; __CPROVER_assume(gf.exists || gf.n == 0);
  KVStore st; st._logPath = &gf;
  st._kv.has = nondet_bool(); st._kv.val.n = nondet_size_t(); st._kv.touched = false; st._kv.gtouched = false;
  st._expiry.has = nondet_bool(); st._expiry.val.expiry = nondet_i64(); st._expiry.val.timerId = nondet_u64(); st._expiry.touched = false; st._expiry.gtouched = false;
  iora_tp now = nondet_i64();
  G_alloc_cap = REC_CAP; G_ifs_boundary = 0; iora_exc = EXC_NONE; IORA_TRUE = 1;
  bool existed = gf.exists;
  KVStore_load_log(&st, now);
  IORA_CANARY("h_load_log: returns");
  if (existed && LOG_N > 0) { IORA_CANARY("h_load_log: returns after replaying a non-empty log"); }
  __CPROVER_assert(IMPL(iora_exc == EXC_NONE, gf.n == G_ifs_boundary), "K1 after load() the log file ends at the last record boundary, so openLogFile() (ios::app) appends where the next load will look for a record");
  __CPROVER_assert(gf.n <= LOG_N && gf.exists == existed, "L1 the log file only ever shrinks during load()");
  __CPROVER_assert(iora_exc == EXC_NONE || iora_exc == EXC_KVStoreException, "L2 only KVStoreException");
}

/* openLogFile(): the log is opened in APPEND mode, so the append position is the size of the file at that moment */
void KVStore_openLogFile_contract(KVStore *self)
__CPROVER_requires(IORA_TRUE && iora_exc == EXC_NONE && __CPROVER_is_fresh(self, sizeof(*self)) && __CPROVER_is_fresh(self->_logPath, sizeof(iora_gfile)))
__CPROVER_requires((!self->_logPath->exists ==> self->_logPath->n == 0) && !G_append_open)
__CPROVER_assigns(self->_logStream, iora_exc, G_append_open, G_append_pos, self->_logPath->exists, self->_logPath->n)
/* O1 */ __CPROVER_ensures(iora_exc == EXC_NONE ==> (self->_logStream.open && G_append_open && G_append_pos == __CPROVER_old(self->_logPath->n)))
/* O2 */ __CPROVER_ensures(self->_logPath->n == __CPROVER_old(self->_logPath->n))
/* O3 */ __CPROVER_ensures(iora_exc != EXC_NONE ==> (iora_exc == EXC_KVStoreException && !self->_logStream.open))
;
void h_open_log(void)
{
  KVStore *self;
  KVStore_openLogFile(self);
  IORA_CANARY("h_open_log: returns");
  if (iora_exc == EXC_NONE) { IORA_CANARY("h_open_log: opened"); } else { IORA_CANARY("h_open_log: failed"); }
}

/* ---- lemma dec(enc(r)) == r: the reader-side macros of this file applied to a record laid out by the WRITER-side macros of
 * shims/iora_kvlog_format.h (what unit kv_codec proves writeLogEntry emits) give back (op, key, exp, val) and the trailer - for every op, key of
 * 1..65535 bytes, value of 0..100 MiB, expiry and crc.  Loop-free: each decoded field depends on at most 8 bytes + one witness byte, so the
 * record is constrained exactly at those (symbolic) offsets.  Proof "codec_roundtrip". */
#define ENC_AT(j) __CPROVER_assume(!((j) < LOG_N) || LOG[(j)] == ENC_BYTE((j), op, key, value, exp, crc))
#define ENC_AT4(j) ENC_AT(j); ENC_AT((j) + 1); ENC_AT((j) + 2); ENC_AT((j) + 3)
#define RT_SETUP \
  char op = (char)nondet_u8(); iora_sv key; iora_bv value; int64_t exp = nondet_i64(); uint32_t crc = nondet_u32(); \
  key.n = nondet_size_t(); value.n = nondet_size_t(); GK = nondet_size_t(); \
  __CPROVER_assume(op == OP_S || op == OP_D || op == OP_E || op == OP_X); \
  __CPROVER_assume(key.n >= 1 && key.n <= MAX_KEY_LENGTH && value.n <= MAX_VALUE_LENGTH);      /* what validateKeyValue admits (extracted constants) */ \
  key.p = (const char *)malloc(key.n); value.p = (const uint8_t *)malloc(value.n); __CPROVER_assume(key.p != NULL && value.p != NULL); \
  size_t LOG_N = ENC_N(op, key, value); \
  uint8_t *LOG = (uint8_t *)malloc(LOG_N); __CPROVER_assume(LOG != NULL); \
  size_t b = 0; \
  size_t voff = 4 + PAY_VOFF(op, key);            /* writer side: record offset of vlen32 */ \
  size_t eoff = 4 + 5 + key.n;                     /* writer side: record offset of exp64 */ \
  size_t toff = 4 + PAY_N(op, key, value);         /* writer side: record offset of the trailer */ \
  ENC_AT4(0); ENC_AT(4); ENC_AT4(5);                                   /* len32, op, klen32 */ \
  if (GK < key.n) { ENC_AT(9 + GK); }                                 /* one arbitrary key byte */ \
  if (ENC_HASEXP(op)) { ENC_AT4(eoff); ENC_AT4(eoff + 4); }           /* exp64 */ \
  if (ENC_HASVAL(op)) { ENC_AT4(voff); if (GK < value.n) { ENC_AT(voff + 4 + GK); } }   /* vlen32, one arbitrary value byte */ \
  ENC_AT4(toff);                                                       /* trailer */
void h_codec_roundtrip(void)
{
  RT_SETUP
  IORA_CANARY("h_codec_roundtrip: a record exists");
  if (op == OP_E && value.n > 0 && GK < value.n) { IORA_CANARY("h_codec_roundtrip: E record with a value byte"); }
  __CPROVER_assert(COMPLETE && AVAIL == 4 + TL, "RT1 the record is complete and len32 covers exactly payload + trailer");
  __CPROVER_assert(OPB == op && OP_OK && KL == key.n && KEY_OK, "RT2 op and key length decode to the originals and are accepted");
  __CPROVER_assert(KEY_WRITABLE, "RT2w the decoded key length is inside the write-side bound the W clauses quantify over");
  __CPROVER_assert(STORED == crc, "RT4 the stored trailer is the crc the writer appended");
  __CPROVER_assert(IMPL(op == OP_D, FOFF + 4 == TL), "RT10 D: key then trailer");
}
void h_codec_roundtrip_fields(void)
{
  RT_SETUP
  IORA_CANARY("h_codec_roundtrip_fields: a record exists");
  __CPROVER_assert(IMPL(op == OP_S, S_OK && S_VL == value.n && FOFF + 4 + S_VL + 4 == TL), "RT5 S: value length decodes to the original, the record has no slack");
  __CPROVER_assert(IMPL(op == OP_E, E_OK && E_EXP == exp && E_VL == value.n && FOFF + 12 + E_VL + 4 == TL), "RT7 E: expiry and value length decode to the originals, no slack");
  __CPROVER_assert(IMPL(op == OP_X, X_OK && E_EXP == exp && FOFF + 12 == TL), "RT9 X: expiry decodes to the original, no slack");
}
void h_codec_roundtrip_bytes(void)
{
  RT_SETUP
  IORA_CANARY("h_codec_roundtrip_bytes: a record exists");
  __CPROVER_assert(IMPL(GK < key.n, LOG[P0 + 5 + GK] == (uint8_t)key.p[GK]), "RT3 key bytes decode to the original (arbitrary byte GK)");
  __CPROVER_assert(IMPL(op == OP_S && GK < value.n, LOG[P0 + FOFF + 4 + GK] == value.p[GK]), "RT6 S: value bytes decode to the original");
  __CPROVER_assert(IMPL(op == OP_E && GK < value.n, LOG[P0 + FOFF + 12 + GK] == value.p[GK]), "RT8 E: value bytes decode to the original");
}

#ifdef IORA_SEARCH
/* SEARCH: the same block on a small concrete-size log (bounded; only to obtain a file content for REPLAY) */
void h_search(void)
{
  uint8_t IN[20]; size_t IN_N = nondet_size_t();
  /* no initialisation loop (it would need --unwind 21 and unroll the big replay loop 21 times): explicit nondet assignments */
#define IN4(k) IN[k] = nondet_u8(); IN[k + 1] = nondet_u8(); IN[k + 2] = nondet_u8(); IN[k + 3] = nondet_u8();
  IN4(0) IN4(4) IN4(8) IN4(12) IN4(16)
  __CPROVER_assume(IN_N <= 20);
  iora_gfile gf; gf.exists = true; gf.p = IN; gf.n = IN_N;
  KVStore st; st._logPath = &gf;
  st._kv.has = false; st._kv.val.n = 0; st._kv.touched = false; st._kv.gtouched = false;
  st._expiry.has = false; st._expiry.touched = false; st._expiry.gtouched = false;
  iora_tp now = nondet_i64();
  G_alloc_cap = REC_CAP; G_ifs_boundary = 0; iora_exc = EXC_NONE; IORA_TRUE = 1;
  KVStore_load_log(&st, now);
  __CPROVER_assert(IMPL(iora_exc == EXC_NONE, gf.n == G_ifs_boundary), "K1 after load() the log file ends at the last record boundary, so openLogFile() (ios::app) appends where the next load will look for a record");
}
#endif
