/* Contracts + harnesses of unit dns_rdata (property C19; RFC 1035 3.2.1 RR format, 4.1.1 header, 4.1.2 question). */
void *malloc(size_t);

/* ------------------------------------------------------------------------------------------------------------------
 * validateRdataSecurity */
#define VR_PRE \
__CPROVER_requires(IORA_TRUE && iora_exc == EXC_NONE && __CPROVER_is_fresh(rr, sizeof(*rr))) \
__CPROVER_requires(rr->rdata.n <= 65535 && __CPROVER_is_fresh(rr->rdata.p, rr->rdata.n))   /* RDLENGTH is a 16-bit field */ \
__CPROVER_assigns(iora_exc)

/* proof "validate": every read inside RDATA (built-in checks + the operator[] precondition of the view shim), termination */
void validate_contract(const DnsResourceRecord *rr)
VR_PRE
/* VE */ __CPROVER_ensures(iora_exc == EXC_NONE || iora_exc == EXC_DnsParseException)
;

/* proof "validate_accept" (property: "any well-formed DNS response decodes to exactly the records it encodes"):
 * A / AAAA / TXT RDATA are opaque octets (RFC 1035 3.4.1, 3.3.14, RFC 3596 2.2) - RDATA of the right length is never an error */
void validate_accept_contract(const DnsResourceRecord *rr)
VR_PRE
/* V-ACC */ __CPROVER_ensures(((rr->type != DnsType_A || rr->rdata.n == 4) && (rr->type != DnsType_AAAA || rr->rdata.n == 16)) ==> iora_exc == EXC_NONE)
;

void h_validate(void)
{
  const DnsResourceRecord *rr;
  validateRdataSecurity(rr);
  IORA_CANARY("h_validate: returns");
  if (iora_exc) { IORA_CANARY("h_validate: rejected"); }
}

/* ------------------------------------------------------------------------------------------------------------------
 * decodeNameFromRdata: RDATA [rdataStart, rdataStart + rdataSize) lies inside the message (parseResourceRecord clause R3);
 * rdata is the record's own copy of those bytes. */
#define RD_PTR ((size_t)(U16BE(rdata, rdataOffset) & 0x3FFF))
#define RD_IS_PTR (rdataSize >= 2 && rdataOffset < rdataSize - 1 && (rdata[rdataOffset] & 0xC0) == 0xC0)
size_t decodeNameFromRdata_contract(const uint8_t *messageData, size_t messageSize, size_t rdataStart, size_t rdataOffset,
                                    const uint8_t *rdata, size_t rdataSize, iora_ostr *name)
__CPROVER_requires(IORA_TRUE && iora_exc == EXC_NONE && messageSize <= DN_MAX_MSG && __CPROVER_is_fresh(messageData, messageSize))
__CPROVER_requires(rdataSize <= 65535 && __CPROVER_is_fresh(rdata, rdataSize) && rdataStart <= messageSize && rdataSize <= messageSize - rdataStart)
__CPROVER_requires(__CPROVER_is_fresh(name, sizeof(*name)) && G_msg_size == messageSize)
__CPROVER_assigns(iora_exc, *name, G_name_end, G_name_start)
/* N1 the returned RDATA offset: unchanged when there is nothing to decode, else inside RDATA (one past it only when a
 *    pointer octet is the last RDATA octet: the callers compare before they read) */
__CPROVER_ensures(iora_exc == EXC_NONE ==> (__CPROVER_return_value == rdataOffset || __CPROVER_return_value <= rdataSize + 1))
__CPROVER_ensures((iora_exc == EXC_NONE && rdataOffset < rdataSize) ==> __CPROVER_return_value > rdataOffset)
/* N2 a compression pointer at the start of the name: out-of-range target is an error; otherwise exactly 2 octets consumed */
__CPROVER_ensures((RD_IS_PTR && RD_PTR >= messageSize) ==> iora_exc != EXC_NONE)
__CPROVER_ensures((RD_IS_PTR && iora_exc == EXC_NONE) ==> __CPROVER_return_value == rdataOffset + 2)
/* N3 the name is decoded in the context of the whole message: at the pointer target, or at the absolute position of the RDATA offset */
__CPROVER_ensures((RD_IS_PTR && iora_exc == EXC_NONE) ==> G_name_start == RD_PTR)
__CPROVER_ensures((!RD_IS_PTR && rdataOffset < rdataSize && iora_exc == EXC_NONE) ==> G_name_start == rdataStart + rdataOffset)
/* N4 a literal name that ends inside RDATA: the returned RDATA offset is where it ended */
__CPROVER_ensures((!RD_IS_PTR && rdataOffset < rdataSize && iora_exc == EXC_NONE && G_name_end >= rdataStart && G_name_end - rdataStart <= rdataSize) ==>
   __CPROVER_return_value == G_name_end - rdataStart)
/* N5 */
__CPROVER_ensures(iora_exc == EXC_NONE ==> name->n <= RFC_MAX_TEXT)
__CPROVER_ensures(iora_exc == EXC_NONE || iora_exc == EXC_DnsParseException)
;

void h_rdname(void)
{
  const uint8_t *m; size_t ms, rs, ro, rn; const uint8_t *rd; iora_ostr *name;
  size_t r = decodeNameFromRdata(m, ms, rs, ro, rd, rn, name);
  IORA_CANARY("h_rdname: returns");
  if (iora_exc) { IORA_CANARY("h_rdname: rejected"); } else if (r > 2 && r - 2 > ro) { IORA_CANARY("h_rdname: literal name"); }
}

/* ------------------------------------------------------------------------------------------------------------------
 * parseHeader: loop-free, no replaced callee -> plain harness, full domain. Every bit against RFC 1035 4.1.1. */
void h_header(void)
{
  size_t size = nondet_size_t(), offset = nondet_size_t();
  __CPROVER_assume(size <= DN_MAX_MSG && offset <= size);
  uint8_t *data = malloc(size);
  __CPROVER_assume(data != 0);
  DnsHeader h;
  IORA_TRUE = 1; iora_exc = EXC_NONE;
  size_t r = parseHeader(data, offset, size, &h);
  IORA_CANARY("h_header: returns");
  const bool fits = size >= 12 && offset <= size - 12;
  __CPROVER_assert(!fits ==> iora_exc == EXC_DnsParseException, "H1 fewer than 12 octets is a reported error");
  __CPROVER_assert(fits ==> (iora_exc == EXC_NONE && r == offset + 12), "H2 a complete header is accepted and exactly 12 octets are consumed");
  if (fits)
  {
    IORA_CANARY("h_header: header decoded");
    const uint16_t fl = U16BE(data, offset + 2);
    __CPROVER_assert(h.id == U16BE(data, offset), "H3 ID");
    __CPROVER_assert(h.qr == ((fl >> 15) & 1) && h.opcode == ((fl >> 11) & 15) && h.aa == ((fl >> 10) & 1) && h.tc == ((fl >> 9) & 1)
                     && h.rd == ((fl >> 8) & 1) && h.ra == ((fl >> 7) & 1) && h.z == ((fl >> 4) & 7) && h.rcode == (fl & 15), "H4 flag bits QR OPCODE AA TC RD RA Z RCODE");
    __CPROVER_assert(h.qdcount == U16BE(data, offset + 4) && h.ancount == U16BE(data, offset + 6)
                     && h.nscount == U16BE(data, offset + 8) && h.arcount == U16BE(data, offset + 10), "H5 section counts");
  }
}

/* ------------------------------------------------------------------------------------------------------------------
 * parseQuestion (decodeName replaced by its contract) */
size_t parseQuestion_contract(const uint8_t *data, size_t offset, size_t size, DnsQuestion *question)
__CPROVER_requires(IORA_TRUE && iora_exc == EXC_NONE && size <= DN_MAX_MSG && offset <= size && __CPROVER_is_fresh(data, size))
__CPROVER_requires(__CPROVER_is_fresh(question, sizeof(*question)) && G_msg_size == size)
__CPROVER_assigns(iora_exc, *question, G_name_end, G_name_start)
/* Q1 QNAME (ending at G_name_end) is followed by exactly QTYPE(2) QCLASS(2); the question ends inside the message */
__CPROVER_ensures(iora_exc == EXC_NONE ==> (__CPROVER_return_value <= size && __CPROVER_return_value == G_name_end + 4 && G_name_end >= offset && G_name_start == offset))
/* Q2 QTYPE and QCLASS are the big-endian 16-bit fields right after the name */
__CPROVER_ensures(iora_exc == EXC_NONE ==> question->qtype == U16BE(data, G_name_end))
__CPROVER_ensures(iora_exc == EXC_NONE ==> question->qclass == U16BE(data, G_name_end + 2))
/* Q3 */ __CPROVER_ensures(iora_exc == EXC_NONE ==> question->qname.n <= RFC_MAX_TEXT)
/* Q4 */ __CPROVER_ensures(iora_exc == EXC_NONE || iora_exc == EXC_DnsParseException)
/* Q5 a question cut off before the end of its fixed fields is a reported error */
__CPROVER_ensures((size < 5 || offset > size - 5) ==> iora_exc != EXC_NONE)
;

void h_question(void)
{
  const uint8_t *data; size_t offset, size; DnsQuestion *q;
  size_t r = parseQuestion(data, offset, size, q);
  IORA_CANARY("h_question: returns");
  if (iora_exc) { IORA_CANARY("h_question: rejected"); } else { IORA_CANARY("h_question: decoded"); }
}

/* ------------------------------------------------------------------------------------------------------------------
 * parseResourceRecord (decodeName and validateRdataSecurity replaced by their contracts). RFC 1035 3.2.1:
 * NAME | TYPE(2) | CLASS(2) | TTL(4) | RDLENGTH(2) | RDATA(RDLENGTH). RS = start of RDATA. */
/* one ensures clause per field (measured: the four fields in ONE clause > 300 s, as four clauses 13 s) */
#define RR_FIELDS(rr) \
/* R2a TYPE     */ __CPROVER_ensures(iora_exc == EXC_NONE ==> (rr)->type == U16BE(data, G_name_end)) \
/* R2b CLASS    */ __CPROVER_ensures(iora_exc == EXC_NONE ==> (rr)->cls == U16BE(data, G_name_end + 2)) \
/* R2c TTL      */ __CPROVER_ensures(iora_exc == EXC_NONE ==> (rr)->ttl == U32BE(data, G_name_end + 4)) \
/* R2d RDLENGTH */ __CPROVER_ensures(iora_exc == EXC_NONE ==> (rr)->rdlength == U16BE(data, G_name_end + 8))
#define RR_PRE \
__CPROVER_requires(IORA_TRUE && iora_exc == EXC_NONE && size <= DN_MAX_MSG && offset <= size && __CPROVER_is_fresh(data, size)) \
__CPROVER_requires(__CPROVER_is_fresh(rr, sizeof(*rr)) && G_msg_size == size)

size_t parseResourceRecord5_contract(const uint8_t *data, size_t offset, size_t size, DnsResourceRecord *rr, size_t *rdataOffset)
RR_PRE
__CPROVER_requires(__CPROVER_is_fresh(rdataOffset, sizeof(*rdataOffset)))
__CPROVER_assigns(iora_exc, *rr, *rdataOffset, G_name_end, G_name_start)
/* R1 NAME (ending at G_name_end) is followed by the 10 fixed octets, then RDATA; the record ends inside the message exactly
 *    RDLENGTH octets after the start of RDATA */
__CPROVER_ensures(iora_exc == EXC_NONE ==> (G_name_start == offset && G_name_end >= offset && *rdataOffset == G_name_end + 10 && __CPROVER_return_value == *rdataOffset + rr->rdlength && __CPROVER_return_value <= size))
/* R2 fixed fields bit-exact */
RR_FIELDS(rr)
/* R3 RDATA is exactly the RDLENGTH octets at rdataOffset (so [rdataOffset, rdataOffset + rdata.size()) lies inside the message) */
__CPROVER_ensures(iora_exc == EXC_NONE ==> (rr->rdata.n == rr->rdlength && rr->rdata.p == data + *rdataOffset))
/* R4 */ __CPROVER_ensures(iora_exc == EXC_NONE ==> rr->name.n <= RFC_MAX_TEXT)
/* R5 */ __CPROVER_ensures(iora_exc == EXC_NONE || iora_exc == EXC_DnsParseException)
/* R6 a record cut off before the end of its fixed fields is a reported error */
__CPROVER_ensures((size < 11 || offset > size - 11) ==> iora_exc != EXC_NONE)
;

size_t parseResourceRecord4_contract(const uint8_t *data, size_t offset, size_t size, DnsResourceRecord *rr)
RR_PRE
__CPROVER_assigns(iora_exc, *rr, G_name_end, G_name_start)
__CPROVER_ensures(iora_exc == EXC_NONE ==> (G_name_start == offset && G_name_end >= offset && __CPROVER_return_value == G_name_end + 10 + rr->rdlength && __CPROVER_return_value <= size))
RR_FIELDS(rr)
__CPROVER_ensures(iora_exc == EXC_NONE ==> (rr->rdata.n == rr->rdlength && rr->rdata.p == data + (G_name_end + 10)))
__CPROVER_ensures(iora_exc == EXC_NONE ==> rr->name.n <= RFC_MAX_TEXT)
__CPROVER_ensures(iora_exc == EXC_NONE || iora_exc == EXC_DnsParseException)
__CPROVER_ensures((size < 11 || offset > size - 11) ==> iora_exc != EXC_NONE)
;

void h_rr5(void)
{
  const uint8_t *data; size_t offset, size; DnsResourceRecord *rr; size_t *ro;
  size_t r = parseResourceRecord5(data, offset, size, rr, ro);
  IORA_CANARY("h_rr5: returns");
  if (iora_exc) { IORA_CANARY("h_rr5: rejected"); } else { IORA_CANARY("h_rr5: decoded"); }
}
void h_rr4(void)
{
  const uint8_t *data; size_t offset, size; DnsResourceRecord *rr;
  size_t r = parseResourceRecord4(data, offset, size, rr);
  IORA_CANARY("h_rr4: returns");
  if (iora_exc) { IORA_CANARY("h_rr4: rejected"); } else { IORA_CANARY("h_rr4: decoded"); }
}

#ifdef IORA_SEARCH
/* SEARCH: a whole resource record on a concrete small buffer (bounded; only to obtain an input for REPLAY).
 * decodeName is not part of this unit's text: the record name is fixed to the root name (one zero octet). */
size_t decodeName(const uint8_t *data, size_t offset, size_t size, iora_ostr *name)
{
  name->n = 0;
  if (offset < size && data[offset] == 0) return offset + 1;
  iora_exc = EXC_DnsParseException; return 0;
}
void h_search(void)
{
  uint8_t IN[32]; size_t IN_N = nondet_size_t();
  IORA_NONDET_BYTES(IN, 32);
  __CPROVER_assume(IN_N <= 32);
  IORA_TRUE = 1; iora_exc = EXC_NONE; G_msg_size = IN_N;
  DnsResourceRecord rr; size_t ro = 0;
  size_t r = parseResourceRecord5(IN, 0, IN_N, &rr, &ro);
  __CPROVER_assert(iora_exc != EXC_NONE || r <= IN_N, "R1");
}
#endif
