/* Contracts + harnesses of unit dns_rdata (property C19; RFC 1035 3.2.1 RR format, 4.1.1 header, 4.1.2 question). */
void *malloc(size_t);
#include "iora_dns_record_contracts.h"   /* the contracts this unit proves (shared with dns_typed / dns_parse, which use them) */

/* ------------------------------------------------------------------------------------------------------------------
 * validateRdataSecurity */
/* proof "validate_accept" (property: "any well-formed DNS response decodes to exactly the records it encodes"):
 * A / AAAA / TXT RDATA are opaque octets (RFC 1035 3.4.1, 3.3.14, RFC 3596 2.2) - RDATA of the right length is never an error */
void validate_accept_contract(const DnsResourceRecord *rr)
VR_PRE
/* V-ACC */ __CPROVER_ensures(((rr->type != DnsType_A || rr->rdata.n == 4) && (rr->type != DnsType_AAAA || rr->rdata.n == 16)) ==> iora_exc == EXC_NONE)
;

void h_validate(void)
{
  const DnsResourceRecord *rr;
  validateRdataSecurity(rr);
  IORA_CANARY("h_validate: returns");
  if (iora_exc) { IORA_CANARY("h_validate: rejected"); }
}

/* ------------------------------------------------------------------------------------------------------------------
 * decodeNameFromRdata: RDATA [rdataStart, rdataStart + rdataSize) lies inside the message (parseResourceRecord clause R3);
 * rdata is the record's own copy of those bytes. */
void h_rdname(void)
{
  const uint8_t *m; size_t ms, rs, ro, rn; const uint8_t *rd; iora_ostr *name;
  size_t r = decodeNameFromRdata(m, ms, rs, ro, rd, rn, name);
  IORA_CANARY("h_rdname: returns");
  if (iora_exc) { IORA_CANARY("h_rdname: rejected"); } else if (r > 2 && r - 2 > ro) { IORA_CANARY("h_rdname: literal name"); }
}

/* ------------------------------------------------------------------------------------------------------------------
 * parseHeader: loop-free, no replaced callee -> plain harness, full domain. Every bit against RFC 1035 4.1.1. */
void h_header(void)
{
  size_t size = nondet_size_t(), offset = nondet_size_t();
  __CPROVER_assume(size <= DN_MAX_MSG && offset <= size);
  uint8_t *data = malloc(size);
  __CPROVER_assume(data != 0);
  DnsHeader h;
  IORA_TRUE = 1; iora_exc = EXC_NONE;
  size_t r = parseHeader(data, offset, size, &h);
  IORA_CANARY("h_header: returns");
  const bool fits = size >= 12 && offset <= size - 12;
  __CPROVER_assert(!fits ==> iora_exc == EXC_DnsParseException, "H1 fewer than 12 octets is a reported error");
  __CPROVER_assert(fits ==> (iora_exc == EXC_NONE && r == offset + 12), "H2 a complete header is accepted and exactly 12 octets are consumed");
  if (fits)
  {
    IORA_CANARY("h_header: header decoded");
    const uint16_t fl = U16BE(data, offset + 2);
    __CPROVER_assert(h.id == U16BE(data, offset), "H3 ID");
    __CPROVER_assert(h.qr == ((fl >> 15) & 1) && h.opcode == ((fl >> 11) & 15) && h.aa == ((fl >> 10) & 1) && h.tc == ((fl >> 9) & 1)
                     && h.rd == ((fl >> 8) & 1) && h.ra == ((fl >> 7) & 1) && h.z == ((fl >> 4) & 7) && h.rcode == (fl & 15), "H4 flag bits QR OPCODE AA TC RD RA Z RCODE");
    __CPROVER_assert(h.qdcount == U16BE(data, offset + 4) && h.ancount == U16BE(data, offset + 6)
                     && h.nscount == U16BE(data, offset + 8) && h.arcount == U16BE(data, offset + 10), "H5 section counts");
  }
}

/* ------------------------------------------------------------------------------------------------------------------
 * parseQuestion (decodeName replaced by its contract) */
void h_header_c(void)
{
  const uint8_t *data; size_t offset, size; DnsHeader *h;
  size_t r = parseHeader(data, offset, size, h);
  IORA_CANARY("h_header_c: returns");
  if (iora_exc) { IORA_CANARY("h_header_c: rejected"); } else { IORA_CANARY("h_header_c: decoded"); }
}

void h_question(void)
{
  const uint8_t *data; size_t offset, size; DnsQuestion *q;
  size_t r = parseQuestion(data, offset, size, q);
  IORA_CANARY("h_question: returns");
  if (iora_exc) { IORA_CANARY("h_question: rejected"); } else { IORA_CANARY("h_question: decoded"); }
}

/* ------------------------------------------------------------------------------------------------------------------
 * parseResourceRecord (decodeName and validateRdataSecurity replaced by their contracts). RFC 1035 3.2.1:
 * NAME | TYPE(2) | CLASS(2) | TTL(4) | RDLENGTH(2) | RDATA(RDLENGTH). RS = start of RDATA. */
void h_rr5(void)
{
  const uint8_t *data; size_t offset, size; DnsResourceRecord *rr; size_t *ro;
  size_t r = parseResourceRecord5(data, offset, size, rr, ro);
  IORA_CANARY("h_rr5: returns");
  if (iora_exc) { IORA_CANARY("h_rr5: rejected"); } else { IORA_CANARY("h_rr5: decoded"); }
}
void h_rr4(void)
{
  const uint8_t *data; size_t offset, size; DnsResourceRecord *rr;
  size_t r = parseResourceRecord4(data, offset, size, rr);
  IORA_CANARY("h_rr4: returns");
  if (iora_exc) { IORA_CANARY("h_rr4: rejected"); } else { IORA_CANARY("h_rr4: decoded"); }
}

#ifdef IORA_SEARCH
/* SEARCH: a whole resource record on a concrete small buffer (bounded; only to obtain an input for REPLAY).
 * decodeName is not part of this unit's text: the record name is fixed to the root name (one zero octet). */
size_t decodeName(const uint8_t *data, size_t offset, size_t size, iora_ostr *name)
{
  name->n = 0;
  if (offset < size && data[offset] == 0) return offset + 1;
  iora_exc = EXC_DnsParseException; return 0;
}
void h_search(void)
{
  uint8_t IN[32]; size_t IN_N = nondet_size_t();
  IORA_NONDET_BYTES(IN, 32);
  __CPROVER_assume(IN_N <= 32);
  IORA_TRUE = 1; iora_exc = EXC_NONE; G_msg_size = IN_N;
  DnsResourceRecord rr; size_t ro = 0;
  size_t r = parseResourceRecord5(IN, 0, IN_N, &rr, &ro);
  __CPROVER_assert(iora_exc != EXC_NONE || r <= IN_N, "R1");
}
#endif
