/* type environment + loop contracts for unit dns_rdata
 * (DnsMessage::validateRdataSecurity, decodeNameFromRdata, parseHeader, parseQuestion, parseResourceRecord x2) */
#include "iora_dns_contracts.h"

/* struct DnsHeader / DnsQuestion / DnsResourceRecord (dns_types.hpp). std::string members the parsers only write are
 * accumulators (iora_ostr); rdata is a view (iora_bv): `rdata.assign(first, last)` makes it alias the copied range. */
typedef struct { uint16_t id; bool qr; DnsOpcode opcode; bool aa, tc, rd, ra; uint8_t z; DnsResponseCode rcode;
                 uint16_t qdcount, ancount, nscount, arcount; } DnsHeader;
typedef struct { iora_ostr qname; DnsType qtype; DnsClass qclass; } DnsQuestion;
typedef struct { iora_ostr name; DnsType type; DnsClass cls; uint32_t ttl; uint16_t rdlength; iora_bv rdata; } DnsResourceRecord;

/* proved in unit dns_name (contract text: shims/iora_dns_contracts.h); called here only through that contract */
size_t decodeName(const uint8_t *data, size_t offset, size_t size, iora_ostr *name);

/* loop 1 of validateRdataSecurity: the scan over TXT / AAAA RDATA */
#define IORA_LOOP_validateRdataSecurity_1 IORA_LC( \
  __CPROVER_assigns(i, iora_exc) \
  __CPROVER_loop_invariant(iora_exc == EXC_NONE && i <= rr->rdata.n) \
  __CPROVER_decreases(rr->rdata.n - i))

/* loop 1 of decodeNameFromRdata: skipping the labels of a name inside RDATA */
#define IORA_LOOP_decodeNameFromRdata_1 IORA_LC( \
  __CPROVER_assigns(consumedInRdata, iora_exc) \
  __CPROVER_loop_invariant(iora_exc == EXC_NONE && rdataOffset <= consumedInRdata && consumedInRdata < rdataSize) \
  __CPROVER_decreases(rdataSize - consumedInRdata))
