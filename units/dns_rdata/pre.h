/* type environment + loop contracts for unit dns_rdata
 * (DnsMessage::validateRdataSecurity, decodeNameFromRdata, parseHeader, parseQuestion, parseResourceRecord x2) */
#include "iora_dns_contracts.h"

#include "iora_dns_types.h"        /* C structs of dns_types.hpp shared by the DNS units */

/* proved in unit dns_name (contract text: shims/iora_dns_contracts.h); called here only through that contract */
size_t decodeName(const uint8_t *data, size_t offset, size_t size, iora_ostr *name);

/* loop 1 of validateRdataSecurity: the scan over TXT / AAAA RDATA */
#define IORA_LOOP_validateRdataSecurity_1 IORA_LC( \
  __CPROVER_assigns(i, iora_exc) \
  __CPROVER_loop_invariant(iora_exc == EXC_NONE && i <= rr->rdata.n) \
  __CPROVER_decreases(rr->rdata.n - i))

/* loop 1 of decodeNameFromRdata: skipping the labels of a name inside RDATA */
#define IORA_LOOP_decodeNameFromRdata_1 IORA_LC( \
  __CPROVER_assigns(consumedInRdata, iora_exc) \
  __CPROVER_loop_invariant(iora_exc == EXC_NONE && rdataOffset <= consumedInRdata && consumedInRdata < rdataSize) \
  __CPROVER_decreases(rdataSize - consumedInRdata))
