// Differential run, C++ side: the REAL DnsMessage::parseHeader / parseQuestion / parseResourceRecord (private statics).
#include "iora/network/dns/dns_message.hpp"
#include "diff_io.h"
using namespace iora::network::dns;
int main(int argc, char **argv)
{
  FILE *f = fopen(argv[1], "r"); diff_input in;
  while (diff_next(f, &in)) {
    size_t off = (size_t)diff_param(&in, "off", 0); if (off > in.n) off = in.n;
    { DnsHeader h; try { size_t r = DnsMessage::parseHeader(in.bytes, off, in.n, h);
        printf("hdr ret=%zu id=%u qr=%d op=%d aa=%d tc=%d rd=%d ra=%d z=%u rcode=%d qd=%u an=%u ns=%u ar=%u", r, h.id, h.qr, (int)h.opcode, h.aa, h.tc, h.rd, h.ra, h.z, (int)h.rcode, h.qdcount, h.ancount, h.nscount, h.arcount); }
      catch (const std::exception &) { printf("hdr threw"); } }
    { DnsQuestion q; try { size_t r = DnsMessage::parseQuestion(in.bytes, off, in.n, q);
        printf(" | q ret=%zu type=%d class=%d name=", r, (int)q.qtype, (int)q.qclass); diff_hex((const unsigned char *)q.qname.data(), q.qname.size()); }
      catch (const std::exception &) { printf(" | q threw"); } }
    { DnsResourceRecord rr; try { size_t r = DnsMessage::parseResourceRecord(in.bytes, off, in.n, rr);
        printf(" | rr4 ret=%zu type=%d class=%d ttl=%lu rdlen=%u rdata=", r, (int)rr.type, (int)rr.cls, (unsigned long)rr.ttl, rr.rdlength);
        diff_hex(rr.rdata.data(), rr.rdata.size()); printf(" name="); diff_hex((const unsigned char *)rr.name.data(), rr.name.size()); }
      catch (const std::exception &) { printf(" | rr4 threw"); } }
    { DnsResourceRecord rr; size_t ro = 777; try { size_t r = DnsMessage::parseResourceRecord(in.bytes, off, in.n, rr, ro);
        printf(" | rr5 ret=%zu rdoff=%zu type=%d rdlen=%u namelen=%zu", r, ro, (int)rr.type, rr.rdlength, rr.name.size()); }
      catch (const std::exception &) { printf(" | rr5 threw"); } }
    printf("\n"); fflush(stdout); diff_free(&in);
  }
  return 0;
}
