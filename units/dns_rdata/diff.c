/* Differential run, C side: the EXTRACTED DnsMessage::parseHeader / parseQuestion / parseResourceRecord (4- and 5-argument overloads,
 * incl. validateRdataSecurity, checkBounds, readUint16/32), compiled natively; the callee decodeName (contract-replaced in this unit's
 * proofs) is the extracted text of unit dns_name, linked in ("link_units"). Exceptions are the R8 translation (iora_exc != 0 == threw).
 * Names are witness accumulators (length + byte at GK): one run per index. rdata is a view with real storage.
 * Compared: threw or not; returned offsets; every header / question / record field; every name and RDATA byte; rdataOffset. */
#include "unit_native.c"
#include "diff_io.h"
static void reset(const diff_input *in, size_t gk) { iora_exc = EXC_NONE; G_msg_size = in->n; GK = gk; }
static void name_bytes_q(const diff_input *in, size_t off, size_t len)
{ unsigned char *b = (unsigned char *)malloc(len ? len : 1);
  for (size_t k = 0; k < len; k++) { DnsQuestion q = DnsQuestion_DEFAULT; reset(in, k); parseQuestion(in->bytes, off, in->n, &q); b[k] = (unsigned char)q.qname.gk; }
  diff_hex(b, len); free(b); }
static void name_bytes_rr(const diff_input *in, size_t off, size_t len)
{ unsigned char *b = (unsigned char *)malloc(len ? len : 1);
  for (size_t k = 0; k < len; k++) { DnsResourceRecord r = DnsResourceRecord_DEFAULT; reset(in, k); parseResourceRecord4(in->bytes, off, in->n, &r); b[k] = (unsigned char)r.name.gk; }
  diff_hex(b, len); free(b); }
int main(int argc, char **argv)
{
  FILE *f = fopen(argv[1], "r"); diff_input in;
  IORA_TRUE = 1;
  while (diff_next(f, &in)) {
    size_t off = (size_t)diff_param(&in, "off", 0); if (off > in.n) off = in.n;
    { DnsHeader h = DnsHeader_DEFAULT; reset(&in, (size_t)-1); size_t r = parseHeader(in.bytes, off, in.n, &h);
      if (iora_exc) printf("hdr threw"); else printf("hdr ret=%zu id=%u qr=%d op=%d aa=%d tc=%d rd=%d ra=%d z=%u rcode=%d qd=%u an=%u ns=%u ar=%u", r, h.id, h.qr, (int)h.opcode, h.aa, h.tc, h.rd, h.ra, h.z, (int)h.rcode, h.qdcount, h.ancount, h.nscount, h.arcount); }
    { DnsQuestion q = DnsQuestion_DEFAULT; reset(&in, (size_t)-1); size_t r = parseQuestion(in.bytes, off, in.n, &q);
      if (iora_exc) printf(" | q threw"); else { printf(" | q ret=%zu type=%d class=%d name=", r, (int)q.qtype, (int)q.qclass); name_bytes_q(&in, off, q.qname.n); } }
    { DnsResourceRecord rr = DnsResourceRecord_DEFAULT; reset(&in, (size_t)-1); size_t r = parseResourceRecord4(in.bytes, off, in.n, &rr);
      if (iora_exc) printf(" | rr4 threw"); else { printf(" | rr4 ret=%zu type=%d class=%d ttl=%lu rdlen=%u rdata=", r, (int)rr.type, (int)rr.cls, (unsigned long)rr.ttl, rr.rdlength);
        diff_hex(rr.rdata.n ? rr.rdata.p : (const unsigned char *)"", rr.rdata.n); printf(" name="); name_bytes_rr(&in, off, rr.name.n); } }
    { DnsResourceRecord rr = DnsResourceRecord_DEFAULT; size_t ro = 777; reset(&in, (size_t)-1); size_t r = parseResourceRecord5(in.bytes, off, in.n, &rr, &ro);
      if (iora_exc) printf(" | rr5 threw"); else printf(" | rr5 ret=%zu rdoff=%zu type=%d rdlen=%u namelen=%zu", r, ro, (int)rr.type, rr.rdlength, rr.name.n); }
    printf("\n"); fflush(stdout); diff_free(&in);
  }
  return 0;
}
