// REPLAY adapter of unit dns_rdata: feeds the verifier's input (one resource record, starting at offset 0 of the buffer) to the
// REAL DnsMessage::parseResourceRecord (private; reachable through -fno-access-control) on an exact-size heap buffer under
// ASan/UBSan and evaluates the contract clauses natively against an independent RFC 1035 3.2.1 reference.
// input file:  IN <hex bytes>   IN_N <size, optional>
#include "iora/network/dns/dns_message.hpp"
#include "replay_io.h"
using namespace iora::network::dns;

// independent reference name decoder (RFC 1035 4.1.4); false on malformed input
static bool ref_name(const std::vector<uint8_t> &d, size_t off, std::string &name, size_t &end)
{
  name.clear();
  std::vector<bool> seen(d.size() + 1, false);
  bool jumped = false; size_t total = 0; end = off;
  for (;;)
  {
    if (off >= d.size()) return false;
    uint8_t b = d[off];
    if ((b & 0xC0) == 0xC0)
    {
      if (off + 2 > d.size()) return false;
      size_t p = ((b & 0x3F) << 8) | d[off + 1];
      if (!jumped) { end = off + 2; jumped = true; }
      if (p >= d.size() || seen[p]) return false;
      seen[p] = true; off = p; continue;
    }
    if (b == 0) { if (!jumped) end = off + 1; return true; }
    if (b > 63 || off + 1 + b > d.size()) return false;
    if (!name.empty()) name += '.';
    name.append(reinterpret_cast<const char *>(&d[off + 1]), b);
    off += 1 + b; total += 1 + b;
    if (total > 254) return false;
  }
}

int main(int argc, char **argv)
{
  auto in = replay_io::load(argv[1]);
  std::vector<uint8_t> d = replay_io::bytes(in["IN"]);
  if (in.count("IN_N")) d.resize(std::min<size_t>(d.size(), replay_io::u64(in["IN_N"])));
  uint8_t *buf = new uint8_t[d.size() ? d.size() : 1];
  std::copy(d.begin(), d.end(), buf);

  // reference decoding of the record
  std::string rname; size_t o = 0;
  bool rok = ref_name(d, 0, rname, o) && o + 10 <= d.size();
  unsigned rtype = 0, rcls = 0, rlen = 0; unsigned long rttl = 0;
  if (rok)
  {
    rtype = (d[o] << 8) | d[o + 1]; rcls = (d[o + 2] << 8) | d[o + 3];
    rttl = ((unsigned long)d[o + 4] << 24) | (d[o + 5] << 16) | (d[o + 6] << 8) | d[o + 7];
    rlen = (d[o + 8] << 8) | d[o + 9];
    rok = o + 10 + rlen <= d.size();
  }

  DnsResourceRecord rr; size_t ro = 0, r = 0; bool threw = false; std::string what;
  try { r = DnsMessage::parseResourceRecord(buf, 0, d.size(), rr, ro); }      // an out-of-bounds read aborts here (ASan)
  catch (const DnsParseException &e) { threw = true; what = e.what(); }
  catch (const std::exception &e) { replay_io::fail(std::string("R5: an exception other than DnsParseException escaped: ") + e.what()); }

  if (!threw)
  {
    if (!rok) replay_io::fail("the reference rejects this record (truncated / malformed name) but the library accepted it");
    if (r > d.size() || ro != o + 10 || r != ro + rr.rdlength) replay_io::fail("R1: offsets");
    if ((unsigned)rr.type != rtype || (unsigned)rr.cls != rcls || rr.ttl != rttl || rr.rdlength != rlen) replay_io::fail("R2: fixed fields");
    if (rr.rdata.size() != rlen || !std::equal(rr.rdata.begin(), rr.rdata.end(), d.begin() + ro)) replay_io::fail("R3: RDATA bytes");
    if (rr.name != rname) replay_io::fail("record name differs from the reference");
  }
  else if (rok)
  {
    // V-ACC: A / AAAA / TXT RDATA are opaque octets; RDATA of the right length for its type must be accepted
    bool right_len = (rtype != 1 || rlen == 4) && (rtype != 28 || rlen == 16);
    if (right_len) replay_io::fail("V-ACC: a complete, well-formed record (type " + std::to_string(rtype) + ", RDLENGTH " + std::to_string(rlen) +
                                   ") is rejected: " + what);
  }
  delete[] buf;
  replay_io::ok(threw ? "rejected with DnsParseException: " + what : "decoded exactly as the reference");
  return 0;
}
