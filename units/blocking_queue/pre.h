/* type environment + ghost state + spec macros for unit blocking_queue (BlockingQueue<T>, T = uint64_t; sequential lock model R11)
 *
 * C struct = the data members of BlockingQueue<uint64_t> in declaration order:
 *   std::mutex -> iora_mutex (ghost `held` flag), std::condition_variable -> iora_cv (ghost notification counters),
 *   std::deque<T> -> iora_gdeque_u64 (ghost FIFO: logical interval [lo,hi) + witness element at the arbitrary logical index GQ),
 *   std::atomic<bool> _closed -> bool (R10: sequential semantics only). */
typedef struct { iora_mutex _mutex; iora_cv _condNotEmpty; iora_cv _condNotFull; iora_gdeque_u64 _queue; size_t _maxSize; bool _closed; } BlockingQueue;
#define EXC_invalid_argument 1
/* R10 ghost: memory order of the last load of each atomic member (shims/iora_atomic.h); not used by any clause of this unit */
struct { int _closed; } G_ld;

/* monitor invariant: holds whenever the mutex is free (so at entry and exit of every operation, and at every wait) */
#define BQ_SIZE(q) ((q)->_queue.hi - (q)->_queue.lo)
#define BQ_INV(q) ((q)->_queue.lo <= (q)->_queue.hi && BQ_SIZE(q) <= (q)->_maxSize)
#define BQ_LIVE(q, k) ((q)->_queue.lo <= (k) && (k) < (q)->_queue.hi)

/* LIN: the monitor state on which the operation's single atomic step acts (its linearisation point).
 * Operations that do not wait act on their entry state. A waiting operation whose predicate is false at entry blocks; what the
 * other threads do meanwhile is an ENVIRONMENT STEP (bq_env_step): any change allowed by the rely condition
 *     lo and hi only grow; lo <= hi; _closed never goes back to false; an item does not change while it is queued
 * (= what the operations under contract here guarantee, see post.c), after which the monitor invariant and the predicate hold. */
typedef struct { size_t lo, hi; uint64_t w; bool closed; bool waited; } bq_lin;
bq_lin LIN;
static inline void bq_snapshot(const BlockingQueue *q) { LIN.lo = q->_queue.lo; LIN.hi = q->_queue.hi; LIN.w = q->_queue.w; LIN.closed = q->_closed; }
static inline void bq_env_step(BlockingQueue *q)
{
  size_t lo = nondet_size_t(), hi = nondet_size_t(); uint64_t w = nondet_u64(); bool c = nondet_bool();
  IORA_ASSUME(lo >= q->_queue.lo && hi >= q->_queue.hi && lo <= hi && hi < (size_t)-1);     /* rely: counters monotone */
  IORA_ASSUME(!q->_closed || c);                                                            /* rely: closed is monotone */
  IORA_ASSUME(!(BQ_LIVE(q, GQ) && lo <= GQ) || w == q->_queue.w);                           /* rely: a queued item is stable */
  q->_queue.lo = lo; q->_queue.hi = hi; q->_queue.w = w; q->_closed = c;
  LIN.waited = 1;
}
#define BQ_OWNED(l) IORA_ASSERT((l).owns && (l).m->held, "LK4 condition_variable wait with the lock owned")
/* cv.wait(lk, pred)  ==  while (!pred()) wait(lk);   returns with pred() true */
#define IORA_CV_WAIT(c, l, P) do { BQ_OWNED(l); if (!(P)) { bq_env_step(self); IORA_ASSUME(BQ_INV(self) && (P)); } bq_snapshot(self); } while (0)
/* cv.wait_for(lk, t, pred)  ==  while (!pred()) if (timed out) return pred(); return true;   returns pred() */
#define IORA_CV_WAIT_FOR(s, c, l, P) BQ_OWNED(l); bool s = (P); if (!s) { bq_env_step(self); IORA_ASSUME(BQ_INV(self)); s = (P); } bq_snapshot(self)

/* _closed is read by both wait predicates. CV1 (condition-variable discipline): state read by a wait predicate must be modified
 * with the mutex held, otherwise a waiter that has just evaluated its predicate misses the notification (lost wake-up).
 * Checked only in the proof that defines IORA_CV_DISCIPLINE (see NOTES.md, finding Q1). */
#ifdef IORA_CV_DISCIPLINE
#define IORA_AXCHG_PRED(x, v, mo) (__CPROVER_assert(self->_mutex.held, "CV1 wait-predicate state (_closed) is modified with the mutex held (else lost wake-up)"), IORA_AXCHG_BOOL(x, v, mo))
#else
#define IORA_AXCHG_PRED(x, v, mo) IORA_AXCHG_BOOL(x, v, mo)
#endif
