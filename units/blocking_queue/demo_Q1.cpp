// Native demonstration of finding Q1 (property C10: "closing a blocking queue wakes every blocked caller ... no caller stays blocked
// while its condition (space, item or closed) holds").
//
//   g++ -std=c++17 -O2 -I/repo/include /verif/units/blocking_queue/demo_Q1.cpp -o /tmp/demo_Q1 -lpthread && /tmp/demo_Q1 [trials]
//
// BlockingQueue::close() sets `_closed` and calls notify_all() WITHOUT holding `_mutex`. A consumer inside
// `_condNotEmpty.wait(lock, pred)` that has just evaluated pred() == false but has not yet blocked misses the notification and then
// sleeps forever although the queue is closed (lost wake-up). Each trial races one dequeue() on an empty queue against one close().
// On the unrepaired header the probe prints, within the first handful of trials (measured: trial 2, 2, 3 and 11 in four runs),
//     LOST WAKE-UP at trial N: queue is closed (isClosed=1) but dequeue() is still blocked after 10 s
// and exits 1. With repair_Q1.diff (close() takes the mutex around the exchange) 100000 trials complete: exit 0.
#include "iora/core/blocking_queue.hpp"
#include <atomic>
#include <chrono>
#include <cstdio>
#include <cstdlib>
#include <thread>
int main(int argc, char **argv)
{
  long trials = argc > 1 ? atol(argv[1]) : 100000;
  for (long t = 0; t < trials; t++)
  {
    auto *q = new iora::core::BlockingQueue<int>(4);
    std::atomic<int> go{0};
    std::atomic<bool> done{false};
    std::thread cons([&] { go.fetch_add(1); while (go.load() < 2) {} int v; q->dequeue(v); done.store(true); });
    std::thread closer([&] { go.fetch_add(1); while (go.load() < 2) {} for (volatile int k = 0; k < (t % 400); k++) {} q->close(); });
    closer.join();
    auto t0 = std::chrono::steady_clock::now();
    while (!done.load())
    {
      if (std::chrono::steady_clock::now() - t0 > std::chrono::seconds(10))
      {
        printf("LOST WAKE-UP at trial %ld: queue is closed (isClosed=%d) but dequeue() is still blocked after 10 s\n", t, (int)q->isClosed());
        fflush(stdout);
        _Exit(1);       // the consumer thread can never be joined
      }
      std::this_thread::yield();
    }
    cons.join();
    delete q;
  }
  printf("no lost wake-up in %ld trials\n", trials);
  return 0;
}
