// REPLAY adapter for unit blocking_queue: drives the REAL iora::core::BlockingQueue<uint64_t> SEQUENTIALLY (one thread, never in a
// state where the called operation would block) with an operation script and evaluates the contract clauses of post.c natively
// against a reference FIFO (std::deque). The concurrent clauses (finding Q1) are demonstrated by demo_Q1.cpp, not here.
//
// input file (name value lines, see native/replay_io.h):
//   MAX  <maxSize>        (default 3; 0 checks that the constructor throws std::invalid_argument)
//   OPS  <hex bytes>      one byte per operation, low 4 bits = opcode:
//        0 queue(copy) 1 queue(move) 2 tryQueue(copy) 3 tryQueue(move) 4 tryQueue(copy,1ms) 5 tryQueue(move,1ms)
//        6 dequeue 7 dequeue(1ms) 8 tryDequeue 9 close 10 observers
//   A blocking operation that WOULD block in the current state (queue() on a full open queue, dequeue() on an empty open queue) is
//   skipped: in a sequential history it has no successor state.
#include "iora/core/blocking_queue.hpp"
#include "replay_io.h"
#include <deque>
using iora::core::BlockingQueue;
using ms = std::chrono::milliseconds;
int main(int argc, char **argv)
{
  std::map<std::string, std::string> in;
  if (argc > 1) in = replay_io::load(argv[1]);
  size_t max = in.count("MAX") ? replay_io::u64(in["MAX"]) : 3;
  std::vector<uint8_t> ops = in.count("OPS") ? replay_io::bytes(in["OPS"])
                                              : replay_io::bytes("0a 08 07 00 01 02 03 04 05 0a 06 08 07 08 02 00 09 09 00 01 02 03 04 05 0a 06 07 08 06 07 08 0a");
  if (max == 0)
  {
    try { BlockingQueue<uint64_t> z(0); } catch (const std::invalid_argument &) { replay_io::ok("CT1 maxSize 0 throws invalid_argument"); return 0; }
    replay_io::fail("CT1 maxSize 0 accepted");
  }
  BlockingQueue<uint64_t> q(max);
  std::deque<uint64_t> ref; bool closed = false; uint64_t seq = 0;
  for (size_t k = 0; k < ops.size(); k++)
  {
    unsigned op = ops[k] & 15;
    std::string at = " (op #" + std::to_string(k) + ", opcode " + std::to_string(op) + ")";
    if (op <= 5)
    {
      if (op <= 1 && !closed && ref.size() >= max) continue;          // would block
      uint64_t v = ++seq; bool expect = !closed && ref.size() < max; bool r;
      switch (op) { case 0: r = q.queue(v); break; case 1: r = q.queue(std::move(v)); break; case 2: r = q.tryQueue(v); break;
                    case 3: r = q.tryQueue(std::move(v)); break; case 4: r = q.tryQueue(v, ms(1)); break; default: r = q.tryQueue(std::move(v), ms(1)); }
      if (r != expect) replay_io::fail("P3 put result != (open && not full)" + at);
      if (r) ref.push_back(seq);
    }
    else if (op <= 8)
    {
      if (op == 6 && !closed && ref.empty()) continue;                 // would block
      uint64_t out = 0xdeadbeef; bool r = op == 6 ? q.dequeue(out) : op == 7 ? q.dequeue(out, ms(1)) : q.tryDequeue(out);
      if (r != !ref.empty()) replay_io::fail("T3 take result != non-empty (queued items must stay retrievable after close)" + at);
      if (r) { if (out != ref.front()) replay_io::fail("T5 take did not return the front item" + at); ref.pop_front(); }
      else if (out != 0xdeadbeef) replay_io::fail("T6 failed take wrote out" + at);
    }
    else if (op == 9) { q.close(); closed = true; }
    if (q.size() != ref.size()) replay_io::fail("OB1 size() != number of items held" + at);
    if (q.size() > q.capacity()) replay_io::fail("P2 size() > capacity()" + at);
    if (q.empty() != ref.empty() || q.full() != (ref.size() == max) || q.isClosed() != closed || q.capacity() != max) replay_io::fail("OB3-OB6 observers" + at);
    if (q._queue.size() != ref.size() || !std::equal(ref.begin(), ref.end(), q._queue.begin())) replay_io::fail("FRAME queued items differ from the reference" + at);
  }
  replay_io::ok("contract clauses hold on this sequential operation script");
  return 0;
}
