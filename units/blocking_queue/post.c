/* Contracts of BlockingQueue<uint64_t>, written from property C10 and the class documentation, not from the code.
 *
 * Abstract view: the FIFO of logical indices [lo, hi): the k-th item ever accepted has logical index k; hi counts accepted puts,
 * lo counts successful takes. "Exactly once, in order" is then: a put that returns true writes its argument at index hi and
 * increments hi; a take that returns true returns the item at index lo and increments lo; nothing else changes an item while it
 * is live (frame at the arbitrary witness index GQ). Capacity: BQ_INV (hi - lo <= _maxSize) before and after every operation.
 * All clauses are relative to LIN, the state at the operation's linearisation point (pre.h). NOWAIT_* clauses say when LIN is the
 * entry state, so for a purely sequential history no environment assumption is used at all. */

#define BQ_PRE \
  __CPROVER_requires(IORA_TRUE && iora_exc == EXC_NONE) \
  __CPROVER_requires(__CPROVER_is_fresh(self, sizeof(*self))) \
  __CPROVER_requires(!self->_mutex.held && self->_queue.guard == &self->_mutex) \
  __CPROVER_requires(BQ_INV(self) && self->_queue.hi < SIZE_MAX - 1 && self->_maxSize >= 1 && !LIN.waited)
#define BQ_ASSIGNS_MON G_ld, self->_mutex.held, self->_queue.lo, self->_queue.hi, self->_queue.w, self->_queue.other, self->_closed, LIN
#define OLD_LIVE(k) (__CPROVER_old(self->_queue.lo) <= (k) && (k) < __CPROVER_old(self->_queue.hi))
#define LIN_LIVE(k) (LIN.lo <= (k) && (k) < LIN.hi)
#define LIN_IS_ENTRY (LIN.lo == __CPROVER_old(self->_queue.lo) && LIN.hi == __CPROVER_old(self->_queue.hi) && LIN.closed == __CPROVER_old(self->_closed) \
                      && (OLD_LIVE(GQ) ==> LIN.w == __CPROVER_old(self->_queue.w)))
#define OLD_HAS_SPACE (__CPROVER_old(self->_queue.hi) - __CPROVER_old(self->_queue.lo) < self->_maxSize)
#define OLD_NONEMPTY (__CPROVER_old(self->_queue.lo) != __CPROVER_old(self->_queue.hi))

/* ------------------------------------------------------------------ constructor */
void BlockingQueue_ctor_contract(BlockingQueue *self, size_t maxSize)
__CPROVER_requires(IORA_TRUE && iora_exc == EXC_NONE && __CPROVER_is_fresh(self, sizeof(*self)))
__CPROVER_requires(self->_queue.lo == self->_queue.hi && !self->_mutex.held)       /* default-constructed deque and mutex */
__CPROVER_assigns(self->_maxSize, self->_closed, iora_exc)
/* CT1 */ __CPROVER_ensures((maxSize == 0) == (iora_exc == EXC_invalid_argument))
/* CT2 */ __CPROVER_ensures(iora_exc == EXC_NONE ==> (self->_maxSize == maxSize && self->_maxSize >= 1 && !self->_closed && BQ_INV(self) && BQ_SIZE(self) == 0))
;
void h_ctor(void)
{
  BlockingQueue *s; size_t n;
  BlockingQueue_ctor(s, n);
  IORA_CANARY("h_ctor: returns");
  if (iora_exc) { IORA_CANARY("h_ctor: throws"); } else { IORA_CANARY("h_ctor: constructed"); }
}

/* ------------------------------------------------------------------ put family */
#define PUT_PRE \
  BQ_PRE \
  __CPROVER_requires(__CPROVER_is_fresh(item, sizeof(*item))) \
  __CPROVER_assigns(BQ_ASSIGNS_MON, self->_condNotEmpty.n_one)

/* the clauses P1..P10 are common to every put and written out in each contract, so that a failing clause is identified by its own text */

bool BlockingQueue_queue_contract(BlockingQueue *self, const uint64_t *item)
PUT_PRE
/* P1 lock released on every path       */ __CPROVER_ensures(!self->_mutex.held)
/* P2 capacity bound / monitor invariant */ __CPROVER_ensures(BQ_INV(self))
/* P3 accepted iff open and not full    */ __CPROVER_ensures(__CPROVER_return_value == (!LIN.closed && LIN.hi - LIN.lo < self->_maxSize))
/* P4 accepted: exactly one item more   */ __CPROVER_ensures(__CPROVER_return_value ==> (self->_queue.hi == LIN.hi + 1 && self->_queue.lo == LIN.lo))
/* P5 ... it is the argument, at the back */ __CPROVER_ensures((__CPROVER_return_value && GQ == LIN.hi) ==> self->_queue.w == *item)
/* P6 refused: queue unchanged          */ __CPROVER_ensures(!__CPROVER_return_value ==> (self->_queue.hi == LIN.hi && self->_queue.lo == LIN.lo))
/* P7 frame: every queued item unchanged */ __CPROVER_ensures(LIN_LIVE(GQ) ==> self->_queue.w == LIN.w)
/* P8 a put never opens/closes the queue */ __CPROVER_ensures(self->_closed == LIN.closed)
/* P9 closed at entry: refused, unchanged */ __CPROVER_ensures(__CPROVER_old(self->_closed) ==> (!__CPROVER_return_value && LIN_IS_ENTRY))
/* P10 accepted: a consumer is notified */ __CPROVER_ensures(self->_condNotEmpty.n_one == __CPROVER_old(self->_condNotEmpty.n_one) + ((__CPROVER_return_value && __CPROVER_old(self->_condNotEmpty.n_one) < 0x7fffffffu) ? 1 : 0))
/* PB1 blocking put refuses only a closed queue */ __CPROVER_ensures(!__CPROVER_return_value ==> LIN.closed)
/* PB2 no wait when there is space or closed  */ __CPROVER_ensures((OLD_HAS_SPACE || __CPROVER_old(self->_closed)) ==> LIN_IS_ENTRY)
;
bool BlockingQueue_queueMove_contract(BlockingQueue *self, uint64_t *item)
PUT_PRE
/* P1 lock released on every path       */ __CPROVER_ensures(!self->_mutex.held)
/* P2 capacity bound / monitor invariant */ __CPROVER_ensures(BQ_INV(self))
/* P3 accepted iff open and not full    */ __CPROVER_ensures(__CPROVER_return_value == (!LIN.closed && LIN.hi - LIN.lo < self->_maxSize))
/* P4 accepted: exactly one item more   */ __CPROVER_ensures(__CPROVER_return_value ==> (self->_queue.hi == LIN.hi + 1 && self->_queue.lo == LIN.lo))
/* P5 ... it is the argument, at the back */ __CPROVER_ensures((__CPROVER_return_value && GQ == LIN.hi) ==> self->_queue.w == *item)
/* P6 refused: queue unchanged          */ __CPROVER_ensures(!__CPROVER_return_value ==> (self->_queue.hi == LIN.hi && self->_queue.lo == LIN.lo))
/* P7 frame: every queued item unchanged */ __CPROVER_ensures(LIN_LIVE(GQ) ==> self->_queue.w == LIN.w)
/* P8 a put never opens/closes the queue */ __CPROVER_ensures(self->_closed == LIN.closed)
/* P9 closed at entry: refused, unchanged */ __CPROVER_ensures(__CPROVER_old(self->_closed) ==> (!__CPROVER_return_value && LIN_IS_ENTRY))
/* P10 accepted: a consumer is notified */ __CPROVER_ensures(self->_condNotEmpty.n_one == __CPROVER_old(self->_condNotEmpty.n_one) + ((__CPROVER_return_value && __CPROVER_old(self->_condNotEmpty.n_one) < 0x7fffffffu) ? 1 : 0))
/* PB1 */ __CPROVER_ensures(!__CPROVER_return_value ==> LIN.closed)
/* PB2 */ __CPROVER_ensures((OLD_HAS_SPACE || __CPROVER_old(self->_closed)) ==> LIN_IS_ENTRY)
;
bool BlockingQueue_tryQueueFor_contract(BlockingQueue *self, const uint64_t *item)
PUT_PRE
/* P1 lock released on every path       */ __CPROVER_ensures(!self->_mutex.held)
/* P2 capacity bound / monitor invariant */ __CPROVER_ensures(BQ_INV(self))
/* P3 accepted iff open and not full    */ __CPROVER_ensures(__CPROVER_return_value == (!LIN.closed && LIN.hi - LIN.lo < self->_maxSize))
/* P4 accepted: exactly one item more   */ __CPROVER_ensures(__CPROVER_return_value ==> (self->_queue.hi == LIN.hi + 1 && self->_queue.lo == LIN.lo))
/* P5 ... it is the argument, at the back */ __CPROVER_ensures((__CPROVER_return_value && GQ == LIN.hi) ==> self->_queue.w == *item)
/* P6 refused: queue unchanged          */ __CPROVER_ensures(!__CPROVER_return_value ==> (self->_queue.hi == LIN.hi && self->_queue.lo == LIN.lo))
/* P7 frame: every queued item unchanged */ __CPROVER_ensures(LIN_LIVE(GQ) ==> self->_queue.w == LIN.w)
/* P8 a put never opens/closes the queue */ __CPROVER_ensures(self->_closed == LIN.closed)
/* P9 closed at entry: refused, unchanged */ __CPROVER_ensures(__CPROVER_old(self->_closed) ==> (!__CPROVER_return_value && LIN_IS_ENTRY))
/* P10 accepted: a consumer is notified */ __CPROVER_ensures(self->_condNotEmpty.n_one == __CPROVER_old(self->_condNotEmpty.n_one) + ((__CPROVER_return_value && __CPROVER_old(self->_condNotEmpty.n_one) < 0x7fffffffu) ? 1 : 0))
/* PT2 */ __CPROVER_ensures((OLD_HAS_SPACE || __CPROVER_old(self->_closed)) ==> LIN_IS_ENTRY)
;
bool BlockingQueue_tryQueueForMove_contract(BlockingQueue *self, uint64_t *item)
PUT_PRE
/* P1 lock released on every path       */ __CPROVER_ensures(!self->_mutex.held)
/* P2 capacity bound / monitor invariant */ __CPROVER_ensures(BQ_INV(self))
/* P3 accepted iff open and not full    */ __CPROVER_ensures(__CPROVER_return_value == (!LIN.closed && LIN.hi - LIN.lo < self->_maxSize))
/* P4 accepted: exactly one item more   */ __CPROVER_ensures(__CPROVER_return_value ==> (self->_queue.hi == LIN.hi + 1 && self->_queue.lo == LIN.lo))
/* P5 ... it is the argument, at the back */ __CPROVER_ensures((__CPROVER_return_value && GQ == LIN.hi) ==> self->_queue.w == *item)
/* P6 refused: queue unchanged          */ __CPROVER_ensures(!__CPROVER_return_value ==> (self->_queue.hi == LIN.hi && self->_queue.lo == LIN.lo))
/* P7 frame: every queued item unchanged */ __CPROVER_ensures(LIN_LIVE(GQ) ==> self->_queue.w == LIN.w)
/* P8 a put never opens/closes the queue */ __CPROVER_ensures(self->_closed == LIN.closed)
/* P9 closed at entry: refused, unchanged */ __CPROVER_ensures(__CPROVER_old(self->_closed) ==> (!__CPROVER_return_value && LIN_IS_ENTRY))
/* P10 accepted: a consumer is notified */ __CPROVER_ensures(self->_condNotEmpty.n_one == __CPROVER_old(self->_condNotEmpty.n_one) + ((__CPROVER_return_value && __CPROVER_old(self->_condNotEmpty.n_one) < 0x7fffffffu) ? 1 : 0))
/* PT2 */ __CPROVER_ensures((OLD_HAS_SPACE || __CPROVER_old(self->_closed)) ==> LIN_IS_ENTRY)
;
bool BlockingQueue_tryQueue_contract(BlockingQueue *self, const uint64_t *item)
PUT_PRE
__CPROVER_requires(LIN.lo == self->_queue.lo && LIN.hi == self->_queue.hi && LIN.w == self->_queue.w && LIN.closed == self->_closed) /* non-waiting: LIN is the entry state */
/* P1 lock released on every path       */ __CPROVER_ensures(!self->_mutex.held)
/* P2 capacity bound / monitor invariant */ __CPROVER_ensures(BQ_INV(self))
/* P3 accepted iff open and not full    */ __CPROVER_ensures(__CPROVER_return_value == (!LIN.closed && LIN.hi - LIN.lo < self->_maxSize))
/* P4 accepted: exactly one item more   */ __CPROVER_ensures(__CPROVER_return_value ==> (self->_queue.hi == LIN.hi + 1 && self->_queue.lo == LIN.lo))
/* P5 ... it is the argument, at the back */ __CPROVER_ensures((__CPROVER_return_value && GQ == LIN.hi) ==> self->_queue.w == *item)
/* P6 refused: queue unchanged          */ __CPROVER_ensures(!__CPROVER_return_value ==> (self->_queue.hi == LIN.hi && self->_queue.lo == LIN.lo))
/* P7 frame: every queued item unchanged */ __CPROVER_ensures(LIN_LIVE(GQ) ==> self->_queue.w == LIN.w)
/* P8 a put never opens/closes the queue */ __CPROVER_ensures(self->_closed == LIN.closed)
/* P9 closed at entry: refused, unchanged */ __CPROVER_ensures(__CPROVER_old(self->_closed) ==> (!__CPROVER_return_value && LIN_IS_ENTRY))
/* P10 accepted: a consumer is notified */ __CPROVER_ensures(self->_condNotEmpty.n_one == __CPROVER_old(self->_condNotEmpty.n_one) + ((__CPROVER_return_value && __CPROVER_old(self->_condNotEmpty.n_one) < 0x7fffffffu) ? 1 : 0))
/* PN1 never waits */ __CPROVER_ensures(LIN_IS_ENTRY && !LIN.waited)
;
bool BlockingQueue_tryQueueMove_contract(BlockingQueue *self, uint64_t *item)
PUT_PRE
__CPROVER_requires(LIN.lo == self->_queue.lo && LIN.hi == self->_queue.hi && LIN.w == self->_queue.w && LIN.closed == self->_closed)
/* P1 lock released on every path       */ __CPROVER_ensures(!self->_mutex.held)
/* P2 capacity bound / monitor invariant */ __CPROVER_ensures(BQ_INV(self))
/* P3 accepted iff open and not full    */ __CPROVER_ensures(__CPROVER_return_value == (!LIN.closed && LIN.hi - LIN.lo < self->_maxSize))
/* P4 accepted: exactly one item more   */ __CPROVER_ensures(__CPROVER_return_value ==> (self->_queue.hi == LIN.hi + 1 && self->_queue.lo == LIN.lo))
/* P5 ... it is the argument, at the back */ __CPROVER_ensures((__CPROVER_return_value && GQ == LIN.hi) ==> self->_queue.w == *item)
/* P6 refused: queue unchanged          */ __CPROVER_ensures(!__CPROVER_return_value ==> (self->_queue.hi == LIN.hi && self->_queue.lo == LIN.lo))
/* P7 frame: every queued item unchanged */ __CPROVER_ensures(LIN_LIVE(GQ) ==> self->_queue.w == LIN.w)
/* P8 a put never opens/closes the queue */ __CPROVER_ensures(self->_closed == LIN.closed)
/* P9 closed at entry: refused, unchanged */ __CPROVER_ensures(__CPROVER_old(self->_closed) ==> (!__CPROVER_return_value && LIN_IS_ENTRY))
/* P10 accepted: a consumer is notified */ __CPROVER_ensures(self->_condNotEmpty.n_one == __CPROVER_old(self->_condNotEmpty.n_one) + ((__CPROVER_return_value && __CPROVER_old(self->_condNotEmpty.n_one) < 0x7fffffffu) ? 1 : 0))
/* PN1 */ __CPROVER_ensures(LIN_IS_ENTRY && !LIN.waited)
;
#define BQ_WAIT_CANARY(h) if (LIN.waited) { IORA_CANARY(#h ": after an environment step"); }
#define PUT_HARNESS(h, f, cst) void h(void) { BlockingQueue *s; cst uint64_t *it; bool r = f(s, it); IORA_CANARY(#h ": returns"); \
  if (r) { IORA_CANARY(#h ": accepted"); } else { IORA_CANARY(#h ": refused"); } BQ_WAIT_CANARY(h) }
#define PUT_HARNESS_NW(h, f, cst) void h(void) { BlockingQueue *s; cst uint64_t *it; bool r = f(s, it); IORA_CANARY(#h ": returns"); \
  if (r) { IORA_CANARY(#h ": accepted"); } else { IORA_CANARY(#h ": refused"); } }
PUT_HARNESS(h_queue, BlockingQueue_queue, const)
PUT_HARNESS(h_queueMove, BlockingQueue_queueMove, )
PUT_HARNESS(h_tryQueueFor, BlockingQueue_tryQueueFor, const)
PUT_HARNESS(h_tryQueueForMove, BlockingQueue_tryQueueForMove, )
PUT_HARNESS_NW(h_tryQueue, BlockingQueue_tryQueue, const)
PUT_HARNESS_NW(h_tryQueueMove, BlockingQueue_tryQueueMove, )

/* ------------------------------------------------------------------ take family */
#define TAKE_PRE \
  BQ_PRE \
  __CPROVER_requires(__CPROVER_is_fresh(out, sizeof(*out))) \
  __CPROVER_assigns(BQ_ASSIGNS_MON, self->_condNotFull.n_one, *out)


bool BlockingQueue_dequeue_contract(BlockingQueue *self, uint64_t *out)
TAKE_PRE
/* T1 lock released on every path     */ __CPROVER_ensures(!self->_mutex.held)
/* T2 monitor invariant               */ __CPROVER_ensures(BQ_INV(self))
/* T3 succeeds iff there is an item (also after close: queued items stay retrievable) */ __CPROVER_ensures(__CPROVER_return_value == (LIN.lo != LIN.hi))
/* T4 success: exactly one item less  */ __CPROVER_ensures(__CPROVER_return_value ==> (self->_queue.lo == LIN.lo + 1 && self->_queue.hi == LIN.hi))
/* T5 ... and it is the FRONT item    */ __CPROVER_ensures((__CPROVER_return_value && GQ == LIN.lo) ==> *out == LIN.w)
/* T6 failure: nothing changes        */ __CPROVER_ensures(!__CPROVER_return_value ==> (self->_queue.lo == LIN.lo && self->_queue.hi == LIN.hi && *out == __CPROVER_old(*out)))
/* T7 frame: every queued item unchanged */ __CPROVER_ensures(LIN_LIVE(GQ) ==> self->_queue.w == LIN.w)
/* T8 a take never opens/closes the queue */ __CPROVER_ensures(self->_closed == LIN.closed)
/* T9 success: a producer is notified */ __CPROVER_ensures(self->_condNotFull.n_one == __CPROVER_old(self->_condNotFull.n_one) + ((__CPROVER_return_value && __CPROVER_old(self->_condNotFull.n_one) < 0x7fffffffu) ? 1 : 0))
/* TB1 blocking take fails only when closed and empty */ __CPROVER_ensures(!__CPROVER_return_value ==> (LIN.closed && LIN.lo == LIN.hi))
/* TB2 no wait when there is an item or closed       */ __CPROVER_ensures((OLD_NONEMPTY || __CPROVER_old(self->_closed)) ==> LIN_IS_ENTRY)
;
bool BlockingQueue_dequeueFor_contract(BlockingQueue *self, uint64_t *out)
TAKE_PRE
/* T1 lock released on every path     */ __CPROVER_ensures(!self->_mutex.held)
/* T2 monitor invariant               */ __CPROVER_ensures(BQ_INV(self))
/* T3 succeeds iff there is an item (also after close: queued items stay retrievable) */ __CPROVER_ensures(__CPROVER_return_value == (LIN.lo != LIN.hi))
/* T4 success: exactly one item less  */ __CPROVER_ensures(__CPROVER_return_value ==> (self->_queue.lo == LIN.lo + 1 && self->_queue.hi == LIN.hi))
/* T5 ... and it is the FRONT item    */ __CPROVER_ensures((__CPROVER_return_value && GQ == LIN.lo) ==> *out == LIN.w)
/* T6 failure: nothing changes        */ __CPROVER_ensures(!__CPROVER_return_value ==> (self->_queue.lo == LIN.lo && self->_queue.hi == LIN.hi && *out == __CPROVER_old(*out)))
/* T7 frame: every queued item unchanged */ __CPROVER_ensures(LIN_LIVE(GQ) ==> self->_queue.w == LIN.w)
/* T8 a take never opens/closes the queue */ __CPROVER_ensures(self->_closed == LIN.closed)
/* T9 success: a producer is notified */ __CPROVER_ensures(self->_condNotFull.n_one == __CPROVER_old(self->_condNotFull.n_one) + ((__CPROVER_return_value && __CPROVER_old(self->_condNotFull.n_one) < 0x7fffffffu) ? 1 : 0))
/* TT2 */ __CPROVER_ensures((OLD_NONEMPTY || __CPROVER_old(self->_closed)) ==> LIN_IS_ENTRY)
;
bool BlockingQueue_tryDequeue_contract(BlockingQueue *self, uint64_t *out)
TAKE_PRE
__CPROVER_requires(LIN.lo == self->_queue.lo && LIN.hi == self->_queue.hi && LIN.w == self->_queue.w && LIN.closed == self->_closed)
/* T1 lock released on every path     */ __CPROVER_ensures(!self->_mutex.held)
/* T2 monitor invariant               */ __CPROVER_ensures(BQ_INV(self))
/* T3 succeeds iff there is an item (also after close: queued items stay retrievable) */ __CPROVER_ensures(__CPROVER_return_value == (LIN.lo != LIN.hi))
/* T4 success: exactly one item less  */ __CPROVER_ensures(__CPROVER_return_value ==> (self->_queue.lo == LIN.lo + 1 && self->_queue.hi == LIN.hi))
/* T5 ... and it is the FRONT item    */ __CPROVER_ensures((__CPROVER_return_value && GQ == LIN.lo) ==> *out == LIN.w)
/* T6 failure: nothing changes        */ __CPROVER_ensures(!__CPROVER_return_value ==> (self->_queue.lo == LIN.lo && self->_queue.hi == LIN.hi && *out == __CPROVER_old(*out)))
/* T7 frame: every queued item unchanged */ __CPROVER_ensures(LIN_LIVE(GQ) ==> self->_queue.w == LIN.w)
/* T8 a take never opens/closes the queue */ __CPROVER_ensures(self->_closed == LIN.closed)
/* T9 success: a producer is notified */ __CPROVER_ensures(self->_condNotFull.n_one == __CPROVER_old(self->_condNotFull.n_one) + ((__CPROVER_return_value && __CPROVER_old(self->_condNotFull.n_one) < 0x7fffffffu) ? 1 : 0))
/* TN1 never waits */ __CPROVER_ensures(LIN_IS_ENTRY && !LIN.waited)
;
#define TAKE_HARNESS(h, f) void h(void) { BlockingQueue *s; uint64_t *o; bool r = f(s, o); IORA_CANARY(#h ": returns"); \
  if (r) { IORA_CANARY(#h ": item"); } else { IORA_CANARY(#h ": none"); } BQ_WAIT_CANARY(h) }
#define TAKE_HARNESS_NW(h, f) void h(void) { BlockingQueue *s; uint64_t *o; bool r = f(s, o); IORA_CANARY(#h ": returns"); \
  if (r) { IORA_CANARY(#h ": item"); } else { IORA_CANARY(#h ": none"); } }
TAKE_HARNESS(h_dequeue, BlockingQueue_dequeue)
TAKE_HARNESS(h_dequeueFor, BlockingQueue_dequeueFor)
TAKE_HARNESS_NW(h_tryDequeue, BlockingQueue_tryDequeue)

/* ------------------------------------------------------------------ close / isClosed */
void BlockingQueue_close_contract(BlockingQueue *self)
BQ_PRE
__CPROVER_assigns(self->_mutex.held, self->_closed, self->_condNotEmpty.n_all, self->_condNotFull.n_all)      /* the queue itself is not assignable: queued items stay */
/* CL1 */ __CPROVER_ensures(self->_closed)
/* CL2 first close wakes EVERY waiter of both conditions */
__CPROVER_ensures(self->_condNotEmpty.n_all == __CPROVER_old(self->_condNotEmpty.n_all) + ((!__CPROVER_old(self->_closed) && __CPROVER_old(self->_condNotEmpty.n_all) < 0x7fffffffu) ? 1 : 0))
__CPROVER_ensures(self->_condNotFull.n_all == __CPROVER_old(self->_condNotFull.n_all) + ((!__CPROVER_old(self->_closed) && __CPROVER_old(self->_condNotFull.n_all) < 0x7fffffffu) ? 1 : 0))
/* CL3 */ __CPROVER_ensures(!self->_mutex.held && BQ_INV(self))
;
void h_close(void)
{
  BlockingQueue *s;
  BlockingQueue_close(s);
  IORA_CANARY("h_close: returns");
}

/* ------------------------------------------------------------------ observers */
void h_observers_contract(BlockingQueue *self)
BQ_PRE
__CPROVER_assigns(G_ld, self->_mutex.held)
__CPROVER_ensures(!self->_mutex.held)
;
void h_observers_body(BlockingQueue *self)
{
  size_t n = BlockingQueue_size(self);
  __CPROVER_assert(!self->_mutex.held, "OB0 size() releases the lock");
  bool e = BlockingQueue_empty(self);
  __CPROVER_assert(!self->_mutex.held, "OB0 empty() releases the lock");
  bool f = BlockingQueue_full(self);
  __CPROVER_assert(!self->_mutex.held, "OB0 full() releases the lock");
  size_t c = BlockingQueue_capacity(self);
  bool cl = BlockingQueue_isClosed(self);
  __CPROVER_assert(n == self->_queue.hi - self->_queue.lo, "OB1 size() is the number of items held");
  __CPROVER_assert(n <= c, "OB2 size() <= capacity()");
  __CPROVER_assert(e == (n == 0), "OB3 empty() iff size() == 0");
  __CPROVER_assert(f == (n == c), "OB4 full() iff size() == capacity()");
  __CPROVER_assert(c == self->_maxSize, "OB5 capacity()");
  __CPROVER_assert(cl == self->_closed, "OB6 isClosed()");
  if (e) { IORA_CANARY("h_observers: empty"); }
  if (f) { IORA_CANARY("h_observers: full"); }
}
void h_observers(void)
{
  BlockingQueue *s;
  h_observers_body(s);
  IORA_CANARY("h_observers: returns");
}
