"""Unit-local extraction plugin for blocking_queue: RAII scope exit of the lock guard (R11).

`std::unique_lock<std::mutex> lock(_mutex);` / `std::lock_guard<...> lock(_mutex);` is rewritten by a declared rule into
`iora_ulock lock = iora_ulock_make(&_mutex);`. C has no destructors, so this hook makes the scope exit explicit:
every `return E;` after the declaration becomes `{ RET iora_rv = E; iora_ulock_dtor(&lock); return iora_rv; }` (E is evaluated
BEFORE the guard is released, as in C++), and a function that can fall off its end gets the dtor call appended.
Only guards declared at the top level of the function body are supported (anything else is an extraction break)."""
from vt.lexer import Tok, match_close
from vt.x2c import ExtractionBreak


def hook_before_loops(t, rw):
    decl = None
    depth = 0
    for i, x in enumerate(t):
        if x.kind in ('str', 'chr', 'expr'):
            continue
        if x.text == '{':
            depth += 1
        elif x.text == '}':
            depth -= 1
        elif x.kind == 'id' and x.text == 'iora_ulock' and i + 2 < len(t) and t[i + 1].kind == 'id' and t[i + 2].text == '=':
            if decl is not None:
                raise ExtractionBreak(f"{rw.prefix}: more than one lock guard in one function is outside the subset")
            if depth != 0:
                raise ExtractionBreak(f"{rw.prefix}: lock guard declared in a nested scope is outside the subset")
            decl = i
    if decl is None:
        return t
    name = t[decl + 1].text
    cdecl = rw.fn['cdecl'].strip()
    rett = cdecl.split(rw.fn.get('cname', rw.fn['name']))[0].replace('static', '').replace('inline', '').strip()
    out = list(t[:decl])
    i = decl
    n = 0
    while i < len(t):
        x = t[i]
        if x.kind == 'id' and x.text == 'return':
            end = rw._stmt_end(t, i)
            L = x.line
            expr = t[i + 1:end]
            dtor = [Tok('id', 'iora_ulock_dtor', L, final=True), Tok('op', '(', L), Tok('op', '&', L), Tok('id', name, L, final=True), Tok('op', ')', L), Tok('op', ';', L)]
            if rett == 'void' or not expr:
                out += [Tok('op', '{', L)] + dtor + [Tok('id', 'return', L, final=True), Tok('op', ';', L), Tok('op', '}', L)]
            else:
                out += [Tok('op', '{', L)] + [Tok('id', w, L, final=True) for w in rett.split()] + [Tok('id', 'iora_rv', L, final=True), Tok('op', '=', L)] + expr + [Tok('op', ';', L)]
                out += dtor + [Tok('id', 'return', L, final=True), Tok('id', 'iora_rv', L, final=True), Tok('op', ';', L), Tok('op', '}', L)]
            n += 1
            i = end + 1
            continue
        out.append(x)
        i += 1
    if rett == 'void':
        L = t[-1].line
        out += [Tok('id', 'iora_ulock_dtor', L, final=True), Tok('op', '(', L), Tok('op', '&', L), Tok('id', name, L, final=True), Tok('op', ')', L), Tok('op', ';', L)]
        n += 1
    rw.R.fire('R11 scope exit', n)
    return out
