// Differential run, C++ side: the REAL WebSocketFrame::parse / serialize / isValidUtf8. Must print exactly what diff.c prints.
#include "iora/network/websocket_frame.hpp"
#include "diff_io.h"
using namespace iora::network;
static int sel(size_t k, size_t len) { return len <= 2048 || k < 32 || k + 32 >= len || k % 257 == 0; }
int main(int argc, char **argv)
{
  FILE *f = fopen(argv[1], "r"); diff_input in;
  while (diff_next(f, &in)) {
    { size_t consumed = 777; std::optional<WebSocketFrame> fr;
      try { fr = WebSocketFrame::parse(iora::core::BufferView(in.bytes, in.n), consumed); }
      catch (const std::exception &e) { printf("parse threw %s", e.what()); }
      printf("parse ret=%d consumed=%zu", fr.has_value(), consumed);
      if (fr) { printf(" fin=%d op=%d masked=%d key=%02x%02x%02x%02x payload=", fr->fin, (int)fr->opcode, fr->masked, fr->maskKey[0], fr->maskKey[1], fr->maskKey[2], fr->maskKey[3]);
                diff_hex(fr->payload.data(), fr->payload.size()); } }
    { WebSocketFrame s; unsigned long long key = diff_param(&in, "key", 0);
      s.fin = diff_param(&in, "fin", 1) != 0; s.opcode = (WsOpcode)diff_param(&in, "op", 1); s.masked = false;
      s.maskKey[0] = (uint8_t)(key >> 24); s.maskKey[1] = (uint8_t)(key >> 16); s.maskKey[2] = (uint8_t)(key >> 8); s.maskKey[3] = (uint8_t)key;
      s.payload.assign(in.bytes, in.bytes + in.n);
      bool am = diff_param(&in, "mask", 0) != 0;
      std::vector<uint8_t> out = s.serialize(am);
      size_t len = out.size(); printf(" | ser len=%zu bytes=", len);
      for (size_t k = 0; k < len; k++) if (sel(k, len)) printf("%02x", out[k]);
      printf(" | utf8=%d", s.isValidUtf8()); }
    printf("\n"); fflush(stdout); diff_free(&in);
  }
  return 0;
}
