/* type environment + ghost state + loop contracts for unit ws_parse (WebSocketFrame::parse) */
typedef struct { bool fin; WsOpcode opcode; bool masked; uint8_t maskKey[4]; iora_vec payload; } WebSocketFrame;
/* default member initialisers of struct WebSocketFrame (websocket_frame.hpp) */
#define WebSocketFrame_DEFAULT ((WebSocketFrame){ .fin = true, .opcode = WsOpcode_TEXT, .masked = false, .maskKey = {0,0,0,0}, .payload = {0,0} })

/* loop 1 of parse: the unmask loop. Witness invariant at the arbitrary ghost index GK. */
#define IORA_LOOP_WebSocketFrame_parse_1 IORA_LC( \
  __CPROVER_assigns(i, __CPROVER_object_whole(frame.payload.p)) \
  __CPROVER_loop_invariant(i <= frame.payload.n) \
  __CPROVER_loop_invariant(GK < i ==> frame.payload.p[GK] == (uint8_t)(data.p[pos + GK] ^ frame.maskKey[GK % 4])) \
  __CPROVER_loop_invariant(GK >= i && GK < frame.payload.n ==> frame.payload.p[GK] == data.p[pos + GK]) \
  __CPROVER_decreases(frame.payload.n - i))
