/* type environment + ghost state + loop contracts for unit ws_parse (WebSocketFrame::parse) */
typedef struct { bool fin; WsOpcode opcode; bool masked; uint8_t maskKey[4]; iora_vec payload; } WebSocketFrame;
/* default member initialisers of struct WebSocketFrame (websocket_frame.hpp) */
#define WebSocketFrame_DEFAULT ((WebSocketFrame){ .fin = true, .opcode = WsOpcode_TEXT, .masked = false, .maskKey = {0,0,0,0}, .payload = {0,0} })

/* loop 1 of parse: the unmask loop. Witness invariant at the arbitrary ghost index GK. */
#define IORA_LOOP_WebSocketFrame_parse_1 IORA_LC( \
  __CPROVER_assigns(i, __CPROVER_object_whole(frame.payload.p)) \
  __CPROVER_loop_invariant(i <= frame.payload.n) \
  __CPROVER_loop_invariant(GK < i ==> frame.payload.p[GK] == (uint8_t)(data.p[pos + GK] ^ frame.maskKey[GK % 4])) \
  __CPROVER_loop_invariant(GK >= i && GK < frame.payload.n ==> frame.payload.p[GK] == data.p[pos + GK]) \
  __CPROVER_decreases(frame.payload.n - i))

/* ---- serialize / isValidUtf8 operate on a const frame whose payload is input memory ---- */
typedef struct { bool fin; WsOpcode opcode; bool masked; uint8_t maskKey[4]; iora_bv payload; } WebSocketFrameIn;

/* wire-format spec of a serialised frame (RFC 6455 5.2), byte k of the output, written from the RFC */
#define S_N (self->payload.n)
#define S_EXT (S_N <= 125 ? 0 : (S_N <= 0xFFFF ? 2 : 8))
#define S_HLEN ((size_t)(2 + S_EXT + (applyMask ? 4 : 0)))
#define S_B0 ((uint8_t)(self->opcode | (self->fin ? 0x80 : 0)))
#define S_B1 ((uint8_t)((applyMask ? 0x80 : 0) | (S_N <= 125 ? (uint8_t)S_N : (S_N <= 0xFFFF ? 126 : 127))))
#define S_EXTBYTE(k) (S_EXT == 2 ? (uint8_t)(S_N >> (8 * (3 - (k)))) : (uint8_t)(S_N >> (8 * (9 - (k)))))
#define SER_BYTE(k) ((k) == 0 ? S_B0 : (k) == 1 ? S_B1 : (k) < 2 + S_EXT ? S_EXTBYTE(k) : (k) < S_HLEN ? self->maskKey[(k) - 2 - S_EXT] \
                     : (uint8_t)(self->payload.p[(k) - S_HLEN] ^ (applyMask ? self->maskKey[((k) - S_HLEN) % 4] : 0)))

/* loop 1 of serialize: the eight length bytes of the 64-bit encoding */
#define IORA_LOOP_WebSocketFrame_serialize_1 IORA_LC( \
  __CPROVER_assigns(i, out.n, out.gk) \
  __CPROVER_loop_invariant(-1 <= i && i <= 7 && out.n == (size_t)(2 + (7 - i))) \
  __CPROVER_loop_invariant(GK < out.n ==> out.gk == SER_BYTE(GK)) \
  __CPROVER_decreases(i + 1))
/* loop 2 of serialize: masked payload */
#define IORA_LOOP_WebSocketFrame_serialize_2 IORA_LC( \
  __CPROVER_assigns(i, out.n, out.gk) \
  __CPROVER_loop_invariant(i <= S_N && out.n == S_HLEN + i) \
  __CPROVER_loop_invariant(GK < out.n ==> out.gk == SER_BYTE(GK)) \
  __CPROVER_decreases(S_N - i))

/* isValidUtf8: outer scan loop and inner continuation-byte loop */
#define IORA_LOOP_WebSocketFrame_isValidUtf8_1 IORA_LC( \
  __CPROVER_assigns(i) \
  __CPROVER_loop_invariant(i <= self->payload.n) \
  __CPROVER_decreases(self->payload.n - i))
#define IORA_LOOP_WebSocketFrame_isValidUtf8_2 IORA_LC( \
  __CPROVER_assigns(j) \
  __CPROVER_loop_invariant(1 <= j && j <= seqLen && seqLen <= 4 && i + seqLen <= self->payload.n) \
  __CPROVER_decreases(seqLen - j))
/* the outlined loop body (step) keeps its inner loop; it is unwound (bounded by the constant 4) in the plain step proof */
#define IORA_LOOP_utf8_step_1
