/* Differential run, C side: the EXTRACTED WebSocketFrame::parse / serialize / isValidUtf8, compiled natively.
 *   parse       input bytes = the wire data; output: return value, consumed, fin/opcode/masked/maskKey, payload (iora_vec has real storage)
 *   serialize   input bytes = the payload, params fin= op= mask= key=(32 bit, big endian into maskKey); the output vector is a witness
 *               accumulator (iora_ovec: length + byte at GK): one run per index; for outputs longer than 2048 bytes the first/last 32
 *               bytes and every 257th byte are compared (both sides print the same selection)
 *   isValidUtf8 input bytes = the payload; output: the verdict
 * The block target utf8_step is a second extraction of text that is compared through isValidUtf8; it is not driven separately. */
#include "unit_native.c"
#include "diff_io.h"
static int sel(size_t k, size_t len) { return len <= 2048 || k < 32 || k + 32 >= len || k % 257 == 0; }
int main(int argc, char **argv)
{
  FILE *f = fopen(argv[1], "r"); diff_input in;
  IORA_TRUE = 1;
  while (diff_next(f, &in)) {
    /* parse */
    { iora_bv d = { in.bytes, in.n }; size_t consumed = 777; WebSocketFrame fr = WebSocketFrame_DEFAULT;
      G_alloc_cap = in.n; GK = (size_t)-1;
      bool r = WebSocketFrame_parse(d, &consumed, &fr);
      printf("parse ret=%d consumed=%zu", r, consumed);
      if (r) { printf(" fin=%d op=%d masked=%d key=%02x%02x%02x%02x payload=", fr.fin, fr.opcode, fr.masked, fr.maskKey[0], fr.maskKey[1], fr.maskKey[2], fr.maskKey[3]);
               diff_hex(fr.payload.n ? fr.payload.p : (const unsigned char *)"", fr.payload.n); } }
    /* serialize */
    { WebSocketFrameIn s; unsigned long long key = diff_param(&in, "key", 0);
      s.fin = diff_param(&in, "fin", 1) != 0; s.opcode = (WsOpcode)diff_param(&in, "op", 1); s.masked = false;
      s.maskKey[0] = (uint8_t)(key >> 24); s.maskKey[1] = (uint8_t)(key >> 16); s.maskKey[2] = (uint8_t)(key >> 8); s.maskKey[3] = (uint8_t)key;
      s.payload.p = in.bytes; s.payload.n = in.n;
      bool am = diff_param(&in, "mask", 0) != 0;
      iora_ovec out = iora_ovec_DEFAULT; GK = (size_t)-1; WebSocketFrame_serialize(&s, am, &out);
      size_t len = out.n; printf(" | ser len=%zu bytes=", len);
      for (size_t k = 0; k < len; k++) if (sel(k, len)) { iora_ovec o2 = iora_ovec_DEFAULT; GK = k; WebSocketFrame_serialize(&s, am, &o2); printf("%02x", o2.gk); }
      /* isValidUtf8 */
      printf(" | utf8=%d", WebSocketFrame_isValidUtf8(&s)); }
    printf("\n"); fflush(stdout); diff_free(&in);
  }
  return 0;
}
