// REPLAY adapter: feeds the verifier's input to the REAL WebSocketFrame::parse and evaluates the contract clauses natively.
#include "iora/network/websocket_frame.hpp"
#include "replay_io.h"
using namespace iora::network;
int main(int argc, char **argv) {
  auto in = replay_io::load(argv[1]);
  std::vector<uint8_t> d = replay_io::bytes(in["IN"]);
  if (in.count("IN_N")) d.resize(std::min<size_t>(d.size(), replay_io::u64(in["IN_N"])));
  size_t consumed = 12345;
  std::optional<WebSocketFrame> f;
  try { f = WebSocketFrame::parse(iora::core::BufferView(d.data(), d.size()), consumed); }
  catch (const std::exception &e) { replay_io::fail(std::string("parse threw ") + e.what() + " (property: no input can make it throw / over-allocate)"); }
  if (consumed > d.size()) replay_io::fail("E1 consumed > size");
  if (!f && consumed != 0) replay_io::fail("E2 no frame but consumed != 0");
  if (d.size() >= 2 && ((d[0] >> 4) & 7) == 0) {
    unsigned len7 = d[1] & 0x7F; bool msk = d[1] & 0x80; unsigned opc = d[0] & 0xF; bool fin = d[0] & 0x80;
    size_t ext = len7 == 126 ? 2 : len7 == 127 ? 8 : 0; size_t h = 2 + ext + (msk ? 4 : 0);
    bool ctlbad = (opc == 8 || opc == 9 || opc == 10) && (len7 > 125 || !fin);
    bool complete = false; unsigned long long plen = len7;
    if (d.size() >= h) { if (ext == 2) plen = (d[2] << 8) | d[3]; else if (ext == 8) { plen = 0; for (int i = 0; i < 8; i++) plen = (plen << 8) | d[2 + i]; }
      complete = (unsigned long long)(d.size() - h) >= plen; }
    if (f && !(complete && !ctlbad)) replay_io::fail("E3 frame returned for an incomplete/invalid header");
    if (f && (consumed != h + plen || f->payload.size() != plen)) replay_io::fail("E3 consumed/payload length");
    if (f) for (size_t k = 0; k < f->payload.size(); k++) if (f->payload[k] != (uint8_t)(d[h + k] ^ (msk ? d[2 + ext + k % 4] : 0))) replay_io::fail("E3p payload byte");
    if (complete && !ctlbad && !f) replay_io::fail("E4 complete frame not returned");
  }
  replay_io::ok("contract clauses hold on this input");
  return 0;
}
