/* Contract of WebSocketFrame::parse, written from property C18 and RFC 6455 5.2 (not from the code).
 * Spec functions are by-value macros over the input bytes. */
#define B0 (data.p[0])
#define B1 (data.p[1])
#define RSV ((B0 >> 4) & 7)
#define OPC (B0 & 0x0F)
#define FIN ((B0 & 0x80) != 0)
#define MSK ((B1 & 0x80) != 0)
#define LEN7 (B1 & 0x7F)
#define IS_CTL (OPC == 8 || OPC == 9 || OPC == 10)
#define CTL_BAD (IS_CTL && (LEN7 > 125 || !FIN))
#define EXT (LEN7 == 126 ? 2 : (LEN7 == 127 ? 8 : 0))
#define HLEN ((size_t)(2 + EXT + (MSK ? 4 : 0)))
#define U16AT(o) ((uint64_t)(((uint64_t)data.p[o] << 8) | data.p[(o) + 1]))
#define U64AT(o) (((uint64_t)data.p[o] << 56) | ((uint64_t)data.p[(o)+1] << 48) | ((uint64_t)data.p[(o)+2] << 40) | ((uint64_t)data.p[(o)+3] << 32) \
                | ((uint64_t)data.p[(o)+4] << 24) | ((uint64_t)data.p[(o)+5] << 16) | ((uint64_t)data.p[(o)+6] << 8) | (uint64_t)data.p[(o)+7])
/* declared payload length; only meaningful when the length bytes are present (data.n >= 2 + EXT) */
#define PLEN (LEN7 == 126 ? U16AT(2) : (LEN7 == 127 ? U64AT(2) : (uint64_t)LEN7))
#define HDR_PRESENT (data.n >= 2 && data.n >= HLEN)
#define COMPLETE (HDR_PRESENT && (uint64_t)(data.n - HLEN) >= PLEN)
#define KEYAT(k) (data.p[2 + EXT + (k)])

#define PARSE_PRE \
__CPROVER_requires(IORA_TRUE && data.n <= ((size_t)1 << 50) && __CPROVER_is_fresh(data.p, data.n)) \
__CPROVER_requires(__CPROVER_is_fresh(consumed, sizeof(*consumed)) && __CPROVER_is_fresh(iora_ret, sizeof(*iora_ret))) \
__CPROVER_requires(G_alloc_cap == data.n) /* an allocation must be justified by input actually present */ \
__CPROVER_assigns(*consumed, *iora_ret)

/* proof "safety": every built-in obligation (bounds, pointer, overflow incl. unsigned index arithmetic, conversion), the
 * shim preconditions (operator[] in range, resize <= G_alloc_cap), frame, loop invariant/variant, plus E1/E2/E6 */
bool WebSocketFrame_parse_safety(iora_bv data, size_t *consumed, WebSocketFrame *iora_ret)
PARSE_PRE
/* E1 */ __CPROVER_ensures(*consumed <= data.n)
/* E2 */ __CPROVER_ensures(!__CPROVER_return_value ==> *consumed == 0)
/* E6 */ __CPROVER_ensures(data.n < 2 ==> !__CPROVER_return_value)
;

/* proof "functional": the same function against the functional clauses (no built-in checks: they are in "safety") */
bool WebSocketFrame_parse_contract(iora_bv data, size_t *consumed, WebSocketFrame *iora_ret)
PARSE_PRE
/* E3 exact consumption and header fields of a complete frame */
__CPROVER_ensures((__CPROVER_return_value && data.n >= 2 && RSV == 0) ==> (COMPLETE && !CTL_BAD))
__CPROVER_ensures((__CPROVER_return_value && data.n >= 2 && RSV == 0) ==> (*consumed == HLEN + (size_t)PLEN && iora_ret->payload.n == (size_t)PLEN))
__CPROVER_ensures((__CPROVER_return_value && data.n >= 2 && RSV == 0) ==> (iora_ret->fin == FIN && iora_ret->opcode == OPC && iora_ret->masked == MSK))
__CPROVER_ensures((__CPROVER_return_value && data.n >= 2 && RSV == 0 && MSK) ==>
   (iora_ret->maskKey[0] == KEYAT(0) && iora_ret->maskKey[1] == KEYAT(1) && iora_ret->maskKey[2] == KEYAT(2) && iora_ret->maskKey[3] == KEYAT(3)))
/* E3p payload bytes (witness index GK): unmasked with the key from the header */
__CPROVER_ensures((__CPROVER_return_value && data.n >= 2 && RSV == 0 && GK < iora_ret->payload.n) ==>
   iora_ret->payload.p[GK] == (uint8_t)(data.p[HLEN + GK] ^ (MSK ? KEYAT(GK % 4) : 0)))
/* E4 a complete, well-formed frame is always returned (never mistaken for "incomplete") */
__CPROVER_ensures((data.n >= 2 && RSV == 0 && COMPLETE && !CTL_BAD) ==> __CPROVER_return_value)
/* E6 fewer than two bytes is never a frame */
__CPROVER_ensures(data.n < 2 ==> !__CPROVER_return_value)
;

void h_parse(void)
{
  iora_bv d; size_t *c; WebSocketFrame *r;
  bool ok = WebSocketFrame_parse(d, c, r);
  IORA_CANARY("h_parse: call returns");
  if (ok) { IORA_CANARY("h_parse: frame returned"); } else { IORA_CANARY("h_parse: no frame"); }
}

#ifdef IORA_SEARCH
/* SEARCH: same function, same checks, concrete small buffer (bounded; only used to obtain an input for REPLAY) */
void h_search(void)
{
  uint8_t IN[16]; size_t IN_N = nondet_size_t();
  IORA_NONDET_BYTES(IN, 16);
  __CPROVER_assume(IN_N <= 16);
  IORA_TRUE = 1; G_alloc_cap = IN_N;
  iora_bv data = { IN, IN_N }; size_t consumed = 0; WebSocketFrame fr = WebSocketFrame_DEFAULT;
  bool ok = WebSocketFrame_parse(data, &consumed, &fr);
  __CPROVER_assert(consumed <= data.n, "E1");
  __CPROVER_assert(ok || consumed == 0, "E2");
  if (data.n >= 2 && RSV == 0) {
    __CPROVER_assert(!ok || (COMPLETE && !CTL_BAD), "E3 only complete frames");
    __CPROVER_assert(!ok || (consumed == HLEN + (size_t)PLEN && fr.payload.n == (size_t)PLEN), "E3 consumed");
    __CPROVER_assert(!(COMPLETE && !CTL_BAD) || ok, "E4 complete frame returned");
  }
}
#endif

/* ===================== serialize ===================== */
void WebSocketFrame_serialize_contract(const WebSocketFrameIn *self, bool applyMask, iora_ovec *iora_ret)
__CPROVER_requires(IORA_TRUE && __CPROVER_is_fresh(self, sizeof(*self)) && self->payload.n <= ((size_t)1 << 50)
                   && __CPROVER_is_fresh(self->payload.p, self->payload.n) && __CPROVER_is_fresh(iora_ret, sizeof(*iora_ret)))
__CPROVER_assigns(*iora_ret)
/* SZ exactly header + payload bytes */
__CPROVER_ensures(iora_ret->n == S_HLEN + S_N)
/* SB every output byte (witness index GK) is the RFC 6455 wire byte */
__CPROVER_ensures(GK < iora_ret->n ==> iora_ret->gk == SER_BYTE(GK))
;
void h_serialize(void)
{
  const WebSocketFrameIn *f; bool m; iora_ovec *o;
  WebSocketFrame_serialize(f, m, o);
  IORA_CANARY("h_serialize: returns");
}

/* ===================== round-trip lemma over the two contracts' spec functions (loop-free, full domain) =====================
 * For an arbitrary frame f (any opcode byte without RSV bits... opcode < 16, any length < 2^50, masked or not): the bytes SER_BYTE(0..hlen)
 * fed to the parse spec (B0, B1, HLEN, PLEN, KEYAT, COMPLETE, CTL_BAD) give back f's fields, consume exactly the serialised size, and the
 * payload clause of parse (E3p) composed with the payload clause of serialize (SB) is the identity on every payload byte. */
void h_roundtrip_lemma(void)
{
  WebSocketFrameIn fr; const WebSocketFrameIn *self = &fr;
  bool applyMask = nondet_bool();
  uint8_t pb = nondet_u8();                 /* payload byte at the witness index */
  size_t k = nondet_size_t();               /* witness payload index */
  fr.fin = nondet_bool(); fr.opcode = nondet_u8(); fr.masked = applyMask;
  fr.maskKey[0] = nondet_u8(); fr.maskKey[1] = nondet_u8(); fr.maskKey[2] = nondet_u8(); fr.maskKey[3] = nondet_u8();
  fr.payload.n = nondet_size_t(); fr.payload.p = 0;
  __CPROVER_assume(fr.opcode < 16 && fr.payload.n <= ((size_t)1 << 50) && k < fr.payload.n);
  /* a control frame the library serialises is final and short (RFC 6455 5.5); others are unconstrained */
  __CPROVER_assume(!(fr.opcode == 8 || fr.opcode == 9 || fr.opcode == 10) || (fr.fin && fr.payload.n <= 125));
  uint8_t hdr[14];
  for (unsigned q = 0; q < 14; q++) hdr[q] = q < S_HLEN ? ((q) == 0 ? S_B0 : (q) == 1 ? S_B1 : (q) < 2 + S_EXT ? S_EXTBYTE(q) : self->maskKey[(q) - 2 - S_EXT]) : 0;
  iora_bv data = { hdr, S_HLEN + S_N };     /* only header bytes are read by the header spec macros */
  __CPROVER_assert(RSV == 0 && data.n >= 2, "lemma: serialised frame has no RSV bits");
  __CPROVER_assert(COMPLETE && !CTL_BAD, "lemma: parse contract E4 applies (frame returned)");
  __CPROVER_assert(HLEN == S_HLEN && (size_t)PLEN == S_N, "lemma: parse consumes exactly the serialised bytes (E3: consumed == HLEN + PLEN == out.n)");
  __CPROVER_assert(FIN == fr.fin && OPC == fr.opcode && MSK == applyMask, "lemma: fin/opcode/masked equal");
  __CPROVER_assert(!applyMask || (KEYAT(0) == fr.maskKey[0] && KEYAT(1) == fr.maskKey[1] && KEYAT(2) == fr.maskKey[2] && KEYAT(3) == fr.maskKey[3]), "lemma: mask key equal");
  /* payload: serialize SB gives wire byte w = pb ^ key[k%4]; parse E3p gives payload'[k] = w ^ KEYAT(k%4) */
  uint8_t w = (uint8_t)(pb ^ (applyMask ? fr.maskKey[k % 4] : 0));
  uint8_t back = (uint8_t)(w ^ (MSK ? KEYAT(k % 4) : 0));
  __CPROVER_assert(back == pb, "lemma: payload byte round-trips");
  IORA_CANARY("h_roundtrip_lemma: reachable");
}

/* ===================== isValidUtf8 ===================== */
bool WebSocketFrame_isValidUtf8_contract(const WebSocketFrameIn *self)
__CPROVER_requires(IORA_TRUE && __CPROVER_is_fresh(self, sizeof(*self)) && self->payload.n <= ((size_t)1 << 50)
                   && __CPROVER_is_fresh(self->payload.p, self->payload.n))
__CPROVER_assigns()
__CPROVER_ensures(self->payload.n == 0 ==> __CPROVER_return_value)
;
void h_utf8(void) { const WebSocketFrameIn *f; bool r = WebSocketFrame_isValidUtf8(f); if (r) { IORA_CANARY("h_utf8: accepted"); } else { IORA_CANARY("h_utf8: rejected"); } }

/* step contract (DESIGN 2.6): one iteration of the scan loop, for every state satisfying the loop invariant (i < n).
 * Spec = RFC 3629 section 4 (Table 3-7 of Unicode): the well-formed byte sequences, written from the RFC. */
#define U_CONT(b) ((b) >= 0x80 && (b) <= 0xBF)
#define U_WF2(a, b) ((a) >= 0xC2 && (a) <= 0xDF && U_CONT(b))
#define U_WF3(a, b, c) (((((a) == 0xE0) && (b) >= 0xA0 && (b) <= 0xBF) || ((a) >= 0xE1 && (a) <= 0xEC && U_CONT(b)) \
                        || ((a) == 0xED && (b) >= 0x80 && (b) <= 0x9F) || ((a) >= 0xEE && (a) <= 0xEF && U_CONT(b))) && U_CONT(c))
#define U_WF4(a, b, c, d) (((((a) == 0xF0) && (b) >= 0x90 && (b) <= 0xBF) || ((a) >= 0xF1 && (a) <= 0xF3 && U_CONT(b)) \
                           || ((a) == 0xF4 && (b) >= 0x80 && (b) <= 0x8F)) && U_CONT(c) && U_CONT(d))
void h_utf8_step(void)
{
  WebSocketFrameIn fr; size_t n = nondet_size_t(); __CPROVER_assume(n <= ((size_t)1 << 50));
  uint8_t *p = malloc(n); __CPROVER_assume(p != 0);
  fr.payload.p = p; fr.payload.n = n;
  size_t i = nondet_size_t(); __CPROVER_assume(i < n);          /* loop invariant (i <= n) and loop condition (i < n) */
  size_t i0 = i, avail = n - i0;
  uint8_t a = p[i0], b = avail > 1 ? p[i0 + 1] : 0, c = avail > 2 ? p[i0 + 2] : 0, d = avail > 3 ? p[i0 + 3] : 0;
  unsigned spec = a <= 0x7F ? 1 : (avail >= 2 && U_WF2(a, b)) ? 2 : (avail >= 3 && U_WF3(a, b, c)) ? 3 : (avail >= 4 && U_WF4(a, b, c, d)) ? 4 : 0;
  bool cont = utf8_step(&fr, &i);
  __CPROVER_assert(cont == (spec != 0), "U1: the iteration continues iff a well-formed UTF-8 sequence (RFC 3629) starts at i");
  __CPROVER_assert(!cont || i == i0 + spec, "U2: a continuing iteration consumes exactly that sequence");
  __CPROVER_assert(i <= n, "U3: i stays within the payload");
  if (cont) { IORA_CANARY("h_utf8_step: continues"); } else { IORA_CANARY("h_utf8_step: rejects"); }
}
