/* Contract of WebSocketFrame::parse, written from property C18 and RFC 6455 5.2 (not from the code).
 * Spec functions are by-value macros over the input bytes. */
#define B0 (data.p[0])
#define B1 (data.p[1])
#define RSV ((B0 >> 4) & 7)
#define OPC (B0 & 0x0F)
#define FIN ((B0 & 0x80) != 0)
#define MSK ((B1 & 0x80) != 0)
#define LEN7 (B1 & 0x7F)
#define IS_CTL (OPC == 8 || OPC == 9 || OPC == 10)
#define CTL_BAD (IS_CTL && (LEN7 > 125 || !FIN))
#define EXT (LEN7 == 126 ? 2 : (LEN7 == 127 ? 8 : 0))
#define HLEN ((size_t)(2 + EXT + (MSK ? 4 : 0)))
#define U16AT(o) ((uint64_t)(((uint64_t)data.p[o] << 8) | data.p[(o) + 1]))
#define U64AT(o) (((uint64_t)data.p[o] << 56) | ((uint64_t)data.p[(o)+1] << 48) | ((uint64_t)data.p[(o)+2] << 40) | ((uint64_t)data.p[(o)+3] << 32) \
                | ((uint64_t)data.p[(o)+4] << 24) | ((uint64_t)data.p[(o)+5] << 16) | ((uint64_t)data.p[(o)+6] << 8) | (uint64_t)data.p[(o)+7])
/* declared payload length; only meaningful when the length bytes are present (data.n >= 2 + EXT) */
#define PLEN (LEN7 == 126 ? U16AT(2) : (LEN7 == 127 ? U64AT(2) : (uint64_t)LEN7))
#define HDR_PRESENT (data.n >= 2 && data.n >= HLEN)
#define COMPLETE (HDR_PRESENT && (uint64_t)(data.n - HLEN) >= PLEN)
#define KEYAT(k) (data.p[2 + EXT + (k)])

#define PARSE_PRE \
__CPROVER_requires(IORA_TRUE && data.n <= ((size_t)1 << 50) && __CPROVER_is_fresh(data.p, data.n)) \
__CPROVER_requires(__CPROVER_is_fresh(consumed, sizeof(*consumed)) && __CPROVER_is_fresh(iora_ret, sizeof(*iora_ret))) \
__CPROVER_requires(G_alloc_cap == data.n) /* an allocation must be justified by input actually present */ \
__CPROVER_assigns(*consumed, *iora_ret)

/* proof "safety": every built-in obligation (bounds, pointer, overflow incl. unsigned index arithmetic, conversion), the
 * shim preconditions (operator[] in range, resize <= G_alloc_cap), frame, loop invariant/variant, plus E1/E2/E6 */
bool WebSocketFrame_parse_safety(iora_bv data, size_t *consumed, WebSocketFrame *iora_ret)
PARSE_PRE
/* E1 */ __CPROVER_ensures(*consumed <= data.n)
/* E2 */ __CPROVER_ensures(!__CPROVER_return_value ==> *consumed == 0)
/* E6 */ __CPROVER_ensures(data.n < 2 ==> !__CPROVER_return_value)
;

/* proof "functional": the same function against the functional clauses (no built-in checks: they are in "safety") */
bool WebSocketFrame_parse_contract(iora_bv data, size_t *consumed, WebSocketFrame *iora_ret)
PARSE_PRE
/* E3 exact consumption and header fields of a complete frame */
__CPROVER_ensures((__CPROVER_return_value && data.n >= 2 && RSV == 0) ==> (COMPLETE && !CTL_BAD))
__CPROVER_ensures((__CPROVER_return_value && data.n >= 2 && RSV == 0) ==> (*consumed == HLEN + (size_t)PLEN && iora_ret->payload.n == (size_t)PLEN))
__CPROVER_ensures((__CPROVER_return_value && data.n >= 2 && RSV == 0) ==> (iora_ret->fin == FIN && iora_ret->opcode == OPC && iora_ret->masked == MSK))
__CPROVER_ensures((__CPROVER_return_value && data.n >= 2 && RSV == 0 && MSK) ==>
   (iora_ret->maskKey[0] == KEYAT(0) && iora_ret->maskKey[1] == KEYAT(1) && iora_ret->maskKey[2] == KEYAT(2) && iora_ret->maskKey[3] == KEYAT(3)))
/* E3p payload bytes (witness index GK): unmasked with the key from the header */
__CPROVER_ensures((__CPROVER_return_value && data.n >= 2 && RSV == 0 && GK < iora_ret->payload.n) ==>
   iora_ret->payload.p[GK] == (uint8_t)(data.p[HLEN + GK] ^ (MSK ? KEYAT(GK % 4) : 0)))
/* E4 a complete, well-formed frame is always returned (never mistaken for "incomplete") */
__CPROVER_ensures((data.n >= 2 && RSV == 0 && COMPLETE && !CTL_BAD) ==> __CPROVER_return_value)
/* E6 fewer than two bytes is never a frame */
__CPROVER_ensures(data.n < 2 ==> !__CPROVER_return_value)
;

void h_parse(void)
{
  iora_bv d; size_t *c; WebSocketFrame *r;
  bool ok = WebSocketFrame_parse(d, c, r);
  IORA_CANARY("h_parse: call returns");
  if (ok) { IORA_CANARY("h_parse: frame returned"); } else { IORA_CANARY("h_parse: no frame"); }
}

#ifdef IORA_SEARCH
/* SEARCH: same function, same checks, concrete small buffer (bounded; only used to obtain an input for REPLAY) */
void h_search(void)
{
  uint8_t IN[16]; size_t IN_N = nondet_size_t();
  IORA_NONDET_BYTES(IN, 16);
  __CPROVER_assume(IN_N <= 16);
  IORA_TRUE = 1; G_alloc_cap = IN_N;
  iora_bv data = { IN, IN_N }; size_t consumed = 0; WebSocketFrame fr = WebSocketFrame_DEFAULT;
  bool ok = WebSocketFrame_parse(data, &consumed, &fr);
  __CPROVER_assert(consumed <= data.n, "E1");
  __CPROVER_assert(ok || consumed == 0, "E2");
  if (data.n >= 2 && RSV == 0) {
    __CPROVER_assert(!ok || (COMPLETE && !CTL_BAD), "E3 only complete frames");
    __CPROVER_assert(!ok || (consumed == HLEN + (size_t)PLEN && fr.payload.n == (size_t)PLEN), "E3 consumed");
    __CPROVER_assert(!(COMPLETE && !CTL_BAD) || ok, "E4 complete frame returned");
  }
}
#endif
