/* Differential run, C side: the EXTRACTED Json::_escapeString, compiled natively (the snprintf("%04x") stub of pre.h runs as written).
 * The result is a witness accumulator (length + byte at GK): one run per index with GK = 0..len-1, EVERY byte is compared.
 * An optional parameter c=<0..255> appends that byte to the input (replay files of this unit record a byte value C). */
#include "unit_native.c"
#include "diff_io.h"
int main(int argc, char **argv)
{
  FILE *f = fopen(argv[1], "r"); diff_input in;
  IORA_TRUE = 1;
  while (diff_next(f, &in)) {
    unsigned long long c = diff_param(&in, "c", 256);
    size_t n = in.n + (c < 256 ? 1 : 0);
    char *s = (char *)malloc(n ? n : 1); if (in.n) memcpy(s, in.bytes, in.n); if (c < 256) s[in.n] = (char)c;
    iora_sv sv = { s, n }; iora_ostr out = iora_ostr_DEFAULT;
    GK = (size_t)-1; Json_escapeString(sv, &out);
    size_t len = out.n; unsigned char *b = (unsigned char *)malloc(len ? len : 1);
    for (size_t k = 0; k < len; k++) { iora_ostr o2 = iora_ostr_DEFAULT; GK = k; Json_escapeString(sv, &o2); b[k] = (unsigned char)o2.gk; }
    printf("esc len=%zu bytes=", len); diff_hex(b, len); printf("\n"); fflush(stdout);
    free(b); free(s); diff_free(&in);
  }
  return 0;
}
