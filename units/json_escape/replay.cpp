// REPLAY adapter for unit json_escape: the byte value C found by the verifier is escaped by the REAL Json::_escapeString (via dump())
// and parsed back by the REAL parser; validity of the serialised text is judged by an independent RFC 8259 string checker.
#include "iora/parsers/json.hpp"
#include "replay_io.h"
using namespace iora::parsers;
static bool isHex(char c) { return (c >= '0' && c <= '9') || (c >= 'a' && c <= 'f') || (c >= 'A' && c <= 'F'); }
// RFC 8259 section 7: quotation-mark *char quotation-mark
static bool validJsonString(const std::string &t) {
  if (t.size() < 2 || t.front() != '"' || t.back() != '"') return false;
  for (size_t i = 1; i + 1 < t.size();) {
    unsigned char b = t[i];
    if (b < 0x20 || b == '"') return false;
    if (b != '\\') { i++; continue; }
    if (i + 2 >= t.size()) return false;
    char e = t[i + 1];
    if (e == '"' || e == '\\' || e == '/' || e == 'b' || e == 'f' || e == 'n' || e == 'r' || e == 't') { i += 2; continue; }
    if (e != 'u' || i + 6 >= t.size() || !isHex(t[i + 2]) || !isHex(t[i + 3]) || !isHex(t[i + 4]) || !isHex(t[i + 5])) return false;
    i += 6;
  }
  return true;
}
static void one(const std::string &v) {
  Json j(v);
  std::string text = j.dump();
  if (!validJsonString(text)) replay_io::fail("V serialised string is not RFC 8259 string content: " + text);
  ParseResult r = Json::parse(std::string_view(text), ParseLimits{});
  if (!r.ok) replay_io::fail("RT2 serialised text does not parse back: " + text + " : " + r.error.message);
  if (!r.value.isString() || r.value.getString() != v) {
    std::string got = r.value.isString() ? r.value.getString() : "<not a string>"; char hex[64] = "";
    for (size_t i = 0; i < got.size() && i < 8; i++) snprintf(hex + 3 * i, 4, "%02x ", (unsigned char)got[i]);
    replay_io::fail("RT5 parse(dump(v)) != v for dump = " + text + " ; parsed bytes: " + hex); }
}
int main(int argc, char **argv) {
  auto in = replay_io::load(argv[1]);
  unsigned c = in.count("C") ? (unsigned)replay_io::u64(in["C"]) & 0xFF : 1;
  if (in.count("ALL")) for (unsigned k = 0; k < 256; k++) one(std::string(1, (char)k));   // sweep of the full domain
  one(std::string(1, (char)c));                    // the byte alone
  one(std::string("x") + (char)c + "y");          // and inside a string
  replay_io::ok("contract clauses hold on this input");
  return 0;
}
