// Differential run, C++ side: the REAL Json::_escapeString (private const member, -fno-access-control). Prints what diff.c prints.
#include "iora/parsers/json.hpp"
#include "diff_io.h"
using namespace iora::parsers;
int main(int argc, char **argv)
{
  FILE *f = fopen(argv[1], "r"); diff_input in; Json j;
  while (diff_next(f, &in)) {
    unsigned long long c = diff_param(&in, "c", 256);
    std::string s((const char *)in.bytes, in.n); if (c < 256) s.push_back((char)c);
    std::string r = j._escapeString(s);
    printf("esc len=%zu bytes=", r.size()); diff_hex((const unsigned char *)r.data(), r.size()); printf("\n"); fflush(stdout);
    diff_free(&in);
  }
  return 0;
}
