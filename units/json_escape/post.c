/* Contracts of Json::_escapeString (the string part of the serialiser).
 * Written from property C13 ("serialising any value made of ... valid UTF-8 strings produces RFC 8259-valid text that parses back
 * to an equal value") and RFC 8259 section 7 -- not from the code:
 *   V  every output token (the bytes produced for one input byte) is valid JSON string content:
 *        char = unescaped (%x20-21 / %x23-5B / %x5D-10FFFF, i.e. any byte >= 0x20 except '"' and '\')
 *             / '\' one of " \ / b f n r t   /  '\' 'u' 4HEXDIG
 *   RT round trip: the REAL parser step (loop body of JsonParser::_parseString, extracted here a second time) applied to the token
 *      yields exactly the input byte and consumes exactly the token  --  for all 256 byte values (loop-free, full domain).
 * Which of the permitted spellings the serialiser chooses (e.g. \n vs \u000a) is not prescribed by RFC 8259 and not by this contract. */
#define RET_N (iora_ret->n)
#define QUOTE ((char)34)

/* proof "whole" (DFCC, every input string of every length) */
void Json_escapeString_contract(iora_sv str, iora_ostr *iora_ret)
__CPROVER_requires(str.n <= JSON_IN_MAX)
__CPROVER_requires(__CPROVER_is_fresh(str.p, str.n))
__CPROVER_requires(__CPROVER_is_fresh(iora_ret, sizeof(*iora_ret)))
__CPROVER_requires(IORA_TRUE)
__CPROVER_assigns(*iora_ret)
/* Q1 one to six bytes per input byte, between two quotes */ __CPROVER_ensures(RET_N >= str.n + 2 && RET_N <= 6 * str.n + 2)
/* Q2 starts with a quotation mark (witness GK) */          __CPROVER_ensures(GK == 0 ==> iora_ret->gk == QUOTE)
/* Q3 ends with a quotation mark */                          __CPROVER_ensures(GK == RET_N - 1 ==> iora_ret->gk == QUOTE)
/* Q4 no raw control character anywhere in the output */     __CPROVER_ensures(GK < RET_N ==> (uint8_t)iora_ret->gk >= 32)
;
void h_escape(void)
{
  iora_sv s; iora_ostr *r;
  Json_escapeString(s, r);
  IORA_CANARY("h_escape: returns");
}

/* ---- one output token: run the real per-byte step with the witness index at offset k of the token ---- */
static inline size_t tok_len(char c)
{
  iora_ostr r = { 0, 0 };
  GK = 0;
  Json_escape_step(c, &r);
  return r.n;
}
static inline char tok_byte(char c, size_t k)
{
  iora_ostr r = { 0, 0 };
  GK = k;
  Json_escape_step(c, &r);
  return r.gk;
}
static inline bool is_lc_or_uc_hex(char c) { return (c >= '0' && c <= '9') || (c >= 'a' && c <= 'f') || (c >= 'A' && c <= 'F'); }

/* proof "step": token validity V for every byte value, appended to an arbitrary string-so-far */
void h_escape_step(void)
{
  char c = (char)nondet_u8();
  iora_ostr r; r.n = nondet_size_t(); r.gk = (char)nondet_u8();
  __CPROVER_assume(r.n <= JSON_IN_MAX);
  const size_t n0 = r.n; const char gk0 = r.gk;
  GK = nondet_size_t(); IORA_TRUE = 1;
  Json_escape_step(c, &r);
  IORA_CANARY("h_escape_step: returns");
  const size_t L = r.n - n0;
  __CPROVER_assert(r.n >= n0 && (L == 1 || L == 2 || L == 6), "V0 a token has 1, 2 or 6 bytes");
  __CPROVER_assert(GK >= n0 || r.gk == gk0, "V0 bytes already written are not touched");
  if (GK >= n0 && GK < r.n)
  {
    const size_t k = GK - n0; const char b = r.gk;
    if (L == 1) { IORA_CANARY("h_escape_step: unescaped byte");
      __CPROVER_assert((uint8_t)b >= 0x20 && b != '"' && b != '\\', "V1 a one-byte token is an unescaped character: >= 0x20, not a quotation mark, not a backslash");
      __CPROVER_assert(b == c, "V1 an unescaped byte is the input byte (UTF-8 sequences pass through byte by byte)"); }
    if (L == 2) { IORA_CANARY("h_escape_step: two-character escape");
      __CPROVER_assert(k != 0 || b == '\\', "V2 a two-byte token starts with a backslash");
      __CPROVER_assert(k != 1 || b == '"' || b == '\\' || b == '/' || b == 'b' || b == 'f' || b == 'n' || b == 'r' || b == 't', "V2 a two-byte token is one of the RFC 8259 two-character escapes"); }
    if (L == 6) { IORA_CANARY("h_escape_step: \\u00XX escape");
      __CPROVER_assert(k != 0 || b == '\\', "V3 a six-byte token starts with a backslash");
      __CPROVER_assert(k != 1 || b == 'u', "V3 a six-byte token is a \\u escape");
      __CPROVER_assert(k < 2 || is_lc_or_uc_hex(b), "V3 a \\u escape has four hex digits"); }
  }
}

/* proof "roundtrip": unescape_step(escape_step(c)) == c for all 256 byte values.
 * The token bytes are obtained from the real escape step (one run per byte offset: the step is deterministic, the witness index
 * selects the byte), laid out in real memory followed by an arbitrary byte, and handed to the REAL parser step. */
void h_roundtrip(void)
{
  const char c = (char)nondet_u8();
  IORA_TRUE = 1;
  const size_t L = tok_len(c);
  __CPROVER_assert(L >= 1 && L <= 6, "RT0 token length between 1 and 6");
  char T[7];
  T[0] = tok_byte(c, 0); T[1] = L > 1 ? tok_byte(c, 1) : 0; T[2] = L > 2 ? tok_byte(c, 2) : 0;
  T[3] = L > 3 ? tok_byte(c, 3) : 0; T[4] = L > 4 ? tok_byte(c, 4) : 0; T[5] = L > 5 ? tok_byte(c, 5) : 0;
  T[L] = (char)nondet_u8();                                /* whatever follows the token in the serialised text */
  __CPROVER_assert(T[0] != '"', "RT1 the token does not start with a quotation mark (it would end the string)");
  JsonParser ps;
  ps._text.p = T; ps._text.n = L + 1; ps._pos = 0; ps._error = NULL;
  ps._limits.arrayItemsMax = 10000; ps._limits.membersMax = 10000; ps._limits.depthMax = 100; ps._limits.stringLengthMax = 1000000;
  iora_ostr out = { 0, 0 };
  GK = 0;
  bool cont = true;
  JsonParser_parseString_step(&ps, &out, &cont);
  IORA_CANARY("h_roundtrip: parser step returns");
  if (L == 6) { IORA_CANARY("h_roundtrip: \\u00XX token"); }
  __CPROVER_assert(cont, "RT2 the parser accepts the token");
  __CPROVER_assert(ps._pos == L, "RT3 the parser consumes exactly the token");
  __CPROVER_assert(out.n == 1, "RT4 the parser decodes the token to exactly one byte");
  __CPROVER_assert(out.gk == c, "RT5 the decoded byte is the byte that was escaped");
}

#ifdef IORA_SEARCH
/* SEARCH (only used to obtain a concrete input for REPLAY): the byte value C for which the round trip fails */
void h_search(void)
{
  size_t C = nondet_size_t();
  __CPROVER_assume(C < 256);
  const char c = (char)(uint8_t)C;
  IORA_TRUE = 1;
  const size_t L = tok_len(c);
  char T[7];
  T[0] = tok_byte(c, 0); T[1] = L > 1 ? tok_byte(c, 1) : 0; T[2] = L > 2 ? tok_byte(c, 2) : 0;
  T[3] = L > 3 ? tok_byte(c, 3) : 0; T[4] = L > 4 ? tok_byte(c, 4) : 0; T[5] = L > 5 ? tok_byte(c, 5) : 0;
  __CPROVER_assume(L <= 6);
  T[L] = '"';
  JsonParser ps = { { T, L + 1 }, 0, { 10000, 10000, 100, 1000000 }, NULL };
  iora_ostr out = { 0, 0 };
  GK = 0;
  bool cont = true;
  if (T[0] != '"') JsonParser_parseString_step(&ps, &out, &cont);
  __CPROVER_assert(T[0] != '"', "RT1 the token does not start with a quotation mark (it would end the string)");
  __CPROVER_assert(cont, "RT2 the parser accepts the token");
  __CPROVER_assert(ps._pos == L, "RT3 the parser consumes exactly the token");
  __CPROVER_assert(out.n == 1, "RT4 the parser decodes the token to exactly one byte");
  __CPROVER_assert(out.gk == c, "RT5 the decoded byte is the byte that was escaped");
}
#endif
