/* unit json_escape: type environment is shims/iora_json.h; here: string-append shims, the snprintf stub, the loop contract */

/* result += "literal" */
static inline void json_ostr_append_lit(iora_ostr *s, const char *lit, size_t len) { iora_ostr_append(s, lit, len); }
/* std::snprintf(buf, 5, "%04x", v): libc formatting stub (trusted): for v <= 0xFFFF exactly four lower-case hex digits and a NUL */
static inline char json_hexdigit_lc(unsigned v) { return (char)(v < 10 ? 48 + v : 87 + v); }
static inline int json_snprintf_04x(char *buf, size_t n, unsigned v)
{
  IORA_ASSERT(n >= 5, "snprintf(\"%04x\"): buffer holds four digits and the terminator");
  IORA_ASSERT(v <= 0xFFFF, "snprintf(\"%04x\"): value has at most four hex digits (stub domain)");
  buf[0] = json_hexdigit_lc((v >> 12) & 15); buf[1] = json_hexdigit_lc((v >> 8) & 15); buf[2] = json_hexdigit_lc((v >> 4) & 15); buf[3] = json_hexdigit_lc(v & 15);
  buf[4] = 0;
  return 4;
}
/* result += buf  with char buf[5]: appends up to the terminator (strlen unrolled over the five bytes) */
static inline void json_ostr_append_cstr5(iora_ostr *s, const char *buf)
{
  size_t len = buf[0] == 0 ? 0 : buf[1] == 0 ? 1 : buf[2] == 0 ? 2 : buf[3] == 0 ? 3 : 4;
  IORA_ASSERT(buf[len] == 0, "char[5] operand of += is NUL-terminated");
  iora_ostr_append(s, buf, len);
}

/* _escapeString, loop 1 (range-for over the input bytes, as an index loop):
 *  - between 1 and 6 output bytes per input byte, after the opening quote
 *  - the opening quote stays the first byte; every byte produced so far is >= 0x20 (no raw control character), witness GK */
#define IORA_LOOP_Json_escapeString_1 IORA_LC( \
  __CPROVER_assigns(iora_i, result.n, result.gk) \
  __CPROVER_loop_invariant(iora_i <= str.n) \
  __CPROVER_loop_invariant(result.n >= 1 + iora_i && result.n <= 1 + 6 * iora_i) \
  __CPROVER_loop_invariant(GK < result.n ==> (uint8_t)result.gk >= 32) \
  __CPROVER_loop_invariant(GK == 0 ==> result.gk == (char)34) \
  __CPROVER_decreases(str.n - iora_i))
