/* Differential run, C side: the EXTRACTED xml::Parser::encodeUtf8 / appendCharRef, compiled natively. The output string is a witness
 * accumulator (length + byte at GK): one run per index, EVERY byte compared. Input bytes = the entity body (text between & and ;),
 * param cp = the code point for encodeUtf8. Compared: return value, length and bytes of what was appended (also on failure). */
#include "unit_native.c"
#include "diff_io.h"
static bool enc(uint32_t cp, size_t gk, iora_ostr *o) { *o = iora_ostr_DEFAULT; GK = gk; return Parser_encodeUtf8(cp, o); }
static bool acr(const diff_input *in, size_t gk, iora_ostr *o) { *o = iora_ostr_DEFAULT; GK = gk; G_val = 0; iora_sv b = { (const char *)in->bytes, in->n }; return Parser_appendCharRef(b, o); }
int main(int argc, char **argv)
{
  FILE *f = fopen(argv[1], "r"); diff_input in;
  IORA_TRUE = 1;
  while (diff_next(f, &in)) {
    uint32_t cp = (uint32_t)diff_param(&in, "cp", 65); iora_ostr o, o2; unsigned char b[64];
    bool r = enc(cp, (size_t)-1, &o); size_t len = o.n < 64 ? o.n : 64;
    for (size_t k = 0; k < len; k++) { enc(cp, k, &o2); b[k] = (unsigned char)o2.gk; }
    printf("enc ret=%d len=%zu bytes=", r, o.n); diff_hex(b, len);
    r = acr(&in, (size_t)-1, &o); len = o.n < 64 ? o.n : 64;
    for (size_t k = 0; k < len; k++) { acr(&in, k, &o2); b[k] = (unsigned char)o2.gk; }
    printf(" | acr ret=%d len=%zu bytes=", r, o.n); diff_hex(b, len);
    printf("\n"); fflush(stdout); diff_free(&in);
  }
  return 0;
}
