// Differential run, C++ side: the REAL xml::Parser::encodeUtf8 / appendCharRef (private statics, -fno-access-control).
#include "iora/parsers/xml.hpp"
#include "diff_io.h"
using namespace iora::parsers::xml;
int main(int argc, char **argv)
{
  FILE *f = fopen(argv[1], "r"); diff_input in;
  while (diff_next(f, &in)) {
    uint32_t cp = (uint32_t)diff_param(&in, "cp", 65); std::string o;
    bool r = Parser::encodeUtf8(cp, o);
    printf("enc ret=%d len=%zu bytes=", r, o.size()); diff_hex((const unsigned char *)o.data(), o.size() < 64 ? o.size() : 64);
    o.clear(); r = Parser::appendCharRef(std::string_view((const char *)in.bytes, in.n), o);
    printf(" | acr ret=%d len=%zu bytes=", r, o.size()); diff_hex((const unsigned char *)o.data(), o.size() < 64 ? o.size() : 64);
    printf("\n"); fflush(stdout); diff_free(&in);
  }
  return 0;
}
