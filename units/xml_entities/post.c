#define ENS(...) __CPROVER_ensures(__VA_ARGS__)
#define RV __CPROVER_return_value
#define OLD(x) __CPROVER_old(x)
/* encodeUtf8: decided for ALL 2^32 code points against the RFC 3629 table (loop-free) */
bool Parser_encodeUtf8_contract(uint32_t cp, iora_ostr *out)
__CPROVER_requires(IORA_TRUE && __CPROVER_is_fresh(out, sizeof(*out)) && out->n <= ((size_t)1 << 50))
__CPROVER_assigns(out->n, out->gk)
/* U1 exactly the Unicode scalar values are encodable: surrogates and values above 0x10FFFF are refused */
ENS(RV == UTF8_VALID(cp))
/* U2 a refusal appends nothing */
ENS(!RV ==> (out->n == OLD(out->n) && out->gk == OLD(out->gk)))
/* U3 length and every appended byte (witness index GK) are those of the RFC 3629 table; earlier bytes untouched */
ENS(RV ==> out->n == OLD(out->n) + UTF8_LEN(cp))
ENS((RV && GK >= OLD(out->n) && GK < out->n) ==> (uint8_t)out->gk == UTF8_BYTE(cp, GK - OLD(out->n)))
ENS(GK < OLD(out->n) ==> out->gk == OLD(out->gk))
;
void h_encodeUtf8(void) { uint32_t cp; iora_ostr *o; bool r = Parser_encodeUtf8(cp, o); IORA_CANARY("h_encodeUtf8: returns"); if (r) { IORA_CANARY("h_encodeUtf8: encoded"); } else { IORA_CANARY("h_encodeUtf8: refused"); } }

/* appendCharRef: safety, termination, digit validation, append discipline. The relation between the accumulated value and the MATHEMATICAL value of
 * the digit string is not stated here (needs a ghost accumulator; see NOTES.md) */
#define IS_HEXREF (entBody.p[1] == (char)120 || entBody.p[1] == (char)88)
bool Parser_appendCharRef_contract(iora_sv entBody, iora_ostr *out)
__CPROVER_requires(IORA_TRUE && (entBody.n >> 40) == 0 && __CPROVER_is_fresh(entBody.p, entBody.n) && __CPROVER_is_fresh(out, sizeof(*out)) && out->n <= ((size_t)1 << 50))
__CPROVER_requires(GD < entBody.n ==> GDC == entBody.p[GD])
__CPROVER_assigns(out->n, out->gk)
/* R1 a body shorter than 2 ("#" alone) is refused */
ENS(entBody.n < 2 ==> !RV)
/* R2 acceptance => every character after the prefix is a digit of the base (witness index GD) */
ENS((RV && IS_HEXREF && GD >= 2 && GD < entBody.n) ==> IS_HEX(GDC))
ENS((RV && !IS_HEXREF && GD >= 1 && GD < entBody.n) ==> IS_DEC(GDC))
/* R3 acceptance appends one UTF-8 sequence (1..4 bytes); refusal appends nothing; earlier output untouched */
ENS(RV ==> (out->n >= OLD(out->n) + 1 && out->n <= OLD(out->n) + 4))
ENS(!RV ==> (out->n == OLD(out->n) && out->gk == OLD(out->gk)))
ENS(GK < OLD(out->n) ==> out->gk == OLD(out->gk))
;
void h_appendCharRef(void) { iora_sv e; iora_ostr *o; bool r = Parser_appendCharRef(e, o); IORA_CANARY("h_appendCharRef: returns"); if (r) { IORA_CANARY("h_appendCharRef: appended"); } else { IORA_CANARY("h_appendCharRef: refused"); } }
