/* encodeUtf8: decided for ALL 2^32 code points against the RFC 3629 table (loop-free) */
bool Parser_encodeUtf8_contract(uint32_t cp, iora_ostr *out)
__CPROVER_requires(IORA_TRUE && __CPROVER_is_fresh(out, sizeof(*out)) && out->n <= ((size_t)1 << 50))
__CPROVER_assigns(out->n, out->gk)
/* U1 exactly the Unicode scalar values are encodable: surrogates and values above 0x10FFFF are refused */
ENS(RV == UTF8_VALID(cp))
/* U2 a refusal appends nothing */
ENS(!RV ==> (out->n == OLD(out->n) && out->gk == OLD(out->gk)))
/* U3 length and every appended byte (witness index GK) are those of the RFC 3629 table; earlier bytes untouched */
ENS(RV ==> out->n == OLD(out->n) + UTF8_LEN(cp))
ENS((RV && GK >= OLD(out->n) && GK < out->n) ==> (uint8_t)out->gk == UTF8_BYTE(cp, GK - OLD(out->n)))
ENS(GK < OLD(out->n) ==> out->gk == OLD(out->gk))
;
void h_encodeUtf8(void) { uint32_t cp; iora_ostr *o; bool r = Parser_encodeUtf8(cp, o); IORA_CANARY("h_encodeUtf8: returns"); if (r) { IORA_CANARY("h_encodeUtf8: encoded"); } else { IORA_CANARY("h_encodeUtf8: refused"); } }

/* appendCharRef: ACR_BASIC with the built-in checks, ACR_VALUE (exact value through the ghost accumulator) separately */
DECL_appendCharRef(Parser_appendCharRef_basic, ACR_BASIC)
DECL_appendCharRef(Parser_appendCharRef_value, ACR_VALUE)
void h_appendCharRef(void) { iora_sv e; iora_ostr *o; bool r = Parser_appendCharRef(e, o); IORA_CANARY("h_appendCharRef: returns"); if (r) { IORA_CANARY("h_appendCharRef: appended"); } else { IORA_CANARY("h_appendCharRef: refused"); } }
