/* unit xml_entities: encodeUtf8 (RFC 3629, full domain) and appendCharRef (with the ghost accumulator of the mathematical value) */
#include "iora_xml.h"
#include "contracts.h"
#define ACR_LOOP(FIRST, ISDIGIT) IORA_LC( __CPROVER_assigns(i, code, G_val) \
  __CPROVER_loop_invariant(i >= FIRST && i <= entBody.n && ((GD >= FIRST && GD < i) ==> ISDIGIT(GDC))) \
  __CPROVER_loop_invariant(G_val <= 0xFFFFFFFFull ==> code == G_val) \
  __CPROVER_loop_invariant(G_val <= 0xFFFFFFFFFFull) \
  __CPROVER_decreases(entBody.n - i))
#define IORA_LOOP_Parser_appendCharRef_1 ACR_LOOP(2, IS_HEX)
#define IORA_LOOP_Parser_appendCharRef_2 ACR_LOOP(1, IS_DEC)
