/* unit xml_entities: encodeUtf8 (RFC 3629, full domain) and appendCharRef */
#include "iora_xml.h"
size_t GD; char GDC;   /* arbitrary ghost index into the entity body and the byte there (defined by the precondition) */
/* RFC 3629 section 3 table, written arithmetically (independent of the shifts in the code) */
#define UTF8_VALID(cp) ((cp) <= 0x10FFFFu && !((cp) >= 0xD800u && (cp) <= 0xDFFFu))
#define UTF8_LEN(cp) ((cp) <= 0x7Fu ? (size_t)1 : (cp) <= 0x7FFu ? (size_t)2 : (cp) <= 0xFFFFu ? (size_t)3 : (size_t)4)
#define UTF8_CONT(x) (128u + ((x) % 64u))
#define UTF8_BYTE(cp, k) ((cp) <= 0x7Fu ? (cp) \
  : (cp) <= 0x7FFu ? ((k) == 0 ? 192u + (cp) / 64u : UTF8_CONT(cp)) \
  : (cp) <= 0xFFFFu ? ((k) == 0 ? 224u + (cp) / 4096u : (k) == 1 ? UTF8_CONT((cp) / 64u) : UTF8_CONT(cp)) \
  : ((k) == 0 ? 240u + (cp) / 262144u : (k) == 1 ? UTF8_CONT((cp) / 4096u) : (k) == 2 ? UTF8_CONT((cp) / 64u) : UTF8_CONT(cp)))
#define IS_DEC(c) ((c) >= (char)48 && (c) <= (char)57)
#define IS_HEX(c) (IS_DEC(c) || ((c) >= (char)97 && (c) <= (char)102) || ((c) >= (char)65 && (c) <= (char)70))
#define IORA_LOOP_Parser_appendCharRef_1 IORA_LC( __CPROVER_assigns(i, code) \
  __CPROVER_loop_invariant(i >= 2 && i <= entBody.n && ((GD >= 2 && GD < i) ==> IS_HEX(GDC))) \
  __CPROVER_decreases(entBody.n - i))
#define IORA_LOOP_Parser_appendCharRef_2 IORA_LC( __CPROVER_assigns(i, code) \
  __CPROVER_loop_invariant(i >= 1 && i <= entBody.n && ((GD >= 1 && GD < i) ==> IS_DEC(GDC))) \
  __CPROVER_decreases(entBody.n - i))
