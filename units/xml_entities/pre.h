#include "iora_xml.h"
