/* Contracts of the character-reference layer (unit xml_entities proves them; unit xml_decode replaces appendCharRef by them) */
#ifndef XML_ENTITIES_CONTRACTS_H
#define XML_ENTITIES_CONTRACTS_H
#ifndef ENS
#define ENS(...) __CPROVER_ensures(__VA_ARGS__)
#define RV __CPROVER_return_value
#define OLD(x) __CPROVER_old(x)
#endif
/* RFC 3629 section 3 table, written arithmetically (independent of the shifts in the code) */
#define UTF8_VALID(cp) ((cp) <= 0x10FFFFu && !((cp) >= 0xD800u && (cp) <= 0xDFFFu))
#define UTF8_LEN(cp) ((cp) <= 0x7Fu ? (size_t)1 : (cp) <= 0x7FFu ? (size_t)2 : (cp) <= 0xFFFFu ? (size_t)3 : (size_t)4)
#define UTF8_CONT(x) (128u + ((x) % 64u))
#define UTF8_BYTE(cp, k) ((cp) <= 0x7Fu ? (cp) \
  : (cp) <= 0x7FFu ? ((k) == 0 ? 192u + (cp) / 64u : UTF8_CONT(cp)) \
  : (cp) <= 0xFFFFu ? ((k) == 0 ? 224u + (cp) / 4096u : (k) == 1 ? UTF8_CONT((cp) / 64u) : UTF8_CONT(cp)) \
  : ((k) == 0 ? 240u + (cp) / 262144u : (k) == 1 ? UTF8_CONT((cp) / 4096u) : (k) == 2 ? UTF8_CONT((cp) / 64u) : UTF8_CONT(cp)))
#define IS_DEC(c) ((c) >= (char)48 && (c) <= (char)57)
#define IS_HEX(c) (IS_DEC(c) || ((c) >= (char)97 && (c) <= (char)102) || ((c) >= (char)65 && (c) <= (char)70))
/* digit values per XML 1.0 section 4.1 ([0-9] decimal, [0-9a-fA-F] hexadecimal) */
#define XML_DECVAL(c) ((uint64_t)((c) - 48))
#define XML_HEXVAL(c) ((uint64_t)(IS_DEC(c) ? (c) - 48 : ((c) >= (char)97 ? (c) - 87 : (c) - 55)))
/* ghost: the MATHEMATICAL value of the digits read so far (positional notation) while it is < 2^32; sticky once it is not */
uint64_t G_val;
#define XML_ACC(base, d) do { if (G_val <= 0xFFFFFFFFull) G_val = G_val * (base) + (d); } while (0)
/* ghost step for the digit c just read: the base comes from the PREFIX of the reference ("#x"/"#X" = hexadecimal, else decimal), not from the
 * branch the code took. (For a character that is no digit the value is irrelevant: the function must refuse.) */
#define XML_ACC_DIGIT(c) do { if (IS_HEXREF) XML_ACC(16u, XML_HEXVAL(c)); else XML_ACC(10u, XML_DECVAL(c)); } while (0)
/* GD = arbitrary index into the entity body, GDC the byte there (defined by the precondition; inlined where the contract replaces a call) */
size_t GD;
#ifdef XML_GHOST_INLINE
#define GDC (entBody.p[GD])
#define XML_GDC_DEF 1
#else
char GDC;
#define XML_GDC_DEF (GD < entBody.n ==> GDC == entBody.p[GD])
#endif

/* SIG / PRE / FRAMELIST separately, so that a plain harness (unit xml_decode, step proof) can build an assert/havoc/assume stub from the same parts */
#define ACR_SIG(sym) bool sym(iora_sv entBody, iora_ostr *out)
#ifdef XML_STUB_MODE
#define ACR_MEM (__CPROVER_r_ok(entBody.p, entBody.n) && __CPROVER_rw_ok(out, sizeof(*out)))
#else
#define ACR_MEM (__CPROVER_is_fresh(entBody.p, entBody.n) && __CPROVER_is_fresh(out, sizeof(*out)))
#endif
#define ACR_PRE (IORA_TRUE && (entBody.n >> 40) == 0 && ACR_MEM && out->n <= ((size_t)1 << 50) && XML_GDC_DEF && G_val == 0)
#define ACR_FRAMELIST out->n, out->gk, G_val
#define DECL_appendCharRef(sym, POST) ACR_SIG(sym) __CPROVER_requires(ACR_PRE) __CPROVER_assigns(ACR_FRAMELIST) POST ;
#define IS_HEXREF (entBody.p[1] == (char)120 || entBody.p[1] == (char)88)
/* R1 a body shorter than 2 ("#" alone) is refused; R2 acceptance => every character after the prefix is a digit of the base (witness index GD);
 * R3 acceptance appends one UTF-8 sequence (1..4 bytes); refusal appends nothing; earlier output untouched */
#define ACR_BASIC ENS(entBody.n < 2 ==> !RV) \
  ENS((RV && IS_HEXREF && GD >= 2 && GD < entBody.n) ==> IS_HEX(GDC)) ENS((RV && !IS_HEXREF && GD >= 1 && GD < entBody.n) ==> IS_DEC(GDC)) \
  ENS(RV ==> (out->n >= OLD(out->n) + 1 && out->n <= OLD(out->n) + 4)) ENS(!RV ==> (out->n == OLD(out->n) && out->gk == OLD(out->gk))) \
  ENS(GK < OLD(out->n) ==> out->gk == OLD(out->gk))
/* V1 EXACT VALUE: for a reference whose mathematical value is <= 0x10FFFF, acceptance appends exactly utf8(value) (length and every byte, witness GK);
 * V2 a value that is a surrogate or lies in (0x10FFFF, 2^32) is refused. (Values >= 2^32 wrap in the code's 32-bit accumulator; they occur in
 * ill-formed input only and nothing is demanded for them.) */
#define ACR_VALUE ENS((RV && G_val <= 0x10FFFFull) ==> out->n == OLD(out->n) + UTF8_LEN((uint32_t)G_val)) \
  ENS((RV && G_val <= 0x10FFFFull && GK >= OLD(out->n) && GK < out->n) ==> (uint8_t)out->gk == UTF8_BYTE((uint32_t)G_val, GK - OLD(out->n))) \
  ENS((G_val <= 0xFFFFFFFFull && !UTF8_VALID((uint32_t)G_val)) ==> !RV)
#endif
