// Native scenario for unit engine_stop: the REAL engines.  A session is open; thread A calls stop(); the application's onClose handler - fired by the
// shutdown drain on the loop thread - calls stop() as well (Transport::stop lets that through as a no-op once _running is false).  That inner stop() has
// lost the _running CAS: it must return at once (ES1).  If it joins, std::thread::join throws EDEADLK on the I/O thread through the callback: the drain is
// abandoned (or the process terminates).  Input `ENGINE udp|tcp|both` (default both).
#include "iora/network/detail/udp_engine.hpp"
#include "iora/network/detail/tcp_engine.hpp"
#include "replay_io.h"
#include <thread>
using namespace iora::network; using namespace std::chrono_literals;
static bool g_failed = false;
#define FAIL(msg) do { printf("REPLAY-FAIL: %s\n", std::string(msg).c_str()); fflush(stdout); g_failed = true; return; } while (0)

template <class Engine> static void scenario(const char *name)
{
  std::mutex mx; std::map<SessionId, int> closes, opened; std::string thrown; std::atomic<int> innerReturned{0};
  TransportConfig cfg{}; cfg.enableHighResolutionTimers = false; Engine eng{cfg};
  detail::EngineBase::Callbacks cbs{};
  cbs.onConnect = [&](SessionId s, const TransportAddress &) { std::lock_guard<std::mutex> g(mx); opened[s]++; };
  cbs.onAccept = [&](SessionId s, const TransportAddress &) { std::lock_guard<std::mutex> g(mx); opened[s]++; };
  cbs.onData = [](SessionId, iora::core::BufferView, std::chrono::steady_clock::time_point) {};
  cbs.onClose = [&](SessionId s, const TransportErrorInfo &) { { std::lock_guard<std::mutex> g(mx); closes[s]++; }
    try { eng.stop(); innerReturned++; } catch (const std::exception &e) { std::lock_guard<std::mutex> g(mx); thrown = e.what(); } };
  eng.setCallbacks(cbs);
  if (!eng.start().isOk()) { printf("%s: skipped (engine did not start)\n", name); return; }
  auto lr = eng.addListener("127.0.0.1", 0, TlsMode::None); if (!lr.isOk()) { printf("%s: skipped (cannot bind)\n", name); eng.stop(); return; }
  auto port = eng.getListenerAddress(lr.value()).port;
  eng.connect("127.0.0.1", port, TlsMode::None); eng.connect("127.0.0.1", port, TlsMode::None);
  for (int i = 0; i < 300; i++) { { std::lock_guard<std::mutex> g(mx); if (opened.size() >= 2) break; } std::this_thread::sleep_for(10ms); }
  std::this_thread::sleep_for(100ms);
  size_t nOpen; { std::lock_guard<std::mutex> g(mx); nOpen = opened.size(); }
  std::thread a([&] { eng.stop(); });
  a.join();
  std::lock_guard<std::mutex> g(mx);
  if (!thrown.empty()) FAIL(std::string(name) + " ES1/ES2b: stop() called from the close callback during the drain did not return: it threw '" + thrown + "' on the I/O thread (self-join)");
  for (auto &o : opened) if (closes[o.first] != 1) FAIL(std::string(name) + " C02: session " + std::to_string(o.first) + " has " + std::to_string(closes[o.first]) + " close notifications after stop() (drain abandoned?)");
  if (eng.isRunning()) FAIL(std::string(name) + " ES3: still running after stop()");
  printf("%s: %zu sessions, stop() from thread A, %d inner stop() calls from onClose returned at once, one close per session\n", name, nOpen, innerReturned.load());
}
int main(int argc, char **argv)
{
  std::string which = "both";
  if (argc > 1) { auto in = replay_io::load(argv[1]); if (in.count("ENGINE")) which = in["ENGINE"]; }
  if (which == "udp" || which == "both") scenario<UdpEngine>("UdpEngine");
  if (which == "tcp" || which == "both") scenario<TcpEngine>("TcpEngine");
  if (g_failed) return 1;
  replay_io::ok("stop() from a close callback during the drain returns at once; the drain completes");
  return 0;
}
