/* unit engine_stop (C05 / C02): UdpEngine::stop() and TcpEngine::stop(), whole functions, loop-free, plain harnesses over every start state.
 * stop() may be called by several threads and - through Transport::stop(), whose I/O-thread guard lets it through once _running is false - from a close
 * callback that the shutdown drain itself fires on the loop thread.  Exactly one caller wins the _running CAS.
 *  ES1 a stop() that LOSES the CAS returns without joining, signalling or touching anything (C05: no call blocks for ever / throws on the I/O thread;
 *      C02: the drain that is running must be allowed to finish, every remaining session gets its close)
 *  ES2 the winner signals the loop (shutdown command) and joins exactly once, after signalling, never from the loop thread itself
 *  ES3 after the winner returned, _running is false and the thread is no longer joinable */
#define CHECK_STOP(STOP) \
{ \
  IORA_TRUE = 1; memset(&GS, 0, sizeof(GS)); \
  Engine E; E._running = nondet_bool(); E._loop.joinable = nondet_bool(); E._loop.is_self = nondet_bool(); \
  /* guard of Transport::stop: a stop() on the engine's own I/O thread while it is running never reaches the engine (self-stop path) */ \
  __CPROVER_assume(!(E._loop.is_self && E._running)); \
  const bool wins = E._running, joinable0 = E._loop.joinable; \
 \
  STOP(&E); \
 \
  if (!wins) { \
    IORA_CANARY("stop: lost the CAS"); \
    __CPROVER_assert(GS.join_calls == 0, "ES1a a stop() that loses the _running CAS does not join the loop thread"); \
    __CPROVER_assert(GS.enq_calls == 0 && E._loop.joinable == joinable0 && !E._running, "ES1b and signals / changes nothing"); \
  } else { \
    IORA_CANARY("stop: won the CAS"); \
    __CPROVER_assert(GS.enq_calls == 1 && GS.enq_cmd == IORA_CMD_SHUTDOWN, "ES2d the winner tells the loop to shut down, once"); \
    __CPROVER_assert(GS.join_calls == (joinable0 ? 1u : 0u), "ES2e and joins the loop thread exactly once (not at all if it is not joinable: detached for termination)"); \
    __CPROVER_assert(!E._running && !E._loop.joinable, "ES3 afterwards _running is false and the thread is not joinable"); \
  } \
  IORA_CANARY("stop: returns"); \
}
void h_udp_stop(void) CHECK_STOP(UdpEngine_stop)
void h_tcp_stop(void) CHECK_STOP(TcpEngine_stop)
