/* type environment for unit engine_stop: the part of an engine stop() touches */
typedef struct { bool joinable; bool is_self; } iora_thread;       /* std::thread _loop; is_self: the calling thread IS the loop thread */
typedef struct { bool _running; iora_thread _loop; } Engine;
#define IORA_CMD_SHUTDOWN 1
struct { unsigned enq_calls; int enq_cmd; unsigned join_calls; unsigned joinable_calls; unsigned enq_at_join; } GS;
static inline bool iora_cas_strong_bool(bool *x, bool *expected, bool desired) { if (*x == *expected) { *x = desired; return true; } *expected = *x; return false; }
static inline bool Engine_enqueue(Engine *self, int cmd) { (void)self; if (GS.enq_calls < 1000u) GS.enq_calls++; GS.enq_cmd = cmd; return nondet_bool(); }
static inline bool iora_thread_joinable(const iora_thread *t) { if (GS.joinable_calls < 1000u) GS.joinable_calls++; return t->joinable; }
static inline void iora_thread_join(iora_thread *t)
{ IORA_ASSERT(t->joinable, "ES2a join() only on a joinable thread (a second join throws std::system_error)");
  IORA_ASSERT(!t->is_self, "ES2b join() is never called from the loop thread itself (self-join throws EDEADLK on the I/O thread, through the user callback)");
  IORA_ASSERT(GS.enq_calls >= 1 && GS.enq_cmd == IORA_CMD_SHUTDOWN, "ES2c the loop was told to shut down before it is joined (otherwise join blocks for ever)");
  if (GS.join_calls < 1000u) GS.join_calls++; t->joinable = false; }
