/* type environment + ghost state + spec macros + loop contracts for unit ring_static (RingBuffer<T, Capacity>, T = uint64_t)
 *
 * `Capacity` (template argument) is a SYMBOLIC global constrained only by the class's own static_asserts, which the extractor
 * turns into RingBuffer_STATIC_ASSERTS on every run; `kMask` is extracted from the header as `#define kMask (Capacity - 1)`.
 * std::array<T, Capacity> is a pointer to real memory of Capacity elements (made symbolic with __CPROVER_is_fresh, so every slot
 * access of the extracted code is bounds-checked); std::atomic<size_t> members are plain size_t (R10: sequential semantics only). */
typedef struct { size_t _head; size_t _tail; uint64_t *_buffer; } RingBuffer;
size_t Capacity;

/* R10 ghost: memory order of the last load (G_ld) / store (G_st) of each atomic member in the current operation (shims/iora_atomic.h) */
struct { int _head, _tail; } G_ld, G_st;
/* Ordering DISCIPLINE hooks (checked only in the mo_discipline proofs, which define IORA_MO_DISCIPLINE):
 *   MO1 a producer operation writes a slot only after loading _tail with acquire (or stronger) in the same operation
 *   MO2 a consumer operation reads a slot only after loading _head with acquire (or stronger) in the same operation
 * These are SUFFICIENT SYNTACTIC conditions for a happens-before edge between the two sides' accesses to one slot under the SPSC
 * usage contract; they do not decide data-race freedom under the C++ memory model (see NOTES.md, finding M1). */
#ifdef IORA_MO_DISCIPLINE
#define IORA_SLOT_WRITE(i) (__CPROVER_assert(IORA_MO_IS_ACQUIRE(G_ld._tail), "MO1 a slot is written only after an acquire load of _tail in the same operation (else the overwrite races with the consumer's read of that slot)"), (i))
#define IORA_SLOT_READ(i) (__CPROVER_assert(IORA_MO_IS_ACQUIRE(G_ld._head), "MO2 a slot is read only after an acquire load of _head in the same operation"), (i))
#else
#define IORA_SLOT_WRITE(i) (i)
#define IORA_SLOT_READ(i) (i)
#endif

/* ghost witness indices (unconstrained globals: a clause proved for arbitrary GI/GJ holds for every index) */
size_t GI;   /* a LOGICAL index: the i-th item ever pushed lives at _buffer[i & kMask] while _tail <= i < _head */
size_t GJ;   /* an offset into a batch array / into the resized buffer */

/* size bound of the proof: capacities up to 2^40 elements (8 TiB of uint64_t); needed so that the buffer is one CBMC object */
#define RB_MAXCAP ((size_t)1 << 40)
#define POW2(c) ((c) >= 1 && (((c) & ((c) - 1)) == 0))
/* representation invariant */
#define WF(r) (RingBuffer_STATIC_ASSERTS && Capacity <= RB_MAXCAP && (r)->_tail <= (r)->_head && (r)->_head - (r)->_tail <= Capacity)
#define COUNT(r) ((r)->_head - (r)->_tail)
#define RB_MIN(a, b) ((a) < (b) ? (a) : (b))

/* ---- loop contracts ---- */
/* tryPushBatch loop 1: items[0..i) are at logical indices head..head+i; every live slot [tail, head) keeps its entry value */
#define IORA_LOOP_RingBuffer_tryPushBatch_1 IORA_LC( \
  __CPROVER_assigns(i, __CPROVER_object_whole(self->_buffer)) \
  __CPROVER_loop_invariant(i <= toPush) \
  __CPROVER_loop_invariant(GJ < i ==> self->_buffer[(head + GJ) & kMask] == items[GJ]) \
  __CPROVER_loop_invariant((tail <= GI && GI < head) ==> self->_buffer[GI & kMask] == __CPROVER_loop_entry(self->_buffer[GI & kMask])) \
  __CPROVER_decreases(toPush - i))

/* tryPopBatch loop 1: out[0..i) are the items at logical indices tail..tail+i (the ring itself is not written) */
#define IORA_LOOP_RingBuffer_tryPopBatch_1 IORA_LC( \
  __CPROVER_assigns(i, __CPROVER_object_whole(out)) \
  __CPROVER_loop_invariant(i <= toPop) \
  __CPROVER_loop_invariant(GJ < i ==> out[GJ] == self->_buffer[(tail + GJ) & kMask]) \
  __CPROVER_decreases(toPop - i))

