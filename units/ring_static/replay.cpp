// REPLAY adapter for unit ring_static: drives the REAL iora::core::RingBuffer<uint64_t, CAP> with an operation script and
// evaluates the contract clauses of post.c natively against a reference FIFO (std::deque).
//
// input file (name value lines, see native/replay_io.h):
//   CAP  <capacity: 1, 2, 4 or 8>         (default 4; the template argument, so only these instantiations are compiled in)
//   HEAD <initial value of _head/_tail>   (default 0; lets a script start near SIZE_MAX, see NOTES.md finding R1)
//   OPS  <hex bytes>                      one byte per operation: low 3 bits = opcode, high 5 bits = argument a
//        0 tryPush(copy)  1 tryPush(move)  2 tryPop  3 peek  4 tryPushBatch(a items)  5 tryPopBatch(a)  7 observers+clear if a==31
// Items pushed are consecutive sequence numbers 1,2,3,..., so FIFO / exactly-once are equalities against the reference.
#include "iora/core/ring_buffer.hpp"
#include "replay_io.h"
#include <deque>
using iora::core::RingBuffer;

template <size_t CAP> static int run(std::map<std::string, std::string> &in)
{
  std::vector<uint8_t> ops = in.count("OPS") ? replay_io::bytes(in["OPS"])
                                              : replay_io::bytes("00 00 01 00 00 03 02 84 a5 00 02 64 02 02 ff 00 02");
  static RingBuffer<uint64_t, CAP> rb;
  if (rb.size() != 0 || rb.capacity() != CAP) replay_io::fail("CT1 constructor: not empty / wrong capacity");
  if (in.count("HEAD")) { size_t h = replay_io::u64(in["HEAD"]); rb._head.store(h); rb._tail.store(h); }
  std::deque<uint64_t> ref;
  uint64_t seq = 0;
  for (size_t k = 0; k < ops.size(); k++)
  {
    unsigned op = ops[k] & 7, a = ops[k] >> 3;
    size_t C = rb.capacity();
    std::string at = " (op #" + std::to_string(k) + ")";
    switch (op)
    {
    case 0: case 1: {
      uint64_t v = ++seq; bool expect = ref.size() < C;
      bool r = op == 0 ? rb.tryPush(v) : rb.tryPush(std::move(v));
      if (r != expect) replay_io::fail("PU2 tryPush result != (size < capacity)" + at);
      if (r) ref.push_back(seq);
      break; }
    case 2: {
      uint64_t out = 0xdeadbeef; bool r = rb.tryPop(out);
      if (r != !ref.empty()) replay_io::fail("PO2 tryPop result != non-empty (size()=" + std::to_string(rb.size()) + ")" + at);
      if (r) { if (out != ref.front()) replay_io::fail("PO4 tryPop did not return the oldest item" + at); ref.pop_front(); }
      else if (out != 0xdeadbeef) replay_io::fail("PO5 tryPop wrote out although it returned false" + at);
      break; }
    case 3: {
      uint64_t out = 0xdeadbeef; bool r = rb.peek(out);
      if (r != !ref.empty()) replay_io::fail("PK1 peek result != non-empty" + at);
      if (r && out != ref.front()) replay_io::fail("PK2 peek did not return the oldest item" + at);
      break; }
    case 4: {
      std::vector<uint64_t> items(a); for (auto &x : items) x = ++seq;
      size_t expect = std::min<size_t>(a, C - ref.size());
      size_t r = rb.tryPushBatch(items.data(), a);
      if (r != expect) replay_io::fail("PB2 tryPushBatch count" + at);
      for (size_t i = 0; i < r; i++) ref.push_back(items[i]);
      break; }
    case 5: {
      std::vector<uint64_t> out(a, 0xdeadbeef);
      size_t expect = std::min<size_t>(a, ref.size());
      size_t r = rb.tryPopBatch(out.data(), a);
      if (r != expect) replay_io::fail("QB2 tryPopBatch count (size()=" + std::to_string(rb.size()) + ")" + at);
      for (size_t i = 0; i < r; i++) { if (out[i] != ref.front()) replay_io::fail("QB4 tryPopBatch order" + at); ref.pop_front(); }
      break; }
    case 7:
      if (a == 31) { rb.clear(); ref.clear(); }
      break;
    }
    // after every operation: the view equals the reference (this is the frame over every live slot)
    if (rb.size() != ref.size()) replay_io::fail("OB1 size() != number of items held" + at);
    if (rb.size() > rb.capacity()) replay_io::fail("PU7 size() > capacity()" + at);
    if (rb.empty() != ref.empty()) replay_io::fail("OB3 empty()" + at);
    if (rb.full() != (ref.size() == rb.capacity())) replay_io::fail("OB4 full()" + at);
    size_t t = rb._tail.load();
    for (size_t i = 0; i < ref.size(); i++)
      if (rb._buffer[(t + i) & rb.kMask] != ref[i]) replay_io::fail("FRAME live slot " + std::to_string(i) + " differs from the reference" + at);
  }
  replay_io::ok("contract clauses hold on this operation script");
  return 0;
}
int main(int argc, char **argv)
{
  std::map<std::string, std::string> in;
  if (argc > 1) in = replay_io::load(argv[1]);
  size_t cap = in.count("CAP") ? replay_io::u64(in["CAP"]) : 4;
  switch (cap) { case 1: return run<1>(in); case 2: return run<2>(in); case 4: return run<4>(in); case 8: return run<8>(in); }
  replay_io::ok("capacity not among the compiled instantiations (1, 2, 4, 8): nothing replayed");
  return 0;
}
