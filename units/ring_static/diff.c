/* Differential run, C side: the EXTRACTED RingBuffer<uint64_t, Capacity> (constructor, tryPush x2, tryPop, peek, tryPushBatch, tryPopBatch,
 * size/empty/full/capacity, clear), compiled natively. `Capacity` is a global in the extracted text; it is set per input to cap (one of the
 * powers of two the C++ side instantiates: 1 2 4 8 16); std::array<T,Capacity> is calloc'ed storage. The input bytes are an op stream run
 * against ONE buffer; compared: the result of every operation, every value popped/peeked, the drained contents at the end. */
#include "unit_native.c"
#include "diff_io.h"
static RingBuffer rb;
#define PUSH(v) RingBuffer_tryPush(&rb, &(v))
#define PUSHMOVE(v) RingBuffer_tryPushMove(&rb, &(v))
#define POP(o) RingBuffer_tryPop(&rb, &(o))
#define PEEK(o) RingBuffer_peek(&rb, &(o))
#define PUSHBATCH(p, n) RingBuffer_tryPushBatch(&rb, (p), (n))
#define POPBATCH(p, n) RingBuffer_tryPopBatch(&rb, (p), (n))
#define SIZE() RingBuffer_size(&rb)
#define EMPTY() RingBuffer_empty(&rb)
#define FULL() RingBuffer_full(&rb)
#define CAPACITY() RingBuffer_capacity(&rb)
#define CLEAR() RingBuffer_clear(&rb)
int main(int argc, char **argv)
{
  FILE *f = fopen(argv[1], "r"); diff_input in;
  IORA_TRUE = 1;
  while (diff_next(f, &in)) {
    size_t cap = (size_t)diff_param(&in, "cap", 4); if (cap != 1 && cap != 2 && cap != 4 && cap != 8 && cap != 16) cap = 4;
    Capacity = cap; rb._buffer = (uint64_t *)calloc(cap, sizeof(uint64_t)); RingBuffer_ctor(&rb);
    printf("ops cap=%zu: ", RingBuffer_capacity(&rb));
  /* op stream: each op is one byte (low nibble = opcode), some ops take the next byte as an argument. Values pushed are a running
   * counter mixed with the input so that every slot content is distinguishable. */
  size_t i = 0; uint64_t ctr = 1; uint64_t tmp[8];
  while (i < in.n) {
    unsigned op = in.bytes[i++] & 15u; unsigned arg = i < in.n ? in.bytes[i] : 0;
    switch (op) {
    case 0: { uint64_t v = (ctr++ << 8) | arg; printf("P%d ", (int)PUSH(v)); break; }
    case 1: { uint64_t v = (ctr++ << 8) | 0xEE; int r = (int)PUSHMOVE(v); printf("M%d:%llx ", r, (unsigned long long)v); break; }
    case 2: { uint64_t o = 0xDEAD; int r = (int)POP(o); printf("O%d:%llx ", r, (unsigned long long)o); break; }
    case 3: { uint64_t o = 0xBEEF; int r = (int)PEEK(o); printf("K%d:%llx ", r, (unsigned long long)o); break; }
    case 4: { size_t n = arg % 9; i++; for (size_t k = 0; k < 8; k++) tmp[k] = (ctr++ << 8) | k; printf("PB%zu ", (size_t)PUSHBATCH(tmp, n > 8 ? 8 : n)); break; }
    case 5: { size_t n = arg % 9; i++; for (size_t k = 0; k < 8; k++) tmp[k] = 0xAAAA; size_t r = (size_t)POPBATCH(tmp, n > 8 ? 8 : n); printf("OB%zu:", r); for (size_t k = 0; k < 8; k++) printf("%llx,", (unsigned long long)tmp[k]); printf(" "); break; }
    case 6: printf("S%zu/%d/%d/%zu ", (size_t)SIZE(), (int)EMPTY(), (int)FULL(), (size_t)CAPACITY()); break;
    case 7: CLEAR(); printf("C "); break;
#ifdef RESIZE
    case 8: { size_t n = arg % 40; i++; printf("R%zu>%zu ", n, (size_t)RESIZE(n)); break; }
#endif
    default: printf("S%zu ", (size_t)SIZE()); break;
    }
  }
  { uint64_t o; printf("| drain:"); while (POP(o)) printf("%llx,", (unsigned long long)o); printf(" S%zu/%d/%zu", (size_t)SIZE(), (int)EMPTY(), (size_t)CAPACITY()); }

    printf("\n"); fflush(stdout); free(rb._buffer); diff_free(&in);
  }
  return 0;
}
