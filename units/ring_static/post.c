/* Contracts of RingBuffer<uint64_t, Capacity> (Capacity symbolic), written from property C10 (FIFO, lossless, capacity-bounded), not from the code.
 *
 * Abstract view of a ring r with WF(r): the sequence of LOGICAL indices [r->_tail, r->_head); the item with logical index i is
 * r->_buffer[i & kMask]. Every operation requires and ensures WF and states the exact update of the view:
 *   - which logical indices enter / leave ([tail,head) moves only at its two ends, by the returned amount),
 *   - the value at every index that enters (== the argument) or leaves (== the result),
 *   - the FRAME: for the arbitrary ghost logical index GI, a slot that is live before and after keeps its value.
 * NOWRAP: the producing operations require that _head does not pass SIZE_MAX (fewer than 2^64 items over the object's lifetime);
 * see NOTES.md (tryPop/peek compare `tail >= head`, which is not wrap-tolerant, unlike tryPush/size). */

#define RB_PRE(self) \
  __CPROVER_requires(IORA_TRUE) \
  __CPROVER_requires(__CPROVER_is_fresh(self, sizeof(*self)) && WF(self)) \
  __CPROVER_requires(__CPROVER_is_fresh(self->_buffer, Capacity * sizeof(uint64_t)))      /* std::array<T, Capacity> */

#define RB_GHOST G_ld, G_st      /* R10 ghost records of the last load/store order; written by every atomic access */
#define SLOT(r, i) ((r)->_buffer[(i) & kMask])
#define OLD_LIVE(gi) (__CPROVER_old(self->_tail) <= (gi) && (gi) < __CPROVER_old(self->_head))

/* ---------------- Lemma: slot injectivity (loop-free, full domain) ---------------- */
void h_lemma_slot_injective(void)
{
  size_t head = nondet_size_t(), tail = nondet_size_t(), i = nondet_size_t(), j = nondet_size_t();
  Capacity = nondet_size_t();
  __CPROVER_assume(RingBuffer_STATIC_ASSERTS && tail <= head && head - tail <= Capacity && tail <= i && i < j && j < head);
  __CPROVER_assert((i & kMask) != (j & kMask), "LEM1 distinct live logical indices occupy distinct slots");
  __CPROVER_assert((i & kMask) < Capacity && (j & kMask) < Capacity, "LEM2 slots are inside the buffer");
  __CPROVER_assert(head - tail == Capacity || (i & kMask) != (head & kMask), "LEM3 the next write slot is free unless full");
  size_t h2 = nondet_size_t(), t2 = nondet_size_t(), a = nondet_size_t(), b = nondet_size_t();
  __CPROVER_assume((size_t)(h2 - t2) <= Capacity && a < b && b < (size_t)(h2 - t2));
  __CPROVER_assert(((t2 + a) & kMask) != ((t2 + b) & kMask), "LEM4 injectivity with modular indices");
  IORA_CANARY("h_lemma_slot_injective: reachable");
}

/* ---------------- constructor ---------------- */
void RingBuffer_ctor_contract(RingBuffer *self)
__CPROVER_requires(IORA_TRUE && __CPROVER_is_fresh(self, sizeof(*self)))
__CPROVER_requires(RingBuffer_STATIC_ASSERTS && Capacity <= RB_MAXCAP)      /* an admissible instantiation */
__CPROVER_assigns(self->_head, self->_tail)
/* CT1 the invariant is established, the view is empty */ __CPROVER_ensures(WF(self) && self->_head == self->_tail)
;
void h_ctor(void)
{
  RingBuffer *s;
  RingBuffer_ctor(s);
  IORA_CANARY("h_ctor: returns");
}

/* ---------------- tryPush (copy / move) ---------------- */
bool RingBuffer_tryPush_contract(RingBuffer *self, const uint64_t *item)
RB_PRE(self)
__CPROVER_requires(__CPROVER_is_fresh(item, sizeof(*item)))
__CPROVER_requires(self->_head < SIZE_MAX) /* NOWRAP */
__CPROVER_assigns(RB_GHOST, self->_head, self->_buffer[self->_head & kMask])   /* exactly one slot: the one of logical index head */
/* PU1 */ __CPROVER_ensures(WF(self))
/* PU2 accepted iff not full */ __CPROVER_ensures(__CPROVER_return_value == (__CPROVER_old(self->_head) - __CPROVER_old(self->_tail) < Capacity))
/* PU3 accepted: the view grows by one at the back */ __CPROVER_ensures(__CPROVER_return_value ==> self->_head == __CPROVER_old(self->_head) + 1)
/* PU4 ... and the new last item is the argument */ __CPROVER_ensures(__CPROVER_return_value ==> SLOT(self, __CPROVER_old(self->_head)) == *item)
/* PU5 refused: the view is unchanged */ __CPROVER_ensures(!__CPROVER_return_value ==> self->_head == __CPROVER_old(self->_head))
/* PU6 frame: every live item keeps its value */ __CPROVER_ensures(OLD_LIVE(GI) ==> SLOT(self, GI) == __CPROVER_old(self->_buffer[GI & kMask]))
/* PU7 capacity bound */ __CPROVER_ensures(COUNT(self) <= Capacity)
;
bool RingBuffer_tryPushMove_contract(RingBuffer *self, uint64_t *item)
RB_PRE(self)
__CPROVER_requires(__CPROVER_is_fresh(item, sizeof(*item)))
__CPROVER_requires(self->_head < SIZE_MAX) /* NOWRAP */
__CPROVER_assigns(RB_GHOST, self->_head, self->_buffer[self->_head & kMask])   /* exactly one slot: the one of logical index head */
/* PU1 */ __CPROVER_ensures(WF(self))
/* PU2 accepted iff not full */ __CPROVER_ensures(__CPROVER_return_value == (__CPROVER_old(self->_head) - __CPROVER_old(self->_tail) < Capacity))
/* PU3 accepted: the view grows by one at the back */ __CPROVER_ensures(__CPROVER_return_value ==> self->_head == __CPROVER_old(self->_head) + 1)
/* PU4 ... and the new last item is the argument */ __CPROVER_ensures(__CPROVER_return_value ==> SLOT(self, __CPROVER_old(self->_head)) == *item)
/* PU5 refused: the view is unchanged */ __CPROVER_ensures(!__CPROVER_return_value ==> self->_head == __CPROVER_old(self->_head))
/* PU6 frame: every live item keeps its value */ __CPROVER_ensures(OLD_LIVE(GI) ==> SLOT(self, GI) == __CPROVER_old(self->_buffer[GI & kMask]))
/* PU7 capacity bound */ __CPROVER_ensures(COUNT(self) <= Capacity)
;

void h_tryPush(void)
{
  RingBuffer *s; const uint64_t *it;
  bool r = RingBuffer_tryPush(s, it);
  IORA_CANARY("h_tryPush: returns");
  if (r) { IORA_CANARY("h_tryPush: pushed"); } else { IORA_CANARY("h_tryPush: full"); }
}
void h_tryPushMove(void)
{
  RingBuffer *s; uint64_t *it;
  bool r = RingBuffer_tryPushMove(s, it);
  IORA_CANARY("h_tryPushMove: returns");
  if (r) { IORA_CANARY("h_tryPushMove: pushed"); } else { IORA_CANARY("h_tryPushMove: full"); }
}

/* ---------------- tryPop / peek ---------------- */
bool RingBuffer_tryPop_contract(RingBuffer *self, uint64_t *out)
RB_PRE(self)
__CPROVER_requires(__CPROVER_is_fresh(out, sizeof(*out)))
__CPROVER_assigns(RB_GHOST, self->_tail, *out)          /* the ring's slots, _head are not assignable at all */
/* PO1 */ __CPROVER_ensures(WF(self))
/* PO2 */ __CPROVER_ensures(__CPROVER_return_value == (__CPROVER_old(self->_head) != __CPROVER_old(self->_tail)))
/* PO3 */ __CPROVER_ensures(__CPROVER_return_value ==> self->_tail == __CPROVER_old(self->_tail) + 1)
/* PO4 */ __CPROVER_ensures(__CPROVER_return_value ==> *out == SLOT(self, __CPROVER_old(self->_tail)))
/* PO5 */ __CPROVER_ensures(!__CPROVER_return_value ==> (self->_tail == __CPROVER_old(self->_tail) && *out == __CPROVER_old(*out)))
;
void h_tryPop(void)
{
  RingBuffer *s; uint64_t *o;
  bool r = RingBuffer_tryPop(s, o);
  IORA_CANARY("h_tryPop: returns");
  if (r) { IORA_CANARY("h_tryPop: popped"); } else { IORA_CANARY("h_tryPop: empty"); }
}

bool RingBuffer_peek_contract(const RingBuffer *self, uint64_t *out)
RB_PRE(self)
__CPROVER_requires(__CPROVER_is_fresh(out, sizeof(*out)))
__CPROVER_assigns(RB_GHOST, *out)
/* PK1 */ __CPROVER_ensures(__CPROVER_return_value == (self->_head != self->_tail))
/* PK2 */ __CPROVER_ensures(__CPROVER_return_value ==> *out == SLOT(self, self->_tail))
/* PK3 */ __CPROVER_ensures(!__CPROVER_return_value ==> *out == __CPROVER_old(*out))
;
void h_peek(void)
{
  RingBuffer *s; uint64_t *o;
  bool r = RingBuffer_peek(s, o);
  IORA_CANARY("h_peek: returns");
  if (r) { IORA_CANARY("h_peek: item"); } else { IORA_CANARY("h_peek: empty"); }
}

/* ---------------- size / empty / full / capacity: pure observers of the view ---------------- */
void h_observers_contract(RingBuffer *self)
RB_PRE(self)
__CPROVER_assigns(RB_GHOST)
;
void h_observers_body(RingBuffer *self)
{
  size_t n = RingBuffer_size(self);
  bool e = RingBuffer_empty(self);
  bool f = RingBuffer_full(self);
  size_t c = RingBuffer_capacity(self);
  __CPROVER_assert(n == self->_head - self->_tail, "OB1 size() is the length of the view");
  __CPROVER_assert(n <= c, "OB2 size() <= capacity()");
  __CPROVER_assert(e == (self->_head == self->_tail), "OB3 empty() iff the view is empty");
  __CPROVER_assert(f == (n == c), "OB4 full() iff size() == capacity()");
  __CPROVER_assert(c == Capacity, "OB5 capacity()");
  if (e) { IORA_CANARY("h_observers: empty"); }
  if (f) { IORA_CANARY("h_observers: full"); }
}
void h_observers(void)
{
  RingBuffer *s;
  h_observers_body(s);
  IORA_CANARY("h_observers: returns");
}

/* ---------------- clear ---------------- */
void RingBuffer_clear_contract(RingBuffer *self)
RB_PRE(self)
__CPROVER_assigns(RB_GHOST, self->_head, self->_tail)
/* CL1 */ __CPROVER_ensures(WF(self) && self->_head == self->_tail)
;
void h_clear(void)
{
  RingBuffer *s;
  RingBuffer_clear(s);
  IORA_CANARY("h_clear: returns");
}

/* ---------------- tryPushBatch ---------------- */
size_t RingBuffer_tryPushBatch_contract(RingBuffer *self, const uint64_t *items, size_t count)
RB_PRE(self)
__CPROVER_requires(count <= RB_MAXCAP && __CPROVER_is_fresh(items, count * sizeof(uint64_t)))
__CPROVER_requires(self->_head <= SIZE_MAX - Capacity) /* NOWRAP */
__CPROVER_assigns(RB_GHOST, self->_head, __CPROVER_object_whole(self->_buffer))
/* PB1 */ __CPROVER_ensures(WF(self))
/* PB2 */ __CPROVER_ensures(__CPROVER_return_value == RB_MIN(count, Capacity - (__CPROVER_old(self->_head) - __CPROVER_old(self->_tail))))
/* PB3 */ __CPROVER_ensures(self->_head == __CPROVER_old(self->_head) + __CPROVER_return_value)
/* PB4 */ __CPROVER_ensures(GJ < __CPROVER_return_value ==> SLOT(self, __CPROVER_old(self->_head) + GJ) == items[GJ])
/* PB5 */ __CPROVER_ensures(OLD_LIVE(GI) ==> SLOT(self, GI) == __CPROVER_old(self->_buffer[GI & kMask]))
;
void h_tryPushBatch(void)
{
  RingBuffer *s; const uint64_t *it; size_t n;
  size_t r = RingBuffer_tryPushBatch(s, it, n);
  IORA_CANARY("h_tryPushBatch: returns");
  if (r < n) { IORA_CANARY("h_tryPushBatch: partial"); }
  if (r > 1) { IORA_CANARY("h_tryPushBatch: several"); }
}

/* ---------------- tryPopBatch ---------------- */
size_t RingBuffer_tryPopBatch_contract(RingBuffer *self, uint64_t *out, size_t maxCount)
RB_PRE(self)
__CPROVER_requires(maxCount <= RB_MAXCAP && __CPROVER_is_fresh(out, maxCount * sizeof(uint64_t)))
__CPROVER_assigns(RB_GHOST, self->_tail, __CPROVER_object_whole(out))
/* QB1 */ __CPROVER_ensures(WF(self))
/* QB2 */ __CPROVER_ensures(__CPROVER_return_value == RB_MIN(maxCount, __CPROVER_old(self->_head) - __CPROVER_old(self->_tail)))
/* QB3 */ __CPROVER_ensures(self->_tail == __CPROVER_old(self->_tail) + __CPROVER_return_value)
/* QB4 */ __CPROVER_ensures(GJ < __CPROVER_return_value ==> out[GJ] == SLOT(self, __CPROVER_old(self->_tail) + GJ))
;
void h_tryPopBatch(void)
{
  RingBuffer *s; uint64_t *o; size_t n;
  size_t r = RingBuffer_tryPopBatch(s, o, n);
  IORA_CANARY("h_tryPopBatch: returns");
  if (r < n) { IORA_CANARY("h_tryPopBatch: partial"); }
  if (r > 1) { IORA_CANARY("h_tryPopBatch: several"); }
}

/* ---------------- ordering discipline (proofs mo_discipline_*, built with -DIORA_MO_DISCIPLINE) ----------------
 * The real operations run with the MO1/MO2 hooks of pre.h active; MO3/MO4 are asserted after each call.
 * This decides the DISCIPLINE (sufficient, syntactic), not data-race freedom under the C++ memory model. */
#define MO_RESET() do { G_ld._head = G_ld._tail = G_st._head = G_st._tail = IORA_MO_NONE; } while (0)
void h_mo_producer_contract(RingBuffer *self, const uint64_t *item, uint64_t *item2, const uint64_t *items, size_t count)
RB_PRE(self)
__CPROVER_requires(__CPROVER_is_fresh(item, sizeof(*item)) && __CPROVER_is_fresh(item2, sizeof(*item2)))
__CPROVER_requires(count <= RB_MAXCAP && __CPROVER_is_fresh(items, count * sizeof(uint64_t)))
__CPROVER_requires(self->_head <= SIZE_MAX - Capacity - 2) /* NOWRAP */
__CPROVER_assigns(RB_GHOST, self->_head, __CPROVER_object_whole(self->_buffer))
;
void h_mo_producer_body(RingBuffer *self, const uint64_t *item, uint64_t *item2, const uint64_t *items, size_t count)
{
  MO_RESET();
  bool r1 = RingBuffer_tryPush(self, item);
  __CPROVER_assert(!r1 || IORA_MO_IS_RELEASE(G_st._head), "MO3 tryPush publishes the item with a release store of _head");
  __CPROVER_assert(G_st._tail == IORA_MO_NONE, "MO4 a producer operation never stores _tail");
  if (r1) { IORA_CANARY("h_mo_producer: tryPush pushed"); }
  MO_RESET();
  bool r2 = RingBuffer_tryPushMove(self, item2);
  __CPROVER_assert(!r2 || IORA_MO_IS_RELEASE(G_st._head), "MO3 tryPush(T&&) publishes the item with a release store of _head");
  __CPROVER_assert(G_st._tail == IORA_MO_NONE, "MO4 a producer operation never stores _tail");
  if (r2) { IORA_CANARY("h_mo_producer: tryPushMove pushed"); }
  MO_RESET();
  size_t r3 = RingBuffer_tryPushBatch(self, items, count);
  __CPROVER_assert(r3 == 0 || IORA_MO_IS_RELEASE(G_st._head), "MO3 tryPushBatch publishes the items with a release store of _head");
  __CPROVER_assert(G_st._tail == IORA_MO_NONE, "MO4 a producer operation never stores _tail");
  if (r3 > 0) { IORA_CANARY("h_mo_producer: tryPushBatch pushed"); }
}
void h_mo_producer(void)
{
  RingBuffer *s; const uint64_t *it; uint64_t *it2; const uint64_t *its; size_t n;
  h_mo_producer_body(s, it, it2, its, n);
  IORA_CANARY("h_mo_producer: returns");
}
void h_mo_consumer_contract(RingBuffer *self, uint64_t *out, uint64_t *outs, size_t maxCount)
RB_PRE(self)
__CPROVER_requires(__CPROVER_is_fresh(out, sizeof(*out)))
__CPROVER_requires(maxCount <= RB_MAXCAP && __CPROVER_is_fresh(outs, maxCount * sizeof(uint64_t)))
__CPROVER_assigns(RB_GHOST, self->_tail, *out, __CPROVER_object_whole(outs))
;
void h_mo_consumer_body(RingBuffer *self, uint64_t *out, uint64_t *outs, size_t maxCount)
{
  MO_RESET();
  bool r0 = RingBuffer_peek(self, out);
  __CPROVER_assert(G_st._tail == IORA_MO_NONE && G_st._head == IORA_MO_NONE, "MO4 peek stores no index");
  MO_RESET();
  bool r1 = RingBuffer_tryPop(self, out);
  __CPROVER_assert(!r1 || IORA_MO_IS_RELEASE(G_st._tail), "MO3 tryPop frees the slot with a release store of _tail");
  __CPROVER_assert(G_st._head == IORA_MO_NONE, "MO4 a consumer operation never stores _head");
  if (r1) { IORA_CANARY("h_mo_consumer: tryPop popped"); }
  MO_RESET();
  size_t r2 = RingBuffer_tryPopBatch(self, outs, maxCount);
  __CPROVER_assert(r2 == 0 || IORA_MO_IS_RELEASE(G_st._tail), "MO3 tryPopBatch frees the slots with a release store of _tail");
  __CPROVER_assert(G_st._head == IORA_MO_NONE, "MO4 a consumer operation never stores _head");
  if (r2 > 0) { IORA_CANARY("h_mo_consumer: tryPopBatch popped"); }
}
void h_mo_consumer(void)
{
  RingBuffer *s; uint64_t *o; uint64_t *os; size_t n;
  h_mo_consumer_body(s, o, os, n);
  IORA_CANARY("h_mo_consumer: returns");
}
