// Native scenarios for unit udp_close_iter (real UdpEngine, public API, loopback).
//  SCENARIO sd2 : an application that reacts to the shutdown-close of a session by calling connect() / connectViaListener() from inside the close
//                 callback (allowed: it only enqueues).  stop() is draining; the calls are ACCEPTED (ok(id)).  C02: each id handed out must still get
//                 exactly one close notification ("never none ... stopped in an orderly way").
//  SCENARIO sd1 : nothing survives stop(): session table, listener table, descriptor tags and peer index are empty, the gauge is 0, and a restarted engine
//                 works (no dispatch to freed sessions).
#include "iora/network/detail/udp_engine.hpp"
#include "replay_io.h"
#include <arpa/inet.h>
#include <thread>
using namespace iora::network; using namespace std::chrono_literals;
static bool g_failed = false;
#define FAIL(msg) do { printf("REPLAY-FAIL: %s\n", std::string(msg).c_str()); fflush(stdout); g_failed = true; return; } while (0)

static void sd2()
{
  std::mutex mx; std::map<SessionId, int> closes, connects; std::vector<SessionId> late;
  TransportConfig cfg{}; UdpEngine eng{cfg}; ListenerId lid = 0; uint16_t port = 0;
  detail::EngineBase::Callbacks cbs{};
  cbs.onConnect = [&](SessionId s, const TransportAddress &) { std::lock_guard<std::mutex> g(mx); connects[s]++; };
  cbs.onAccept = [](SessionId, const TransportAddress &) {}; cbs.onData = [](SessionId, iora::core::BufferView, std::chrono::steady_clock::time_point) {};
  cbs.onClose = [&](SessionId s, const TransportErrorInfo &) { bool first; { std::lock_guard<std::mutex> g(mx); closes[s]++; first = late.empty(); }
    if (first) { auto r1 = eng.connect("127.0.0.1", port, TlsMode::None); auto r2 = eng.connectViaListener(lid, "127.0.0.1", port);
      std::lock_guard<std::mutex> g(mx); if (r1.isOk()) late.push_back(r1.value()); if (r2.isOk()) late.push_back(r2.value()); } };
  eng.setCallbacks(cbs);
  if (!eng.start().isOk()) { printf("skipped: engine did not start\n"); return; }
  auto lr = eng.addListener("127.0.0.1", 0, TlsMode::None); if (!lr.isOk()) { printf("skipped: cannot bind loopback UDP\n"); eng.stop(); return; }
  lid = lr.value(); port = eng.getListenerAddress(lid).port;
  SessionId a = eng.connect("127.0.0.1", port, TlsMode::None).value();
  for (int i = 0; i < 300; i++) { { std::lock_guard<std::mutex> g(mx); if (connects[a]) break; } std::this_thread::sleep_for(10ms); }
  eng.stop();
  std::lock_guard<std::mutex> g(mx);
  if (closes[a] != 1) FAIL("session open at stop(): " + std::to_string(closes[a]) + " close notifications");
  for (auto s : late) { printf("id %llu returned ok by connect()/connectViaListener() while stop() was draining: connect events %d, close notifications %d\n", (unsigned long long)s, connects[s], closes[s]);
    if (closes[s] != 1) FAIL("SD2 (C02 'never none'): id " + std::to_string(s) + " was handed to the application by connect()/connectViaListener() during shutdownDrain and never received a close notification"); }
  if (late.empty()) printf("note: connect() during the drain was refused (queue already closed) - nothing to check\n");
}
static void sd1()
{
  std::mutex mx; int opened = 0; TransportConfig cfg{}; UdpEngine eng{cfg};
  detail::EngineBase::Callbacks cbs{};
  cbs.onConnect = [&](SessionId, const TransportAddress &) { std::lock_guard<std::mutex> g(mx); opened++; };
  cbs.onAccept = [&](SessionId, const TransportAddress &) { std::lock_guard<std::mutex> g(mx); opened++; };
  cbs.onData = [](SessionId, iora::core::BufferView, std::chrono::steady_clock::time_point) {}; cbs.onClose = [](SessionId, const TransportErrorInfo &) {};
  eng.setCallbacks(cbs);
  for (int round = 0; round < 2; round++) {
    if (!eng.start().isOk()) { printf("skipped: engine did not start\n"); return; }
    { std::lock_guard<std::mutex> g(mx); opened = 0; }
    auto lr = eng.addListener("127.0.0.1", 0, TlsMode::None); if (!lr.isOk()) { printf("skipped: cannot bind\n"); eng.stop(); return; }
    auto port = eng.getListenerAddress(lr.value()).port;
    int p = ::socket(AF_INET, SOCK_DGRAM, 0); sockaddr_in me{}; me.sin_family = AF_INET; me.sin_addr.s_addr = htonl(INADDR_LOOPBACK); ::bind(p, (sockaddr *)&me, sizeof(me)); socklen_t ml = sizeof(me); ::getsockname(p, (sockaddr *)&me, &ml);
    sockaddr_in to{}; to.sin_family = AF_INET; to.sin_addr.s_addr = htonl(INADDR_LOOPBACK); to.sin_port = htons(port);
    ::sendto(p, "a", 1, 0, (sockaddr *)&to, sizeof(to));
    eng.connectViaListener(lr.value(), "127.0.0.1", ntohs(me.sin_port));      // second session for the same peer key
    eng.connect("127.0.0.1", port, TlsMode::None);
    for (int i = 0; i < 300; i++) { { std::lock_guard<std::mutex> g(mx); if (opened >= 3) break; } std::this_thread::sleep_for(10ms); }
    eng.stop(); ::close(p);
    if (eng._sessions.size() || eng._listeners.size() || eng._tags.size() || eng._peerIndex.size() || eng.getStats().sessionsCurrent != 0)
      FAIL("SD1 after stop() (round " + std::to_string(round) + "): sessions=" + std::to_string(eng._sessions.size()) + " listeners=" + std::to_string(eng._listeners.size()) + " tags=" + std::to_string(eng._tags.size()) +
           " peerIndex=" + std::to_string(eng._peerIndex.size()) + " gauge=" + std::to_string(eng.getStats().sessionsCurrent) + " - a restarted engine would dispatch through stale entries");
  }
  printf("sd1: two start/stop rounds with 3 sessions each: tables, tags, peer index empty and gauge 0 after every stop()\n");
}
int main(int argc, char **argv)
{
  std::string which = "all";
  if (argc > 1) { auto in = replay_io::load(argv[1]); if (in.count("SCENARIO")) which = in["SCENARIO"]; }
  if (which == "all" || which == "sd2") sd2();
  if (which == "all" || which == "sd1") sd1();
  if (g_failed) return 1;
  replay_io::ok("shutdown scenarios hold natively");
  return 0;
}
