/* unit udp_close_iter (C02, UDP side): UNBOUNDED versions of the GC sweep and of shutdownDrain's session part (loop contracts over the map iteration with a
 * witness session; the bounded 3-session versions stay in unit udp_close_sites, thorough tier, as cross-checks), and the command-queue teardown of
 * shutdownDrain (SD-2).  Plain harnesses over the full symbolic domain; closeNow is the REAL extracted function. */

static void engine_any(UdpEngine *E)
{
  UdpEngine e; *E = e;
  E->_peerIndex.has = nondet_bool(); E->_tags.has = nondet_bool(); E->_listeners.has = nondet_bool(); E->_cbMutex.held = 0; E->_sessionRwMutex.held = 0; E->_qmx.held = 0; E->_qClosed = nondet_bool();
  E->_cbs.onAccept.set = nondet_bool(); E->_cbs.onConnect.set = nondet_bool(); E->_cbs.onData.set = nondet_bool(); E->_cbs.onClose.set = nondet_bool(); E->_cbs.onError.set = nondet_bool();
  E->_sessions.has = nondet_bool();
}

/* ============================ shutdownDrain: command-queue teardown (SD-2) ============================
 * C02: "Every session identifier the application has seen (returned by connect ...) receives exactly one close notification - never two, and NEVER NONE while
 * the transport keeps running or is stopped in an orderly way".  A Connect / Via command still queued when the queue is closed carries an id that
 * connect() / connectViaListener() already returned to the application. */
void h_drain_residual(void)
{
  IORA_TRUE = 1; G = (struct iora_udp_ghost){0}; iora_exc = 0;
  GQ = nondet_size_t(); GFD = nondet_int(); GPK = nondet_u64();
  UdpEngine E; engine_any(&E); E._sessions.has = false;          /* the session table was cleared just before */
  E._q.w.listenerReady.set = nondet_bool(); E._q.w.listenerReady.fulfilled = 0; E._q.w.listenerReady.value = 0;
  const Cmd w0 = E._q.w; const size_t n0 = E._q.n; const bool inq = GQ < n0;
  GSID = w0.t == CmdType_Connect ? w0.c.sid : w0.v.sid;              /* the id the witness command carries (if it is a Connect / Via) */
  const bool xset = E._cbs.onClose.set; const int efd0 = E._eventFd;
  __CPROVER_assume(efd0 >= -1);                      /* a descriptor or -1 */

  drain_residual(&E);

  __CPROVER_assert(IORA_NO_LOCK_HELD(&E) && !E._qmx.held, "L1 no lock left held");
  __CPROVER_assert(E._qClosed && E._q.n == 0, "T1 the command queue is closed and empty: nothing can be queued behind the teardown");
  __CPROVER_assert(E._eventFd == -1 && (efd0 < 0 || (G_close_calls == 1 && G_close_fd == efd0 && G_delEpoll_calls == 1 && G_delEpoll_closes_before == 0)), "T2 the wake-up descriptor is unregistered and closed once, under the queue lock");
  if (inq && (w0.t == CmdType_Connect || w0.t == CmdType_Via)) {
    IORA_CANARY("h_drain_residual: a queued connect");
    __CPROVER_assert(G.cl.closeCb_calls_w == (xset ? 1u : 0u), "SD2 a Connect / Via command still queued at teardown: the id connect() already returned gets exactly one close notification (never none)");
    __CPROVER_assert(!xset || (G.cl.why_w == TransportError_ShuttingDown && !G.cl.locked_w), "SD2b with reason ShuttingDown, no lock held");
  } else {
    __CPROVER_assert(G.cl.closeCb_calls_w == 0, "T3 no close notification for ids that no queued connect carries");
  }
  if (inq && w0.listenerReady.set) { IORA_CANARY("h_drain_residual: a waiting addListener"); }
  __CPROVER_assert(iora_exc == 0, "T4 a promise that cannot be failed (already satisfied) does not stop the teardown");
  IORA_CANARY("h_drain_residual: returns");
}

/* ============================ common set-up of the iterable table ============================ */
static Session *table_any(UdpEngine *E)
{
  IORA_TRUE = 1; G = (struct iora_udp_ghost){0}; memset(&GIT, 0, sizeof(GIT)); iora_exc = 0;
  GPK = nondet_u64(); GSID = nondet_u64(); GFD = nondet_int();
  engine_any(E);
  Session *w = (Session *)malloc(sizeof(Session)); __CPROVER_assume(w != NULL); Session init; *w = init;
  w->closed = nondet_bool(); w->wantWrite = nondet_bool(); w->connectPending = nondet_bool(); w->id = GSID;
  __CPROVER_assume(w->wq.lo <= w->wq.hi && w->lastActivity >= 0 && w->created >= 0 && w->connectStart >= 0 && w->lastWriteProgress >= 0);
  E->_sessions.val = w; E->_sessions.other = &G_OS; G_wit_ptr = w; G_wit_destroyed = false;
  /* iteration ghost: n entries, the witness (if present) at position gpos */
  __CPROVER_assume(E->_sessions.n < ((size_t)1 << 62) && (!E->_sessions.has || E->_sessions.gpos < E->_sessions.n));
  /* INVb for the witness: an index entry that maps to it carries its key */
  __CPROVER_assume(!(E->_peerIndex.has && E->_peerIndex.val == GSID) || (E->_sessions.has && w->pkey == GPK && w->role == Role_ServerPeer && !w->closed));
  W0 = *w; P0.has = E->_sessions.has; P0.closed = E->_atomicStats.closed; P0.cur = E->_atomicStats.sessionsCurrent; P0.idx_has = E->_peerIndex.has; P0.idx_val = E->_peerIndex.val; P0.tag_has = E->_tags.has;
  return w;
}

/* ============================ runGc, UNBOUNDED ============================ */
void h_runGc(void)
{
  UdpEngine E; Session *w = table_any(&E); UdpEngine *self = &E;
  const bool xset = E._cbs.onClose.set; const uint64_t runs0 = E._atomicStats.gcRuns;

  UdpEngine_runGc(&E);

  const MonoTime now = G.misc.now_first;
  const bool due = P0.has && !W0.closed && GC_EXPIRED(&W0, now, E._config);
  __CPROVER_assert(G.misc.now_calls == 1 && IORA_NO_LOCK_HELD(&E) && E._atomicStats.gcRuns == runs0 + 1, "G0 the clock is read once; no lock left held; one run counted");
  if (due) {
    IORA_CANARY("h_runGc: witness session expired");
    __CPROVER_assert(G.cl.closeCb_calls_w == (xset ? 1u : 0u), "G1 an expired open session gets exactly one close notification");
    __CPROVER_assert(!xset || (G.cl.erased_w && G.cl.why_w == TransportError_GCClosed && !G.cl.locked_w), "G2 after it left the table, reason GCClosed, no lock held");
    __CPROVER_assert(!E._sessions.has && G_wit_destroyed, "G3 and is erased (destroyed)");
  } else {
    IORA_CANARY("h_runGc: witness not due");
    __CPROVER_assert(G.cl.closeCb_calls_w == 0 && E._sessions.has == P0.has, "G4 a session that is not expired, already closed or not in the table is neither notified nor erased");
    __CPROVER_assert(!P0.has || (w->closed == W0.closed && w->id == W0.id && w->lastActivity == W0.lastActivity), "G5 nor modified");
    __CPROVER_assert(!(P0.idx_has && P0.idx_val == GSID) || (E._peerIndex.has && E._peerIndex.val == GSID), "G8 (U1) its index entry is left alone whatever else was closed");
  }
  __CPROVER_assert(E._atomicStats.closed - P0.closed == P0.cur - E._atomicStats.sessionsCurrent && (!xset || G.cl.closeCb_total == E._atomicStats.closed - P0.closed),
                   "G7 closed counter, gauge and the number of close notifications move together: one count, one notification per session closed by the sweep");
  __CPROVER_assert(P0.idx_has || !E._peerIndex.has, "G9 no index entry appears");
  IORA_CANARY("h_runGc: returns");
}

/* ============================ shutdownDrain, session part, UNBOUNDED ============================ */
void h_drain(void)
{
  UdpEngine E; Session *w = table_any(&E); UdpEngine *self = &E;
  const bool xset = E._cbs.onClose.set; const bool open = P0.has && !W0.closed;

  drain_sessions(&E);

  __CPROVER_assert(IORA_NO_LOCK_HELD(&E), "L1 no lock left held");
  if (open) {
    IORA_CANARY("h_drain: witness session open");
    __CPROVER_assert(G.cl.closeCb_calls_w == (xset ? 1u : 0u), "D1 every session still open in the table gets exactly one close notification");
    __CPROVER_assert(!xset || (G.cl.flag_w && G.cl.why_w == TransportError_Unknown && !G.cl.locked_w), "D2 it was already marked closed when the application was told; no lock held");
    __CPROVER_assert(!(W0.role == Role_ClientConnected && W0.fd == GFD) || !E._tags.has, "D11 (SD-1) the descriptor tag of a closed client session does not survive the drain");
    __CPROVER_assert(!(W0.role != Role_ClientConnected && W0.pkey == GPK) || !E._peerIndex.has, "D9 (SD-1) the peer index entry of a closed listener-side session does not survive the drain");
  } else {
    __CPROVER_assert(G.cl.closeCb_calls_w == 0, "D3 a session that was already closed (or is not in the table) is not notified (again)");
  }
  __CPROVER_assert(!E._sessions.has && E._sessions.n == 0 && G_wit_destroyed == P0.has, "D4 the table is empty afterwards (every session destroyed)");
  __CPROVER_assert(E._atomicStats.closed == P0.closed + GIT.open_seen && E._atomicStats.sessionsCurrent == P0.cur - GIT.open_seen && (!xset || G.cl.closeCb_total == GIT.open_seen),
                   "D6 closed counter, gauge and notifications move by exactly the number of open sessions met in the table");
  __CPROVER_assert(P0.cur != GIT.open_seen || E._atomicStats.sessionsCurrent == 0, "D7 the gauge returns to zero when it counted exactly the open sessions");
  __CPROVER_assert((P0.idx_has || !E._peerIndex.has) && (P0.tag_has || !E._tags.has), "D10 no index entry or tag appears");
  /* D16: the index invariant udp_recv assumes on entry (INV Ia: an index entry names a session that is in the table, open, listener-side, keyed by that key) holds in the
   * post-state - with the table emptied that means: no entry naming a session this drain closed survives, so after start() the peer's next datagram causes an accept */
  __CPROVER_assert(!(E._peerIndex.has && E._peerIndex.val == GSID) || (E._sessions.has && !w->closed && w->role == Role_ServerPeer && w->pkey == GPK),
                   "D16 shutdownDrain re-establishes the index invariant: _peerIndex holds no entry that points at a session it closed (nothing is dispatched to a dead id after a restart)");
  __CPROVER_assert(!G.cl.gfd_closed || !E._tags.has, "D13 (stale tag) a descriptor that shutdownDrain closed keeps no tag: after a restart the reused fd number cannot be dispatched to a destroyed session");
  __CPROVER_assert(G.cl.gfd_closed || E._tags.has == P0.tag_has, "D14 a descriptor that was not closed keeps its tag (listener-shared sessions: no fd close, no tag erase)");
  __CPROVER_assert(!(open && W0.fd == GFD && W0.role == Role_ClientConnected) || G.cl.gfd_closed, "D15 an open connected-client session has its own descriptor closed (and, D13, its tag erased); a listener-side session closes nothing (bounded cross-check D8)");
  __CPROVER_assert(!(P0.idx_has && P0.idx_val == GSID) || !E._peerIndex.has, "D12 (SD-1, with INV) an index entry naming a session of the table is gone: nothing dispatches to a destroyed session after a restart");
  IORA_CANARY("h_drain: returns");
}
