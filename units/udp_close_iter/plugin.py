"""Unit-local extraction plugin for udp_close_iter.
1. lock-guard scope exit (R11): the shared hook of the UDP units (units/udp_close/plugin.py).
2. drain_residual = the statements of UdpEngine::shutdownDrain from `std::deque<Cmd> residual;` up to (excluding) `if (_epollFd >= 0)`: the command-queue
   teardown and the loop over the residual commands.  Cut by the two anchor statements (each must occur exactly once, in that order); whatever stands between
   them is under contract, so added handling of residual commands is seen.  Nothing is added, removed or reordered."""
import importlib.util
import os

from vt.x2c import ExtractionBreak

_p = os.path.join(os.path.dirname(os.path.abspath(__file__)), '..', 'udp_close', 'plugin.py')
_s = importlib.util.spec_from_file_location('udp_close_plugin', _p)
_m = importlib.util.module_from_spec(_s)
_s.loader.exec_module(_m)
hook_before_loops = _m.hook_before_loops


def _find(t, seq):
    return [i for i in range(len(t) - len(seq) + 1) if all(t[i + k].text == seq[k] for k in range(len(seq)))]


def hook_begin(t, rw):
    if rw.prefix != 'drain_residual':
        return t
    a = _find(t, ['std', '::', 'deque', '<', 'Cmd', '>', 'residual', ';'])
    b = _find(t, ['if', '(', '_epollFd', '>=', '0', ')'])
    if len(a) != 1 or len(b) != 1 or b[0] <= a[0]:
        raise ExtractionBreak(f"drain_residual: anchors `std::deque<Cmd> residual;` ({len(a)}) / `if (_epollFd >= 0)` ({len(b)}) not found exactly once in order")
    rw.R.notes.append(f"drain_residual: shutdownDrain lines {t[a[0]].line}-{t[b[0] - 1].line}")
    return t[a[0]:b[0]]
