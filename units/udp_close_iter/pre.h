/* type environment for unit udp_close_iter: UDP environment with the UNBOUNDED iterable session table (witness + iteration ghost) and the command queue */
#define IORA_UDP_ITERMAP
#define IORA_UDP_CMDQ
#define IORA_RECORD_NOW
#include "iora_udp.h"
/* ghost pre-state, assigned by the harnesses: W0 = the witness session as it was, P0 = engine scalars */
Session W0; Session G_OS;
#define G_OSp ((Session *)&G_OS)       /* G_OS: the scratch object standing for "any session other than the witness" */
struct { bool has; uint64_t closed; size_t cur; bool idx_has; uint64_t idx_val; bool tag_has; } P0;
#define XSET (self->_cbs.onClose.set)
#define GC_EXPIRED(s, now, C) ( ((C).idleTimeout > 0 && (now) - (s)->lastActivity > (C).idleTimeout) || ((C).maxConnAge > 0 && (now) - (s)->created > (C).maxConnAge) \
  || ((C).connectTimeout > 0 && (s)->connectPending && (now) - (s)->connectStart > (C).connectTimeout) \
  || ((C).writeStallTimeout > 0 && (s)->wq.lo != (s)->wq.hi && (now) - (s)->lastWriteProgress > (C).writeStallTimeout) )
#define W_LIVE_UNTOUCHED (!self->_sessions.has || (G_wit_ptr->closed == W0.closed && G_wit_ptr->id == W0.id && G_wit_ptr->lastActivity == W0.lastActivity))
#define COUNTERS_BY(k) (self->_atomicStats.closed == P0.closed + (k) && self->_atomicStats.sessionsCurrent == P0.cur - (k) && (XSET ==> G.cl.closeCb_total == (k)))
#define CLOSE_TARGETS self->_peerIndex, self->_sessions.has, self->_sessions.n, self->_tags, self->_atomicStats.closed, self->_atomicStats.sessionsCurrent, \
  self->_cbMutex.held, self->_sessionRwMutex.held, G.cl, G_OS, G_wit_destroyed, G_wit_ptr->closed

/* runGc, loop 1 (collect): nothing is closed yet; the witness id is in `to` iff the iteration has passed it and it is open and expired */
#define GC_W_DUE (P0.has && !W0.closed && GC_EXPIRED(&W0, now, self->_config))
#define IORA_LOOP_UdpEngine_runGc_1 IORA_LC( \
  __CPROVER_assigns(iora_i, to, G_OS, self->_atomicStats.gcClosedIdle, self->_atomicStats.gcClosedAged) \
  __CPROVER_loop_invariant(iora_i <= self->_sessions.n && to.n <= iora_i && to.has_w == (GC_W_DUE && self->_sessions.gpos < iora_i) && (to.has_w ==> to.wpos < to.n)) \
  __CPROVER_decreases(self->_sessions.n - iora_i))
/* runGc, loop 2 (close): the witness has been closed iff the loop has passed its position in `to`; every effective close moved the counters and fired one callback */
#define GC_W_DONE (to.has_w && to.wpos < iora_j)
#define IORA_LOOP_UdpEngine_runGc_2 IORA_LC( \
  __CPROVER_assigns(iora_j, CLOSE_TARGETS) \
  __CPROVER_loop_invariant(iora_j <= to.n && IORA_NO_LOCK_HELD(self) && (to.has_w ==> (P0.has && !W0.closed && to.wpos < to.n))) \
  __CPROVER_loop_invariant(self->_sessions.has == (P0.has && !GC_W_DONE) && W_LIVE_UNTOUCHED && (self->_sessions.has ==> self->_sessions.n > 0) && G_wit_destroyed == (P0.has && !self->_sessions.has)) \
  __CPROVER_loop_invariant(G.cl.closeCb_calls_w == ((GC_W_DONE && XSET) ? 1u : 0u) && (G.cl.closeCb_calls_w == 1 ==> (G.cl.erased_w && G.cl.why_w == TransportError_GCClosed && !G.cl.locked_w))) \
  __CPROVER_loop_invariant(COUNTERS_BY(self->_atomicStats.closed - P0.closed)) \
  __CPROVER_loop_invariant((!P0.idx_has ==> !self->_peerIndex.has) && (self->_peerIndex.has ==> self->_peerIndex.val == P0.idx_val) && ((P0.idx_has && P0.idx_val == GSID && self->_sessions.has) ==> (self->_peerIndex.has && self->_peerIndex.val == GSID))) \
  __CPROVER_decreases(to.n - iora_j))

/* shutdownDrain, loop 1 (collect pointers) */
#define IORA_LOOP_drain_sessions_1 IORA_LC( \
  __CPROVER_assigns(iora_i, toClose, G_OS) \
  __CPROVER_loop_invariant(iora_i <= self->_sessions.n && toClose.n == iora_i && toClose.has_w == (P0.has && self->_sessions.gpos < iora_i) && (toClose.has_w ==> toClose.wpos == self->_sessions.gpos)) \
  __CPROVER_decreases(self->_sessions.n - iora_i))
/* shutdownDrain, loop 2 (notify): GIT.open_seen = open sessions met so far; each was marked, counted and notified once */
#define SD_W_DONE (toClose.has_w && toClose.wpos < iora_j)
#define IORA_LOOP_drain_sessions_2 IORA_LC( \
  __CPROVER_assigns(iora_j, GIT, self->_peerIndex, self->_tags, self->_atomicStats.closed, self->_atomicStats.sessionsCurrent, self->_cbMutex.held, G.cl, G_wit_ptr->closed, G_OS) \
  __CPROVER_loop_invariant(iora_j <= toClose.n && IORA_NO_LOCK_HELD(self) && self->_sessions.has == P0.has && (toClose.has_w ==> (P0.has && toClose.wpos < toClose.n))) \
  __CPROVER_loop_invariant(!P0.has || (G_wit_ptr->closed == (W0.closed || SD_W_DONE) && G_wit_ptr->id == W0.id)) \
  __CPROVER_loop_invariant(G.cl.closeCb_calls_w == ((SD_W_DONE && !W0.closed && XSET) ? 1u : 0u) && (G.cl.closeCb_calls_w == 1 ==> (G.cl.flag_w && G.cl.why_w == TransportError_Unknown && !G.cl.locked_w))) \
  __CPROVER_loop_invariant(COUNTERS_BY(GIT.open_seen)) \
  __CPROVER_loop_invariant((SD_W_DONE && !W0.closed && W0.role == Role_ClientConnected && W0.fd == GFD) ==> !self->_tags.has) \
  __CPROVER_loop_invariant((SD_W_DONE && !W0.closed && W0.role != Role_ClientConnected && W0.pkey == GPK) ==> !self->_peerIndex.has) \
  __CPROVER_loop_invariant((!P0.idx_has ==> !self->_peerIndex.has) && (!P0.tag_has ==> !self->_tags.has) && (self->_peerIndex.has ==> self->_peerIndex.val == P0.idx_val)) \
  __CPROVER_loop_invariant((G.cl.gfd_closed ==> !self->_tags.has) && (!G.cl.gfd_closed ==> self->_tags.has == P0.tag_has)) \
  __CPROVER_loop_invariant((SD_W_DONE && !W0.closed && W0.fd == GFD && W0.role == Role_ClientConnected) ==> G.cl.gfd_closed) \
  __CPROVER_decreases(toClose.n - iora_j))
/* drain_residual, loop 1: over the residual commands.  Witness command at the arbitrary position GQ (its session id is GSID when it is a Connect/Via):
 * it has been dealt with iff GQ < j - its promise (if any) failed once, and - C02 - an id already handed out by connect()/connectViaListener() notified once. */
/* what the close-callback stub writes (the descriptor part of G.cl is NOT touched by the loop) */
#define CB_GHOSTS G.cl.closeCb_calls, G.cl.closeCb_sid, G.cl.closeCb_erased, G.cl.closeCb_locked, G.cl.closeCb_why, G.cl.closeCb_calls_w, G.cl.erased_w, G.cl.flag_w, G.cl.locked_w, G.cl.why_w, G.cl.closeCb_total
#define RES_W (residual.w)
#define RES_W_CONN (RES_W.t == CmdType_Connect || RES_W.t == CmdType_Via)
#define IORA_LOOP_drain_residual_1 IORA_LC( \
  __CPROVER_assigns(iora_j, residual.other, residual.w.listenerReady, iora_exc, iora_exc_caught, CB_GHOSTS, self->_cbMutex.held) \
  __CPROVER_loop_invariant(iora_j <= residual.n && IORA_NO_LOCK_HELD(self) && !self->_qmx.held && iora_exc == 0) \
  __CPROVER_loop_invariant(RES_W.listenerReady.fulfilled <= ((GQ < iora_j && RES_W.listenerReady.set) ? 1u : 0u) && (RES_W.listenerReady.fulfilled == 1 ==> !RES_W.listenerReady.value)) \
  __CPROVER_loop_invariant(G.cl.closeCb_calls_w == ((GQ < iora_j && GQ < residual.n && RES_W_CONN && self->_cbs.onClose.set) ? 1u : 0u)) \
  __CPROVER_loop_invariant(G.cl.closeCb_calls_w == 1 ==> (G.cl.why_w == TransportError_ShuttingDown && !G.cl.locked_w)) \
  __CPROVER_decreases(residual.n - iora_j))
