// REPLAY adapter for unit timer_service: schedulePeriodic(INTERVAL ns) on the REAL TimerService. For a non-positive interval the
// service thread never leaves collectDueLocked (holding _mutex): the handler never runs and cancel() blocks (finding T2).
#include "iora/core/timer.hpp"
#include "replay_io.h"
#include <atomic>
#include <thread>
#include <unistd.h>
using namespace iora::core;
int main(int argc, char **argv) {
  auto in = replay_io::load(argv[1]);
  if (in.count("MODE") && in["MODE"] == "due") {
    // D0/D1: the due test. One timer 1 h ahead; collectDueLocked(deadline - EARLY_US) under _mutex must not hand its handler out.
    long long early = replay_io::i64(in["EARLY_US"]);
    static TimerService s2;
    auto tp = TimerService::Clock::now() + std::chrono::hours(1);
    auto id = s2.scheduleAt(tp, [] {});
    std::vector<TimerService::Handler> out;
    { std::lock_guard<std::mutex> lk(s2._mutex); s2.collectDueLocked(tp - std::chrono::microseconds(early), out); }
    printf("scheduleAt(now + 1 h) -> id %llu; collectDueLocked(deadline - %lld us) handed out %zu handler(s)\n", (unsigned long long)id, early, out.size()); fflush(stdout);
    if (!out.empty()) { printf("REPLAY-FAIL: D1 not early: a handler was collected %lld us BEFORE its deadline (due test is not tp <= now on the clock's resolution)\n", early); fflush(stdout); _exit(1); }
    printf("REPLAY-OK: nothing collected before the deadline\n"); fflush(stdout); _exit(0);
  }
  if (in.count("MODE") && in["MODE"] == "stop_after_timeout") {
    // ST3: stop() whose internal drain(5000) times out (a handler runs 5.6 s) - afterwards the service reports Stopped; scheduling must be refused.
    static TimerService s3; static std::atomic<bool> started{false}; static std::atomic<int> ran{0};
    s3.scheduleAfter(std::chrono::milliseconds(1), [] { started = true; std::this_thread::sleep_for(std::chrono::milliseconds(5600)); });
    while (!started) std::this_thread::sleep_for(std::chrono::milliseconds(1));
    auto r = s3.stop();
    auto id = s3.scheduleAfter(std::chrono::milliseconds(10), [] { ran++; });
    std::this_thread::sleep_for(std::chrono::milliseconds(300));
    printf("stop() with a 5.6 s handler in flight: success=%d state=%d; then scheduleAfter(10 ms) -> id %llu, handler ran %d times within 300 ms\n", (int)r.success, (int)r.newState, (unsigned long long)id, ran.load()); fflush(stdout);
    if (id != 0 && ran.load() == 0) { printf("REPLAY-FAIL: ST3: a timer was ACCEPTED by a stopped service (id %llu) and is lost - stop() left _accepting set by the timed-out drain()\n", (unsigned long long)id); fflush(stdout); _exit(1); }
    printf("REPLAY-OK: refused\n"); fflush(stdout); _exit(0);
  }
  if (in.count("MODE") && in["MODE"] == "reset_stale_heap") {
    // RS3: a heap item that survives stop() -> reset() -> start() aliases the id of the first timer scheduled after the restart.
    static TimerService s4; static std::atomic<int> ranA{0}; static std::atomic<long long> ranB{-1};
    auto idA = s4.scheduleAfter(std::chrono::milliseconds(400), [] { ranA++; });
    s4.cancel(idA);                                        // lazily discarded: the heap item stays until it is due
    s4.stop(); s4.reset(); s4.start();
    auto t0 = std::chrono::steady_clock::now();
    auto idB = s4.scheduleAfter(std::chrono::milliseconds(3000), [t0] { ranB = std::chrono::duration_cast<std::chrono::milliseconds>(std::chrono::steady_clock::now() - t0).count(); });
    std::this_thread::sleep_for(std::chrono::milliseconds(900));
    printf("timer A id %llu (400 ms) cancelled; stop/reset/start; timer B id %llu (3000 ms): after 900 ms B ran at %lld ms (-1 = pending), heap size %zu\n",
           (unsigned long long)idA, (unsigned long long)idB, ranB.load(), s4._heap.size()); fflush(stdout);
    if (ranB.load() >= 0) { printf("REPLAY-FAIL: RS3: the handler of the 3000 ms timer ran %lld ms after scheduling - collected through the stale heap item of the cancelled timer with the same id\n", ranB.load()); fflush(stdout); _exit(1); }
    printf("REPLAY-OK: not early\n"); fflush(stdout); _exit(0);
  }
  long long INTERVAL = replay_io::i64(in["INTERVAL"]);
  static TimerService svc;
  static std::atomic<int> runs{0};
  static std::atomic<bool> cancelReturned{false};
  auto id = svc.schedulePeriodic(TimerService::Duration(INTERVAL), [] { runs++; });
  printf("schedulePeriodic(%lld ns) -> id %llu\n", INTERVAL, (unsigned long long)id); fflush(stdout);
  if (id == 0) { replay_io::ok("non-positive / invalid interval refused"); _exit(0); }
  std::this_thread::sleep_for(std::chrono::milliseconds(1500));
  int r = runs.load();
  std::thread c([id] { svc.cancel(id); cancelReturned.store(true); });
  c.detach();
  for (int k = 0; k < 200 && !cancelReturned.load(); k++) std::this_thread::sleep_for(std::chrono::milliseconds(10));
  if (!cancelReturned.load()) {
    printf("REPLAY-FAIL: P1/T2: after 1.5 s the periodic handler ran %d times and cancel(%llu) has been blocked for 2 s: the service thread never leaves collectDueLocked (re-armed time never passes now) while holding _mutex\n", r, (unsigned long long)id);
    fflush(stdout); _exit(1);
  }
  printf("REPLAY-OK: handler ran %d times in 1.5 s, cancel returned\n", r); fflush(stdout);
  _exit(0);
}
