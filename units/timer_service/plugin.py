"""Unit-local plugin: a block target that is one loop iteration (R18 step outlining) needs a final `return 0 ;`
(the block's `break ;` / `continue ;` are turned into `return 1 ;` / `return 2 ;` by declared rules)."""
from vt.lexer import lex


def hook_end(tokens, rw):
    extra = rw.fn.get('append_stmt')
    if not extra:
        return None
    add = lex(extra)
    for t in add:
        t.line = tokens[-1].line if tokens else 0
    rw.R.fire('plugin:append_stmt')
    return list(tokens) + add
