/* type environment + ghost state for unit timer_service (TimerService::collectDueLocked / cancel / heap ops).
 * steady_clock::time_point and duration are int64_t counts; Handler (type-erased callable) is an opaque identity. */
#define IORA_NS_PER_MS 1000000
#define IORA_NS_PER_US 1000
typedef struct { int64_t tp; uint64_t handler; bool canceled; } Record;
typedef struct { int64_t tp; uint64_t id; } HeapItem;
typedef struct { uint64_t id; int64_t interval; int64_t nextExecution; bool canceled; uint64_t handler; } PeriodicTimer;
#define Record_DEFAULT ((Record){0, 0, false})
#define HeapItem_DEFAULT ((HeapItem){0, 0})
#define PeriodicTimer_DEFAULT ((PeriodicTimer){0, 0, 0, false, 0})
/* std::swap of two heap items. In the proofs with real heap storage the swap also moves two ghost POSITION TRACKERS (G_ti, G_ti2): "where is the item
 * that started at position P now" - the witness form of "the loops only permute the items" (multiset clauses H3u/H6u). */
size_t G_ti, G_ti2;
#if defined(HEAP_SYMBOLIC) || defined(HEAP_CONCRETE)
#define IORA_TRACK_(g, i, j) if ((g) == (i)) (g) = (j); else if ((g) == (j)) (g) = (i);
#define IORA_SWAP_HeapItem(iora_x, iora_y) do { HeapItem *iora_pa = &(iora_x), *iora_pb = &(iora_y); HeapItem iora_t = *iora_pa; *iora_pa = *iora_pb; *iora_pb = iora_t; \
    size_t iora_i = (size_t)(iora_pa - &self->_heap.a[0]), iora_j = (size_t)(iora_pb - &self->_heap.a[0]); IORA_TRACK_(G_ti, iora_i, iora_j) IORA_TRACK_(G_ti2, iora_i, iora_j) } while (0)
#else
#define IORA_SWAP_HeapItem(a, b) do { HeapItem iora_t = (a); (a) = (b); (b) = iora_t; } while (0)
#endif
enum { TimerError_None = 0, TimerError_ServiceStopped, TimerError_InvalidTimeout, TimerError_ResourceExhausted, TimerError_SystemError };

/* ---- witness-key maps (DESIGN 2.2 iora_map1): state is tracked for ONE arbitrary ghost key GID; a lookup of any other key answers
 *      nondeterministically (a scratch element). Sound for clauses of the form "for every id ...". Iterators are element pointers. ---- */
uint64_t GID;
typedef struct { uint64_t first; Record second; } RecPair;        typedef RecPair *RecIt;
typedef struct { uint64_t first; PeriodicTimer second; } PerPair; typedef PerPair *PerIt;
typedef struct { bool present; RecPair w; RecPair scratch; bool cleared; } iora_recmap;   /* cleared: clear() was called and nothing emplaced since - EVERY key is absent */
typedef struct { bool present; PerPair w; PerPair scratch; bool cleared; } iora_permap;
size_t G_rec_erases, G_rec_emplaces, G_per_erases;
RecPair nondet_RecPair(void); PerPair nondet_PerPair(void);
static inline RecIt iora_recmap_end(iora_recmap *m) { (void)m; return NULL; }
/* ghosts that carry the global invariants to the lookups of the OTHER keys (every instance is an instance of an invariant that is
 * established at the three push sites - scheduleAt, schedulePeriodic, re-arm - which emplace record and heap item with the SAME time):
 *   INV_HR  a heap item (tp, id) whose record exists has tp == record.tp        INV_PR  periodic.nextExecution == record.tp while both exist */
int64_t G_top_tp; uint64_t G_top_id; _Bool G_top_valid;          /* set by _heap.front(): the item collectDueLocked is looking at */
uint64_t G_lr_key; int64_t G_lr_tp; _Bool G_lr_found;            /* last _records.find() */
static inline RecIt iora_recmap_find(iora_recmap *m, uint64_t k)
{
  G_lr_key = k; G_lr_found = 0;
  if (k == GID) { if (m->present) { G_lr_found = 1; G_lr_tp = m->w.second.tp; } return m->present ? &m->w : NULL; }
  if (m->cleared || nondet_bool()) return NULL;
  m->scratch = nondet_RecPair(); m->scratch.first = k;
  if (G_top_valid && k == G_top_id) IORA_ASSUME(m->scratch.second.tp == G_top_tp);          /* INV_HR for the key being collected */
  G_lr_found = 1; G_lr_tp = m->scratch.second.tp;
  return &m->scratch;
}
static inline void iora_recmap_erase(iora_recmap *m, RecIt it)
{
  IORA_ASSERT(it != NULL, "unordered_map::erase(it): dereferenceable iterator");
  G_rec_erases++;
  if (it == &m->w) { IORA_ASSERT(m->present, "erase(it): element is in the map"); m->present = false; }
}
static inline void iora_recmap_emplace(iora_recmap *m, uint64_t k, Record r)
{
  G_rec_emplaces++; m->cleared = false;
  if (k == GID && !m->present) { m->present = true; m->w.first = k; m->w.second = r; }   /* emplace does nothing when the key exists */
}
static inline void iora_recmap_clear(iora_recmap *m) { m->present = false; m->cleared = true; }
static inline void iora_permap_clear(iora_permap *m) { m->present = false; m->cleared = true; }
static inline PerIt iora_permap_end(iora_permap *m) { (void)m; return NULL; }
static inline PerIt iora_permap_find(iora_permap *m, uint64_t k)
{
  if (k == GID) return m->present ? &m->w : NULL;
  if (m->cleared || nondet_bool()) return NULL;
  m->scratch = nondet_PerPair(); m->scratch.first = k;
  IORA_ASSUME(m->scratch.second.interval > 0 && m->scratch.second.interval <= ((int64_t)1 << 61));   /* INV_P for the other keys (see post.c) */
  IORA_ASSUME(m->scratch.second.nextExecution >= -((int64_t)1 << 61) && m->scratch.second.nextExecution <= ((int64_t)1 << 61));
  if (G_lr_found && G_lr_key == k) IORA_ASSUME(m->scratch.second.nextExecution == G_lr_tp);  /* INV_PR for the key just looked up in _records */
  return &m->scratch;
}
static inline void iora_permap_emplace(iora_permap *m, uint64_t k, PeriodicTimer t)
{
  m->cleared = false;
  if (k == GID && !m->present) { m->present = true; m->w.first = k; m->w.second = t; }
}
static inline void iora_permap_erase(iora_permap *m, PerIt it)
{
  IORA_ASSERT(it != NULL, "unordered_map::erase(it): dereferenceable iterator");
  G_per_erases++;
  if (it == &m->w) { IORA_ASSERT(m->present, "erase(it): element is in the map"); m->present = false; }
}

/* ---- std::vector<Handler> out: count + last handler ---- */
typedef struct { size_t n; uint64_t last; } iora_hvec;
static inline void iora_hvec_push_back(iora_hvec *v, uint64_t h) { v->n++; v->last = h; }   /* growth failure = bad_alloc, outside the property */

/* ---- std::vector<HeapItem> _heap ---- */
#ifdef HEAP_CONCRETE
/* bounded stand-in B(7): real storage of 7 items */
#define HEAP_CAP 7
typedef struct { HeapItem a[HEAP_CAP]; size_t n; } iora_heap;
static inline bool iora_heap_empty(const iora_heap *h) { return h->n == 0; }
static inline size_t iora_heap_size(const iora_heap *h) { return h->n; }
static inline HeapItem *iora_heap_at(iora_heap *h, size_t i) { IORA_ASSERT(i < h->n, "vector operator[] index in range"); return &h->a[i]; }
static inline HeapItem *iora_heap_front(iora_heap *h) { IORA_ASSERT(h->n > 0, "front() on non-empty vector"); return &h->a[0]; }
static inline HeapItem *iora_heap_back(iora_heap *h) { IORA_ASSERT(h->n > 0, "back() on non-empty vector"); return &h->a[h->n - 1]; }
static inline void iora_heap_pop_back(iora_heap *h) { IORA_ASSERT(h->n > 0, "pop_back() on non-empty vector"); h->n--; }
static inline void iora_heap_emplace_back(iora_heap *h, HeapItem x) { IORA_ASSERT(h->n < HEAP_CAP, "bounded stand-in: capacity 7"); h->a[h->n] = x; h->n++; }
static inline void iora_heap_clear(iora_heap *h) { h->n = 0; }
#elif defined(HEAP_SYMBOLIC)
/* real storage of SYMBOLIC size (unbounded proofs of the heap ORDER with a ghost witness index GI) */
typedef struct { HeapItem *a; size_t n; } iora_heap;
size_t G_heap_cap;
static inline bool iora_heap_empty(const iora_heap *h) { return h->n == 0; }
static inline size_t iora_heap_size(const iora_heap *h) { return h->n; }
static inline HeapItem *iora_heap_at(iora_heap *h, size_t i) { IORA_ASSERT(i < h->n, "vector operator[] index in range"); return &h->a[i]; }
static inline HeapItem *iora_heap_front(iora_heap *h) { IORA_ASSERT(h->n > 0, "front() on non-empty vector"); return &h->a[0]; }
static inline HeapItem *iora_heap_back(iora_heap *h) { IORA_ASSERT(h->n > 0, "back() on non-empty vector"); return &h->a[h->n - 1]; }
static inline void iora_heap_pop_back(iora_heap *h) { IORA_ASSERT(h->n > 0, "pop_back() on non-empty vector"); h->n--; }
static inline void iora_heap_emplace_back(iora_heap *h, HeapItem x) { IORA_ASSERT(h->n < G_heap_cap, "storage for one more item was provided by the harness"); h->a[h->n] = x; h->n++; }
static inline void iora_heap_clear(iora_heap *h) { h->n = 0; }
#else
/* abstract heap for the step proofs (unbounded size): only the front element and the last pushed element are tracked;
 * heapPop/siftUp are REPLACED by recording contracts there, so no other element is ever read */
typedef struct { size_t n; HeapItem front; HeapItem pushed; size_t pushes; } iora_heap;
/* ghost measure for the termination proof: G_M = sum over ALL heap items of W(item.tp), W(tp) = max(0, now - tp + 1)  (128 bit: no overflow) */
__int128 G_M; int64_t G_now;
#define IORA_W(tp) ((tp) <= G_now ? (__int128)G_now - (__int128)(tp) + 1 : (__int128)0)
static inline bool iora_heap_empty(const iora_heap *h) { return h->n == 0; }
static inline size_t iora_heap_size(const iora_heap *h) { return h->n; }
static inline HeapItem *iora_heap_front(iora_heap *h) { IORA_ASSERT(h->n > 0, "front() on non-empty vector"); G_top_tp = h->front.tp; G_top_id = h->front.id; G_top_valid = 1; return &h->front; }
static inline void iora_heap_emplace_back(iora_heap *h, HeapItem x)
{
  IORA_ASSERT(h->n < (size_t)-1, "vector growth");
  h->pushed = x; h->pushes++;
  G_M += IORA_W(x.tp);                                                   /* definition of the ghost sum: one more item */
  /* emplace_back + siftUp: the minimum of the heap becomes min(old minimum, x) (earliest time, then smallest id) */
  if (h->n == 0 || x.tp < h->front.tp || (x.tp == h->front.tp && x.id < h->front.id)) h->front = x;
  h->n++;
}
static inline void iora_heap_clear(iora_heap *h) { h->n = 0; G_M = 0; }      /* no item, empty sum */
static inline HeapItem *iora_heap_at(iora_heap *h, size_t i) { IORA_ASSERT(0, "abstract heap: element access only in HEAP_CONCRETE proofs"); (void)i; return &h->front; }
static inline HeapItem *iora_heap_back(iora_heap *h) { IORA_ASSERT(0, "abstract heap: element access only in HEAP_CONCRETE proofs"); return &h->front; }
static inline void iora_heap_pop_back(iora_heap *h) { IORA_ASSERT(0, "abstract heap: element access only in HEAP_CONCRETE proofs"); (void)h; }
#endif

typedef struct { bool enableStatistics; bool enableDetailedLogging; } TimerServiceConfig;
typedef struct { int unused; } TimerStats;
typedef struct { bool joinable; } iora_thread;                     /* std::thread _thread */
typedef struct { bool success; int newState; } iora_lcr;          /* common::LifecycleResult without message / stats */
static inline iora_lcr iora_lcr_make(bool s, int st) { iora_lcr r; r.success = s; r.newState = st; return r; }
typedef struct { iora_recmap _records; iora_permap _periodicTimers; iora_heap _heap; TimerServiceConfig _config; TimerStats _stats; bool _accepting; int _mutex;
                 int _lifecycleState; bool _running; iora_thread _thread; uint64_t _nextId; } TimerService;
static inline bool iora_cas_bool(bool *x, bool *expected, bool v) { if ((*x != 0) == (*expected != 0)) { *x = v; return true; } *expected = *x; return false; }
static inline bool iora_cas_int(int *x, int *expected, int v) { if (*x == *expected) { *x = v; return true; } *expected = *x; return false; }
size_t G_ts_seq, G_ts_join_at, G_ts_cleanup_at, G_ts_drains; _Bool G_accepting_at_join; int G_drain_outcome;
static inline bool iora_thread_joinable(iora_thread *t) { return t->joinable; }
static inline void iora_thread_join(iora_thread *t) { t->joinable = false; G_ts_seq++; G_ts_join_at = G_ts_seq; }
size_t G_locks, G_pokes, G_errors; int G_last_error;
static inline void TimerService_poke(TimerService *self) { (void)self; G_pokes++; }
static inline void TimerService_handleError(TimerService *self, int code, const char *msg, int e) { (void)self; (void)msg; (void)e; G_errors++; G_last_error = code; }

/* ---- heap order with a ghost WITNESS index GI (no quantifier): "for arbitrary GI in [1,n): heap[parent(GI)].tp <= heap[GI].tp".
 * The hole `idx` is the only place where the order may be broken; the clauses below are closed under one iteration for a FIXED GI:
 * every instance of the order they need is an instance at GI, parent(GI) or a child of GI (derivation in NOTES.md). ---- */
size_t GI;
#define HPAR(i) (((i) - 1) / 2)
#define HA_(i) (self->_heap.a[i])
#define HLE(i, j) (HA_(i).tp <= HA_(j).tp)
HeapItem G_tv;      /* value of the item tracked by G_ti */
_Bool G_two;        /* the second tracker is in use (a second, different start position) */
#define HTRACK_INV /* the tracked item is still in the vector, unchanged; two tracked items never share a position */ \
  __CPROVER_loop_invariant(G_ti < self->_heap.n && HA_(G_ti).tp == G_tv.tp && HA_(G_ti).id == G_tv.id) \
  __CPROVER_loop_invariant(!G_two || (G_ti2 < self->_heap.n && G_ti2 != G_ti))
#ifdef HEAP_SYMBOLIC
#define IORA_LOOP_TimerService_siftUp_1 IORA_LC( \
  __CPROVER_assigns(idx, G_ti, G_ti2, __CPROVER_object_whole(self->_heap.a)) \
  __CPROVER_loop_invariant(idx < self->_heap.n) \
  HTRACK_INV \
  /* (a) order everywhere except at the hole            */ __CPROVER_loop_invariant((GI >= 1 && GI < self->_heap.n && GI != idx) ==> HLE(HPAR(GI), GI)) \
  /* (b) children of the hole vs. the hole's parent     */ __CPROVER_loop_invariant((GI >= 1 && GI < self->_heap.n && idx >= 1 && HPAR(GI) == idx) ==> HLE(HPAR(idx), GI)) \
  /* (c) order at parent(GI) while the hole is below it */ __CPROVER_loop_invariant((GI >= 1 && GI < self->_heap.n && HPAR(GI) >= 1 && idx > HPAR(GI)) ==> HLE(HPAR(HPAR(GI)), HPAR(GI))) \
  __CPROVER_decreases(idx))
#define HKID_OK(p, c) (!((c) < self->_heap.n) || HLE(p, c))
#define IORA_LOOP_TimerService_siftDown_1 IORA_LC( \
  __CPROVER_assigns(idx, G_ti, G_ti2, __CPROVER_object_whole(self->_heap.a)) \
  __CPROVER_loop_invariant(idx < self->_heap.n && self->_heap.n <= ((size_t)1 << 40)) \
  HTRACK_INV \
  /* (a) order everywhere except hole -> its children    */ __CPROVER_loop_invariant((GI >= 1 && GI < self->_heap.n && HPAR(GI) != idx) ==> HLE(HPAR(GI), GI)) \
  /* (c) hole == GI: GI's children vs. GI's parent       */ __CPROVER_loop_invariant((GI == idx && GI >= 1) ==> (HKID_OK(HPAR(GI), 2 * GI + 1) && HKID_OK(HPAR(GI), 2 * GI + 2))) \
  /* (d) order at GI's children while the hole is above  */ __CPROVER_loop_invariant((idx < GI && GI < self->_heap.n) ==> (HKID_OK(GI, 2 * GI + 1) && HKID_OK(GI, 2 * GI + 2))) \
  __CPROVER_decreases(self->_heap.n - idx))
#else
#define IORA_LOOP_TimerService_siftUp_1 IORA_LC()
#define IORA_LOOP_TimerService_siftDown_1 IORA_LC()
#endif

/* schedulePeriodic guard prefix */
_Bool G_guard_passed; int64_t G_deadline;
static inline int64_t iora_clock_now(void) { int64_t t = nondet_i64(); IORA_ASSUME(t >= 0 && t <= ((int64_t)1 << 61)); return t; }

size_t G_n0, G_pops, G_sifts, G_sift_idx;
/* ---- collectDueLocked, the whole loop: termination. Variant = ghost sum G_M (see above). One continuing iteration pops the front item
 * (tp <= now, weight >= 1) and pushes at most one item whose time is front.tp + interval (INV_HR, INV_PR, D5), interval > 0 (INV_P), so its
 * weight is strictly smaller. The invariant carries the witness id's instances of INV_P / INV_PR / INV_HR and G_M >= W(front) >= 0. ---- */
#if !defined(HEAP_CONCRETE) && !defined(HEAP_SYMBOLIC)
#define LW_(tp) ((tp) <= now ? (__int128)now - (__int128)(tp) + 1 : (__int128)0)
#define IORA_LOOP_TimerService_collectDueLocked_1 IORA_LC( \
  __CPROVER_assigns(self->_records, self->_periodicTimers, self->_heap, out->n, out->last, G_M, G_pops, G_sifts, G_sift_idx, G_rec_erases, G_rec_emplaces, G_per_erases, \
                    G_top_tp, G_top_id, G_top_valid, G_lr_key, G_lr_tp, G_lr_found) \
  __CPROVER_loop_invariant(G_now == now && self->_heap.n <= G_n0) \
  __CPROVER_loop_invariant(G_M >= 0 && (self->_heap.n > 0 ==> G_M >= LW_(self->_heap.front.tp))) \
  __CPROVER_loop_invariant(self->_records.present ==> self->_records.w.first == GID) \
  __CPROVER_loop_invariant(self->_periodicTimers.present ==> (self->_periodicTimers.w.first == GID && self->_periodicTimers.w.second.interval > 0 && self->_periodicTimers.w.second.interval <= ((int64_t)1 << 61))) \
  __CPROVER_loop_invariant((self->_records.present && self->_periodicTimers.present) ==> self->_periodicTimers.w.second.nextExecution == self->_records.w.second.tp) \
  __CPROVER_loop_invariant((self->_heap.n > 0 && self->_heap.front.id == GID && self->_records.present) ==> self->_records.w.second.tp == self->_heap.front.tp) \
  __CPROVER_decreases(G_M))
#else
#define IORA_LOOP_TimerService_collectDueLocked_1 IORA_LC()
#endif

/* environment model of the callee drain(timeoutMs) as seen by stop(): the three outcomes of its text. Outcome 2 (timed out) is the state the extracted
 * recovery block of drain() produces from Draining (proof lifecycle_stop, clause ST0): Running again and ACCEPTING again ("so drain can be retried"). */
static inline iora_lcr TimerService_drain(TimerService *self, uint32_t timeoutMs)
{
  (void)timeoutMs; G_ts_drains++;
  if (self->_lifecycleState != LifecycleState_Running) return iora_lcr_make(false, self->_lifecycleState);
  G_drain_outcome = nondet_bool() ? 1 : 2;
  if (G_drain_outcome == 1) { self->_lifecycleState = LifecycleState_Draining; self->_accepting = false; return iora_lcr_make(true, LifecycleState_Draining); }
  self->_lifecycleState = LifecycleState_Running; self->_accepting = true; return iora_lcr_make(false, LifecycleState_Running);
}
static inline void TimerService_cleanup(TimerService *self) { G_ts_seq++; G_ts_cleanup_at = G_ts_seq; G_accepting_at_join = self->_accepting; }
