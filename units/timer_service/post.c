/* Unit timer_service (property C08, epoll TimerService): clauses written from the property statement
 *   "a handler runs at most once and not before its deadline; the k-th firing of a periodic timer happens no earlier than k intervals
 *    after it was scheduled; if cancel reports success the handler never starts afterwards; if it reports failure the handler has run
 *    or will run exactly once - never silently dropped"
 * for the two routines that decide, under _mutex, what is handed to the runner: collectDueLocked (one loop iteration, R18) and cancel.
 * Map state is tracked for ONE arbitrary ghost id GID (witness key): a clause proved for arbitrary GID holds for every id.
 *
 * State invariant INV (hand-written, about GID):
 *   record(GID) present  ==> key field == GID
 *   periodic(GID) present ==> key field == GID  and  INV_P: interval > 0
 * INV_P is NOT assumed out of thin air: proof periodic_guard shows that schedulePeriodic (the only place that stores a PeriodicTimer;
 * `interval` is never assigned afterwards) goes on to store one only if interval > 0. On the unchanged tree that proof FAILS (finding T2). */

#define TIME_OK(t) ((t) >= -((int64_t)1 << 61) && (t) <= ((int64_t)1 << 61))

#if !defined(HEAP_CONCRETE) && !defined(HEAP_SYMBOLIC)
/* recording contracts that REPLACE the heap maintenance in the step proof (heap order itself: bounded proofs below) */
void TimerService_heapPop_rec(TimerService *self)
__CPROVER_requires(self->_heap.n > 0)
__CPROVER_assigns(G_pops, self->_heap.n, self->_heap.front, G_M)
__CPROVER_ensures(G_pops == __CPROVER_old(G_pops) + 1 && self->_heap.n == __CPROVER_old(self->_heap.n) - 1)
/* ghost sum over the heap items (definition): the front item is removed; a sum of non-negative weights is >= 0 and >= any single term */
__CPROVER_ensures(G_M == __CPROVER_old(G_M) - IORA_W(__CPROVER_old(self->_heap.front.tp)))
__CPROVER_ensures(G_M >= 0 && (self->_heap.n > 0 ==> G_M >= IORA_W(self->_heap.front.tp)))
/* instances, for the new front item, of the heap-side global invariants: INV_HR (witness id) and INV_U (at most one heap item per id: ids are never reused) */
__CPROVER_ensures((self->_heap.n > 0 && self->_heap.front.id == GID && self->_records.present) ==> self->_heap.front.tp == self->_records.w.second.tp)
__CPROVER_ensures(__CPROVER_old(self->_heap.front.id) == GID ==> !(self->_heap.n > 0 && self->_heap.front.id == GID))
;
void TimerService_siftUp_rec(TimerService *self, size_t idx)
__CPROVER_assigns(G_sifts, G_sift_idx)
__CPROVER_ensures(G_sifts == __CPROVER_old(G_sifts) + 1 && G_sift_idx == idx)
;
#endif

#define INV_STATE(S) \
  (S)._records.cleared = false; (S)._periodicTimers.cleared = false; \
  __CPROVER_assume(!(S)._records.present || ((S)._records.w.first == GID && TIME_OK((S)._records.w.second.tp))); \
  __CPROVER_assume(!(S)._periodicTimers.present || ((S)._periodicTimers.w.first == GID && (S)._periodicTimers.w.second.interval > 0 \
                   && (S)._periodicTimers.w.second.interval <= ((int64_t)1 << 61) && TIME_OK((S)._periodicTimers.w.second.nextExecution)));

#if !defined(HEAP_CONCRETE) && !defined(HEAP_SYMBOLIC)
/* ---------------------------------------------------------------------------------------------------------------- */
/* ONE iteration of collectDueLocked's loop, for every state with a non-empty heap (loop condition) satisfying INV    */
void h_collect_step(void)
{
  TimerService S; iora_hvec out; int64_t now = nondet_i64();
  GID = nondet_u64();
  IORA_TRUE = 1; G_pops = 0; G_sifts = 0; G_rec_erases = 0; G_rec_emplaces = 0; G_per_erases = 0; G_top_valid = 0; G_lr_found = 0; G_now = now;
  __CPROVER_assume(G_M >= IORA_W(S._heap.front.tp) && G_M <= ((__int128)1 << 120));      /* ghost sum of the item weights (termination proof): at least the front item's weight */
  __CPROVER_assume(TIME_OK(now) && S._heap.n >= 1 && S._heap.n < ((size_t)1 << 60) && TIME_OK(S._heap.front.tp) && out.n < ((size_t)1 << 60));
  S._heap.pushes = 0;
  INV_STATE(S)
  const bool rp0 = S._records.present, pp0 = S._periodicTimers.present;
  const Record r0 = S._records.w.second; const PeriodicTimer p0 = S._periodicTimers.w.second;
  const HeapItem top0 = S._heap.front; const size_t n0 = out.n, hn0 = S._heap.n;

  int r = TimerService_collectStep(&S, now, &out);
  IORA_CANARY("h_collect_step: returns");

  const bool emitted = out.n == n0 + 1;
  /* D0 */ __CPROVER_assert((r == 1) == (top0.tp > now), "D0 the loop stops exactly when the earliest heap item is later than now");
  /* D1 */ __CPROVER_assert(out.n == n0 || emitted, "D1 one iteration hands out at most one handler");
  /* D1 */ __CPROVER_assert(!emitted || top0.tp <= now, "D1 not early: a handler is handed out only if the popped heap item's time <= now");
  if (r == 1) {
    IORA_CANARY("h_collect_step: break");
    __CPROVER_assert(G_pops == 0 && out.n == n0 && S._heap.n == hn0 && G_rec_erases == 0 && G_per_erases == 0 && G_rec_emplaces == 0
                     && S._records.present == rp0 && S._periodicTimers.present == pp0, "D0 nothing is changed by the iteration that stops the loop");
  } else {
    /* D4 */ __CPROVER_assert(G_pops == 1, "D4 every continuing iteration pops exactly one heap item");
  }
  if (top0.id == GID && r != 1) {
    const bool live = rp0 && !r0.canceled;
    /* D2 */ __CPROVER_assert(emitted == live, "D2 the popped id's handler is handed out iff its record exists and is not canceled (cancel success => never starts; pending => not dropped)");
    /* D2 */ __CPROVER_assert(!emitted || out.last == r0.handler, "D2 the handler handed out is the record's handler");
    /* D3 */ __CPROVER_assert(!rp0 || G_rec_erases == 1, "D3 at most once: the record found is erased before the iteration ends");
    const bool rearm = live && pp0 && !p0.canceled;
    if (rearm) {
      IORA_CANARY("h_collect_step: periodic re-arm");
      /* D5 */ __CPROVER_assert(S._periodicTimers.present && S._periodicTimers.w.second.nextExecution == p0.nextExecution + p0.interval, "D5 periodic re-arm: nextExecution += interval (k-th firing no earlier than k intervals after scheduling)");
      /* D5 */ __CPROVER_assert(S._records.present && S._records.w.second.tp == p0.nextExecution + p0.interval && !S._records.w.second.canceled && S._records.w.second.handler == p0.handler, "D5 the re-armed record carries the new time, the periodic handler, not canceled");
      /* D5 */ __CPROVER_assert(S._heap.pushes == 1 && S._heap.pushed.tp == p0.nextExecution + p0.interval && S._heap.pushed.id == GID && G_sifts == 1 && G_sift_idx == S._heap.n - 1, "D5 exactly one heap item (new time, same id) is pushed and sifted up");
      /* D6 */ __CPROVER_assert(S._periodicTimers.w.second.nextExecution > p0.nextExecution, "D6 progress: a re-armed timer is strictly later than the firing just collected (needs INV_P: interval > 0)");
      __CPROVER_assert(S._periodicTimers.w.second.interval == p0.interval && S._periodicTimers.w.second.handler == p0.handler, "D5 interval and handler of the periodic timer are unchanged");
    } else {
      /* D3 */ __CPROVER_assert(!S._records.present, "D3 without a re-arm the id has no record after the iteration (a second heap item for it is discarded)");
      /* D7 */ __CPROVER_assert(S._heap.pushes == 0 && G_rec_emplaces == 0, "D7 nothing is re-armed for a one-shot, a canceled record or a canceled periodic timer");
      /* D7 */ __CPROVER_assert(!(rp0 && pp0) || !S._periodicTimers.present, "D7 a periodic timer whose record was collected but is not re-armed is erased");
      __CPROVER_assert(rp0 || (S._periodicTimers.present == pp0), "D7 a stale heap item (no record) changes nothing else");
    }
  }
  if (top0.id != GID) {
    /* D8 */ __CPROVER_assert(S._records.present == rp0 && (!rp0 || (S._records.w.second.tp == r0.tp && S._records.w.second.canceled == r0.canceled && S._records.w.second.handler == r0.handler)), "D8 frame: collecting another id leaves this id's record alone");
    /* D8 */ __CPROVER_assert(S._periodicTimers.present == pp0 && (!pp0 || (S._periodicTimers.w.second.nextExecution == p0.nextExecution && S._periodicTimers.w.second.interval == p0.interval && S._periodicTimers.w.second.canceled == p0.canceled)), "D8 frame: collecting another id leaves this id's periodic timer alone");
  }
}

/* ---------------------------------------------------------------------------------------------------------------- */
/* the WHOLE loop of collectDueLocked: termination (loop variant G_M) for any heap size, any number of due / periodic timers */
void h_collect_loop(void)
{
  TimerService S; iora_hvec out; int64_t now = nondet_i64();
  GID = nondet_u64();
  IORA_TRUE = 1; G_pops = 0; G_sifts = 0; G_rec_erases = 0; G_rec_emplaces = 0; G_per_erases = 0; G_top_valid = 0; G_lr_found = 0;
  __CPROVER_assume(TIME_OK(now) && S._heap.n < ((size_t)1 << 60) && (S._heap.n == 0 || TIME_OK(S._heap.front.tp)));
  G_now = now; G_n0 = S._heap.n;
  __CPROVER_assume(G_M >= 0 && G_M <= ((__int128)1 << 120) && (S._heap.n == 0 || G_M >= IORA_W(S._heap.front.tp)));     /* G_M is the sum of the weights of the items */
  INV_STATE(S)
  __CPROVER_assume(!(S._records.present && S._periodicTimers.present) || S._periodicTimers.w.second.nextExecution == S._records.w.second.tp);       /* INV_PR (witness id) */
  __CPROVER_assume(!(S._heap.n > 0 && S._heap.front.id == GID && S._records.present) || S._records.w.second.tp == S._heap.front.tp);                /* INV_HR (witness id) */
  TimerService_collectDueLocked(&S, now, &out);
  IORA_CANARY("h_collect_loop: returns");
  /* T0 */ __CPROVER_assert(S._heap.n == 0 || S._heap.front.tp > now, "T0 collectDueLocked returns only when no heap item is due any more");
  /* T1 */ __CPROVER_assert(G_M >= 0, "T1 the variant is bounded below");
}

/* ---------------------------------------------------------------------------------------------------------------- */
/* establishment of INV_HR / INV_PR at the two schedule-side push sites (the third site, the re-arm, is D5): the statements that store a new
 * timer use ONE time for the record, the heap item and (periodic) nextExecution, and ONE id. `id = ++_nextId` is fresh (trusted: ids never reused). */
void h_store_sites(void)
{
  TimerService S; uint64_t id = nondet_u64(), h = nondet_u64(), fn = nondet_u64(); int64_t t = nondet_i64(), interval = nondet_i64();
  GID = nondet_u64();
  IORA_TRUE = 1; G_sifts = 0; G_now = t; G_M = 0; S._heap.pushes = 0;
  __CPROVER_assume(S._heap.n < ((size_t)1 << 60) && TIME_OK(t));
  __CPROVER_assume(id != GID || (!S._records.present && !S._periodicTimers.present));      /* fresh id */
  const bool rp0 = S._records.present, pp0 = S._periodicTimers.present; const size_t n0 = S._heap.n;
  if (nondet_bool()) {
    TimerService_scheduleAtStore(&S, id, t, h);
    IORA_CANARY("h_store_sites: scheduleAt");
    /* E1 */ __CPROVER_assert(id != GID || (S._records.present && S._records.w.first == id && S._records.w.second.tp == t && !S._records.w.second.canceled && S._records.w.second.handler == h && !S._periodicTimers.present), "E1 scheduleAt stores a live record (time tp, this handler) under the new id");
  } else {
    TimerService_schedulePeriodicStore(&S, id, interval, t, fn, h);
    IORA_CANARY("h_store_sites: schedulePeriodic");
    /* E2 */ __CPROVER_assert(id != GID || (S._records.present && S._records.w.second.tp == t && !S._records.w.second.canceled && S._records.w.second.handler == h), "E2 schedulePeriodic stores a live record with the first deadline");
    /* E3 */ __CPROVER_assert(id != GID || (S._periodicTimers.present && S._periodicTimers.w.first == id && S._periodicTimers.w.second.nextExecution == t && S._periodicTimers.w.second.interval == interval && !S._periodicTimers.w.second.canceled && S._periodicTimers.w.second.handler == fn), "E3 INV_PR established: nextExecution == the record's time; interval as given");
  }
  /* E4 */ __CPROVER_assert(S._heap.pushes == 1 && S._heap.n == n0 + 1 && S._heap.pushed.tp == t && S._heap.pushed.id == id && G_sifts == 1 && G_sift_idx == S._heap.n - 1, "E4 INV_HR established: exactly one heap item (same time, same id) is pushed and sifted up");
  /* E5 */ __CPROVER_assert(id == GID || (S._records.present == rp0 && S._periodicTimers.present == pp0), "E5 frame: other ids are untouched");
}

/* ---------------------------------------------------------------------------------------------------------------- */
void h_cancel(void)
{
  TimerService S; uint64_t id = nondet_u64();
  GID = nondet_u64();                                   /* witness id: arbitrary (plain harness: globals start at 0) */
  IORA_TRUE = 1; G_pokes = 0; G_rec_erases = 0; G_per_erases = 0; G_rec_emplaces = 0; G_top_valid = 0; G_lr_found = 0;
  INV_STATE(S)
  const bool rp0 = S._records.present, pp0 = S._periodicTimers.present;
  const Record r0 = S._records.w.second; const PeriodicTimer p0 = S._periodicTimers.w.second;

  bool ok = TimerService_cancel(&S, id);
  IORA_CANARY("h_cancel: returns");

  if (id == GID) {
    /* X1 */ __CPROVER_assert(ok == ((rp0 && !r0.canceled) || pp0), "X1 cancel reports success iff the id has a live record or a periodic timer");
    if (ok) {
      IORA_CANARY("h_cancel: success");
      /* X2 */ __CPROVER_assert(!S._records.present || S._records.w.second.canceled, "X2 success: the record (if any) is marked canceled before return - collectDueLocked (D2) never hands it out afterwards");
      /* X2 */ __CPROVER_assert(!S._periodicTimers.present, "X2 success: the periodic timer is gone before return - no re-arm afterwards (D5 needs it)");
    } else {
      IORA_CANARY("h_cancel: failure");
      /* X3 */ __CPROVER_assert(!rp0 || r0.canceled, "X3 failure: the id had no live record (already collected, already canceled, or never scheduled)");
      /* X3 */ __CPROVER_assert(S._records.present == rp0 && S._periodicTimers.present == pp0 && G_pokes == 0, "X3 failure changes nothing");
    }
    /* X5 */ __CPROVER_assert(S._records.present == rp0 && (!rp0 || (S._records.w.second.tp == r0.tp && S._records.w.second.handler == r0.handler)), "X5 cancel never erases the record and never changes its time/handler (lazy discard by collectDueLocked)");
    /* X6 */ __CPROVER_assert((G_pokes == 1) == (rp0 && !r0.canceled) && G_pokes <= 1, "X6 the service thread is poked iff a live record was canceled");
  } else {
    /* X4 */ __CPROVER_assert(S._records.present == rp0 && (!rp0 || (S._records.w.second.canceled == r0.canceled && S._records.w.second.tp == r0.tp)) && S._periodicTimers.present == pp0 && (!pp0 || S._periodicTimers.w.second.canceled == p0.canceled),
                              "X4 frame: canceling another id never cancels this one");
  }
}

/* ---------------------------------------------------------------------------------------------------------------- */
/* the comparison the heap is built on: earlier time first; a strict order (loop-free, unbounded) */
void h_less(void)
{
  HeapItem a, b, c; IORA_TRUE = 1;
  IORA_CANARY("h_less: reached");
  /* O1 */ __CPROVER_assert(!(a.tp < b.tp) || (less(&a, &b) && !less(&b, &a)), "O1 an earlier time is always less");
  /* O2 */ __CPROVER_assert(!less(&a, &a) && !(less(&a, &b) && less(&b, &a)), "O2 less is irreflexive and asymmetric");
  /* O3 */ __CPROVER_assert(!(less(&a, &b) && less(&b, &c)) || less(&a, &c), "O3 less is transitive");
  /* O4 */ __CPROVER_assert(less(&a, &b) || less(&b, &a) || (a.tp == b.tp && a.id == b.id), "O4 less is total on distinct (time, id) pairs");
}

/* lifecycle: "scheduling on a stopped service is refused rather than lost". scheduleAt / schedulePeriodic decide on `_accepting` alone (P3/P4),
 * so a service that reports Stopped must not be accepting.                                                                                      */
void h_ts_stop(void)
{
  TimerService S; IORA_TRUE = 1; G_ts_seq = 0; G_ts_join_at = 0; G_ts_cleanup_at = 0; G_ts_drains = 0; G_errors = 0; G_drain_outcome = 0;
  S._accepting = nondet_bool(); S._running = nondet_bool(); S._thread.joinable = nondet_bool();
  __CPROVER_assume(S._lifecycleState >= LifecycleState_Created && S._lifecycleState <= LifecycleState_Reset);
  __CPROVER_assume(!S._accepting || S._lifecycleState == LifecycleState_Running);     /* INV_L: accepting only while Running (initialize() and drain's recovery store both together; drain entry clears both together) */
  /* ST0: what a timed-out drain() leaves behind (extracted recovery block, from the Draining state it is in) */
  if (nondet_bool()) {
    TimerService D = S; D._lifecycleState = LifecycleState_Draining; D._accepting = false;
    TimerService_drainTimeoutRecovery(&D);
    IORA_CANARY("h_ts_stop: drain recovery");
    __CPROVER_assert(D._lifecycleState == LifecycleState_Running && D._accepting, "ST0 a timed-out drain() restores Running and accepting (retry is possible) - the outcome stop() must cope with");
    return;
  }
  /* P4: scheduleAt's lock-free gate */
  if (nondet_bool()) {
    uint64_t r = TimerService_scheduleAtGuard(&S);
    IORA_CANARY("h_ts_stop: scheduleAt gate");
    __CPROVER_assert(S._accepting ? (r == 1 && G_errors == 0) : (r == 0 && G_errors == 1), "P4 scheduleAt refuses (id 0 + error) exactly when the service is not accepting");
    return;
  }
  const int st0 = S._lifecycleState;
  iora_lcr r = TimerService_stop(&S);
  IORA_CANARY("h_ts_stop: stop returns");
  /* ST1 */ __CPROVER_assert(!(st0 == LifecycleState_Stopped || st0 == LifecycleState_Reset) || (!r.success && S._lifecycleState == st0), "ST1 stop() from Stopped/Reset is refused and changes nothing");
  if (r.success) {
    IORA_CANARY("h_ts_stop: stopped");
    if (G_drain_outcome == 2) { IORA_CANARY("h_ts_stop: stopped after a timed-out drain"); }
    /* ST2 */ __CPROVER_assert(r.newState == LifecycleState_Stopped && S._lifecycleState == LifecycleState_Stopped && !S._running, "ST2 a successful stop() ends in Stopped with the run loop told to exit");
    /* ST3 */ __CPROVER_assert(!S._accepting, "ST3 refused rather than lost: a service that reports Stopped is not accepting - whatever its drain attempt did (incl. a timed-out drain, which re-enables accepting)");
    /* ST4 */ __CPROVER_assert(G_ts_cleanup_at == 0 || (G_ts_join_at == 0 ? !S._thread.joinable : G_ts_join_at < G_ts_cleanup_at), "ST4 descriptors are closed only after the service thread was joined");
  }
}

/* reset(): the collect proofs rest on INV_HR ("a heap item whose record exists carries that record's time") and INV_U ("at most one heap item per id,
 * ids are never reused"). reset() restarts the ids (_nextId = 0), so it has to leave NO heap item behind: a surviving item (e.g. of a timer cancelled but
 * not yet due at stop()) would alias the id of a timer scheduled after the restart and run that timer's handler at the stale time - early.           */
void h_ts_reset(void)
{
  TimerService S; IORA_TRUE = 1; GID = nondet_u64();
  S._accepting = nondet_bool(); S._records.present = nondet_bool(); S._periodicTimers.present = nondet_bool(); S._records.cleared = false; S._periodicTimers.cleared = false;
  __CPROVER_assume(S._lifecycleState >= LifecycleState_Created && S._lifecycleState <= LifecycleState_Reset && S._heap.n < ((size_t)1 << 60));
  const int st0 = S._lifecycleState; const uint64_t next0 = S._nextId; const size_t hn0 = S._heap.n; const bool rp0 = S._records.present, pp0 = S._periodicTimers.present, acc0 = S._accepting;
  iora_lcr r = TimerService_reset(&S);
  IORA_CANARY("h_ts_reset: returns");
  /* RS1 */ __CPROVER_assert(r.success == (st0 == LifecycleState_Stopped), "RS1 reset() succeeds exactly from Stopped");
  if (!r.success) {
    IORA_CANARY("h_ts_reset: refused");
    /* RS2 */ __CPROVER_assert(S._lifecycleState == st0 && S._nextId == next0 && S._heap.n == hn0 && S._records.present == rp0 && S._periodicTimers.present == pp0 && !S._records.cleared && !S._periodicTimers.cleared,
                               "RS2 a refused reset() changes nothing");
  } else {
    IORA_CANARY("h_ts_reset: done");
    /* RS3 */ __CPROVER_assert(S._heap.n == 0 || S._nextId == next0, "RS3 INV_U/INV_HR re-established: if the ids restart, NO heap item survives reset() (a stale item would alias a future timer's id and run its handler at the stale time)");
    /* RS4 */ __CPROVER_assert(S._records.cleared && !S._records.present && S._periodicTimers.cleared && !S._periodicTimers.present, "RS4 after reset() the record map and the periodic map are empty (every id)");
    /* RS5 */ __CPROVER_assert(S._heap.n == 0 && S._nextId == 0 && S._lifecycleState == LifecycleState_Reset && r.newState == LifecycleState_Reset, "RS5 clean state: empty heap, ids restart, state Reset");
    /* RS6 */ __CPROVER_assert(S._accepting == acc0, "RS6 reset() does not start accepting (only start()/initialize() does)");
  }
}

/* ---------------------------------------------------------------------------------------------------------------- */
/* INV_P establishment: schedulePeriodic's guard prefix (everything before `auto deadline = Clock::now() + interval;`)  */
void h_periodic_guard(void)
{
  TimerService S; int64_t interval = nondet_i64();
  IORA_TRUE = 1; G_guard_passed = 0; G_errors = 0;
  __CPROVER_assume(TIME_OK(interval));     /* chrono overflow of Clock::now() + interval for |interval| near 2^63: observation O3, not part of C08 */
  uint64_t r = TimerService_schedulePeriodicGuard(&S, interval);
  IORA_CANARY("h_periodic_guard: returns");
  if (G_guard_passed) { IORA_CANARY("h_periodic_guard: accepted"); }
  /* P1 */ __CPROVER_assert(!G_guard_passed || interval > 0, "P1 schedulePeriodic goes on to store a periodic timer only if interval > 0 (INV_P; otherwise the re-armed time never passes now and collectDueLocked does not terminate)");
  /* P2 */ __CPROVER_assert(G_guard_passed || (r == 0 && G_errors == 1), "P2 a refused request returns id 0 and reports an error (refused, not lost)");
  /* P3 */ __CPROVER_assert(S._accepting || !G_guard_passed, "P3 scheduling on a service that is not accepting is refused");
}
#endif

#ifdef HEAP_CONCRETE
/* ---------------------------------------------------------------------------------------------------------------- */
/* bounded stand-in B(7): heap order of siftUp / siftDown / heapPop on up to 7 items (written-out harness, no harness loops) */
HeapItem GX;   /* arbitrary witness value for the multiset clause */
#define HA(S, i) ((S)._heap.a[i])
/* heap order is stated independently of the code's comparison: EARLIEST TIME FIRST (the id tie-break is an implementation detail) */
#define PARENT_OK(S, i) (!((i) < (S)._heap.n) || HA(S, ((i) - 1) / 2).tp <= HA(S, i).tp)
#define HEAP_OK(S) (PARENT_OK(S, 1) && PARENT_OK(S, 2) && PARENT_OK(S, 3) && PARENT_OK(S, 4) && PARENT_OK(S, 5) && PARENT_OK(S, 6))
#define EQX(S, i) (((i) < (S)._heap.n && HA(S, i).tp == GX.tp && HA(S, i).id == GX.id) ? 1 : 0)
#define COUNTX(S) (EQX(S, 0) + EQX(S, 1) + EQX(S, 2) + EQX(S, 3) + EQX(S, 4) + EQX(S, 5) + EQX(S, 6))

void h_heap_pop(void)
{
  TimerService S; IORA_TRUE = 1; GX.tp = nondet_i64(); GX.id = nondet_u64();      /* witness value: arbitrary */
  __CPROVER_assume(S._heap.n <= HEAP_CAP && HEAP_OK(S));
  const size_t n0 = S._heap.n; const HeapItem min0 = S._heap.a[0]; const int c0 = COUNTX(S);
  TimerService_heapPop(&S);
  IORA_CANARY("h_heap_pop: returns");
  /* H1 */ __CPROVER_assert(S._heap.n == (n0 == 0 ? 0 : n0 - 1), "H1 heapPop removes exactly one item (none from an empty heap)");
  /* H2 */ __CPROVER_assert(HEAP_OK(S), "H2 heap order is restored after heapPop");
  /* H3 */ __CPROVER_assert(n0 == 0 || COUNTX(S) == c0 - ((min0.tp == GX.tp && min0.id == GX.id) ? 1 : 0), "H3 the item removed is the old minimum; every other item is kept (multiset, witness value)");
  /* H4 */ __CPROVER_assert(S._heap.n == 0 || S._heap.a[0].tp >= min0.tp, "H4 the new minimum is not earlier than the one removed (items are collected in deadline order)");
}

void h_heap_push(void)
{
  TimerService S; HeapItem x; IORA_TRUE = 1; GX.tp = nondet_i64(); GX.id = nondet_u64();
  __CPROVER_assume(S._heap.n < HEAP_CAP && HEAP_OK(S));
  const size_t n0 = S._heap.n; const int c0 = COUNTX(S);
  iora_heap_emplace_back(&S._heap, x);                       /* the two statements every schedule path performs */
  TimerService_siftUp(&S, iora_heap_size(&S._heap) - 1);
  IORA_CANARY("h_heap_push: returns");
  /* H5 */ __CPROVER_assert(S._heap.n == n0 + 1 && HEAP_OK(S), "H5 heap order holds after emplace_back + siftUp");
  /* H6 */ __CPROVER_assert(COUNTX(S) == c0 + ((x.tp == GX.tp && x.id == GX.id) ? 1 : 0), "H6 exactly the new item is added (multiset, witness value)");
}
#endif

#ifdef IORA_SEARCH
/* SEARCH: concrete interval for REPLAY */
void h_search(void)
{
  TimerService S; int64_t INTERVAL = nondet_i64();
  __CPROVER_assume(INTERVAL >= -1000 && INTERVAL <= 1000);
  IORA_TRUE = 1; G_guard_passed = 0; G_errors = 0;
  (void)TimerService_schedulePeriodicGuard(&S, INTERVAL);
  __CPROVER_assert(!G_guard_passed || INTERVAL > 0, "P1 schedulePeriodic goes on to store a periodic timer only if interval > 0 (INV_P; otherwise the re-armed time never passes now and collectDueLocked does not terminate)");
}
#endif

#ifdef HEAP_SYMBOLIC
/* ---------------------------------------------------------------------------------------------------------------- */
/* UNBOUNDED heap order (any size up to 2^30 items): the precondition "the vector is a heap" is used at the instances the
 * witness needs (GI, parent(GI), children of GI); the postcondition is proved at the arbitrary index GI, hence for every index. */
#define UA(i) (S._heap.a[i])
#define U_OKAT(i, n) (!((i) >= 1 && (i) < (n)) || UA(HPAR(i)).tp <= UA(i).tp)

void h_heap_pop_u(void)
{
  TimerService S; size_t n = nondet_size_t(); IORA_TRUE = 1; GI = nondet_size_t();      /* witness index: arbitrary */
  __CPROVER_assume(n >= 1 && n <= ((size_t)1 << 30) && GI <= ((size_t)1 << 31));      /* (n == 1: the heap just becomes empty - covered by H1 in B(7) and by pop_back's shim) */
  S._heap.a = (HeapItem *)malloc(n * sizeof(HeapItem)); __CPROVER_assume(S._heap.a != NULL); S._heap.n = n; G_heap_cap = n;
  __CPROVER_assume(U_OKAT(GI, n) && U_OKAT(2 * GI + 1, n) && U_OKAT(2 * GI + 2, n));      /* three instances of "is a heap" */
  /* multiset witness: two arbitrary DIFFERENT start positions other than 0 (the minimum, which is the item removed) */
  const size_t P1 = nondet_size_t(), P2 = nondet_size_t(); G_two = nondet_bool();
  __CPROVER_assume(n >= 2 && P1 >= 1 && P1 < n && (!G_two || (P2 >= 1 && P2 < n && P2 != P1)));
  G_ti = P1; G_tv = S._heap.a[P1]; G_ti2 = P2;
  TimerService_heapPop(&S);
  IORA_CANARY("h_heap_pop_u: returns");
  /* H3u */ __CPROVER_assert(G_ti < n - 1 && S._heap.a[G_ti].tp == G_tv.tp && S._heap.a[G_ti].id == G_tv.id, "H3u every item other than the old front is still in the heap after heapPop (position tracker) - any heap size");
  /* H3u */ __CPROVER_assert(!G_two || (G_ti2 < n - 1 && G_ti2 != G_ti), "H3u different items end at different positions: with size n-1 the new contents are exactly the old ones minus the front item (multiset)");
  /* H1u */ __CPROVER_assert(S._heap.n == n - 1, "H1u heapPop removes exactly one item");
  /* H2u */ __CPROVER_assert(U_OKAT(GI, n - 1), "H2u heap order (earliest time first) holds at every index after heapPop - any heap size");
}

void h_heap_push_u(void)
{
  TimerService S; HeapItem x; size_t n = nondet_size_t(); IORA_TRUE = 1; GI = nondet_size_t();
  __CPROVER_assume(n <= ((size_t)1 << 30) && GI <= ((size_t)1 << 31));
  S._heap.a = (HeapItem *)malloc((n + 1) * sizeof(HeapItem)); __CPROVER_assume(S._heap.a != NULL); S._heap.n = n; G_heap_cap = n + 1;
  __CPROVER_assume(U_OKAT(GI, n) && U_OKAT(HPAR(GI), n));                                   /* two instances of "is a heap" */
  /* multiset witness: two arbitrary different start positions in [0, n]; position n is the new item */
  const size_t P1 = nondet_size_t(), P2 = nondet_size_t(); G_two = nondet_bool();
  __CPROVER_assume(P1 <= n && (!G_two || (P2 <= n && P2 != P1)));
  iora_heap_emplace_back(&S._heap, x);
  G_ti = P1; G_tv = S._heap.a[P1]; G_ti2 = P2;
  TimerService_siftUp(&S, iora_heap_size(&S._heap) - 1);
  IORA_CANARY("h_heap_push_u: returns");
  /* H6u */ __CPROVER_assert(G_ti < n + 1 && S._heap.a[G_ti].tp == G_tv.tp && S._heap.a[G_ti].id == G_tv.id && (!G_two || (G_ti2 < n + 1 && G_ti2 != G_ti)),
                             "H6u every old item and the new item are in the heap after emplace_back + siftUp, at different positions (multiset: old + new) - any heap size");
  /* H5u */ __CPROVER_assert(S._heap.n == n + 1 && U_OKAT(GI, n + 1), "H5u heap order (earliest time first) holds at every index after emplace_back + siftUp - any heap size");
}
#endif
