void h(void){}
