/* unit sync_connect: Transport::connectSync (whole function), the `onConnect` engine callback (whole lambda) and the head of the
 * `onClose` engine callback (connectSync suppression + global onClose invocation; block target), property C04.
 * Type environment: shims/iora_tsync.h. This file: ghost engine, the parked-wait model (R11 IORA_WAIT), RAII ParkGuard binding, callback stubs. */
#define EXC_logic_error 1
typedef struct { int x; } iora_host;            /* const std::string &host: opaque */
typedef struct { int x; } iora_addr;            /* const TransportAddress &: opaque */
typedef struct { int code; } iora_errinfo;      /* const TransportErrorInfo &reason: the code (message text dropped, R20) */

Impl *G_impl;
bool G_on_io_thread;
static inline bool iora_on_io_thread(const Impl *im) { (void)im; return G_on_io_thread; }

/* ---- ghost engine. EngineBase contract (engine_base.hpp class comment, ASSUMED here): connect() only enqueues a command and returns a
 * session id (or an error); it performs no I/O and invokes no callback synchronously; close() only enqueues. So neither call changes
 * Transport state. The stubs record how often, for which id and under which lock state Transport issues them. ---- */
SessionId G_conn_sid; bool G_conn_fails; int G_conn_err;
static inline iora_result iora_engine_connect(Impl *im, iora_host host, uint16_t port, int tls)
{
  (void)host; (void)port; (void)tls;
  iora_engine *e = im->engine;
  if (e->connect_calls < 1000) e->connect_calls++;
  e->sync_held_at_connect = im->syncMutex.held;
  if (G_conn_fails) return iora_result_err(G_conn_err);
  e->connect_sid = G_conn_sid;
  return iora_result_ok(G_conn_sid);
}
unsigned G_unlocks;          /* lk.unlock() calls so far */
static inline bool iora_engine_close(Impl *im, SessionId sid)
{
  iora_engine *e = im->engine;
  if (e->close_calls < 1000) e->close_calls++;
  e->closed_sid = sid; e->sync_held_at_close = im->syncMutex.held;
  return nondet_bool();
}

/* ---- std::make_shared<SyncConnectOp>(): one fresh object supplied by the harness, initialised with the default member initialisers
 * of struct SyncConnectOp: done{false}, result{err(Timeout, "pending")} ---- */
SyncConnectOp *G_fresh_op; unsigned G_made;
static inline SyncConnectOp *iora_make_sco(Impl *im)
{
  IORA_ASSERT(G_made == 0, "at most one allocation per call (harness supplies one object)");
  G_made++;
  SyncConnectOp *o = G_fresh_op;
  o->cv.n_one = 0; o->cv.n_all = 0; o->done = false; o->abandoned = false; o->result = iora_result_err(TransportError_Timeout); o->guard = &im->syncMutex;
  return o;
}

/* ---- Impl::ParkGuard (see unit sync_receive): reference members bound here, ctor/dtor BODIES extracted ---- */
typedef struct { size_t *counter_ref; iora_cv *teardownCv; const iora_mutex *guard; } iora_parkguard;
static inline void ParkGuard_ctor_body(iora_parkguard *self);
static inline void ParkGuard_dtor(iora_parkguard *self);
static inline size_t *iora_pg_counter(iora_parkguard *g)
{ IORA_ASSERT(g->guard->held, "LK3 park counter (activeConnects) modified with syncMutex held"); return g->counter_ref; }
static inline iora_parkguard iora_parkguard_make(size_t *c, iora_cv *tcv, const iora_mutex *m)
{ iora_parkguard g = { c, tcv, m }; ParkGuard_ctor_body(&g); return g; }
static inline void iora_parkguard_dtor(iora_parkguard *g) { ParkGuard_dtor(g); }

static inline void iora_rmmap_havoc_other(iora_rmmap *m) { (void)m; }
static inline void iora_rbmap_havoc_other(iora_rbmap *m) { (void)m; }
/* the waiter record of a session other than the witness: some not-yet-completed record (completed records are erased from the map) */
static inline void iora_pcmap_havoc_other(iora_pcmap *m)
{ SyncConnectOp *o = m->other; o->done = false; o->result = iora_result_err(nondet_int()); o->cv.n_one = 0; o->cv.n_all = 0; }

/* ---- R11: the parked wait and the unlock window.
 * While connectSync does not hold syncMutex (inside cv.wait_for, and between lk.unlock() and lk.lock()) the I/O thread may run the
 * engine callbacks for the session: an ENVIRONMENT STEP. Its effect on the waiter record is exactly what the onConnect / onClose
 * contracts proved in this unit (h_onconnect, h_onclose) guarantee for a registered session:
 *     not completed  --onConnect-->  result = ok(sid), done = true, map entry erased
 *     not completed  --onClose--->   result = err(reason), done = true, map entry erased
 *     completed: no further change (the entry is gone, so both callbacks take the global path)
 * plus: teardown may set shuttingDown (sticky); other connectSync callers change activeConnects (it stays >= 1: this caller is counted).
 * LIN1 = state when the wait returned, LIN2 = state after lk.lock() re-acquired the mutex (only on the timeout path). ---- */
typedef struct { bool valid; bool waited; bool done; iora_result result; bool sd; bool registered; size_t activeConnects; unsigned td_one; unsigned close_calls; } sc_lin;
sc_lin LIN1, LIN2;
bool G_sid_is_w;          /* ghost: the session id returned by engine->connect is the witness key */
unsigned G_env_ok;        /* ghost: number of environment steps in which onConnect completed the attempt */
static inline void sc_env_step(Impl *im, SyncConnectOp *op)
{
  bool sd = nondet_bool(); size_t ac = nondet_size_t();
  IORA_ASSUME((!im->shuttingDown || sd) && ac >= 1 && ac < (size_t)-1);
  im->shuttingDown = sd; im->activeConnects = ac; im->teardownCv.n_one = nondet_int() & 1023;
  if (!op->done && nondet_bool())
  {
    op->done = true;
    if (nondet_bool()) { op->result = iora_result_ok(G_conn_sid); G_env_ok++; } else { op->result = iora_result_err(nondet_int()); }
    op->cv.n_one = 1;
    if (G_sid_is_w) im->pendingConnects.present = 0;
  }
}
static inline void sc_snapshot(const Impl *im, const SyncConnectOp *op, sc_lin *L)
{
  L->valid = 1; L->done = op->done; L->result = op->result; L->sd = im->shuttingDown; L->activeConnects = im->activeConnects;
  L->registered = im->pendingConnects.present && im->pendingConnects.wval == op; L->td_one = im->teardownCv.n_one; L->close_calls = im->engine->close_calls;
}
/* cv.wait_for(lk, t, pred)  ==  while (!pred()) if (timed out) return pred(); return true;   (the code discards the result) */
#define IORA_CV_WAIT_FOR(o, l, P) \
  IORA_ASSERT((l).owns && (l).m->held && (l).m == &_impl->syncMutex, "LK4 condition-variable wait with syncMutex owned"); \
  IORA_ASSERT(!G_sid_is_w || (_impl->pendingConnects.present && _impl->pendingConnects.wval == (o)), "REG1 pendingConnects[sid] is registered before the lock is released for the first time"); \
  IORA_ASSERT(G_unlocks == 0 && _impl->engine->sync_held_at_connect, "REG2 syncMutex is held continuously from engine->connect() until the wait begins"); \
  if (!(P)) { sc_env_step(_impl, o); LIN1.waited = 1; } \
  sc_snapshot(_impl, o, &LIN1)
bool G_abandoned_at_unlock;   /* ghost: value of op->abandoned when connectSync released the lock for engine->close() */
static inline void sc_ulock_unlock(iora_ulock *l)
{ G_abandoned_at_unlock = G_fresh_op->abandoned; iora_ulock_unlock(l); if (G_unlocks < 1000) G_unlocks++; }
static inline void sc_ulock_lock(iora_ulock *l)
{
  /* other threads ran while the mutex was free */
  sc_env_step(G_impl, G_fresh_op);
  iora_ulock_lock(l);
  sc_snapshot(G_impl, G_fresh_op, &LIN2);
}

/* ---- R21: the user's global ConnectCallback / CloseCallback. Count invocations, record the session id; HR-6 asserted. ---- */
unsigned G_cb_calls; SessionId G_cb_sid; int G_cb_code;
static inline void iora_call_ConnectCallback(Impl *im, iora_fn f, SessionId sid, iora_addr a)
{
  (void)a;
  IORA_ASSERT(f.set, "CB1 an empty std::function is never invoked (bad_function_call)");
  IORA_ASSERT(!im->syncMutex.held && !im->callbackMutex.held, "CB2 user callback invoked with no Transport lock held (HR-6)");
  if (G_cb_calls < 1000) G_cb_calls++;
  G_cb_sid = sid;
}
static inline void iora_call_CloseCallback(Impl *im, iora_fn f, SessionId sid, iora_errinfo reason)
{
  IORA_ASSERT(f.set, "CB1 an empty std::function is never invoked (bad_function_call)");
  IORA_ASSERT(!im->syncMutex.held && !im->callbackMutex.held, "CB2 user callback invoked with no Transport lock held (HR-6)");
  if (G_cb_calls < 1000) G_cb_calls++;
  G_cb_sid = sid; G_cb_code = reason.code;
}

/* ---- ITransport::connectSyncCancellable: a retry loop around connectSync with sub-timeouts of at most 100 ms.
 * connectSync is replaced by its CONTRACT (proved above, h_connect): each call either returns ok(sid) for a live session it did not close (C1/C2), or
 * Timeout after having issued engine->close() for the id it obtained (L1/L2), or another definite error with nothing left behind (entry fence: nothing
 * obtained; failed attempt: the engine closed it). G_open counts sessions obtained by this cancellable call that are open and not closed by it. ---- */
typedef struct { int x; } ITransport;
typedef struct { bool cancelled; } iora_token;
int64_t G_clock; unsigned G_attempts; size_t G_open; uint64_t G_last_sid; bool G_cancel_seen; int G_last_err;
/* steady_clock::now(): monotone, otherwise arbitrary */
static inline int64_t iora_now_ms(void) { int64_t d = nondet_i64(); IORA_ASSUME(d >= 0 && d <= ((int64_t)1 << 40) && G_clock <= ((int64_t)1 << 41)); G_clock += d; return G_clock; }
/* token.isCancelled(): another thread may cancel at any time; cancellation is sticky */
static inline bool iora_token_isCancelled(iora_token *t) { if (!t->cancelled && nondet_bool()) t->cancelled = 1; if (t->cancelled) G_cancel_seen = 1; return t->cancelled; }
static inline iora_result ITransport_connectSync(ITransport *self, iora_host h, uint16_t port, int tls, int64_t subTimeout)
{
  (void)self; (void)h; (void)port; (void)tls; (void)subTimeout;
  if (G_attempts < 1000000) G_attempts++;
  int k = nondet_int();
  if (k == 0) { G_last_sid = nondet_u64(); G_open++; return iora_result_ok(G_last_sid); }
  if (k == 1) return iora_result_err(TransportError_Timeout);
  int c = nondet_int(); IORA_ASSUME(c != TransportError_Timeout); G_last_err = c; return iora_result_err(c);
}
#if !defined(IORA_CANARIES)
#undef IORA_CANARY_LOOP
#define IORA_CANARY_LOOP(msg) ((void)0)
#endif
#define IORA_LOOP_ITransport_connectSyncCancellable_1 IORA_LC( \
  __CPROVER_assigns(remaining, subTimeout, result, G_clock, G_attempts, G_open, G_last_sid, G_last_err, G_cancel_seen, token->cancelled) \
  __CPROVER_loop_invariant(G_open == 0 && !result.ok && result.code == TransportError_Timeout && G_attempts >= 1 && G_clock >= 0) \
  __CPROVER_loop_invariant((token->cancelled == 0 || token->cancelled == 1) && (G_cancel_seen == 0 || G_cancel_seen == 1) && (!G_cancel_seen || token->cancelled)))
