/* Contracts of Transport::connectSync and of the onConnect / onClose engine callbacks, written from property C04:
 *   "A synchronous connect returns success only with the identifier of a session that completed its handshake and that the transport has
 *    not itself closed on behalf of that call; otherwise it returns a definite error (refused, unresolved, timed out, cancelled, shutting
 *    down) ... The global connect and close callbacks are never invoked for a session a synchronous connect did not hand to its caller,
 *    and a timed-out or cancelled attempt leaves no open connection behind."
 *
 * All three targets are loop-free: each harness is a COMPLETE proof over the full domain (any Impl state, any id returned by the engine,
 * any outcome of the two lock-free windows allowed by the callbacks' own contracts - see sc_env_step in pre.h).
 * W = witness key of pendingConnects (arbitrary): sid == W gives the map clauses for every session, sid != W the frame for the others. */
static void wire(Impl *impl, SyncConnectOp *wop, SyncConnectOp *oop, SyncConnectOp *fresh, iora_engine *eng, SessionId W)
{
  G_impl = impl; impl->engine = eng; G_fresh_op = fresh; G_made = 0; G_cb_calls = 0; G_unlocks = 0; G_env_ok = 0;
  LIN1.valid = 0; LIN1.waited = 0; LIN2.valid = 0; LIN2.waited = 0;
  eng->connect_calls = 0; eng->close_calls = 0; eng->sync_held_at_connect = 0; eng->sync_held_at_close = 0;
  impl->syncMutex.held = 0; impl->callbackMutex.held = 0;       /* the thread enters holding no Transport lock */
  impl->readModes.guard = &impl->syncMutex; impl->receiveBuffers.guard = &impl->syncMutex; impl->pendingConnects.guard = &impl->syncMutex;
  impl->pendingConnects.wkey = W; impl->pendingConnects.wval = wop; impl->pendingConnects.other = oop;
  wop->guard = &impl->syncMutex; oop->guard = &impl->syncMutex;
  /* _Bool members of the nondeterministic structs: only 0 / 1 */
  impl->shuttingDown = nondet_bool(); impl->pendingConnects.present = nondet_bool();
  impl->onConnectCb.set = nondet_bool(); impl->onCloseCb.set = nondet_bool();
  wop->done = nondet_bool(); wop->result.ok = nondet_bool();
  __CPROVER_assume(wop->cv.n_one < 1000 && impl->teardownCv.n_one < 1000);
}
#define SAME_OP(a, b) ((a).done == (b).done && (a).result.ok == (b).result.ok && (a).result.value == (b).result.value && (a).result.code == (b).result.code && (a).cv.n_one == (b).cv.n_one)

void h_connect(void)
{
  Impl impl; SyncConnectOp wop, oop, fresh; iora_engine eng; Impl *self = &impl;
  SessionId W = nondet_u64();
  wire(&impl, &wop, &oop, &fresh, &eng, W);
  G_abandoned_at_unlock = 0;
  iora_host host; uint16_t port; int tls; iora_time timeout;
  G_on_io_thread = nondet_bool(); G_conn_sid = nondet_u64(); G_conn_fails = nondet_bool(); G_conn_err = nondet_int();
  G_sid_is_w = (G_conn_sid == W);
  impl.config.protocol = nondet_u8(); __CPROVER_assume(impl.config.protocol <= Protocol_UDP);
  __CPROVER_assume(impl.activeConnects < (size_t)-1);               /* fewer than 2^64 parked threads */
  /* the engine hands out fresh session ids: the id it returns is not yet registered by another connectSync */
  __CPROVER_assume(!(G_sid_is_w && impl.pendingConnects.present));
  iora_exc = EXC_NONE;
  Impl impl0 = impl; SyncConnectOp wop0 = wop;
  SessionId sid = G_conn_sid;

  iora_result r = Transport_connectSync(self, host, port, tls, timeout);
  IORA_CANARY("h_connect: returns");

  __CPROVER_assert(!impl.syncMutex.held && !impl.callbackMutex.held, "LK5 no Transport lock is held when connectSync returns");
  __CPROVER_assert(G_cb_calls == 0, "CB0 connectSync itself invokes no user callback");
  __CPROVER_assert(SAME_OP(wop, wop0), "F0 the waiter record of every other pending connect is untouched");
  if (G_on_io_thread)
  {
    IORA_CANARY("h_connect: on the I/O thread");
    __CPROVER_assert(iora_exc == EXC_logic_error && eng.connect_calls == 0 && eng.close_calls == 0 && impl.pendingConnects.present == impl0.pendingConnects.present
                     && impl.activeConnects == impl0.activeConnects, "IO1 called on the I/O thread: logic_error, nothing issued, nothing registered");
    return;
  }
  __CPROVER_assert(iora_exc == EXC_NONE, "X0 no exception otherwise");
  if (impl0.config.protocol == Protocol_UDP)
  {
    IORA_CANARY("h_connect: UDP");
    __CPROVER_assert(eng.connect_calls == 1 && eng.close_calls == 0 && r.ok == !G_conn_fails && (!r.ok || r.value == sid) && (r.ok || r.code == G_conn_err)
                     && impl.pendingConnects.present == impl0.pendingConnects.present && impl.activeConnects == impl0.activeConnects && G_made == 0,
                     "U1 UDP: the engine's immediate result is returned, nothing is registered or counted");
    return;
  }
  if (impl0.shuttingDown)
  {
    IORA_CANARY("h_connect: entry fence");
    __CPROVER_assert(!r.ok && r.code == TransportError_ShuttingDown && eng.connect_calls == 0 && eng.close_calls == 0
                     && impl.pendingConnects.present == impl0.pendingConnects.present && impl.activeConnects == impl0.activeConnects,
                     "E1 entry fence: ShuttingDown, engine->connect() is not issued, nothing is registered or counted");
    return;
  }
  __CPROVER_assert(eng.connect_calls == 1 && eng.sync_held_at_connect, "K1 engine->connect() is issued exactly once, with syncMutex held (register-before-completion)");
  if (G_conn_fails)
  {
    IORA_CANARY("h_connect: synchronous engine failure");
    __CPROVER_assert(!r.ok && r.code == G_conn_err && eng.close_calls == 0 && impl.pendingConnects.present == impl0.pendingConnects.present && impl.activeConnects == impl0.activeConnects,
                     "K2 a synchronous engine failure is returned as is; nothing is registered, counted or closed");
    return;
  }
  /* ---- parked ---- */
  __CPROVER_assert(LIN1.valid && G_made == 1, "P0 the wait was reached with a fresh waiter record");
  bool timed_out = !LIN1.done && !LIN1.sd;         /* the wait returned with neither completion nor teardown: the timeout */
  /* success */
  __CPROVER_assert(!r.ok || (LIN1.done && LIN1.result.ok && LIN1.result.value == sid && r.value == sid), "C1 ok only on the done branch, with the result onConnect stored for exactly this session id");
  __CPROVER_assert(!r.ok || eng.close_calls == 0, "C2 ok only if connectSync has not issued engine->close(sid)");
  __CPROVER_assert(eng.close_calls == 0 || !r.ok, "C3 once engine->close(sid) is issued the result is an error on every path (even if onConnect completed in the unlock window)");
  __CPROVER_assert(!(LIN1.done && LIN1.result.ok) || (r.ok && r.value == sid), "C4 a connect completed before the timeout is returned as ok(sid)");
  /* definite errors */
  __CPROVER_assert(!(LIN1.done && !LIN1.result.ok) || (!r.ok && r.code == LIN1.result.code), "R1 a failed attempt returns the reason onClose delivered");
  __CPROVER_assert(!(!LIN1.done && LIN1.sd) || (!r.ok && r.code == TransportError_ShuttingDown && eng.close_calls == 0), "R2 woken by teardown: ShuttingDown, engine->close() is not touched");
  __CPROVER_assert(!timed_out || (!r.ok && (r.code == TransportError_Timeout || (r.code == TransportError_ShuttingDown && LIN2.sd))), "R3 timeout: Timeout (or ShuttingDown if teardown began in the unlock window)");
  /* no connection left behind */
  __CPROVER_assert((eng.close_calls == 1) == timed_out && eng.close_calls <= 1, "L1 engine->close() is issued exactly on the timeout path, once");
  __CPROVER_assert(eng.close_calls == 0 || (eng.closed_sid == sid && !eng.sync_held_at_close), "L2 ... for the session id engine->connect() returned, with syncMutex released");
  /* history link (monitor invariant J, see h_onconnect J1): the waiter record is marked abandoned - under the lock - before connectSync releases the
   * lock to issue engine->close(sid); it is never marked on any other path */
  __CPROVER_assert(eng.close_calls == 0 || (G_abandoned_at_unlock && fresh.abandoned), "J0 timeout path: the record is marked abandoned before the lock is released for engine->close()");
  __CPROVER_assert(timed_out || !fresh.abandoned, "J0b the record is marked abandoned only on the timeout path");
  /* registration */
  if (G_sid_is_w)
  {
    IORA_CANARY("h_connect: witness session");
    __CPROVER_assert(!timed_out || (LIN2.valid && LIN1.registered && LIN2.registered == !LIN2.done), "M1 timeout path: pendingConnects[sid] is left in place across engine->close() - until a late onConnect/onClose consumes it - so that those stay suppressed");
    __CPROVER_assert(!impl.pendingConnects.present || impl.pendingConnects.wval == &fresh, "M2 the entry, while present, maps to this call's waiter record");
    __CPROVER_assert(impl.pendingConnects.present == (LIN2.valid ? LIN2.registered : LIN1.registered), "M3 connectSync never erases the entry itself (only the I/O-thread callbacks do)");
  }
  else
  {
    IORA_CANARY("h_connect: other session");
    __CPROVER_assert(impl.pendingConnects.present == impl0.pendingConnects.present && impl.pendingConnects.wval == &wop, "F3 the entry of every other session is untouched");
  }
  /* teardown gate */
  __CPROVER_assert(impl.activeConnects == (LIN2.valid ? LIN2.activeConnects : LIN1.activeConnects) - 1, "G1 activeConnects is incremented while parked and restored at every exit");
  __CPROVER_assert(impl.teardownCv.n_one == (LIN2.valid ? LIN2.td_one : LIN1.td_one) + 1, "G2 the teardown gate is notified");
  if (r.ok) { IORA_CANARY("h_connect: ok"); }
  if (timed_out) { IORA_CANARY("h_connect: timeout"); }
  if (timed_out && LIN2.done && LIN2.result.ok) { IORA_CANARY("h_connect: late onConnect in the unlock window"); }
  if (LIN1.done && !LIN1.result.ok) { IORA_CANARY("h_connect: failed"); }
  if (!LIN1.done && LIN1.sd) { IORA_CANARY("h_connect: teardown wake"); }
}

/* ---- onConnect (whole lambda) ---- */
void h_onconnect(void)
{
  Impl impl; SyncConnectOp wop, oop, fresh; iora_engine eng; Impl *self = &impl;
  SessionId W = nondet_u64(), sid = nondet_u64(); iora_addr addr;
  wire(&impl, &wop, &oop, &fresh, &eng, W);
  /* a registered record is not completed yet (completion erases the entry, see S3 below) */
  __CPROVER_assume(!impl.pendingConnects.present || !wop.done);
  wop.abandoned = nondet_bool();      /* history: the registering connectSync has already taken its timeout path (see shims/iora_tsync.h) */
  Impl impl0 = impl; SyncConnectOp wop0 = wop;
  Impl_onConnect(self, sid, addr);
  IORA_CANARY("h_onconnect: returns");
  __CPROVER_assert(!impl.syncMutex.held && !impl.callbackMutex.held, "LK5 no Transport lock is held when the handler returns");
  __CPROVER_assert(impl.shuttingDown == impl0.shuttingDown && impl.activeConnects == impl0.activeConnects && eng.connect_calls == 0 && eng.close_calls == 0, "F1 teardown state untouched, no engine command issued");
  if (sid != W)
  {
    IORA_CANARY("h_onconnect: other session");
    __CPROVER_assert(SAME_OP(wop, wop0) && impl.pendingConnects.present == impl0.pendingConnects.present && impl.pendingConnects.wval == &wop, "F3 record and entry of every other session untouched");
    return;
  }
  if (impl0.pendingConnects.present)
  {
    IORA_CANARY("h_onconnect: pending connectSync");
    __CPROVER_assert(G_cb_calls == 0, "S1 pendingConnects contains sid ==> the global onConnect callback is NOT invoked");
    if (!wop0.abandoned)
    {
      IORA_CANARY("h_onconnect: waiter parked");
      __CPROVER_assert(wop.done && wop.result.ok && wop.result.value == sid, "S2 ... the waiter's result is ok(sid), done is set");
      __CPROVER_assert(!impl.pendingConnects.present, "S3 ... and the entry is erased");
      __CPROVER_assert(wop.cv.n_one == wop0.cv.n_one + 1, "S4 ... and the waiter is notified");
    }
    else
    {
      /* monitor invariant J of C04: a session created by connectSync and NOT handed to its caller keeps its pendingConnects entry until its
       * onClose has been delivered - otherwise that onClose (for the engine->close(sid) connectSync issued) reaches the GLOBAL onClose callback */
      IORA_CANARY("h_onconnect: late completion after the timeout");
      __CPROVER_assert(impl.pendingConnects.present && impl.pendingConnects.wval == &wop, "J1 late onConnect after the caller timed out: the pendingConnects entry must survive until onClose (else the global onClose fires for a session never handed out)");
    }
  }
  else
  {
    IORA_CANARY("h_onconnect: ordinary session");
    __CPROVER_assert(G_cb_calls == (impl0.onConnectCb.set ? 1 : 0) && (!impl0.onConnectCb.set || G_cb_sid == sid), "N1 not a connectSync session: the global callback is invoked exactly once (iff registered) for sid");
    __CPROVER_assert(SAME_OP(wop, wop0) && !impl.pendingConnects.present, "N2 ... and no waiter record or map entry is touched");
  }
}

/* ---- head of onClose (connectSync suppression + global onClose; the rest of the lambda is not under contract here) ---- */
void h_onclose(void)
{
  Impl impl; SyncConnectOp wop, oop, fresh; iora_engine eng; Impl *self = &impl;
  SessionId W = nondet_u64(), sid = nondet_u64(); iora_errinfo reason;
  wire(&impl, &wop, &oop, &fresh, &eng, W);
  __CPROVER_assume(!impl.pendingConnects.present || !wop.done);
  Impl impl0 = impl; SyncConnectOp wop0 = wop;
  Impl_onClose_head(self, sid, reason);
  IORA_CANARY("h_onclose: returns");
  __CPROVER_assert(!impl.syncMutex.held && !impl.callbackMutex.held, "LK5 no Transport lock is held when the handler returns");
  __CPROVER_assert(impl.shuttingDown == impl0.shuttingDown && impl.activeConnects == impl0.activeConnects && eng.connect_calls == 0 && eng.close_calls == 0, "F1 teardown state untouched, no engine command issued");
  if (sid != W)
  {
    IORA_CANARY("h_onclose: other session");
    __CPROVER_assert(SAME_OP(wop, wop0) && impl.pendingConnects.present == impl0.pendingConnects.present && impl.pendingConnects.wval == &wop, "F3 record and entry of every other session untouched");
    return;
  }
  if (impl0.pendingConnects.present)
  {
    IORA_CANARY("h_onclose: pending connectSync");
    __CPROVER_assert(G_cb_calls == 0, "S1 pendingConnects contains sid ==> the global onClose callback is NOT invoked");
    __CPROVER_assert(wop.done && !wop.result.ok && wop.result.code == reason.code, "S2 ... the waiter's result is err(reason), done is set");
    __CPROVER_assert(!impl.pendingConnects.present, "S3 ... and the entry is erased");
    __CPROVER_assert(wop.cv.n_one == wop0.cv.n_one + 1, "S4 ... and the waiter is notified");
  }
  else
  {
    IORA_CANARY("h_onclose: ordinary session");
    __CPROVER_assert(G_cb_calls == (impl0.onCloseCb.set ? 1 : 0) && (!impl0.onCloseCb.set || (G_cb_sid == sid && G_cb_code == reason.code)), "N1 not a connectSync session: the global callback is invoked exactly once (iff registered) for sid with the reason");
    __CPROVER_assert(SAME_OP(wop, wop0) && !impl.pendingConnects.present, "N2 ... and no waiter record or map entry is touched");
  }
}

#ifdef IORA_SEARCH
/* SEARCH: the state in which J1 is violated is reached by one fixed history (no data involved): connectSync times out, a late onConnect
 * arrives, then the onClose for the session connectSync closed. SCEN selects that scripted scenario in replay.cpp. */
void h_search(void)
{
  static Impl impl; static SyncConnectOp wop, oop, fresh; static iora_engine eng; Impl *self = &impl;
  size_t SCEN = nondet_size_t(); __CPROVER_assume(SCEN == 3);
  wire(&impl, &wop, &oop, &fresh, &eng, 1);
  impl.shuttingDown = 0; impl.pendingConnects.present = 1; wop.done = 0; wop.abandoned = 1; wop.result = iora_result_err(TransportError_Timeout);
  iora_addr addr = {0};
  Impl_onConnect(self, 1, addr);
  __CPROVER_assert(impl.pendingConnects.present && impl.pendingConnects.wval == &wop, "J1 late onConnect after the caller timed out: the pendingConnects entry must survive until onClose (else the global onClose fires for a session never handed out)");
}
#endif

/* ---- ITransport::connectSyncCancellable (C04: "a timed-out or cancelled attempt leaves no open connection behind"; "success only with the identifier of a
 * session that completed its handshake and that the transport has not itself closed"; "otherwise a definite error"). Partial correctness: that the loop
 * ends (by the deadline, "in time") depends on the clock and is NOT decided. ---- */
void h_cancellable(void)
{
  ITransport tr; iora_token tok; iora_host h; int64_t timeout = nondet_i64();
  tok.cancelled = nondet_bool(); bool cancelled0 = tok.cancelled;
  __CPROVER_assume(timeout >= -((int64_t)1 << 40) && timeout <= ((int64_t)1 << 40));
  G_clock = nondet_i64(); __CPROVER_assume(G_clock >= 0 && G_clock <= ((int64_t)1 << 40));
  G_attempts = 0; G_open = 0; G_cancel_seen = 0; G_last_err = 0; IORA_TRUE = 1;
  iora_result r = ITransport_connectSyncCancellable(&tr, h, 0, &tok, 0, timeout);
  IORA_CANARY("h_cancellable: returns");
  __CPROVER_assert(!r.ok || (G_open == 1 && r.value == G_last_sid && G_attempts >= 1), "K1 ok(sid) is the ok result of the LAST connectSync attempt: exactly that one session is open, every earlier attempt was closed");
  __CPROVER_assert(r.ok || G_open == 0, "K2 every non-ok return (Cancelled, Timeout, any other error) leaves NO open connection behind: each id obtained by a timed-out attempt had its close issued by that attempt");
  __CPROVER_assert(!(!r.ok && r.code == TransportError_Cancelled) || G_cancel_seen || (G_attempts >= 1 && G_last_err == TransportError_Cancelled), "K3 Cancelled only if the token was observed cancelled (or it is the reason the engine itself gave for a failed attempt)");
  __CPROVER_assert(!cancelled0 || (!r.ok && r.code == TransportError_Cancelled && G_attempts == 0), "K4 a token cancelled before the call: Cancelled, no connection attempt at all");
  __CPROVER_assert(r.ok || r.code == TransportError_Cancelled || r.code == TransportError_Timeout || G_attempts >= 1, "K5 any other error is the definite error of a connectSync attempt, returned immediately");
  if (r.ok) { IORA_CANARY("h_cancellable: ok"); }
  if (!r.ok && r.code == TransportError_Cancelled && G_attempts >= 2) { IORA_CANARY("h_cancellable: cancelled after several attempts"); }
  if (!r.ok && r.code == TransportError_Timeout && G_attempts >= 2) { IORA_CANARY("h_cancellable: timed out after several attempts"); }
}
