// REPLAY adapter for unit sync_connect: the REAL Transport::connectSync against a scripted engine; the engine callbacks are fired from a
// helper thread at scripted moments.  SCEN: 1 = onConnect while parked, 2 = onClose(Connect refused) while parked,
// 3 = timeout, then a LATE onConnect and the onClose for the closed session.  Oracle = contract clauses of post.c (property C04).
#include "../sync_ondata/scripted_engine.h"
#include "replay_io.h"
#include <thread>
int main(int argc, char **argv) {
  auto in = replay_io::load(argv[1]);
  int scen = (int)replay_io::u64(in["SCEN"]);
  TransportConfig cfg;
  auto eng = std::make_unique<ScriptedEngine>(); ScriptedEngine *e = eng.get();
  auto t = Transport::withEngine(std::move(eng), cfg);
  std::atomic<int> gConn{0}, gClose{0};
  t->onConnect([&](SessionId, const TransportAddress &) { gConn++; });
  t->onClose([&](SessionId, const TransportErrorInfo &) { gClose++; });
  const SessionId sid = e->next;       // the id the scripted engine will hand out
  std::thread io([&] {
    // wait until connectSync has registered and parked (it holds syncMutex from engine->connect() until the wait releases it)
    for (;;) { std::this_thread::sleep_for(std::chrono::milliseconds(2)); std::lock_guard<std::mutex> lk(t->_impl->syncMutex); if (t->_impl->pendingConnects.count(sid)) break; }
    if (scen == 1) e->cbs.onConnect(sid, TransportAddress{"peer", 1});
    if (scen == 2) e->cbs.onClose(sid, TransportErrorInfo{TransportError::Connect, "refused"});
  });
  auto r = t->connectSync("peer", 1, TlsMode::None, std::chrono::milliseconds(scen == 3 ? 50 : 5000));
  io.join();
  if (scen == 1) {
    if (!r.isOk() || r.value() != sid) replay_io::fail("C4 completed connect must return ok(sid)");
    if (!e->closed.empty()) replay_io::fail("C2 close issued on the success path");
    if (gConn != 0) replay_io::fail("S1 global onConnect fired for a connectSync session");
  } else if (scen == 2) {
    if (r.isOk() || r.error().code != TransportError::Connect) replay_io::fail("R1 failed attempt must return the reason delivered by onClose");
    if (gClose != 0) replay_io::fail("S1 global onClose fired for a connectSync session");
    if (!e->closed.empty()) replay_io::fail("L1 close issued although the attempt had already failed");
  } else {
    if (r.isOk() || r.error().code != TransportError::Timeout) replay_io::fail("R3 timeout must return Timeout");
    if (e->closed.size() != 1 || e->closed[0] != sid) replay_io::fail("L1/L2 exactly one engine->close(sid) on the timeout path");
    { std::lock_guard<std::mutex> lk(t->_impl->syncMutex); if (!t->_impl->pendingConnects.count(sid)) replay_io::fail("M1 entry must stay registered after the timeout"); }
    e->cbs.onConnect(sid, TransportAddress{"peer", 1});                                   // late completion
    e->cbs.onClose(sid, TransportErrorInfo{TransportError::Cancelled, "closed by transport"});   // the close connectSync issued
    if (gConn != 0 || gClose != 0) replay_io::fail("S1 a global callback fired for a session connectSync never handed out");
  }
  if (t->_impl->activeConnects != 0) replay_io::fail("G1 activeConnects not restored");
  replay_io::ok("contract clauses hold in this scenario");
  return 0;
}
