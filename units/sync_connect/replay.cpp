// REPLAY adapter for unit sync_connect: the REAL Transport::connectSync against a scripted engine; the engine callbacks are fired from a
// helper thread at scripted moments.  SCEN: 1 = onConnect while parked, 2 = onClose(Connect refused) while parked,
// 3 = timeout, then a LATE onConnect and the onClose for the closed session.  Oracle = contract clauses of post.c (property C04).
#include "../sync_ondata/scripted_engine.h"
#include "replay_io.h"
#include <thread>
#include <algorithm>
int main(int argc, char **argv) {
  auto in = replay_io::load(argv[1]);
  int scen = (int)replay_io::u64(in["SCEN"]);
  TransportConfig cfg;
  auto eng = std::make_unique<ScriptedEngine>(); ScriptedEngine *e = eng.get();
  auto t = Transport::withEngine(std::move(eng), cfg);
  std::atomic<int> gConn{0}, gClose{0};
  t->onConnect([&](SessionId, const TransportAddress &) { gConn++; });
  t->onClose([&](SessionId, const TransportErrorInfo &) { gClose++; });
  if (scen == 4 || scen == 5) {
    // connectSyncCancellable against an engine that never completes: SCEN 4 cancelled after 250 ms, SCEN 5 total timeout 350 ms
    CancellationToken tok; const SessionId first = e->next;
    std::thread canc([&] { if (scen == 4) { std::this_thread::sleep_for(std::chrono::milliseconds(250)); tok.cancel(); } });
    auto t0 = std::chrono::steady_clock::now();
    auto r = t->connectSyncCancellable("peer", 1, tok, TlsMode::None, std::chrono::milliseconds(scen == 4 ? 5000 : 350));
    auto ms = std::chrono::duration_cast<std::chrono::milliseconds>(std::chrono::steady_clock::now() - t0).count(); canc.join();
    size_t obtained = (size_t)(e->next - first);
    printf("connectSyncCancellable -> %s code=%d after %lld ms; %zu connection attempts (ids %llu..), %zu closes issued\n", r.isOk() ? "ok" : "err", r.isOk() ? 0 : (int)r.error().code, (long long)ms, obtained, (unsigned long long)first, e->closed.size());
    if (r.isOk()) replay_io::fail("K1 ok without a completed connect");
    if (r.error().code != (scen == 4 ? TransportError::Cancelled : TransportError::Timeout)) replay_io::fail("K3/K5 definite error: Cancelled when cancelled, Timeout at the deadline");
    for (SessionId s = first; s < e->next; s++) if (std::count(e->closed.begin(), e->closed.end(), s) != 1) replay_io::fail("K2 every id obtained by a timed-out / cancelled attempt must have had its close issued exactly once");
    if (gConn != 0 || gClose != 0) replay_io::fail("S1 global callbacks fired");
    printf("OBSERVATION: every 100 ms sub-timeout closes the attempt and opens a NEW connection: a handshake that needs more than ~100 ms can never complete through this entry point\n");
    replay_io::ok("cancellable connect leaves nothing behind and returns a definite error");
    return 0;
  }
  const SessionId sid = e->next;       // the id the scripted engine will hand out
  std::thread io([&] {
    // wait until connectSync has registered and parked (it holds syncMutex from engine->connect() until the wait releases it)
    for (;;) { std::this_thread::sleep_for(std::chrono::milliseconds(2)); std::lock_guard<std::mutex> lk(t->_impl->syncMutex); if (t->_impl->pendingConnects.count(sid)) break; }
    if (scen == 1) e->cbs.onConnect(sid, TransportAddress{"peer", 1});
    if (scen == 2) e->cbs.onClose(sid, TransportErrorInfo{TransportError::Connect, "refused"});
  });
  auto r = t->connectSync("peer", 1, TlsMode::None, std::chrono::milliseconds(scen == 3 ? 50 : 5000));
  io.join();
  if (scen == 1) {
    if (!r.isOk() || r.value() != sid) replay_io::fail("C4 completed connect must return ok(sid)");
    if (!e->closed.empty()) replay_io::fail("C2 close issued on the success path");
    if (gConn != 0) replay_io::fail("S1 global onConnect fired for a connectSync session");
  } else if (scen == 2) {
    if (r.isOk() || r.error().code != TransportError::Connect) replay_io::fail("R1 failed attempt must return the reason delivered by onClose");
    if (gClose != 0) replay_io::fail("S1 global onClose fired for a connectSync session");
    if (!e->closed.empty()) replay_io::fail("L1 close issued although the attempt had already failed");
  } else {
    if (r.isOk() || r.error().code != TransportError::Timeout) replay_io::fail("R3 timeout must return Timeout");
    if (e->closed.size() != 1 || e->closed[0] != sid) replay_io::fail("L1/L2 exactly one engine->close(sid) on the timeout path");
    { std::lock_guard<std::mutex> lk(t->_impl->syncMutex); if (!t->_impl->pendingConnects.count(sid)) replay_io::fail("M1 entry must stay registered after the timeout"); }
    e->cbs.onConnect(sid, TransportAddress{"peer", 1});                                   // late completion
    e->cbs.onClose(sid, TransportErrorInfo{TransportError::Cancelled, "closed by transport"});   // the close connectSync issued
    if (gConn != 0 || gClose != 0) replay_io::fail("S1 a global callback fired for a session connectSync never handed out");
  }
  if (t->_impl->activeConnects != 0) replay_io::fail("G1 activeConnects not restored");
  replay_io::ok("contract clauses hold in this scenario");
  return 0;
}
