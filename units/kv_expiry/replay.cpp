// REPLAY adapter for unit kv_expiry (C12).  The failing clauses of this unit do not depend on byte inputs; the adapter evaluates them natively
// on the REAL KVStore as operation sequences (inputs are ignored except WAIT_MS):
//   REF2a  set(a, v, ttl=1s); expireAt(a, now+1h)          (TTL extended before it ran out)
//   REF2b  set(b, v); expireAt(b, now+1s); persist(b)        (expiry cleared before it ran out)
//   close; wait until the ORIGINAL expiry has passed; reopen  =>  a and b must be present (the reference map says: a expires in 1 h, b never).
//   K4     loading an 'E' record with a CRC-correct, "plausible" expiry of 10^13 ms (year 2286) must not overflow
//          (with -fsanitize=undefined the ms->ns conversion in fromEpochMs aborts with "signed integer overflow").
#include "iora/storage/kvstore.hpp"
#include "replay_io.h"
#include <filesystem>
#include <thread>
#include <unistd.h>
using namespace iora::storage;
namespace fs = std::filesystem;
static std::vector<uint8_t> V(const char *s) { return std::vector<uint8_t>(s, s + strlen(s)); }
int main(int argc, char **argv) {
  auto in = replay_io::load(argv[1]);
  unsigned wait_ms = in.count("WAIT_MS") ? (unsigned)replay_io::u64(in["WAIT_MS"]) : 2100;
  fs::path dir = fs::temp_directory_path() / ("iora_replay_kv_expiry_" + std::to_string(getpid()));
  fs::remove_all(dir); fs::create_directories(dir);
  KVStoreConfig cfg; cfg.enableBackgroundCompaction = false;
  std::string verdict;
  try {
    std::string path = (dir / "s.bin").string();
    { KVStore s(path, cfg);
      s.set("a", V("1"), std::chrono::seconds(1));
      s.expireAt("a", std::chrono::system_clock::now() + std::chrono::hours(1));
      s.set("b", V("2"));
      s.expireAt("b", std::chrono::system_clock::now() + std::chrono::seconds(1));
      s.persist("b");
      if (!s.get("a") || !s.get("b")) verdict += " (keys not even visible before the restart)"; }
    std::this_thread::sleep_for(std::chrono::milliseconds(wait_ms));
    { KVStore s(path, cfg);
      if (!s.get("a")) verdict += " REF2a: a MISSING after restart although its expiry was extended to now+1h;";
      if (!s.get("b")) verdict += " REF2b: b MISSING after restart although persist(b) made it eternal;"; }
    if (!verdict.empty()) { fs::remove_all(dir); replay_io::fail(verdict); }
    // K4: loading must not execute undefined behaviour (UBSan aborts on the signed overflow in the ms->ns conversion); whether the record is
    // then kept or rejected as implausible is the repair's choice
    std::string p2 = (dir / "k4.bin").string();
    { KVStore s(p2, cfg); s.writeLogEntry('E', "far", V("x"), 10000000000000LL); }      // year 2286: inside the plausibility window
    { KVStore s(p2, cfg); (void)s.get("far"); }
  } catch (const std::exception &e) { verdict += std::string(" store threw: ") + e.what(); }
  fs::remove_all(dir);
  if (!verdict.empty()) replay_io::fail(verdict);
  replay_io::ok("extended / cleared expiries survive a restart; far-future plausible expiry loaded");
  return 0;
}
