/* type environment + ghost state for unit kv_expiry (C12) */
#ifndef IORA_LIMIT_int64_t_min
#define IORA_LIMIT_int64_t_min ((int64_t)(-0x7fffffffffffffffLL - 1))
#endif
#define EXC_KVStoreException 1
uint32_t nondet_u32(void);
/* chrono: system_clock::time_point = int64 NANOSECONDS since the epoch (libstdc++), milliseconds/seconds = int64 counts */
typedef int64_t iora_tp; typedef int64_t iora_ms; typedef int64_t iora_sec;
#define IORA_TP_MAX ((iora_tp)0x7fffffffffffffffLL)               /* time_point::max() = kNoExpiry() */
#define NS_PER_MS 1000000
#define NS_PER_SEC 1000000000
/* time_point(milliseconds(ms)): ms -> ns, signed overflow is an obligation (--signed-overflow-check). Ghost: last argument/result. */
bool G_fromms_called; int64_t G_fromms_arg; int64_t G_fromms_ret;
bool G_hint_on; int64_t G_hint_ms, G_hint_ns;
/* duration_cast<milliseconds>/<seconds>(ns): truncation toward zero by a CONSTANT divisor d.  Written as a stub that returns the value q
 * DEFINED by the division theorem (n >= 0: q*d <= n < (q+1)*d; n < 0: mirrored) instead of the `/` operator: the SAT back end does not finish
 * facts that relate a 64-bit divider circuit to the multiplier of the inverse conversion (measured: > 300 s), whereas with this form the
 * product q*d is the very same term in fromEpochMs.  Trusted: these two assumptions ARE truncating division.  Ghost: operand and quotient. */
int64_t G_div_n, G_div_q, G_div_d, G_div_qd;    /* operand, quotient, divisor, quotient*divisor of the last division */
#pragma CPROVER check push
#pragma CPROVER check disable "signed-overflow"
static inline int64_t iora_tdiv_const(int64_t n, int64_t d)
{
  int64_t q = nondet_i64();
  IORA_ASSUME(q >= -(0x7fffffffffffffffLL / d) && q <= 0x7fffffffffffffffLL / d);
  IORA_ASSUME(n >= 0 ? (q >= 0 && q * d <= n && n - q * d < d) : (q <= 0 && q * d >= n && q * d - n < d));
  G_div_n = n; G_div_q = q; G_div_d = d; G_div_qd = q * d;
  return q;
}
#pragma CPROVER check pop
static inline iora_ms iora_ns_to_ms(int64_t ns) { return iora_tdiv_const(ns, NS_PER_MS); }
/* time_point(milliseconds(ms)).  The assumption is a TAUTOLOGY of arithmetic (congruence: equal factors give equal products); it only tells the SAT
 * back end that this multiplier and the one inside the division stub compute the same term. */
static inline iora_tp iora_tp_from_ms(int64_t ms)
{ G_fromms_called = true; G_fromms_arg = ms; G_fromms_ret = ms * NS_PER_MS;
  IORA_ASSUME(!(ms == G_div_q && G_div_d == NS_PER_MS) || G_fromms_ret == G_div_qd);
  IORA_ASSUME(!(G_hint_on && ms == G_hint_ms) || G_fromms_ret == G_hint_ns);      /* same kind of hint; the harness sets G_hint_ns = G_hint_ms * 10^6 */
  return G_fromms_ret; }
static inline iora_sec iora_ns_to_sec(int64_t ns) { return iora_tdiv_const(ns, NS_PER_SEC); }
/* system_clock::now(): environment stub - any value not before 1970 and not before the previous reading (trusted; the wall clock can in
 * fact be set back: not decided here) */
iora_tp G_now_last; unsigned G_now_calls;
static inline iora_tp iora_clock_now(void)
{ iora_tp t = nondet_i64(); IORA_ASSUME(t >= 0 && t >= G_now_last); G_now_last = t; if (G_now_calls < 1000) G_now_calls++; return t; }
#define IORA_LOCK_NOTE(m) ((void)0)

typedef struct { iora_tp expiry; uint64_t timerId; } ExpiryEntry;
#define ExpiryEntry_DEFAULT ((ExpiryEntry){0, InvalidTimerId})
#ifndef iora_vec_DEFAULT
#define iora_vec_DEFAULT ((iora_vec){0, 0})
#endif
typedef struct { iora_vec value; iora_tp expiry; } CacheEntry;
#define CacheEntry_DEFAULT ((CacheEntry){{0, 0}, 0})
typedef struct { int v; } iora_ec;
#define iora_ec_DEFAULT ((iora_ec){0})
typedef struct { int64_t ttlTickDuration; size_t ttlTicksPerWheel; size_t ttlNumWheels; } KVStoreConfig;
#define KVStoreConfig_DEFAULT ((KVStoreConfig){1000, 256, 4})
IORA_SMAP1(iora_kvmap, iora_vec, iora_vec_DEFAULT)
IORA_SMAP1(iora_expmap, ExpiryEntry, ExpiryEntry_DEFAULT)
IORA_SMAP1_ITER(iora_expmap, ExpiryEntry)
IORA_SMAP1(iora_cachemap, CacheEntry, CacheEntry_DEFAULT)
typedef struct { iora_gfile *_logPath; iora_kvmap _kv; iora_expmap _expiry; iora_cachemap _cache; iora_mutex _mutex; int _cacheMutex; iora_ms _ttlWheelMaxRange; } KVStore;

/* updateCache(key, value, expiry): stub (may evict an arbitrary entry, then stores (value, expiry) under key). Ghost: call recorded. */
bool G_uc_called; iora_skey G_uc_key; iora_vec G_uc_value; iora_tp G_uc_expiry;
static inline void KVStore_updateCache(KVStore *self, iora_skey key, iora_vec value, iora_tp expiry)
{ IORA_ASSERT(self->_mutex.held, "LK-CACHE the cache is refilled while the store mutex is still held: the refill is atomic with the read of _kv/_expiry it is derived from (otherwise a complete remove/set/eviction can run in the gap and the reader overwrites the writer's cache maintenance with the old value)");
  G_uc_called = true; G_uc_key = key; G_uc_value = value; G_uc_expiry = expiry;
  if (nondet_bool()) self->_cache.has = false;                       /* the "LRU" eviction removes some entry */
  if (key.is_g) { self->_cache.has = true; self->_cache.val.value = value; self->_cache.val.expiry = expiry; } }

/* ---- pieces of the replay-loop iteration (same block target and shims as unit kv_replay) */
static inline uint8_t *iora_vec_begin(iora_vec *v) { return v->p; }
static inline uint8_t *iora_vec_end(iora_vec *v) { return v->p + v->n; }
static inline iora_bv iora_bv_range(const uint8_t *first, const uint8_t *last)
{ IORA_ASSERT(__CPROVER_same_object(first, last) && __CPROVER_POINTER_OFFSET(first) <= __CPROVER_POINTER_OFFSET(last), "vector(first,last): valid iterator range");
  iora_bv b; b.p = first; b.n = (size_t)(last - first); return b; }
static inline bool iora_ptr_add_gt(const char *p, size_t k, const char *end)
{ IORA_ASSERT(__CPROVER_same_object(p, end) && __CPROVER_POINTER_OFFSET(p) <= __CPROVER_POINTER_OFFSET(end), "bounds test: cursor inside the record buffer");
  return k > (size_t)(end - p); }
static inline void iora_vec_ctor(iora_vec *v, size_t n)
{ IORA_ASSERT(n <= G_alloc_cap, "allocation bounded by the record-size cap"); v->p = (uint8_t *)malloc(n); IORA_ASSUME(v->p != NULL); v->n = n; }
bool G_crc_called; const uint8_t *G_crc_p; size_t G_crc_n; uint32_t G_crc_ret;
static inline uint32_t KVStore_crc32_stub(iora_bv d) { G_crc_called = true; G_crc_p = d.p; G_crc_n = d.n; G_crc_ret = nondet_u32(); return G_crc_ret; }
static inline void iora_fs_resize_file(iora_gfile *f, uint64_t n, iora_ec *ec)
{ IORA_ASSERT(f->exists && n <= f->n, "resize_file: shrinking an existing file");
  if (nondet_bool()) { ec->v = 5; return; } ec->v = 0; f->n = (size_t)n; }
#define IORA_STEP_NEXT 0
#define IORA_STEP_BREAK 1
#define IORA_STEP_CONTINUE 2
int G_step;

/* loop of computeAndValidateTtlRange: range stays inside (0, kMaxTtlRangeMs] */
#define IORA_LOOP_KVStore_computeAndValidateTtlRange_1 IORA_LC( \
  __CPROVER_assigns(i, range, iora_exc, G_q0, G_a0, G_b0, G_divs) \
  __CPROVER_loop_invariant(i <= (*cfg).ttlNumWheels && range > 0 && range <= kMaxTtlRangeMs && iora_exc == EXC_NONE) \
  __CPROVER_decreases((*cfg).ttlNumWheels - i))

/* loop of dropExpiredAfterLoad (iteration over _expiry with erase): for the ghost key's entry -
 *   still present  => it is the original entry, value untouched, and if already visited its expiry is in the future;
 *   gone           => it was present, its expiry had passed, and the key was removed from _kv as well;
 *   never present  => the key's value is untouched.                                                         variant: entries left */
#define KV_DROP_H0 (__CPROVER_loop_entry(self->_expiry.has))
#define KV_DROP_E0 (__CPROVER_loop_entry(self->_expiry.val.expiry))
#define KV_DROP_K0 (__CPROVER_loop_entry(self->_kv.has))
#define IORA_LOOP_KVStore_dropExpiredAfterLoad_1 IORA_LC( \
  __CPROVER_assigns(it, self->_kv, self->_expiry) \
  __CPROVER_loop_invariant(it.map == &self->_expiry && it.i <= self->_expiry.n && (self->_expiry.has ==> self->_expiry.gpos < self->_expiry.n)) \
  __CPROVER_loop_invariant(self->_kv.val.p == __CPROVER_loop_entry(self->_kv.val.p) && self->_kv.val.n == __CPROVER_loop_entry(self->_kv.val.n)) \
  __CPROVER_loop_invariant(self->_expiry.has ==> (KV_DROP_H0 && self->_expiry.val.expiry == KV_DROP_E0 && self->_kv.has == KV_DROP_K0)) \
  __CPROVER_loop_invariant((self->_expiry.has && self->_expiry.gpos < it.i) ==> KV_DROP_E0 > now) \
  __CPROVER_loop_invariant((!self->_expiry.has && KV_DROP_H0) ==> (KV_DROP_E0 <= now && !self->_kv.has)) \
  __CPROVER_loop_invariant(!KV_DROP_H0 ==> (!self->_expiry.has && self->_kv.has == KV_DROP_K0)) \
  __CPROVER_decreases(self->_expiry.n - it.i))
