/* Contracts of unit kv_expiry (property C12: "every read agrees with a plain reference map with a per-key absolute expiry evaluated at the
 * moment of the read. A key whose expiry has passed is never observable through any read path ... and never reappears after compaction or
 * restart; a plain overwrite clears an earlier expiry"; anchors: expiry persisted as absolute epoch milliseconds, lazy-read backstop). */
#define IMPL(a, b) (!(a) || (b))
#define I64_MAX ((int64_t)0x7fffffffffffffffLL)

/* ------------------------------------------------------------------ epoch-ms <-> time_point, plausibility window */
/* proof "time_plausible" */
void h_time_plausible(void)
{
  int64_t ms = nondet_i64();
  bool p = KVStore_isPlausibleEpochMs(ms);
  IORA_CANARY("h_time_plausible: returns");
  __CPROVER_assert(IMPL(p, ms > 0 && ms != IORA_LIMIT_int64_t_min && ms <= kMaxPlausibleEpochMs), "P1 plausible => positive, not the no-expiry sentinel, inside the window");
  __CPROVER_assert(IMPL(ms > 0 && ms <= I64_MAX / NS_PER_MS, p), "P2 every expiry the store itself can write (toEpochMs of a time_point after 1970) is accepted at load");
  __CPROVER_assert(IMPL(p, ms <= I64_MAX / NS_PER_MS), "P3 every plausible expiry is representable as a system_clock::time_point (int64 ns): fromEpochMs cannot overflow");
}
/* proof "time_from": call sites guard fromEpochMs with isPlausibleEpochMs; no overflow (built-in signed-overflow obligation in the ms->ns conversion) */
void h_time_from(void)
{
  int64_t ms = nondet_i64();
  __CPROVER_assume(KVStore_isPlausibleEpochMs(ms));
  iora_tp tp = KVStore_fromEpochMs(ms);
  IORA_CANARY("h_time_from: returns");
  __CPROVER_assert(tp > 0 && tp >= ms, "T1 fromEpochMs(ms) does not wrap: a positive time_point, ms * 10^6 ns after the epoch (exact product, no overflow obligation above)");
}
/* proof "time_to": toEpochMs truncates toward zero; round trip loses less than one millisecond and never moves an expiry LATER */
void h_time_to(void)
{
  iora_tp tp = nondet_i64();
  int64_t ms = KVStore_toEpochMs(tp);
  IORA_CANARY("h_time_to: returns");
  __CPROVER_assert(ms == G_div_q && G_div_n == tp, "T2 toEpochMs(tp) == tp in whole milliseconds (truncating quotient of tp by 10^6)");
  if (tp > 0 && ms > 0) {
    __CPROVER_assert(KVStore_isPlausibleEpochMs(ms), "T3 the persisted form of any time_point from 1 ms after the epoch on is plausible (never dropped as corrupt at load)");
    iora_tp back = KVStore_fromEpochMs(ms);
    __CPROVER_assert(back <= tp && tp - back < NS_PER_MS, "T4 restart round trip: expiry restored within 1 ms, never later than the original");
  }
}
/* proof "clamp": clampDelay = clamp(expiry - now, 0, WHEEL_MAX_RANGE) in ms, no overflow (clock not before 1970: trusted) */
void h_clamp(void)
{
  KVStore st; st._ttlWheelMaxRange = nondet_i64(); __CPROVER_assume(st._ttlWheelMaxRange > 0 && st._ttlWheelMaxRange <= kMaxTtlRangeMs);   /* computeAndValidateTtlRange */
  iora_tp expiry = nondet_i64(); G_now_last = nondet_i64(); __CPROVER_assume(G_now_last >= 0); G_now_calls = 0;
  iora_ms r = KVStore_clampDelay(&st, expiry);
  iora_tp now = G_now_last;
  IORA_CANARY("h_clamp: returns");
  __CPROVER_assert(r >= 0 && r <= st._ttlWheelMaxRange, "CL1 0 <= delay <= WHEEL_MAX_RANGE");
  __CPROVER_assert(IMPL(expiry <= now, r == 0), "CL2 an expiry that has passed gives delay 0");
  __CPROVER_assert(IMPL(expiry > now, G_div_n == expiry - now && r == (G_div_q > st._ttlWheelMaxRange ? st._ttlWheelMaxRange : G_div_q)), "CL3 otherwise min(whole remaining ms, WHEEL_MAX_RANGE)");
  __CPROVER_assert(G_now_calls == 1, "CL4 the clock is read once");
}
/* proof "ttl_range": computeAndValidateTtlRange - invalid configuration is refused, the range never overflows and stays within the supported maximum */
void h_ttl_range(void)
{
  KVStoreConfig c; c.ttlTickDuration = nondet_i64(); c.ttlTicksPerWheel = nondet_size_t(); c.ttlNumWheels = nondet_size_t();
  IORA_TRUE = 1; iora_exc = EXC_NONE; G_divs = 0;
  iora_ms r = KVStore_computeAndValidateTtlRange(&c);
  IORA_CANARY("h_ttl_range: returns");
  if (iora_exc == EXC_NONE) { IORA_CANARY("h_ttl_range: accepted"); } else { IORA_CANARY("h_ttl_range: refused"); }
  __CPROVER_assert(iora_exc == EXC_NONE || iora_exc == EXC_KVStoreException, "R0 only KVStoreException");
  __CPROVER_assert(IMPL(c.ttlTickDuration <= 0 || c.ttlNumWheels == 0 || c.ttlTicksPerWheel == 0 || (c.ttlTicksPerWheel & (c.ttlTicksPerWheel - 1)) != 0, iora_exc == EXC_KVStoreException),
                   "R1 non-positive tick, zero wheels, ticks-per-wheel not a power of two => refused");
  __CPROVER_assert(IMPL(iora_exc == EXC_NONE, r > 0 && r <= kMaxTtlRangeMs), "R2 accepted => 0 < WHEEL_MAX_RANGE <= kMaxTtlRangeMs");
}

/* ------------------------------------------------------------------ read paths: get / exists / ttl (whole functions, loop-free) */
/* State = the three maps restricted to ONE arbitrary ghost key (witness-key maps) + arbitrary answers for every other key.
 * Precondition = cache coherence (coupling established by set/expireAt/persist/remove/updateCache; those bodies are not under contract here):
 *   cache[k] present  =>  k present, same value, cache expiry == expiry(k) (or kNoExpiry() for a key without expiry). */
#define READ_SETUP \
  KVStore st; \
  st._kv.has = nondet_bool(); st._kv.val.n = nondet_size_t(); st._kv.touched = false; st._kv.gtouched = false; \
  st._expiry.has = nondet_bool(); st._expiry.val.expiry = nondet_i64(); st._expiry.val.timerId = nondet_u64(); st._expiry.touched = false; st._expiry.gtouched = false; \
  st._cache.has = nondet_bool(); st._cache.val.value.n = nondet_size_t(); st._cache.val.expiry = nondet_i64(); st._cache.touched = false; st._cache.gtouched = false; \
  st._cache.other.expiry = nondet_i64(); st._expiry.other.expiry = nondet_i64(); \
  __CPROVER_assume(IMPL(st._cache.has, st._kv.has && st._cache.val.value.p == st._kv.val.p && st._cache.val.value.n == st._kv.val.n \
                                        && st._cache.val.expiry == (st._expiry.has ? st._expiry.val.expiry : IORA_TP_MAX))); \
  __CPROVER_assume(IMPL(st._expiry.has, st._kv.has));                      /* expiry metadata only for present keys */ \
  bool kv_has0 = st._kv.has; iora_vec kv_val0 = st._kv.val; bool ex_has0 = st._expiry.has; iora_tp ex_exp0 = st._expiry.val.expiry; bool ca_has0 = st._cache.has; \
  iora_skey key; key.n = nondet_size_t(); key.is_g = nondet_bool(); key.p = NULL; \
  st._mutex.held = false;                                                     /* the calling thread does not hold the store mutex */ \
  G_now_last = nondet_i64(); __CPROVER_assume(G_now_last >= 0); G_now_calls = 0; G_uc_called = false; iora_exc = EXC_NONE; IORA_TRUE = 1;
#define VISIBLE_AT(t) (kv_has0 && (!ex_has0 || ex_exp0 > (t)))

/* proof "read_get" */
void h_read_get(void)
{
  READ_SETUP
  iora_vec out; out.p = NULL; out.n = 0;
  bool ok = KVStore_get(&st, key, &out);
  iora_tp now = G_now_last;                        /* the clock reading of the LAST expiry comparison */
  IORA_CANARY("h_read_get: returns");
  if (ok && !G_uc_called) { IORA_CANARY("h_read_get: value from the cache"); }
  if (ok && G_uc_called) { IORA_CANARY("h_read_get: value from the authoritative map"); }
  if (!ok && key.is_g && kv_has0) { IORA_CANARY("h_read_get: expired key hidden"); }
  __CPROVER_assert(IMPL(ok && key.is_g && !G_uc_called, VISIBLE_AT(now)), "GET-CACHE a value is returned from the cache only if the key has no expiry or expiry > now");
  __CPROVER_assert(IMPL(ok && key.is_g && G_uc_called, VISIBLE_AT(now)), "GET-AUTH a value is returned from the authoritative map only if the key has no expiry or expiry > now");
  __CPROVER_assert(IMPL(ok && key.is_g, out.p == kv_val0.p && out.n == kv_val0.n), "GET-VAL the value returned is the stored value");
  __CPROVER_assert(IMPL(!ok && key.is_g && key.n > 0, !VISIBLE_AT(now)), "GET-COMPLETE nullopt only if the key is absent or its expiry has passed (at the last clock reading)");
  __CPROVER_assert(IMPL(key.n == 0, !ok), "GET-EMPTY the empty key is never present");
  __CPROVER_assert(st._kv.has == kv_has0 && st._expiry.has == ex_has0 && st._expiry.val.expiry == ex_exp0 && !st._kv.touched && !st._expiry.touched, "GET-FRAME a read does not change values or expiries");
  __CPROVER_assert(IMPL(G_uc_called && G_uc_key.is_g, G_uc_expiry == (ex_has0 ? ex_exp0 : IORA_TP_MAX) && G_uc_value.p == kv_val0.p && G_uc_value.n == kv_val0.n), "GET-COHERENT the cache is refilled with the stored value and the key's absolute expiry (coherence preserved)");
}
/* proof "read_exists" */
void h_read_exists(void)
{
  READ_SETUP
  bool ok = KVStore_exists(&st, key);
  iora_tp now = G_now_last;
  IORA_CANARY("h_read_exists: returns");
  if (ok) { IORA_CANARY("h_read_exists: true"); }
  __CPROVER_assert(IMPL(ok && key.is_g, VISIBLE_AT(now)), "EX-SOUND exists() is true only if the key is present and has no expiry or expiry > now");
  __CPROVER_assert(IMPL(!ok && key.is_g && key.n > 0, !VISIBLE_AT(now)), "EX-COMPLETE exists() is false only if the key is absent or its expiry has passed");
  __CPROVER_assert(IMPL(key.n == 0, !ok), "EX-EMPTY the empty key is never present");
  __CPROVER_assert(!st._kv.touched && !st._expiry.touched && !st._cache.touched && !G_uc_called, "EX-FRAME exists() changes nothing");
}
/* proof "read_ttl" */
void h_read_ttl(void)
{
  READ_SETUP
  iora_sec out = -1;
  bool ok = KVStore_ttl(&st, key, &out);
  iora_tp now = G_now_last;
  IORA_CANARY("h_read_ttl: returns");
  if (ok) { IORA_CANARY("h_read_ttl: a remaining time"); }
  __CPROVER_assert(IMPL(ok && key.is_g, kv_has0 && ex_has0 && ex_exp0 > now), "TTL-SOUND a remaining time is reported only for a present key whose expiry is in the future");
  __CPROVER_assert(IMPL(ok && key.is_g, out >= 0 && out == G_div_q && G_div_n == ex_exp0 - now), "TTL-VAL the remaining time is expiry - now in whole seconds, truncated toward zero");
  __CPROVER_assert(IMPL(!ok && key.is_g && key.n > 0, !kv_has0 || !ex_has0 || ex_exp0 <= now), "TTL-COMPLETE nullopt only if absent, permanent, or expired");
  __CPROVER_assert(!st._kv.touched && !st._expiry.touched && !st._cache.touched && !G_uc_called, "TTL-FRAME ttl() changes nothing");
}

/* ------------------------------------------------------------------ expiry handling of the log replay in load()
 * (block target KVStore_load_step = one iteration of the replay loop, as in unit kv_replay; record layout macros repeated from there) */
/* ---- the log file: an arbitrary byte sequence LOG[0..LOG_N) ; b = a record boundary (read position at the top of an iteration) */
#define U32AT(o) ((uint32_t)((uint32_t)LOG[(o)] | ((uint32_t)LOG[(o) + 1] << 8) | ((uint32_t)LOG[(o) + 2] << 16) | ((uint32_t)LOG[(o) + 3] << 24)))
#define U64AT(o) ((uint64_t)U32AT(o) | ((uint64_t)U32AT((o) + 4) << 32))
/* the reader's cap on len32: the named constant when the header has one (K6 repair), else the literal of the unrepaired text.  What the cap
 * MUST admit is not taken from the code: lemma codec_roundtrip (RT1) demands that every record the writer can produce is accepted. */
#ifdef MAX_LOG_RECORD_LENGTH
#define REC_CAP ((uint32_t)(MAX_LOG_RECORD_LENGTH))
#else
#define REC_CAP ((uint32_t)(100 * 1024 * 1024))
#endif
#define VAL_CAP ((uint32_t)(100 * 1024 * 1024))            /* the reader's cap on vlen32 */
#define AVAIL (LOG_N - b)
#define HAVE_LEN (AVAIL >= 4)
#define TL ((size_t)U32AT(b))                              /* declared record length (payload + crc) */
#define LEN_OK (TL >= 10 && TL <= REC_CAP)
#define COMPLETE (HAVE_LEN && LEN_OK && AVAIL - 4 >= TL)   /* the whole record is in the file */
#define P0 (b + 4)                                         /* file offset of the payload */
#define OPB ((char)LOG[P0])
#define STORED (U32AT(P0 + TL - 4))                        /* trailer */
#define OP_S ((char)83)
#define OP_D ((char)68)
#define OP_E ((char)69)
#define OP_X ((char)88)
#define OP_OK (OPB == OP_S || OPB == OP_D || OPB == OP_E || OPB == OP_X)
#define KL ((size_t)U32AT(P0 + 1))
#define KEY_OK (KL >= 1 && KL <= 65536 && 5 + KL <= TL)
#define FOFF (5 + KL)                                      /* payload offset of the first field after the key */
/* S: vlen32 | val | crc */
#define S_VL ((size_t)U32AT(P0 + FOFF))
#define S_OK (FOFF + 4 <= TL && S_VL <= VAL_CAP && FOFF + 4 + S_VL + 4 <= TL)
/* E: exp64 | vlen32 | val | crc */
#define E_EXP ((int64_t)U64AT(P0 + FOFF))
#define E_VL ((size_t)U32AT(P0 + FOFF + 8))
#define E_OK (FOFF + 12 <= TL && E_VL <= VAL_CAP && FOFF + 12 + E_VL + 4 <= TL)
/* X: exp64 | crc */
#define X_OK (FOFF + 12 <= TL)
/* the window's ceiling is the constant extracted from the header (a changed limit is seen); unit kv_expiry pins what it may be: every expiry
 * the store can write is inside (P2) and every value inside is representable as a time_point (P3) */
#define PLAUSIBLE(ms) ((ms) > 0 && (ms) <= kMaxPlausibleEpochMs)
/* BPRE: what is assumed about the boundary b.  The framing and safety proofs take ANY b <= n.  The decode proofs view the file from the
 * boundary (b == 0, LOG = the rest of the file): the stream shim depends on (p + pos, n - pos) only, so this is no restriction, and it removes
 * one 64-bit addition from every array index (measured: E1 88 s -> 6 s). */
#define STEP_SETUP(BPRE) \
  size_t LOG_N = nondet_size_t(); __CPROVER_assume(LOG_N <= ((size_t)1 << 40)); \
  uint8_t *LOG = (uint8_t *)malloc(LOG_N); __CPROVER_assume(LOG != NULL); \
  iora_gfile gf; gf.exists = true; gf.p = LOG; gf.n = LOG_N; \
  size_t b = nondet_size_t(); __CPROVER_assume(b <= LOG_N); __CPROVER_assume(BPRE);    /* loop invariant: read position inside the file */ \
  iora_ifs log; log.open = true; log.fail = false; log.eof = false; log.p = LOG; log.n = LOG_N; log.pos = b; \
  KVStore st; st._logPath = &gf; \
  st._kv.has = nondet_bool(); st._kv.val.n = nondet_size_t(); st._kv.touched = false; st._kv.gtouched = false; \
  st._expiry.has = nondet_bool(); st._expiry.val.expiry = nondet_i64(); st._expiry.val.timerId = nondet_u64(); st._expiry.touched = false; st._expiry.gtouched = false; \
  bool kv_has0 = st._kv.has; iora_vec kv_val0 = st._kv.val; bool ex_has0 = st._expiry.has; ExpiryEntry ex_val0 = st._expiry.val; \
  iora_tp now = nondet_i64(); GK = nondet_size_t(); \
  G_alloc_cap = REC_CAP; G_step = IORA_STEP_NEXT; G_crc_called = false; G_skey_made = false; G_fromms_called = false; G_ifs_boundary = nondet_size_t(); iora_exc = EXC_NONE; IORA_TRUE = 1; \
  KVStore_load_step(&st, &log, now); \
  bool touched = st._kv.touched || st._expiry.touched; \
  iora_skey LK = st._kv.touched ? st._kv.lastkey : st._expiry.lastkey; \
  bool crc_match = G_crc_called && G_crc_ret == STORED; \
  IORA_CANARY("h_step: returns");
#define KV (st._kv)
#define EX (st._expiry)
#define UNCHANGED_KV (KV.has == kv_has0 && KV.val.p == kv_val0.p && KV.val.n == kv_val0.n)
#define UNCHANGED_EX (EX.has == ex_has0 && EX.val.expiry == ex_val0.expiry && EX.val.timerId == ex_val0.timerId)


/* proof "load_expiry": one iteration */
void h_load_expiry(void)
{
  STEP_SETUP(b == 0)
  bool gk = touched && LK.is_g;
  __CPROVER_assert(IMPL(gk && OPB == OP_E && G_fromms_ret <= now, !KV.has || (EX.has && EX.val.expiry <= now)), "LE1 E record whose expiry has passed at load: the key is not observable afterwards (absent, or carrying the passed expiry)");
  __CPROVER_assert(IMPL(COMPLETE && crc_match && OPB == OP_E && KEY_OK && E_OK && !PLAUSIBLE(E_EXP), !touched && UNCHANGED_KV && UNCHANGED_EX), "LE2 E record with an implausible expiry is dropped - never kept as an eternal key");
  __CPROVER_assert(IMPL(gk && OPB == OP_S, KV.has && !EX.has), "LE3 a plain set clears an earlier expiry");
  __CPROVER_assert(IMPL(gk && OPB == OP_X && E_EXP != IORA_LIMIT_int64_t_min && G_fromms_ret <= now, !KV.has || (EX.has && EX.val.expiry <= now)), "LE4 X record whose expiry has passed at load: the key is not observable afterwards");
  __CPROVER_assert(IMPL(COMPLETE && crc_match && OPB == OP_X && KEY_OK && X_OK && E_EXP != IORA_LIMIT_int64_t_min && !PLAUSIBLE(E_EXP), UNCHANGED_KV && UNCHANGED_EX), "LE5 X record with an implausible expiry is ignored (does not make the key eternal)");
  __CPROVER_assert(IMPL(EX.gtouched && EX.has, KV.has && G_fromms_called && EX.val.expiry == G_fromms_ret && PLAUSIBLE(G_fromms_arg)), "LE6 an expiry is stored only for a present key and is the plausible exp64 of the record");
  __CPROVER_assert(IMPL(gk && OPB == OP_E && G_fromms_ret > now, KV.has && EX.has && EX.val.expiry == G_fromms_ret), "LE7 E record with a future expiry: key present with that expiry");
  __CPROVER_assert(IMPL(COMPLETE && crc_match && OPB == OP_E && KEY_OK && E_OK && PLAUSIBLE(E_EXP) && G_skey_made && G_skey_last.is_g, !KV.has || (KV.gtouched && EX.gtouched && EX.has && G_fromms_called && EX.val.expiry == G_fromms_ret)),
                   "REF1 a set-with-TTL record REPLACES whatever the key held before: afterwards the key is absent, or holds this record's value and expiry (never the earlier value or an earlier/no expiry)");
}

/* proof "load_ref2": TWO consecutive iterations on the ghost key against the clock-free reference replay ("the effect of the last operation
 * on that key"): the log is a history of operations that were valid when they were acknowledged; whether an expiry has passed may be judged
 * only for the FINAL state.  Clause REF2: [E k v t1][X k t2] with t1 <= now < t2 (TTL extended by expireAt before t1) must leave k present -
 * and likewise [X k t1][X k sentinel] (expireAt then persist).  Fails on the unchanged tree: finding K5. */
void h_load_ref2(void)
{
  STEP_SETUP(b == 0)
  bool first_e = touched && LK.is_g && OPB == OP_E && G_fromms_called;          /* first record: set-with-TTL of the ghost key ... */
  bool first_expired = G_fromms_ret <= now;                                       /* ... whose expiry has passed by the time of this load */
  bool cont = G_step != IORA_STEP_BREAK && iora_exc == EXC_NONE;
  if (first_e && first_expired && cont) {
    IORA_CANARY("h_load_ref2: first record applied");
    b = log.pos;                                                                  /* the record macros now speak about the second record */
    st._kv.touched = false; st._expiry.touched = false; G_crc_called = false; G_skey_made = false; G_fromms_called = false; G_step = IORA_STEP_NEXT;
    G_hint_ms = E_EXP; G_hint_ns = G_hint_ms * NS_PER_MS; G_hint_on = true;          /* t2 in ns, computed once on the specification side */
    KVStore_load_step(&st, &log, now);
    bool second_x = COMPLETE && G_crc_called && G_crc_ret == STORED && OPB == OP_X && KEY_OK && X_OK && G_skey_made && G_skey_last.is_g;   /* a well-formed X record for the same key */
    if (second_x) { IORA_CANARY("h_load_ref2: second record is an X for the same key"); }
    __CPROVER_assert(IMPL(second_x && E_EXP != IORA_LIMIT_int64_t_min && PLAUSIBLE(E_EXP) && E_EXP <= I64_MAX / NS_PER_MS && G_hint_ns > now, KV.has && EX.has && EX.val.expiry == G_hint_ns),
                     "REF2a [E k v t1][X k t2], t1 <= now < t2: the key is present with expiry t2 (a TTL extended before it ran out survives a restart)");
    __CPROVER_assert(IMPL(second_x && E_EXP == IORA_LIMIT_int64_t_min, KV.has && !EX.has),
                     "REF2b [E k v t1][X k no-expiry], t1 <= now: the key is present and eternal (persist() before the TTL ran out survives a restart)");
  }
}

/* ------------------------------------------------------------------ dropExpiredAfterLoad(): expiry is judged ONCE, after the whole replay (K5 repair)
 * proof "drop_expired" (loop contract over the iteration of _expiry; any number of entries, any order, ghost key at any position) */
void h_drop_expired(void)
{
  KVStore st;
  st._kv.has = nondet_bool(); st._kv.val.n = nondet_size_t(); st._kv.touched = false; st._kv.gtouched = false;
  st._expiry.has = nondet_bool(); st._expiry.val.expiry = nondet_i64(); st._expiry.val.timerId = nondet_u64(); st._expiry.touched = false; st._expiry.gtouched = false;
  st._expiry.n = nondet_size_t(); st._expiry.gpos = nondet_size_t();
  __CPROVER_assume(IMPL(st._expiry.has, st._kv.has && st._expiry.gpos < st._expiry.n));         /* expiry metadata only for present keys */
  bool kv_has0 = st._kv.has; iora_vec kv_val0 = st._kv.val; bool ex_has0 = st._expiry.has; iora_tp ex_exp0 = st._expiry.val.expiry;
  G_now_last = nondet_i64(); __CPROVER_assume(G_now_last >= 0); G_now_calls = 0; iora_exc = EXC_NONE; IORA_TRUE = 1;
  KVStore_dropExpiredAfterLoad(&st);
  iora_tp now = G_now_last;
  IORA_CANARY("h_drop_expired: returns");
  if (ex_has0 && !st._expiry.has) { IORA_CANARY("h_drop_expired: the ghost key was dropped"); }
  if (ex_has0 && st._expiry.has) { IORA_CANARY("h_drop_expired: the ghost key was kept"); }
  __CPROVER_assert(IMPL(ex_has0 && ex_exp0 <= now, !st._kv.has && !st._expiry.has), "DX1 after load no key whose expiry has passed is present (value and expiry removed)");
  __CPROVER_assert(IMPL(ex_has0 && ex_exp0 > now, st._kv.has && st._expiry.has && st._expiry.val.expiry == ex_exp0), "DX2 a key with a later expiry is untouched");
  __CPROVER_assert(IMPL(!ex_has0, st._kv.has == kv_has0 && !st._expiry.has), "DX3 a key without expiry is untouched");
  __CPROVER_assert(st._kv.val.p == kv_val0.p && st._kv.val.n == kv_val0.n, "DX4 values are never changed");
  __CPROVER_assert(G_now_calls == 1, "DX5 one clock reading for the whole sweep");
}

#ifdef IORA_SEARCH
/* SEARCH: the failing clauses of this unit (REF2, K4) are loop-free and do not depend on byte inputs; the only REPLAY input is how long the
 * native scenario waits for the original expiry to pass. */
void h_search(void)
{
  size_t WAIT_MS = 2100;
  h_load_ref2();
  h_time_from();
  h_time_plausible();
}
#endif
