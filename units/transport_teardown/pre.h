/* unit transport_teardown (property C05, sequential / monitor core of the teardown handshake). Type environment: shims/iora_tsync.h.
 * This file: Transport handle, ghost engine, map cursors, the handshake wait (R11), FlushGuard binding, checked setter of the fence, loop contracts. */
_Static_assert(ReadMode_Async == 0, "ReadMode::Async is the value-initialised ReadMode");
#define EXC_logic_error 1
typedef struct { Impl *_impl; } Transport;              /* class Transport: std::unique_ptr<Impl> _impl */
typedef struct { int x; } iora_host;
typedef SyncReceiveBuffer *SyncReceiveBufferP;
Impl *G_impl; size_t G_arrived;
/* the witness objects are globals so that loop contracts can name them without a pointer dereference */
SyncConnectOp G_wop, G_cur_op; SyncReceiveBuffer G_wbuf, G_cur_buf, G_obuf, G_fresh_buf; SyncConnectOp G_oop;

static inline void iora_rmmap_havoc_other(iora_rmmap *m) { m->other = nondet_u8(); }
static inline void iora_rbmap_havoc_other(iora_rbmap *m)
{ SyncReceiveBuffer *o = m->other; o->data.lo = nondet_size_t(); o->data.hi = nondet_size_t(); o->hasData = nondet_bool(); o->closed = nondet_bool();
  o->waiters = nondet_size_t(); o->flushing = nondet_bool(); o->overflow = nondet_bool(); IORA_ASSUME(o->data.lo <= o->data.hi && o->hasData == (o->data.hi > o->data.lo)); }
static inline void iora_pcmap_havoc_other(iora_pcmap *m) { SyncConnectOp *o = m->other; o->done = false; o->cv.n_all = 0; }
SyncReceiveBuffer *G_fresh; unsigned G_made;
static inline SyncReceiveBuffer *iora_make_srb(Impl *im)
{ IORA_ASSERT(G_made == 0, "at most one allocation per call"); G_made++; SyncReceiveBuffer *b = G_fresh;
  b->data.lo = G_arrived; b->data.hi = G_arrived; b->data.guard = &im->syncMutex; b->guard = &im->syncMutex; b->cv.n_one = 0; b->cv.n_all = 0;
  b->hasData = false; b->closed = false; b->waiters = 0; b->flushing = false; b->overflow = false; return b; }

/* ---- ghost global order ---- */
size_t G_seq, G_wait_done_seq, G_release_seq, G_sched_seq, G_detach_seq, G_stop_seq, G_fence_seq;
bool G_on_io_thread, G_running;
static inline bool iora_on_io_thread(const Impl *im) { (void)im; return G_on_io_thread; }

/* ---- CV discipline. `shuttingDown` is read by the wait predicates of receiveSync and connectSync: it must be written with syncMutex held (else a
 * waiter that has just evaluated its predicate misses the wake-up) and the notifications must come AFTER the write. ---- */
#define IORA_SET_SHUTTING_DOWN(x) do { IORA_ASSERT(self->syncMutex.held, "CV1 the entry fence / wake signal shuttingDown is set with syncMutex held"); (x) = true; if (G_fence_seq == 0) G_fence_seq = ++G_seq; } while (0)
unsigned G_notifies;
static inline void td_notify_all(Impl *im, iora_cv *cv)
{ IORA_ASSERT(im->shuttingDown, "CV2 waiters are notified only AFTER shuttingDown has been set (set-then-notify)"); if (G_notifies < 1000) G_notifies++; iora_cv_notify_all(cv); }

static inline void td_notify_one(Impl *im, iora_cv *cv)
{ IORA_ASSERT(im->shuttingDown, "CV2 waiters are notified only AFTER shuttingDown has been set (set-then-notify)"); if (G_notifies < 1000) G_notifies++; iora_cv_notify_one(cv); }

/* ---- iteration over pendingConnects / receiveBuffers (range-for): abstract cursor over the witness-key map (as in unit transport_onclose):
 * N entries (arbitrary), the witness entry at an arbitrary position, every other entry some other record. Each entry is visited exactly once. ---- */
#define CUR_NONE ((size_t)-1)
typedef struct { size_t k, N, wpos; } iora_pccur;
typedef struct { size_t k, N, wpos; size_t tag; } iora_rbcur;
static inline iora_pccur iora_pccur_begin(iora_pcmap *m)
{ IORA_GMAP1_GUARDED(m); iora_pccur c; c.k = 0; c.N = nondet_size_t(); c.wpos = CUR_NONE; IORA_ASSUME(c.N < CUR_NONE);
  if (m->present) { c.wpos = nondet_size_t(); IORA_ASSUME(c.wpos < c.N); } G_cur_op.cv.n_all = 0; return c; }
static inline bool iora_pccur_more(const iora_pccur *c) { return c->k < c->N; }
static inline void iora_pccur_next(iora_pccur *c) { IORA_ASSERT(c->k < c->N, "++ on an iterator that is not end()"); c->k++; }
static inline SyncConnectOp *iora_pccur_second(const iora_pccur *c) { IORA_ASSERT(c->k < c->N, "iterator dereferenced only when not end()"); IORA_GMAP1_GUARDED(&G_impl->pendingConnects); return c->k == c->wpos ? G_impl->pendingConnects.wval : &G_cur_op; }
static inline iora_rbcur iora_rbcur_begin(iora_rbmap *m)
{ IORA_GMAP1_GUARDED(m); iora_rbcur c; c.k = 0; c.N = nondet_size_t(); c.wpos = CUR_NONE; c.tag = 0; IORA_ASSUME(c.N < CUR_NONE);
  if (m->present) { c.wpos = nondet_size_t(); IORA_ASSUME(c.wpos < c.N); } G_cur_buf.cv.n_all = 0; return c; }
static inline bool iora_rbcur_more(const iora_rbcur *c) { return c->k < c->N; }
static inline void iora_rbcur_next(iora_rbcur *c) { IORA_ASSERT(c->k < c->N, "++ on an iterator that is not end()"); c->k++; }
static inline SyncReceiveBuffer *iora_rbcur_second(const iora_rbcur *c) { IORA_ASSERT(c->k < c->N, "iterator dereferenced only when not end()"); IORA_GMAP1_GUARDED(&G_impl->receiveBuffers); return c->k == c->wpos ? G_impl->receiveBuffers.wval : &G_cur_buf; }
#define IORA_CUR_SECOND(kv) _Generic((kv), iora_pccur: iora_pccur_second, iora_rbcur: iora_rbcur_second)(&(kv))

/* ---- the handshake wait  teardownCv.wait(lk, pred)  ==  while (!pred()) wait(lk);  returns only with pred() true (whether it ever returns is liveness:
 * NOT decided). While it waits other threads run: an environment step in which the three counters can only go DOWN (entry fences: nobody new is
 * counted once shuttingDown is set - clauses E2 of sync_receive / E1 of sync_connect / FE1 below; every counted caller restores its counter - G1 clauses). ---- */
bool G_td_waited;
static inline void td_env_step(Impl *im)
{ size_t r = nondet_size_t(), c = nondet_size_t(), f = nondet_size_t();
  IORA_ASSUME(r <= im->activeReceives && c <= im->activeConnects && f <= im->activeFlushes);
  im->activeReceives = r; im->activeConnects = c; im->activeFlushes = f; G_td_waited = 1; }
#define IORA_TD_WAIT(l, P) do { IORA_ASSERT((l).owns && (l).m->held && (l).m == &self->syncMutex, "LK4 condition-variable wait with syncMutex owned"); \
  if (!(P)) { td_env_step(self); IORA_ASSUME(P); } G_wait_done_seq = ++G_seq; } while (0)

/* ---- ghost engine ---- */
unsigned G_stop_calls, G_send_calls, G_close_calls, G_listen_calls; bool G_stop_with_lock, G_stop_before_fence; SessionId G_eng_sid; bool G_eng_ret;
static inline bool iora_engine_isRunning(const Impl *im) { (void)im; return G_running; }
/* engine->stop(): joins the I/O thread after shutdownDrain fired onClose for every session (those handlers take syncMutex): counters can only go down */
static inline void iora_engine_stop(Impl *im)
{ if (G_stop_calls < 1000) G_stop_calls++; G_stop_seq = ++G_seq; G_stop_with_lock = im->syncMutex.held; td_env_step(im); G_td_waited = 0; }
static inline bool iora_engine_send(Impl *im, SessionId sid, iora_spos p, size_t n) { (void)im; (void)p; (void)n; if (G_send_calls < 1000) G_send_calls++; G_eng_sid = sid; return G_eng_ret; }
static inline bool iora_engine_close(Impl *im, SessionId sid) { (void)im; if (G_close_calls < 1000) G_close_calls++; G_eng_sid = sid; return G_eng_ret; }
static inline iora_result iora_engine_addListener(Impl *im, iora_host h, uint16_t port, int tls) { (void)im; (void)h; (void)port; (void)tls; if (G_listen_calls < 1000) G_listen_calls++; return G_eng_ret ? iora_result_ok(1) : iora_result_err(TransportError_Bind); }
static inline Impl *iora_uptr_release(Impl **p) { Impl *r = *p; *p = NULL; G_release_seq = ++G_seq; return r; }
Impl *G_sched_arg;
static inline void iora_engine_scheduleSelfDestruct(Impl *raw) { IORA_ASSERT(raw != NULL, "deferred deleter gets the released Impl"); G_sched_seq = ++G_seq; G_sched_arg = raw; }
static inline void iora_engine_detach(Impl *raw) { IORA_ASSERT(raw != NULL, "detach on the released Impl's engine"); G_detach_seq = ++G_seq; }

/* ---- Impl::FlushGuard: reference members bound here (m, activeFlushes, teardownCv), shared_ptr buf; ctor / dtor BODIES are extracted ---- */
typedef struct { bool engaged; iora_mutex *m_ref; size_t *af_ref; iora_cv *teardownCv; SyncReceiveBuffer *buf; } iora_flushguard;
static inline void FlushGuard_ctor_body(iora_flushguard *self);
static inline void FlushGuard_dtor(iora_flushguard *self);
static inline size_t *iora_fg_counter(iora_flushguard *g) { IORA_ASSERT(g->m_ref->held, "LK3 activeFlushes modified with syncMutex held"); return g->af_ref; }
static inline void iora_flushguard_reset(iora_flushguard *g) { g->engaged = 0; g->m_ref = 0; g->af_ref = 0; g->teardownCv = 0; g->buf = 0; }
static inline void iora_flushguard_engage(iora_flushguard *g, iora_mutex *m, size_t *af, iora_cv *tcv, SyncReceiveBuffer *b)
{ g->engaged = 1; g->m_ref = m; g->af_ref = af; g->teardownCv = tcv; g->buf = b; FlushGuard_ctor_body(g); }

/* ---- receiveSync / connectSync as seen by teardown (the full functional contracts are in units sync_receive / sync_connect; here: fences, definite
 * results and counter restoration). Parked waits: ONE environment step in which anything allowed by the monitor may happen - in particular teardown may
 * set shuttingDown - and the wait returns its predicate (wait_until) / returns (wait_for). ---- */
typedef struct { size_t cap; } iora_outbuf;
static inline iora_time iora_deadline(iora_time t) { return t; }
static inline void iora_copy_out(iora_outbuf *out, SyncReceiveBuffer *b, iora_spos src, size_t n) { IORA_ASSERT(b->data.lo <= src && n <= b->data.hi - src && n <= out->cap, "MC memcpy inside the vector and the caller's buffer"); }
typedef struct { size_t *counter_ref; iora_cv *teardownCv; const iora_mutex *guard; } iora_parkguard;
static inline void ParkGuard_ctor_body(iora_parkguard *self);
static inline void ParkGuard_dtor(iora_parkguard *self);
static inline size_t *iora_pg_counter(iora_parkguard *g) { IORA_ASSERT(g->guard->held, "LK3 park counter modified with syncMutex held"); return g->counter_ref; }
static inline iora_parkguard iora_parkguard_make(size_t *c, iora_cv *tcv, const iora_mutex *m) { iora_parkguard g = { c, tcv, m }; ParkGuard_ctor_body(&g); return g; }
static inline void iora_parkguard_dtor(iora_parkguard *g) { ParkGuard_dtor(g); }
bool G_parked, G_sd_at_wake; size_t G_ar_at_wake, G_ac_at_wake, G_rx_waiters_at_wake; unsigned G_unlocks;
static inline void pk_env_buffer(Impl *im, SyncReceiveBuffer *b)
{ size_t lo = nondet_size_t(), hi = nondet_size_t(); IORA_ASSUME(lo >= b->data.lo && hi >= b->data.hi && lo <= hi);
  b->data.lo = lo; b->data.hi = hi; b->hasData = hi > lo; if (nondet_bool()) b->closed = 1; if (nondet_bool()) b->overflow = 1; b->flushing = nondet_bool();
  if (nondet_bool()) im->shuttingDown = 1;
  size_t ar = nondet_size_t(); IORA_ASSUME(ar >= 1 && ar < (size_t)-1); im->activeReceives = ar; }
#define IORA_CV_WAIT_UNTIL(s, b, l, P) \
  IORA_ASSERT((l).owns && (l).m->held && (l).m == &_impl->syncMutex, "LK4 condition-variable wait with syncMutex owned"); \
  bool s = (P); if (!s) { pk_env_buffer(_impl, b); s = (P); } \
  G_parked = 1; G_sd_at_wake = _impl->shuttingDown; G_ar_at_wake = _impl->activeReceives; G_rx_waiters_at_wake = (b)->waiters
static inline void pk_env_connect(Impl *im, SyncConnectOp *op)
{ if (nondet_bool()) im->shuttingDown = 1;
  if (!op->done && nondet_bool()) { op->done = 1; op->result = nondet_bool() ? iora_result_ok(nondet_u64()) : iora_result_err(nondet_int()); }
  size_t ac = nondet_size_t(); IORA_ASSUME(ac >= 1 && ac < (size_t)-1); im->activeConnects = ac; }
#define IORA_CV_WAIT_FOR(o, l, P) \
  IORA_ASSERT((l).owns && (l).m->held && (l).m == &_impl->syncMutex, "LK4 condition-variable wait with syncMutex owned"); \
  if (!(P)) { pk_env_connect(_impl, o); } \
  G_parked = 1; G_sd_at_wake = _impl->shuttingDown; G_ac_at_wake = _impl->activeConnects
SyncConnectOp G_fresh_op;
static inline SyncConnectOp *iora_make_sco(Impl *im) { SyncConnectOp *o = &G_fresh_op; o->done = false; o->abandoned = false; o->result = iora_result_err(TransportError_Timeout); o->guard = &im->syncMutex; o->cv.n_one = 0; o->cv.n_all = 0; return o; }
unsigned G_connect_calls; bool G_conn_fails;
static inline iora_result iora_engine_connect(Impl *im, iora_host h, uint16_t port, int tls) { (void)im; (void)h; (void)port; (void)tls; if (G_connect_calls < 1000) G_connect_calls++; return G_conn_fails ? iora_result_err(TransportError_Connect) : iora_result_ok(nondet_u64()); }
static inline void sc_ulock_unlock(iora_ulock *l) { iora_ulock_unlock(l); if (G_unlocks < 1000) G_unlocks++; }
static inline void sc_ulock_lock(iora_ulock *l) { pk_env_connect(G_impl, &G_fresh_op); iora_ulock_lock(l); G_ac_at_wake = G_impl->activeConnects; }

/* ---- loop contracts (range-for over the two maps: every parked condition variable is notified) ---- */
#if !defined(IORA_CANARIES)
#undef IORA_CANARY_LOOP
#define IORA_CANARY_LOOP(msg) ((void)0)
#endif
#define TD_PC_LOOP IORA_LC( \
  __CPROVER_assigns(kv.k, G_wop.cv.n_all, G_wop.cv.n_one, G_cur_op.cv.n_all, G_cur_op.cv.n_one, G_notifies) \
  __CPROVER_loop_invariant(kv.k <= kv.N && self->shuttingDown && self->syncMutex.held) \
  __CPROVER_loop_invariant((kv.wpos != CUR_NONE && kv.wpos < kv.k) ? G_wop.cv.n_all == __CPROVER_loop_entry(G_wop.cv.n_all) + 1 : G_wop.cv.n_all == __CPROVER_loop_entry(G_wop.cv.n_all)) \
  __CPROVER_decreases(kv.N - kv.k))
#define TD_RB_LOOP IORA_LC( \
  __CPROVER_assigns(kv.k, G_wbuf.cv.n_all, G_wbuf.cv.n_one, G_cur_buf.cv.n_all, G_cur_buf.cv.n_one, G_notifies) \
  __CPROVER_loop_invariant(kv.k <= kv.N && self->shuttingDown && self->syncMutex.held) \
  __CPROVER_loop_invariant((kv.wpos != CUR_NONE && kv.wpos < kv.k) ? G_wbuf.cv.n_all == __CPROVER_loop_entry(G_wbuf.cv.n_all) + 1 : G_wbuf.cv.n_all == __CPROVER_loop_entry(G_wbuf.cv.n_all)) \
  __CPROVER_decreases(kv.N - kv.k))
/* keyed by the scanned map (plugin.py hook_end), not by ordinal: a removed wake loop leaves its contract unused instead of unmapped */
#define TDLOOP_pendingConnects TD_PC_LOOP
#define TDLOOP_receiveBuffers TD_RB_LOOP
