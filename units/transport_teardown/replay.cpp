// REPLAY adapter for unit transport_teardown: the REAL Transport over a scripted engine, real threads where a caller must be parked.
// SCEN 1: clause FS1/FS2 - the teardown fence is set (first action of teardownWaitOut / setTeardownFence), then setReadMode(sid, Sync) is issued
// SCEN 2: a receiveSync parked through a raw pointer while the last shared_ptr is dropped on another thread (destructor handshake)
// SCEN 3: the same with connectSync            SCEN 4: stop() on the running I/O thread (guard)
#include "../sync_ondata/scripted_engine.h"
#include "replay_io.h"
#include <thread>
struct IoEngine : ScriptedEngine { std::thread::id io; bool running = false; unsigned stops = 0; std::function<void()> deleter;
  void scheduleSelfDestruct(std::function<void()> d) override { deleter = std::move(d); }
  bool isRunning() const override { return running; } std::thread::id getIoThreadId() const override { return io; } void stop() override { stops++; running = false; } };
int main(int argc, char **argv) {
  auto in = replay_io::load(argv[1]); int scen = (int)replay_io::u64(in["SCEN"]);
  auto eng = std::make_unique<IoEngine>(); IoEngine *e = eng.get();
  auto t = Transport::withEngine(std::move(eng), TransportConfig{});
  if (scen == 1) {
    { std::lock_guard<std::mutex> lk(t->_impl->syncMutex); t->_impl->shuttingDown = true; }       // what teardown does first
    bool r = t->setReadMode(7, ReadMode::Sync);
    size_t bufs, modes; { std::lock_guard<std::mutex> lk(t->_impl->syncMutex); bufs = t->_impl->receiveBuffers.size(); modes = t->_impl->readModes.size(); t->_impl->shuttingDown = false; }
    printf("shuttingDown set; setReadMode(7, Sync) -> %s, receiveBuffers=%zu readModes=%zu\n", r ? "true" : "false", bufs, modes);
    if (r || bufs || modes) replay_io::fail("FS1/FS2: after the teardown fence is set, a (non-flush) setReadMode still succeeds and writes readModes / creates a receive buffer");
    replay_io::ok("fenced");
  } else if (scen == 2 || scen == 3) {
    Transport *raw = t.get(); TransportError code = TransportError::None; bool ok = true;
    std::thread th([&] {
      if (scen == 2) { uint8_t b[8]; size_t len = 8; auto r = raw->receiveSync(7, b, len, std::chrono::milliseconds(20000)); ok = r.isOk(); if (!ok) code = r.error().code; }
      else { auto r = raw->connectSync("peer", 1, TlsMode::None, std::chrono::milliseconds(20000)); ok = r.isOk(); if (!ok) code = r.error().code; } });
    for (;;) { std::this_thread::sleep_for(std::chrono::milliseconds(2)); std::lock_guard<std::mutex> lk(raw->_impl->syncMutex); if ((scen == 2 ? raw->_impl->activeReceives : raw->_impl->activeConnects) == 1) break; }
    auto t0 = std::chrono::steady_clock::now();
    t.reset();                                   // last owner: ~Transport -> performTeardown -> handshake
    auto ms = std::chrono::duration_cast<std::chrono::milliseconds>(std::chrono::steady_clock::now() - t0).count();
    th.join();
    printf("destructor returned after %lld ms; parked call -> %s code=%d\n", (long long)ms, ok ? "ok" : "err", (int)code);
    if (ok || code != TransportError::ShuttingDown) replay_io::fail("D9/R2 a call parked at teardown must return ShuttingDown");
    if (ms > 5000) replay_io::fail("handshake did not return promptly");
    replay_io::ok("parked call released with a definite result; no use-after-free (ASan)");
  } else if (scen == 5) {
    // TD8/TD5: the SOLE owner releases the Transport on the I/O thread (deferred self-destruct branch of ~Transport) while a connectSync is parked elsewhere
    Transport *raw = t.get(); TransportError code = TransportError::None; bool ok = true;
    std::thread th([&] { auto r = raw->connectSync("peer", 1, TlsMode::None, std::chrono::milliseconds(4000)); ok = r.isOk(); if (!ok) code = r.error().code; });
    for (;;) { std::this_thread::sleep_for(std::chrono::milliseconds(2)); std::lock_guard<std::mutex> lk(raw->_impl->syncMutex); if (raw->_impl->activeConnects == 1) break; }
    e->io = std::this_thread::get_id(); e->running = true;       // this thread plays the I/O thread inside one of its callbacks
    auto t0 = std::chrono::steady_clock::now();
    t.reset();
    auto ms = std::chrono::duration_cast<std::chrono::milliseconds>(std::chrono::steady_clock::now() - t0).count();
    th.join();
    printf("~Transport on the I/O thread returned after %lld ms; parked connectSync -> %s code=%d; deferred deleter %s\n", (long long)ms, ok ? "ok" : "err", (int)code, e->deleter ? "scheduled" : "MISSING");
    auto del = e->deleter; if (del) del();                       // what the engine thread's epilogue does
    if (ms > 1500) replay_io::fail("TD8: the parked connectSync was not woken by the self-destruct teardown - the I/O thread sat in the handshake until the connector's own timeout");
    if (ok || code != TransportError::ShuttingDown) replay_io::fail("PC3 woken by teardown: ShuttingDown");
    if (!del) replay_io::fail("TD3 Impl must be handed to the deferred deleter");
    replay_io::ok("self-destruct on the I/O thread wakes the parked connectSync and defers the deletion");
    return 0;
  } else {
    e->io = std::this_thread::get_id(); e->running = true;
    bool threw = false; try { t->stop(); } catch (const std::logic_error &) { threw = true; }
    if (!threw || e->stops != 0) replay_io::fail("ST1/ST2 stop() on the running I/O thread must throw and must not call engine->stop()");
    e->io = std::thread::id(); t->stop(); if (e->stops != 1) replay_io::fail("ST2 stop() elsewhere issues engine->stop() once");
    replay_io::ok("I/O-thread guard of stop()");
  }
  return 0;
}
