/* Contracts for the sequential / monitor core of property C05 ("stopping or destroying a transport never strands ..."), transport_impl.hpp.
 * What these harnesses decide is listed per clause; what C05 needs beyond them (bounded time, no callback after stop() returned, use-after-free,
 * data races on real threads) is NOT decided - see NOTES.md.  W = witness session of the maps (arbitrary). */
#define TD_SETUP \
  Impl impl; iora_engine eng; Impl *self = &impl; Transport tr; tr._impl = &impl; \
  SessionId W = nondet_u64(); \
  G_impl = self; impl.engine = &eng; IORA_TRUE = 1; G_fresh = &G_fresh_buf; G_made = 0; iora_exc = EXC_NONE; \
  impl.syncMutex.held = 0; impl.callbackMutex.held = 0; \
  impl.pendingConnects.guard = &impl.syncMutex; impl.readModes.guard = &impl.syncMutex; impl.receiveBuffers.guard = &impl.syncMutex; \
  impl.pendingConnects.wkey = W; impl.readModes.wkey = W; impl.receiveBuffers.wkey = W; \
  impl.pendingConnects.wval = &G_wop; impl.pendingConnects.other = &G_oop; impl.receiveBuffers.wval = &G_wbuf; impl.receiveBuffers.other = &G_obuf; \
  G_wop.guard = &impl.syncMutex; G_oop.guard = &impl.syncMutex; G_cur_op.guard = &impl.syncMutex; \
  G_wbuf.guard = &impl.syncMutex; G_wbuf.data.guard = &impl.syncMutex; G_obuf.guard = &impl.syncMutex; G_obuf.data.guard = &impl.syncMutex; G_cur_buf.guard = &impl.syncMutex; G_cur_buf.data.guard = &impl.syncMutex; \
  impl.pendingConnects.present = nondet_bool(); impl.readModes.present = nondet_bool(); impl.receiveBuffers.present = nondet_bool(); impl.shuttingDown = nondet_bool(); \
  G_wop.done = nondet_bool(); G_wop.cv.n_all = nondet_int() & 255; G_wbuf.cv.n_all = nondet_int() & 255; \
  G_wbuf.data.lo = nondet_size_t(); G_wbuf.data.hi = nondet_size_t(); G_wbuf.hasData = nondet_bool(); G_wbuf.closed = nondet_bool(); G_wbuf.flushing = nondet_bool(); G_wbuf.overflow = nondet_bool(); G_wbuf.waiters = nondet_size_t(); \
  __CPROVER_assume(G_wbuf.data.lo <= G_wbuf.data.hi && G_wbuf.hasData == (G_wbuf.data.hi > G_wbuf.data.lo) && impl.readModes.wval <= ReadMode_Disabled); \
  impl.activeReceives = nondet_size_t(); impl.activeConnects = nondet_size_t(); impl.activeFlushes = nondet_size_t(); \
  G_on_io_thread = nondet_bool(); G_running = nondet_bool(); G_eng_ret = nondet_bool(); \
  G_seq = 0; G_wait_done_seq = 0; G_release_seq = 0; G_sched_seq = 0; G_detach_seq = 0; G_stop_seq = 0; G_fence_seq = 0; G_notifies = 0; G_td_waited = 0; \
  G_stop_calls = 0; G_send_calls = 0; G_close_calls = 0; G_listen_calls = 0; G_stop_with_lock = 0; \
  Impl impl0 = impl; unsigned wop_n0 = G_wop.cv.n_all, wbuf_n0 = G_wbuf.cv.n_all; SyncReceiveBuffer w0 = G_wbuf; bool wop_done0 = G_wop.done;
#define COUNTERS_ZERO(im) ((im).activeReceives == 0 && (im).activeConnects == 0 && (im).activeFlushes == 0)
#define MAPS_SAME(a, b) ((a).pendingConnects.present == (b).pendingConnects.present && (a).receiveBuffers.present == (b).receiveBuffers.present && (a).receiveBuffers.wval == (b).receiveBuffers.wval \
                         && (a).readModes.present == (b).readModes.present && (a).readModes.wval == (b).readModes.wval)

/* ---- (1) Impl::teardownWaitOut(notifyReceive) ---- */
void h_waitout(void)
{
  TD_SETUP
  bool notifyReceive = nondet_bool();
  Impl_teardownWaitOut(self, notifyReceive);
  IORA_CANARY("h_waitout: returns");
  __CPROVER_assert(!impl.syncMutex.held, "LK5 syncMutex released at return");
  __CPROVER_assert(impl.shuttingDown, "TW1 shuttingDown is set (CV1: under syncMutex; CV2: before any waiter is notified - shim obligations)");
  __CPROVER_assert(G_wop.cv.n_all <= wop_n0 + 1, "TW2 a parked connectSync is notified at most once by the handshake (THAT it is notified on every teardown path is decided at the path ends: TP4, TD8)");
  __CPROVER_assert(!impl0.receiveBuffers.present || G_wbuf.cv.n_all == wbuf_n0 + (notifyReceive ? 1u : 0u), "TW3 every receive buffer's condition variable is notified iff notifyReceive");
  __CPROVER_assert(COUNTERS_ZERO(impl), "TW4 the handshake returns ONLY when no parked receiveSync, no parked connectSync and no flusher remains (its wait predicate is exactly the three counters)");
  __CPROVER_assert(MAPS_SAME(impl, impl0) && SAME_BUF(G_wbuf, w0) && G_wop.done == wop_done0, "TW5 the handshake itself modifies neither the maps nor any record (it only notifies)");
  if (G_td_waited) { IORA_CANARY("h_waitout: had to wait"); } else { IORA_CANARY("h_waitout: nobody parked"); }
}

/* ---- Impl::setTeardownFence() ---- */
void h_fence(void)
{
  TD_SETUP
  Impl_setTeardownFence(self);
  IORA_CANARY("h_fence: returns");
  __CPROVER_assert(!impl.syncMutex.held && impl.shuttingDown, "TF1 fence set under the lock, lock released");
  __CPROVER_assert(!impl0.pendingConnects.present || G_wop.cv.n_all == wop_n0 + 1, "TF2 every parked connectSync is notified");
  __CPROVER_assert(G_wbuf.cv.n_all == wbuf_n0, "TF3 receive waiters are NOT notified here (drain-before-close: engine->stop()'s onClose wakes them after delivering the tail)");
  __CPROVER_assert(MAPS_SAME(impl, impl0) && impl.activeReceives == impl0.activeReceives && impl.activeConnects == impl0.activeConnects && impl.activeFlushes == impl0.activeFlushes, "TF4 nothing else is modified");
}

/* ---- Impl::performTeardown() (non-I/O-thread teardown) ---- */
void h_perform(void)
{
  TD_SETUP
  __CPROVER_assume(!G_on_io_thread);                 /* precondition = the source's assert; discharged at the call site in ~Transport (h_dtor) */
  Impl_performTeardown(self);
  IORA_CANARY("h_perform: returns");
  __CPROVER_assert(!impl.syncMutex.held && impl.shuttingDown && COUNTERS_ZERO(impl), "TP1 returns with the fence set and all three counters zero");
  __CPROVER_assert(G_stop_calls == (G_running ? 1u : 0u), "TP2 engine->stop() is issued exactly when the engine is running");
  __CPROVER_assert(!G_running || (!G_stop_with_lock && G_fence_seq != 0 && G_fence_seq < G_stop_seq && G_stop_seq < G_wait_done_seq), "TP3 order: fence (under the lock), then engine->stop() WITHOUT syncMutex, then the wait-out");
  __CPROVER_assert(!impl0.pendingConnects.present || G_wop.cv.n_all >= wop_n0 + 1, "TP4 every parked connectSync is notified");
  __CPROVER_assert(!impl0.receiveBuffers.present || G_wbuf.cv.n_all == wbuf_n0 + (G_running ? 0u : 1u), "TP5 receive waiters are notified by the handshake only on the already-stopped path (running: onClose wakes them after the drain)");
  if (G_running) { IORA_CANARY("h_perform: running"); } else { IORA_CANARY("h_perform: already stopped"); }
}

/* ---- Transport::~Transport() ---- */
void h_dtor(void)
{
  TD_SETUP
  bool has_impl = nondet_bool(), has_engine = nondet_bool();
  if (!has_impl) tr._impl = 0;
  if (!has_engine) impl.engine = 0;
  Transport_dtor(&tr);
  IORA_CANARY("h_dtor: returns");
  if (!has_impl || !has_engine)
  {
    IORA_CANARY("h_dtor: nothing to tear down");
    __CPROVER_assert(G_stop_calls == 0 && G_release_seq == 0 && G_wait_done_seq == 0, "TD0 no Impl / no engine: nothing is done");
    return;
  }
  __CPROVER_assert(!impl.syncMutex.held && impl.shuttingDown && COUNTERS_ZERO(impl), "TD1 on EVERY path the destructor body ends with the fence set and no parked / in-flight sync operation left");
  __CPROVER_assert(!impl0.pendingConnects.present || G_wop.cv.n_all >= wop_n0 + 1, "TD8 on EVERY teardown path (also the I/O-thread self-destruct branch, which does not go through the fence) every parked connectSync has been notified - else it sleeps until its own timeout while the handshake waits for activeConnects == 0");
  if (G_on_io_thread)
  {
    IORA_CANARY("h_dtor: on the I/O thread (sole owner released inside a callback)");
    __CPROVER_assert(G_stop_calls == 0, "TD2 I/O thread: engine->stop() (which joins the I/O thread) is NOT called - no self-join");
    __CPROVER_assert(tr._impl == 0 && G_sched_arg == &impl, "TD3 I/O thread: Impl is RELEASED and handed to the engine's deferred deleter - it is not destroyed under the running dispatch");
    __CPROVER_assert(G_wait_done_seq != 0 && G_wait_done_seq < G_release_seq && G_release_seq < G_sched_seq && G_sched_seq < G_detach_seq, "TD4 order: wait-out, release, scheduleSelfDestruct, detachForTermination");
    __CPROVER_assert(!impl0.receiveBuffers.present || G_wbuf.cv.n_all == wbuf_n0 + 1, "TD5 I/O thread: receive waiters are notified too (no onClose will fire)");
  }
  else
  {
    IORA_CANARY("h_dtor: on another thread");
    __CPROVER_assert(tr._impl == &impl && G_release_seq == 0 && G_sched_seq == 0 && G_detach_seq == 0, "TD6 other thread: Impl stays owned - ~Impl (maps, mutex, engine) runs only AFTER this body, i.e. after the handshake returned with zero counters");
    __CPROVER_assert(G_stop_calls == (G_running ? 1u : 0u), "TD7 engine->stop() exactly when running");
  }
}

/* ---- Transport::stop() ---- */
void h_stop(void)
{
  TD_SETUP
  bool has_impl = nondet_bool(), has_engine = nondet_bool();
  if (!has_impl) tr._impl = 0;
  if (!has_engine) impl.engine = 0;
  Transport_stop(&tr);
  IORA_CANARY("h_stop: returns");
  bool guard = has_impl && has_engine && G_running && G_on_io_thread;
  __CPROVER_assert((iora_exc == EXC_logic_error) == guard, "ST1 stop() from inside a callback on the running I/O thread: logic_error (would self-join)");
  __CPROVER_assert(G_stop_calls == ((has_impl && has_engine && !guard) ? 1u : 0u), "ST2 ... and engine->stop() is NOT issued then; otherwise exactly once");
  __CPROVER_assert(impl.shuttingDown == impl0.shuttingDown && !impl.syncMutex.held, "ST3 stop() itself does not set the teardown fence (only destruction does)");
  if (guard) { IORA_CANARY("h_stop: guarded"); }
}

/* ---- (3) FlushGuard constructor / destructor bodies ---- */
void h_flushguard(void)
{
  TD_SETUP
  __CPROVER_assume(impl.activeFlushes < (size_t)-1 && impl.teardownCv.n_one < 1000);
  iora_flushguard g; iora_flushguard_reset(&g);
  impl.syncMutex.held = 1;                                      /* the constructor's precondition: the caller holds syncMutex */
  iora_flushguard_engage(&g, &impl.syncMutex, &impl.activeFlushes, &impl.teardownCv, &G_wbuf);
  __CPROVER_assert(G_wbuf.flushing && impl.activeFlushes == impl0.activeFlushes + 1, "FG1 ctor: marks the buffer flushing and counts the flusher (both under the lock: LK3)");
  impl.syncMutex.held = 0;                                      /* the flush loop has released the lock at scope exit (sync_receive LK5) */
  unsigned td0 = impl.teardownCv.n_one;
  FlushGuard_dtor(&g);
  IORA_CANARY("h_flushguard: returns");
  __CPROVER_assert(!G_wbuf.flushing && impl.activeFlushes == impl0.activeFlushes && impl.teardownCv.n_one == td0 + 1 && !impl.syncMutex.held, "FG2 dtor: takes the lock itself, clears flushing, restores the counter, wakes the teardown handshake, releases the lock");
}

/* ---- the buffer-fetch block of setReadMode (Sync->Async): entry fence + FlushGuard construction under the fetch lock ---- */
void h_fetch(void)
{
  TD_SETUP
  SessionId sid = nondet_u64(); SyncReceiveBuffer *buf; iora_flushguard fg;
  __CPROVER_assume(impl.activeFlushes < (size_t)-1);
  int st = setReadMode_fetch(self, sid, &buf, &fg);
  IORA_CANARY("h_fetch: returns");
  __CPROVER_assert(!impl.syncMutex.held, "LK5");
  if (impl0.shuttingDown)
  {
    IORA_CANARY("h_fetch: entry fence");
    __CPROVER_assert(st == 0 && !fg.engaged && MAPS_SAME(impl, impl0) && SAME_BUF(G_wbuf, w0) && impl.activeFlushes == impl0.activeFlushes, "FE1 entry fence: returns false, touches no map, marks nothing, is not counted");
    return;
  }
  if (sid != W) { IORA_CANARY("h_fetch: other session"); __CPROVER_assert(MAPS_SAME(impl, impl0) && SAME_BUF(G_wbuf, w0), "F3 other sessions untouched"); return; }
  if (!impl0.receiveBuffers.present)
  { IORA_CANARY("h_fetch: nothing buffered"); __CPROVER_assert(st == 1 && !fg.engaged && impl.readModes.present && impl.readModes.wval == ReadMode_Async && impl.activeFlushes == impl0.activeFlushes, "FE2 no buffer: mode becomes Async at once, no flusher counted"); return; }
  if (w0.closed && st == 0) { __CPROVER_assert(!fg.engaged && MAPS_SAME(impl, impl0) && SAME_BUF(G_wbuf, w0) && impl.activeFlushes == impl0.activeFlushes, "FE4 a refusal for an already closed session touches nothing"); return; }
  IORA_CANARY("h_fetch: flush begins");
  __CPROVER_assert(st == 2 && fg.engaged && buf == &G_wbuf && fg.buf == &G_wbuf && G_wbuf.flushing && impl.activeFlushes == impl0.activeFlushes + 1 && impl.readModes.present == impl0.readModes.present, "FE3 the flusher is marked and counted under the SAME lock acquisition that fetched the buffer; the mode is untouched");
}

/* ---- (2) operations that are pure engine delegations: no Transport-level fence, no Transport state ---- */
void h_delegations(void)
{
  TD_SETUP
  SessionId sid = nondet_u64(); iora_chunk data; iora_time to; iora_host h; int which = nondet_int();
  __CPROVER_assume(data.n <= STREAM_LIMIT && which >= 0 && which <= 3);
  bool rb = 0; iora_result rr = iora_result_err(0);
  if (which == 0) rb = Transport_send(self, sid, data);
  else if (which == 1) rr = Transport_sendSync(self, sid, data, to);
  else if (which == 2) rb = Transport_close(self, sid);
  else rr = Transport_addListener(self, h, 0, 0);
  IORA_CANARY("h_delegations: returns");
  __CPROVER_assert(!impl.syncMutex.held && MAPS_SAME(impl, impl0) && impl.shuttingDown == impl0.shuttingDown && COUNTERS_ZERO(impl) == COUNTERS_ZERO(impl0), "DG1 send / sendSync / close / addListener take no Transport lock and touch no Transport state");
  bool guard = (which == 1 && G_on_io_thread) || (which == 3 && G_running && G_on_io_thread);
  __CPROVER_assert((iora_exc == EXC_logic_error) == guard, "DG2 I/O-thread guard: logic_error exactly for sendSync on the I/O thread and addListener on the running I/O thread");
  __CPROVER_assert(G_send_calls + G_close_calls + G_listen_calls == (guard ? 0u : 1u), "DG3 otherwise exactly one engine call - also after shuttingDown is set: these operations have NO Transport-level fence, they return what the engine returns");
  __CPROVER_assert(guard || which != 0 || rb == G_eng_ret, "DG4 send: the engine's result");
  __CPROVER_assert(guard || which != 2 || (rb == G_eng_ret && G_eng_sid == sid), "DG5 close: the engine's result, for sid");
  __CPROVER_assert(guard || which != 1 || (rr.ok == G_eng_ret && (rr.ok ? rr.value == data.n : rr.code == TransportError_Socket)), "DG6 sendSync: ok(size) iff the engine accepted, else a definite Socket error");
}

/* ---- (2) entry fence of setReadMode, clause from C05 "operations issued afterwards fail cleanly" / INV-8 of the source ("entry fence"):
 * once shuttingDown is set a read-mode switch must return false without touching the maps. The Sync->Async path has the fence (FE1 above,
 * and T1 of sync_receive inside the loop); step 1 (every other transition) is checked here. ---- */
void h_fence_step1(void)
{
  TD_SETUP
  SessionId sid = nondet_u64(); ReadMode mode = nondet_u8(); __CPROVER_assume(mode <= ReadMode_Disabled);
  __CPROVER_assume(impl.shuttingDown);
  int st = setReadMode_step1(self, sid, mode);
  IORA_CANARY("h_fence_step1: returns");
  __CPROVER_assert(st == 0 || st == 2, "FS1 after shuttingDown is set, setReadMode does not report success from its first critical section");
  __CPROVER_assert(MAPS_SAME(impl, impl0) && G_made == 0, "FS2 ... and does not touch readModes / receiveBuffers");
}

/* ---- (2)+(3) receiveSync under teardown: entry fence; every exit of a parked call returns a definite result and restores both counters ---- */
void h_parked_receive(void)
{
  TD_SETUP
  SessionId sid = nondet_u64(); iora_outbuf ob; size_t len = nondet_size_t(); ob.cap = len; iora_time to;
  __CPROVER_assume(!G_on_io_thread && impl.activeReceives < (size_t)-1 && impl.teardownCv.n_one < 1000);
  G_parked = 0; size_t waiters0 = G_wbuf.waiters;
  iora_result r = Transport_receiveSync(self, sid, &ob, &len, to);
  IORA_CANARY("h_parked_receive: returns");
  __CPROVER_assert(!impl.syncMutex.held, "LK5 syncMutex released at return");
  if (impl0.shuttingDown)
  {
    IORA_CANARY("h_parked_receive: entry fence");
    __CPROVER_assert(!r.ok && r.code == TransportError_ShuttingDown && !G_parked, "FR1 entry fence of receiveSync: ShuttingDown, the caller does not park");
    __CPROVER_assert(MAPS_SAME(impl, impl0) && SAME_BUF(G_wbuf, w0) && impl.activeReceives == impl0.activeReceives && G_made == 0, "FR2 ... touches no map, creates no buffer, is not counted (the teardown gate cannot be re-armed)");
    return;
  }
  __CPROVER_assert(r.ok || r.code == TransportError_Cancelled || r.code == TransportError_Timeout || r.code == TransportError_BufferOverflow || r.code == TransportError_PeerClosed || r.code == TransportError_ShuttingDown, "PR1 every exit returns a definite result");
  __CPROVER_assert(G_parked ? impl.activeReceives == G_ar_at_wake - 1 : impl.activeReceives == impl0.activeReceives, "PR2 a parked call restores activeReceives on EVERY exit (also when woken by teardown); a call that did not park never touched it");
  if (sid == W && impl0.receiveBuffers.present) { __CPROVER_assert(G_wbuf.waiters == waiters0, "PR3 ... and the buffer's waiter count"); }
  __CPROVER_assert(!(G_parked && !r.ok && r.code == TransportError_ShuttingDown) || G_sd_at_wake, "PR4 ShuttingDown after parking only if teardown really began");
  if (G_parked && G_sd_at_wake) { IORA_CANARY("h_parked_receive: woken by teardown"); }
}
void h_parked_connect(void)
{
  TD_SETUP
  iora_host h; iora_time to;
  __CPROVER_assume(!G_on_io_thread && impl.activeConnects < (size_t)-1 && impl.teardownCv.n_one < 1000);
  impl.config.protocol = 0; G_parked = 0; G_connect_calls = 0; G_conn_fails = nondet_bool(); G_unlocks = 0; G_ac_at_wake = 0;
  iora_result r = Transport_connectSync(self, h, 0, 0, to);
  IORA_CANARY("h_parked_connect: returns");
  __CPROVER_assert(!impl.syncMutex.held, "LK5 syncMutex released at return");
  if (impl0.shuttingDown)
  {
    IORA_CANARY("h_parked_connect: entry fence");
    __CPROVER_assert(!r.ok && r.code == TransportError_ShuttingDown && !G_parked && G_connect_calls == 0 && G_close_calls == 0, "FC1 entry fence of connectSync: ShuttingDown, the engine is not touched, the caller does not park");
    __CPROVER_assert(impl.pendingConnects.present == impl0.pendingConnects.present && impl.activeConnects == impl0.activeConnects, "FC2 ... nothing registered, not counted");
    return;
  }
  __CPROVER_assert(G_parked ? impl.activeConnects == G_ac_at_wake - 1 : impl.activeConnects == impl0.activeConnects, "PC2 a parked connectSync restores activeConnects on EVERY exit");
  __CPROVER_assert(!(G_parked && G_sd_at_wake && !G_fresh_op.done) || (!r.ok && r.code == TransportError_ShuttingDown && G_close_calls == 0), "PC3 woken by teardown without completion: ShuttingDown, engine->close() not touched");
  if (G_parked && G_sd_at_wake) { IORA_CANARY("h_parked_connect: woken by teardown"); }
}
