"""Unit-local extraction plugin of transport_teardown.

hook_begin        conditional compilation: the lexer discards preprocessor lines, so BOTH branches of an `#ifdef M ... #else ... #endif` would be extracted.
                  For every macro named in unit.json "undefined_macros" (test-only switches that production builds do not define) the tokens on the
                  lines of the `#ifdef M` branch are removed (and for `#ifndef M` the `#else` branch): the text a build without M compiles.
hook_end          loop contracts of the teardown functions are keyed by the MAP the range-for scans (read from the loop's own header), not by the loop's ordinal:
                  IORA_LOOP_<fn>_<k> over pendingConnects / receiveBuffers is renamed TDLOOP_pendingConnects / TDLOOP_receiveBuffers. A wake loop that is REMOVED therefore
                  does not break the contract mapping (exit 2): the proofs run and the notify clauses at the end of every teardown path (TP4, TD8, TD5) decide.
hook_before_loops RAII scope exit of lock guards / ParkGuard (shared text raii.py, see units/sync_ondata/plugin.py)."""
import importlib.util
import os
import re
from vt import pipeline as pl

_sp = importlib.util.spec_from_file_location('transport_teardown_raii', os.path.join(os.path.dirname(os.path.abspath(__file__)), 'raii.py'))
_raii = importlib.util.module_from_spec(_sp)
_sp.loader.exec_module(_raii)


def _dead_lines(path, macros):
    dead = set()
    stack = []          # (macro or None, in_else, start_line)
    for no, line in enumerate(open(path, encoding='utf-8', errors='replace'), 1):
        m = re.match(r'\s*#\s*(ifdef|ifndef|if|else|elif|endif)\b\s*(\w*)', line)
        if not m:
            for mac, kind, in_else in stack:
                if mac in macros and ((kind == 'ifdef' and not in_else) or (kind == 'ifndef' and in_else)):
                    dead.add(no)
            continue
        d, name = m.group(1), m.group(2)
        if d in ('ifdef', 'ifndef', 'if'):
            stack.append([name if d != 'if' else None, d, False])
        elif d in ('else', 'elif') and stack:
            stack[-1][2] = True
        elif d == 'endif' and stack:
            stack.pop()
    return dead


def hook_begin(t, rw):
    macros = set(rw.unit.get('undefined_macros', []))
    if not macros:
        return t
    path = os.path.join(pl.REPO, rw.fn.get('file', rw.unit.get('file')))
    dead = _dead_lines(path, macros)
    out = [x for x in t if x.line not in dead]
    rw.R.fire('conditional compilation: tokens of undefined-macro branches removed', len(t) - len(out))
    return out


def hook_before_loops(t, rw):
    return _raii.hook_before_loops(t, rw)


def hook_end(tokens, rw):
    if rw.prefix not in ('Impl_teardownWaitOut', 'Impl_setTeardownFence'):
        return tokens
    for k, x in enumerate(tokens):
        if x.kind == 'id' and x.text.startswith('IORA_LOOP_' + rw.prefix + '_'):
            j = k - 1
            which = None
            while j > 0 and tokens[j].text != 'for':
                if tokens[j].text == 'iora_pccur_begin':
                    which = 'pendingConnects'
                elif tokens[j].text == 'iora_rbcur_begin':
                    which = 'receiveBuffers'
                j -= 1
            if which:
                x.text = 'TDLOOP_' + which
                rw.R.fire('loop contract keyed by scanned map: ' + which)
    return tokens
