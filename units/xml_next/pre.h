/* unit xml_next: Parser::next() in a PLAIN (non-DFCC) harness. The one big DFCC proof with eleven replaced callees ran out of memory
 * (8 and 20 GB); here the callees are inline assert/havoc/assume stubs built from the SAME SIG/PRE/FRAMELIST/clause-group macros that the
 * units xml_cursor and xml_tags prove (post.c). */
#define XML_GHOST_INLINE
#define XML_STUB_MODE
#include "iora_xml.h"
#include "../xml_cursor/contracts.h"
#include "../xml_tags/contracts.h"
SKIP_SIG(Parser_skipWhitespaceOutsideText);
MATCH_SIG(Parser_matchString);
MATCH_SIG(Parser_matchWordCaseInsensitive);
TOKEN_SIG(Parser_readText);
TOKEN_SIG(Parser_readProcessingInstruction);
TOKEN_SIG(Parser_readComment);
TOKEN_SIG(Parser_readCData);
TOKEN_SIG(Parser_readDoctype);
TOKEN_SIG(Parser_readEndTag);
TOKEN_SIG(Parser_readStartOrEmptyTag);
EOF_SIG(Parser_emitEof);
