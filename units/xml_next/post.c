/* ---------- stub generator: contract parts -> assert / havoc / assume ---------- */
#undef ENS
#undef RV
#undef OLD
#undef OC
#define ENS(...) IORA_ASSUME((__VA_ARGS__));
#define RV iora_rv
#define OLD(x) ({ const Parser *self = &iora_oldv; (x); })       /* the clause text evaluated in the entry snapshot */
#define OC (iora_oldv._cur)
#undef GLEN
#define GLEN iora_glen                                       /* strlen of the word, computed once per stub call (inlining XML_SLEN(s) into every clause made symex take 8 min) */
#define XML_H1(x) { __typeof__(x) iora_h; (x) = iora_h; }        /* an uninitialised local is nondeterministic */
#define XML_FE_1(F, a) F(a)
#define XML_FE_2(F, a, ...) F(a) XML_FE_1(F, __VA_ARGS__)
#define XML_FE_3(F, a, ...) F(a) XML_FE_2(F, __VA_ARGS__)
#define XML_FE_4(F, a, ...) F(a) XML_FE_3(F, __VA_ARGS__)
#define XML_FE_5(F, a, ...) F(a) XML_FE_4(F, __VA_ARGS__)
#define XML_FE_6(F, a, ...) F(a) XML_FE_5(F, __VA_ARGS__)
#define XML_FE_7(F, a, ...) F(a) XML_FE_6(F, __VA_ARGS__)
#define XML_FE_8(F, a, ...) F(a) XML_FE_7(F, __VA_ARGS__)
#define XML_FE_9(F, a, ...) F(a) XML_FE_8(F, __VA_ARGS__)
#define XML_FE_10(F, a, ...) F(a) XML_FE_9(F, __VA_ARGS__)
#define XML_FE_11(F, a, ...) F(a) XML_FE_10(F, __VA_ARGS__)
#define XML_FE_12(F, a, ...) F(a) XML_FE_11(F, __VA_ARGS__)
#define XML_FE_N(_1, _2, _3, _4, _5, _6, _7, _8, _9, _10, _11, _12, N, ...) N
#define XML_FE(F, ...) XML_FE_N(__VA_ARGS__, XML_FE_12, XML_FE_11, XML_FE_10, XML_FE_9, XML_FE_8, XML_FE_7, XML_FE_6, XML_FE_5, XML_FE_4, XML_FE_3, XML_FE_2, XML_FE_1)(F, __VA_ARGS__)
#define XML_HAVOC(...) XML_FE(XML_H1, __VA_ARGS__)
/* bool-returning stub */
#define XML_STUB(SIG, PRE, GHOST, POST, ...) SIG { IORA_ASSERT(PRE, "callee precondition (requires of its proved contract) holds at the call"); \
  Parser iora_oldv = *self; GHOST XML_HAVOC(__VA_ARGS__) bool iora_rv = nondet_bool(); POST return iora_rv; }
#define XML_STUB_VOID(SIG, PRE, GHOST, POST, ...) SIG { IORA_ASSERT(PRE, "callee precondition (requires of its proved contract) holds at the call"); \
  Parser iora_oldv = *self; GHOST XML_HAVOC(__VA_ARGS__) POST }

/* ---------- ghost bookkeeping of the harness (explicitly initialised: plain proofs start statics nondeterministic) ---------- */
enum { R_NONE, R_TEXT, R_PI, R_COMMENT, R_CDATA, R_DOCTYPE, R_END, R_START };
int G_reader; unsigned G_reader_calls, G_skip_calls, G_eof_calls, G_match_calls;
size_t G_p, G_p_line, G_p_col;                  /* cursor / line / column after the leading white space (= start of the token) */
size_t G_reader_cur, G_reader_start, G_reader_line, G_reader_col;
#define READER(k) IORA_ASSERT(G_reader == R_NONE && G_eof_calls == 0, "at most one token reader per call, never after emitEof"); G_reader = (k); G_reader_calls++; \
  G_reader_cur = self->_cur; G_reader_start = startOffset; G_reader_line = startLine; G_reader_col = startCol;

XML_STUB_VOID(SKIP_SIG(Parser_skipWhitespaceOutsideText), SKIP_PRE, G_skip_calls++;, SKIP_SAFE SKIP_CONTENT G_p = self->_cur; G_p_line = self->_line; G_p_col = self->_col;, CUR_FRAMELIST)
/* proof "next" uses the SAFE+SOUND groups of the two matchers; proof "next_complete" (-DNEXT_COMPLETE) adds their COMPLETE groups and checks only
 * the three completeness clauses of the '<!' family (the unrolled 7-byte prefix comparison is expensive in symex) */
#ifdef NEXT_COMPLETE
#define MATCH_STUB_POST MATCH_SAFE MATCH_SOUND MATCH_COMPLETE
#define MATCHWORD_STUB_POST MATCH_SAFE MATCHWORD_SOUND MATCHWORD_COMPLETE
#else
#define MATCH_STUB_POST MATCH_SAFE MATCH_SOUND
#define MATCHWORD_STUB_POST MATCH_SAFE MATCHWORD_SOUND
#endif
XML_STUB(MATCH_SIG(Parser_matchString), MATCH_PRE, G_match_calls++; size_t iora_glen = XML_SLEN(s);, MATCH_STUB_POST, CUR_FRAMELIST)
XML_STUB(MATCH_SIG(Parser_matchWordCaseInsensitive), MATCH_PRE, G_match_calls++; size_t iora_glen = XML_SLEN(s);, MATCHWORD_STUB_POST, CUR_FRAMELIST)
XML_STUB(TOKEN_SIG(Parser_readText), RTEXT_PRE, READER(R_TEXT), RTEXT_SAFE RTEXT_SLICE RTEXT_CONTENT, TOKEN_FRAMELIST)
XML_STUB(TOKEN_SIG(Parser_readProcessingInstruction), OTHER_PRE, READER(R_PI), OTHER_SAFE OTHER_TOKEN(TokenKind_ProcessingInstruction), TOKEN_FRAMELIST)
XML_STUB(TOKEN_SIG(Parser_readDoctype), DOCTYPE_PRE, READER(R_DOCTYPE), OTHER_SAFE OTHER_TOKEN(TokenKind_Doctype) DOCTYPE_SLICE, TOKEN_FRAMELIST)
XML_STUB(TOKEN_SIG(Parser_readComment), DELIM_PRE, READER(R_COMMENT), DELIM_POST(TokenKind_Comment), TOKEN_FRAMELIST)
XML_STUB(TOKEN_SIG(Parser_readCData), DELIM_PRE, READER(R_CDATA), DELIM_POST(TokenKind_CData), TOKEN_FRAMELIST)
XML_STUB(TOKEN_SIG(Parser_readEndTag), END_PRE, READER(R_END), END_SAFE END_POP END_MATCH, END_FRAMELIST)
XML_STUB(TOKEN_SIG(Parser_readStartOrEmptyTag), START_PRE, READER(R_START), START_SAFE START_DEPTH START_PUSH, START_FRAMELIST)
XML_STUB_VOID(EOF_SIG(Parser_emitEof), EMITEOF_PRE, IORA_ASSERT(G_reader == R_NONE, "emitEof never after a token reader"); G_eof_calls++;, EMITEOF_POST, EMITEOF_FRAMELIST)

/* ---------- the contract of next(), as labelled assertions of the plain harness ---------- */
#define CK(c, label) __CPROVER_assert((c), label)
#define IN(i) XML_AT(self, i)
#define WAS_DONE (iora_oldv._hasError || iora_oldv._emittedEof)
#define AT_LIMIT (self->_opt.maxTotalTokens != 0 && iora_oldv._producedTokens >= self->_opt.maxTotalTokens)
#define ACTIVE (!WAS_DONE && !AT_LIMIT)
#define P G_p
#define HAS(k) (P + (k) < self->_input.n)
/* lookahead classes at the token start P (the first byte that is not white space) */
#define L_LT (HAS(0) && IN(P) == (char)60)
#define L_BANG (L_LT && HAS(1) && IN(P + 1) == (char)33)
#define L_COMMENT (L_BANG && HAS(3) && IN(P + 2) == (char)45 && IN(P + 3) == (char)45)
#define L_CDATA (L_BANG && HAS(8) && IN(P + 2) == (char)91 && IN(P + 3) == (char)67 && IN(P + 4) == (char)68 && IN(P + 5) == (char)65 && IN(P + 6) == (char)84 && IN(P + 7) == (char)65 && IN(P + 8) == (char)91)
#define CI(i, up) (IN(i) == (char)(up) || IN(i) == (char)((up) + 32))
#define L_DOCTYPE (L_BANG && HAS(9) && CI(P + 2, 68) && CI(P + 3, 79) && CI(P + 4, 67) && CI(P + 5, 84) && CI(P + 6, 89) && CI(P + 7, 80) && CI(P + 8, 69) && XML_BOUNDARY(self, P + 9))

void h_next(void)
{
  Parser PS;                                  /* every field nondeterministic */
  Parser *self = &PS;
  IORA_TRUE = 1;
  /* readDoctype (a callee) is proved for inputs of fewer than 2^31 bytes only (its `int` bracket counter): that bound is part of next()'s precondition */
  __CPROVER_assume(XML_SMALL(PS._input.n, XML_DOCTYPE_IN_BITS));
  PS._input.p = (const char *)malloc(PS._input.n);   /* symbolic size, nondeterministic content */
  __CPROVER_assume(PS._input.p != NULL);
  /* precondition of next(): the parser invariants + the ghost definitions */
  __CPROVER_assume(XML_CUR_INV(self) && XML_TAG_INV(self) && (GS < self->_input.n ==> GSC == IN(GS)) && XML_GS_TAIL(self));
  G_reader = R_NONE; G_reader_calls = 0; G_skip_calls = 0; G_eof_calls = 0; G_match_calls = 0;
  Parser iora_oldv = PS;
  bool r = Parser_next(self);
  IORA_CANARY("h_next: returns");

#ifndef NEXT_COMPLETE
  /* N1 invariants on every outcome, cursor monotone */
  CK(XML_CUR_INV(self) && XML_TAG_INV(self), "N1 parser invariants preserved (cursor <= size, depth == stack size, depth <= maxDepth)");
  CK(self->_cur >= OC, "N1 cursor monotone");
  /* N2 after an error or after Eof nothing happens */
  CK(WAS_DONE ==> (!r && G_skip_calls + G_match_calls + G_reader_calls + G_eof_calls == 0 && self->_cur == OC && self->_producedTokens == iora_oldv._producedTokens
                   && ST.n == iora_oldv._elementStack.n && self->_hasError == iora_oldv._hasError && self->_emittedEof == iora_oldv._emittedEof), "N2 after an error or Eof next() does nothing");
  /* N3 the token limit is tested BEFORE a token is produced */
  CK((!WAS_DONE && AT_LIMIT) ==> (!r && self->_hasError && G_skip_calls + G_match_calls + G_reader_calls + G_eof_calls == 0 && self->_cur == OC && self->_producedTokens == iora_oldv._producedTokens),
     "N3 token limit tested BEFORE producing: at the limit no reader runs, nothing is consumed or counted, error raised");
  CK((r && self->_opt.maxTotalTokens != 0) ==> self->_producedTokens <= self->_opt.maxTotalTokens, "N3 the token count never exceeds maxTotalTokens");
  /* N4 exactly one token or one error/Eof per call */
  CK(r ==> (self->_producedTokens == iora_oldv._producedTokens + 1 && G_reader_calls == 1 && G_eof_calls == 0 && !self->_hasError && !self->_emittedEof && self->_cur > OC),
     "N4 true: exactly one token (one reader, counted once, at least one byte consumed), no error, no Eof");
  CK(!r ==> self->_producedTokens == iora_oldv._producedTokens, "N4 false: no token counted");
  CK((!r && !WAS_DONE) ==> (self->_hasError != self->_emittedEof), "N4 false: exactly one of error / Eof");
  CK(G_reader_calls <= 1 && G_eof_calls <= 1 && G_skip_calls <= 1, "N4 at most one reader, one emitEof, one white-space skip per call");
  /* N5 Eof only via emitEof, only at the end of the input, only with an empty stack */
  CK((self->_emittedEof != iora_oldv._emittedEof) ==> (G_eof_calls == 1 && G_reader_calls == 0 && !r && self->_cur == self->_input.n && ST.n == 0 && self->_depth == 0 && TOK.kind == TokenKind_Eof && !self->_hasError),
     "N5 Eof only via emitEof, at the end of the input, with an empty element stack");
  CK(ACTIVE ==> ((G_eof_calls == 1) == (P == self->_input.n)), "N5 emitEof is called iff only white space is left");
  CK((G_eof_calls == 1 && iora_oldv._elementStack.n > 0) ==> (self->_hasError && !self->_emittedEof && !r), "N5 end of input with open elements: error, no Eof");
  /* N6 white space before the token */
  CK(ACTIVE ==> (G_skip_calls == 1 && P >= OC && P <= self->_input.n), "N6 token start P lies at/after the entry cursor");
  CK((ACTIVE && GS >= OC && GS < P) ==> XML_IS_SPACE(GSC), "N6 only white space between the entry cursor and the token start");
  CK((ACTIVE && GS == P && GS < self->_input.n) ==> !XML_IS_SPACE(GSC), "N6 the token start is not white space");
  CK(G_reader != R_NONE ==> (G_reader_start == P && G_reader_line == G_p_line && G_reader_col == G_p_col), "N6 the reader gets the token start (offset, line, column) of P");
  CK(r ==> TOK.offset == P, "N6 the token reports the offset of its first byte");
  /* N7 dispatch on the lookahead bytes is exact */
  CK((ACTIVE && HAS(0)) ==> ((G_reader == R_TEXT) == !L_LT), "N7 text <=> first byte is not '<'");
  CK(G_reader == R_TEXT ==> G_reader_cur == P, "N7 readText starts at the token start");
  CK((ACTIVE && L_LT && !HAS(1)) ==> (G_reader == R_NONE && !r && self->_hasError), "N7 '<' at the very end: error");
  CK((ACTIVE && L_LT && HAS(1)) ==> ((G_reader == R_PI) == (IN(P + 1) == (char)63)), "N7 PI <=> '<?'");
  CK((ACTIVE && L_LT && HAS(1)) ==> ((G_reader == R_END) == (IN(P + 1) == (char)47)), "N7 end tag <=> '</'");
  CK((ACTIVE && L_LT && HAS(1)) ==> ((G_reader == R_START) == (IN(P + 1) != (char)63 && IN(P + 1) != (char)33 && IN(P + 1) != (char)47)), "N7 start tag <=> '<' followed by none of ? ! /");
  CK((G_reader == R_PI || G_reader == R_END) ==> G_reader_cur == P + 2, "N7 PI / end-tag reader starts behind the two lookahead bytes");
  CK(G_reader == R_START ==> G_reader_cur == P + 1, "N7 start-tag reader starts behind '<'");
  CK((G_reader == R_COMMENT || G_reader == R_CDATA || G_reader == R_DOCTYPE) ==> L_BANG, "N7 comment / CDATA / doctype only behind '<!'");
  CK((G_reader == R_COMMENT && GK < 2) ==> (HAS(3) && IN(P + 2 + GK) == (char)45), "N7 comment => '<!--' (byte GK)");
  CK((G_reader == R_CDATA && GK < 7) ==> (HAS(8) && IN(P + 2 + GK) == "[CDATA["[GK]), "N7 CDATA => '<![CDATA[' (byte GK)");
  CK((G_reader == R_DOCTYPE && GK < 7) ==> (HAS(9) && XML_CIEQ(IN(P + 2 + GK), "DOCTYPE"[GK]) && XML_BOUNDARY(self, P + 9)), "N7 doctype => '<!DOCTYPE' in any case + boundary byte (byte GK)");
  CK(G_reader == R_COMMENT ==> G_reader_cur == P + 4, "N7 comment reader starts behind '<!--'");
  CK((G_reader == R_CDATA || G_reader == R_DOCTYPE) ==> G_reader_cur == P + 9, "N7 CDATA / doctype reader starts behind the nine lookahead bytes");
  CK((ACTIVE && L_BANG && G_reader == R_NONE) ==> (!r && self->_hasError), "N7 any other '<!' declaration: error");
  /* N8 balance at the interface (from the readers' contracts) */
  CK((r && TOK.kind == TokenKind_EndElement) ==> (iora_oldv._elementStack.n >= 1 && ST.n == iora_oldv._elementStack.n - 1), "N8 EndElement pops exactly one open element");
  CK((r && TOK.kind == TokenKind_EndElement && iora_oldv._elementStack.n - 1 == GL) ==> TOK.name.n == iora_oldv._elementStack.wit_n, "N8 EndElement name has the length of the stack top (level GL)");
  CK((r && TOK.kind == TokenKind_EndElement && iora_oldv._elementStack.n - 1 == GL && GK < TOK.name.n) ==> XML_SLICE_BYTE(self, TOK.name, GK) == IN(iora_oldv._elementStack.wit_off + GK),
     "N8 EndElement name equals the stack top (level GL, byte GK)");
  CK((r && TOK.kind == TokenKind_StartElement) ==> (ST.n == iora_oldv._elementStack.n + 1 && ST.n <= self->_opt.maxDepth), "N8 StartElement pushes one element within maxDepth");
  CK((r && TOK.kind != TokenKind_StartElement && TOK.kind != TokenKind_EndElement) ==> ST.n == iora_oldv._elementStack.n, "N8 other tokens leave the stack alone");
  CK(!r ==> ST.n == iora_oldv._elementStack.n, "N8 failure / Eof leaves the stack alone");
  /* N9 what the token reports */
  CK(r ==> (XML_SLICE_IN(self, TOK.name) && XML_SLICE_IN(self, TOK.text) && TOK.name.n <= self->_opt.maxNameLength && TOK.attributes.n <= self->_opt.maxAttrsPerElement), "N9 token slices inside the input, limits");
  CK((r && GA < TOK.attributes.n) ==> ATTR_OK(TOK.attributes.gk), "N9 every attribute (index GA): slices inside the input, limits");
  CK((r && TOK.kind == TokenKind_Text) ==> TOK.text.n <= self->_opt.maxTextSpan, "N9 text within maxTextSpan");
  CK(r ==> ((G_reader == R_TEXT) == (TOK.kind == TokenKind_Text) && (G_reader == R_PI) == (TOK.kind == TokenKind_ProcessingInstruction) && (G_reader == R_COMMENT) == (TOK.kind == TokenKind_Comment)
      && (G_reader == R_CDATA) == (TOK.kind == TokenKind_CData) && (G_reader == R_DOCTYPE) == (TOK.kind == TokenKind_Doctype) && (G_reader == R_END) == (TOK.kind == TokenKind_EndElement)
      && (G_reader == R_START) == (TOK.kind == TokenKind_StartElement || TOK.kind == TokenKind_EmptyElement)), "N9 the token kind is the kind of the reader that ran");

#else
  /* completeness of the '<!' family: the stubs' soundness clauses speak about the one witness index GK, the decisive mismatch is at index 0 */
  CK((ACTIVE && GK == 0 && L_COMMENT) ==> G_reader == R_COMMENT, "N7 '<!--' => comment reader");
  CK((ACTIVE && GK == 0 && L_CDATA) ==> G_reader == R_CDATA, "N7 '<![CDATA[' => CDATA reader");
  CK((ACTIVE && GK == 0 && L_DOCTYPE) ==> G_reader == R_DOCTYPE, "N7 '<!DOCTYPE' + boundary => doctype reader");
#endif
  if (r) { IORA_CANARY("h_next: token");
    if (G_reader == R_TEXT) { IORA_CANARY("h_next: text"); } if (G_reader == R_PI) { IORA_CANARY("h_next: PI"); } if (G_reader == R_COMMENT) { IORA_CANARY("h_next: comment"); }
    if (G_reader == R_CDATA) { IORA_CANARY("h_next: cdata"); } if (G_reader == R_DOCTYPE) { IORA_CANARY("h_next: doctype"); } if (G_reader == R_END) { IORA_CANARY("h_next: end tag"); }
    if (G_reader == R_START) { IORA_CANARY("h_next: start tag"); } }
  else { if (self->_emittedEof && !iora_oldv._emittedEof) { IORA_CANARY("h_next: Eof"); } if (self->_hasError && !iora_oldv._hasError) { IORA_CANARY("h_next: error"); }
    if (!WAS_DONE && AT_LIMIT) { IORA_CANARY("h_next: token limit"); } if (G_reader != R_NONE) { IORA_CANARY("h_next: reader failed"); } }
}
