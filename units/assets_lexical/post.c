/* Contracts for unit assets_lexical. Top-level clauses are written from property C20 ("dot-dot segments, absolute paths, ... backslashes,
 * ... NUL bytes ... or the request is refused") and the anchor "lexical rejection of dot-dot segments, leading slash, NUL". */

/* ---- lexicallyRejected: EXACT in both directions ----
 * spec(p) := p[0]=='/'  \/  exists i: p[i]==NUL  \/  exists i: p[i]=='\\'  \/  exists i: DOTDOT_AT(p,i)
 * soundness  (spec => result): the existentials are instantiated at the arbitrary ghost indices GN, GS (holds for every index)
 * completeness (result => spec): the existentials are witnessed by ghost outputs of the shims (G_find_r: index found by find,
 *   G_sub_pos: start of the segment last taken by substr) */
/* proof "lex_safety": every built-in check (bounds, pointer, overflow incl. unsigned index arithmetic), shim preconditions, frame, invariant, variant */
bool lexicallyRejected_safety(iora_sv p)
LEX_PRE
LEX_ENS_EMPTY
;

/* proof "lex_sound": spec => rejected */
bool lexicallyRejected_sound(iora_sv p)
LEX_PRE
LEX_ENS_SOUND
;

/* proof "lex_complete": rejected => spec (no built-in checks: they are in lex_safety) */
bool lexicallyRejected_complete(iora_sv p)
LEX_PRE
LEX_ENS_COMPLETE
;

void h_lex(void)
{
  iora_sv p;
  bool r = lexicallyRejected(p);
  IORA_CANARY("h_lex: call returns");
  if (r) { IORA_CANARY("h_lex: rejected"); } else { IORA_CANARY("h_lex: accepted"); }
}

/* the executable body of the find shim against the contract the clients assume (so the first-occurrence facts are proved, not trusted) */
void h_find(void)
{
  iora_sv s; char c; size_t pos;
  size_t r = iora_sv_find_ch(s, c, pos);
  IORA_CANARY("h_find: call returns");
  if (r == IORA_NPOS) { IORA_CANARY("h_find: not found"); } else { IORA_CANARY("h_find: found"); }
}

#ifdef IORA_SEARCH
/* SEARCH: same function, exact specification evaluated by explicit loops over a concrete small buffer (bounded; only used to obtain an
 * input for REPLAY when a proof obligation fails) */
void h_search(void)
{
  uint8_t IN[10]; size_t IN_N = nondet_size_t();
  IORA_NONDET_BYTES(IN, 10);
  __CPROVER_assume(IN_N <= 10);
  IORA_TRUE = 1;
  iora_sv p = { (const char *)IN, IN_N };
  bool got = lexicallyRejected(p);
  bool want = IN_N > 0 && IN[0] == 47;
  for (size_t i = 0; i < 10; i++) if (i < IN_N && (IN[i] == 0 || IN[i] == 92)) want = 1;
  for (size_t i = 0; i < 10; i++) if (i + 2 <= IN_N && (i == 0 || IN[i - 1] == 47) && IN[i] == 46 && IN[i + 1] == 46 && (i + 2 == IN_N || IN[i + 2] == 47)) want = 1;
  __CPROVER_assert(!want || got, "L1-L4 specification says rejected");
  __CPROVER_assert(!got || want, "L5 rejected only when the specification says so");
}
#endif
