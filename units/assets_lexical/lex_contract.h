/* The contract of Assets::lexicallyRejected, shared between the unit that PROVES it (assets_lexical: proofs lex_safety, lex_sound,
 * lex_complete enforce these clauses on the extracted body) and the units that ASSUME it when the call is replaced (assets_fs). */
#ifndef LEX_CONTRACT_H
#define LEX_CONTRACT_H
/* ---- ghost indices (arbitrary, unconstrained) ---- */
size_t GS;          /* arbitrary candidate start of a ".." segment      (soundness direction) */
size_t GN;          /* arbitrary index of a NUL / backslash byte          (soundness direction) */
/* ---- ghost witnesses written by the shims (completeness direction: "exists" by exhibiting the index) ---- */
size_t G_find_r;    /* last result of string_view::find                                       */
size_t G_sub_pos;   /* pos argument of the last string_view::substr                           */

#define IORA_SV_MAXLEN ((size_t)1 << 50)     /* stated bound on a view's length (object-bits 10 leaves 54 offset bits) */

/* reads are clamped to index 0 when out of range so that a clause has ONE short-circuit guard (q.n > 0) and otherwise only bitwise
 * connectives: nested &&/|| around dereferences multiply the formula (measured: x3 per read) */
#define RD(q, i) ((q).p[(i) < (q).n ? (i) : 0])
#define CL(i) ((i) <= IORA_SV_MAXLEN ? (i) : 0)      /* spec-side index arithmetic cannot wrap */
/* "a '/'-delimited segment of q that starts at index i equals '..'" (by-value macro; casts instead of char literals); needs q.n > 0 */
#define DOTDOT_NZ(q, i) (((i) <= IORA_SV_MAXLEN) & (CL(i) + 2 <= (q).n) \
   & (((i) == 0) | (RD(q, CL(i) == 0 ? 0 : CL(i) - 1) == (char)47)) & (RD(q, CL(i)) == (char)46) & (RD(q, CL(i) + 1) == (char)46) \
   & ((CL(i) + 2 == (q).n) | (RD(q, CL(i) + 2) == (char)47)))
#define DOTDOT_AT(q, i) ((q).n > 0 && DOTDOT_NZ(q, i))

/* spec(p) := p[0]=='/'  \/  exists i: p[i]==NUL  \/  exists i: p[i]=='\\'  \/  exists i: DOTDOT_AT(p,i)
 * soundness  (spec => result): the existentials are instantiated at the arbitrary ghost indices GN, GS (so: for every index)
 * completeness (result => spec): the existentials are witnessed by ghost outputs of the shims */
#define LEX_PRE \
__CPROVER_requires(IORA_TRUE && p.n <= IORA_SV_MAXLEN && __CPROVER_is_fresh(p.p, p.n)) \
__CPROVER_assigns(G_find_r, G_sub_pos)
#define LEX_ENS_EMPTY \
/* L0 */ __CPROVER_ensures(p.n == 0 ==> !__CPROVER_return_value)
#define LEX_ENS_SOUND \
/* L1 */ __CPROVER_ensures((p.n > 0 && p.p[0] == (char)47) ==> __CPROVER_return_value) \
/* L2 */ __CPROVER_ensures((GN < p.n && p.p[GN] == (char)0) ==> __CPROVER_return_value) \
/* L3 */ __CPROVER_ensures((GN < p.n && p.p[GN] == (char)92) ==> __CPROVER_return_value) \
/* L4 */ __CPROVER_ensures(DOTDOT_AT(p, GS) ==> __CPROVER_return_value)
#define LEX_ENS_COMPLETE \
/* L5 */ __CPROVER_ensures(__CPROVER_return_value ==> (p.n > 0 && ((p.p[0] == (char)47) \
            | ((G_find_r < p.n) & ((RD(p, G_find_r) == (char)0) | (RD(p, G_find_r) == (char)92))) \
            | DOTDOT_NZ(p, G_sub_pos))))
#endif
