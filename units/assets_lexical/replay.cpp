// REPLAY adapter: feeds the verifier's input to the REAL Assets::lexicallyRejected and evaluates the exact specification natively.
#include "iora/web/assets.hpp"
#include "replay_io.h"
int main(int argc, char **argv) {
  auto in = replay_io::load(argv[1]);
  std::vector<uint8_t> d = replay_io::bytes(in["IN"]);
  if (in.count("IN_N")) d.resize(std::min<size_t>(d.size(), replay_io::u64(in["IN_N"])));
  std::string s(d.begin(), d.end());
  bool got;
  try { got = iora::web::Assets::lexicallyRejected(std::string_view(s)); }
  catch (const std::exception &e) { replay_io::fail(std::string("lexicallyRejected threw ") + e.what()); }
  // spec: leading '/', any NUL, any backslash, or a '/'-delimited segment equal to ".."
  bool want = false;
  if (!s.empty() && s[0] == '/') want = true;
  for (char c : s) if (c == '\0' || c == '\\') want = true;
  for (size_t i = 0; i + 2 <= s.size(); i++)
    if ((i == 0 || s[i - 1] == '/') && s[i] == '.' && s[i + 1] == '.' && (i + 2 == s.size() || s[i + 2] == '/')) want = true;
  if (got != want) replay_io::fail(std::string("lexicallyRejected returned ") + (got ? "true" : "false") + " but the specification says " + (want ? "rejected" : "accepted"));
  replay_io::ok("result equals the specification on this input");
  return 0;
}
