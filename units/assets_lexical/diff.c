/* Differential run, C side: the EXTRACTED Assets::lexicallyRejected, compiled natively (string_view::find is the C body of
 * assets_shims.h, which the unit proves against its contract). Compared: the verdict. */
#include "unit_native.c"
#include "diff_io.h"
int main(int argc, char **argv)
{
  FILE *f = fopen(argv[1], "r"); diff_input in;
  IORA_TRUE = 1;
  while (diff_next(f, &in)) {
    iora_sv p = { (const char *)in.bytes, in.n };
    printf("rejected=%d\n", (int)lexicallyRejected(p)); fflush(stdout); diff_free(&in);
  }
  return 0;
}
