/* unit-local shims for assets_lexical (C20): string_view searching + std::filesystem environment model */
#ifndef ASSETS_SHIMS_H
#define ASSETS_SHIMS_H

#include "lex_contract.h"

static inline char iora_sv_front(const iora_sv *s) { IORA_ASSERT(s->n > 0, "string_view::front() on non-empty view"); return s->p[0]; }

/* string_view::substr(pos, count): throws out_of_range when pos > size() (asserted: the code must not rely on it); count is clipped */
static inline iora_sv iora_sv_substr(const iora_sv *s, size_t pos, size_t count)
{
  IORA_ASSERT(pos <= s->n, "string_view::substr pos <= size() (would throw std::out_of_range)");
  G_sub_pos = pos;
  iora_sv r; r.p = s->p + pos; r.n = (count < s->n - pos) ? count : s->n - pos; return r;
}
static inline iora_sv iora_sv_substr1(const iora_sv *s, size_t pos) { return iora_sv_substr(s, pos, IORA_NPOS); }

/* sv == "lit" for literals of at most 4 characters: loop-free byte comparison */
static inline bool iora_sv_eq_lit(iora_sv x, const char *s, size_t len)
{
  IORA_ASSERT(len <= 4, "model: comparison literal of at most 4 characters");
  if (x.n != len) return false;
  bool r = true;
  if (len > 0) r &= (x.p[0] == s[0]);
  if (len > 1) r &= (x.p[1] == s[1]);
  if (len > 2) r &= (x.p[2] == s[2]);
  if (len > 3) r &= (x.p[3] == s[3]);
  return r;
}
#define IORA_SV_EQ_LIT(x, s) iora_sv_eq_lit((x), (s), sizeof(s) - 1)

/* string_view::find(char c, size_t pos): first index >= pos holding c, npos otherwise (libstdc++).
 * Contains a loop -> contract-replaced in the client proof; the body below is proved against the same contract (proof "find_shim").
 * The first-occurrence fact is stated at the ghost terms the client uses: GN, GS-1, GS+2. */
#define FIND_END(r, s) ((r) == IORA_NPOS ? (s).n : (r))
size_t iora_sv_find_ch_contract(iora_sv s, char c, size_t pos)
  __CPROVER_requires(IORA_TRUE && s.n <= IORA_SV_MAXLEN && __CPROVER_is_fresh(s.p, s.n))
  __CPROVER_assigns(G_find_r)
  __CPROVER_ensures(__CPROVER_return_value == IORA_NPOS || (__CPROVER_return_value >= pos && __CPROVER_return_value < s.n && s.p[__CPROVER_return_value] == c))
  __CPROVER_ensures(G_find_r == __CPROVER_return_value)
  __CPROVER_ensures((GN >= pos && GN < FIND_END(__CPROVER_return_value, s)) ==> s.p[GN] != c)
  __CPROVER_ensures((GS >= 1 && GS - 1 >= pos && GS - 1 < FIND_END(__CPROVER_return_value, s)) ==> s.p[GS - 1] != c)
  __CPROVER_ensures((GS <= IORA_SV_MAXLEN && GS + 2 >= pos && GS + 2 < FIND_END(__CPROVER_return_value, s)) ==> s.p[GS + 2] != c)
;
#define IORA_LOOP_iora_sv_find_ch IORA_LC( \
  __CPROVER_assigns(i) \
  __CPROVER_loop_invariant(i >= pos && (i <= s.n || i == pos)) \
  __CPROVER_loop_invariant((GN >= pos && GN < i) ==> s.p[GN] != c) \
  __CPROVER_loop_invariant((GS >= 1 && GS - 1 >= pos && GS - 1 < i) ==> s.p[GS - 1] != c) \
  __CPROVER_loop_invariant((GS <= IORA_SV_MAXLEN && GS + 2 >= pos && GS + 2 < i) ==> s.p[GS + 2] != c) \
  __CPROVER_decreases(s.n - i))
size_t iora_sv_find_ch(iora_sv s, char c, size_t pos)
{
  size_t i;
  for (i = pos; i < s.n; i++)
  IORA_LOOP_iora_sv_find_ch
  {
    if (s.p[i] == c) { G_find_r = i; return i; }
  }
  G_find_r = IORA_NPOS;
  return IORA_NPOS;
}

#endif
