/* type environment + loop contracts for unit assets_lexical (C20) */

/* "a '/'-delimited segment of q that starts at index i equals '..'" (by-value macro; casts instead of char literals) */
#define DOTDOT_AT(q, i) ((i) <= IORA_SV_MAXLEN && (i) + 2 <= (q).n && ((i) == 0 || (q).p[(i) - 1] == (char)47) \
   && (q).p[(i)] == (char)46 && (q).p[(i) + 1] == (char)46 && ((i) + 2 == (q).n || (q).p[(i) + 2] == (char)47))

/* loop 1 of lexicallyRejected: the segment walk. `start` is always a segment start; no ".." segment starts before it (at the ghost GS). */
#define IORA_LOOP_lexicallyRejected_1 IORA_LC( \
  __CPROVER_assigns(start, G_find_r, G_sub_pos) \
  __CPROVER_loop_invariant(start <= p.n && (start == 0 || p.p[start - 1] == (char)47)) \
  __CPROVER_loop_invariant(GS < start ==> !DOTDOT_AT(p, GS)) \
  __CPROVER_decreases(p.n - start))
