/* type environment + loop contracts for unit assets_lexical (C20) */

/* "a '/'-delimited segment of q that starts at index i equals '..'" (by-value macro; casts instead of char literals) */
/* reads are clamped to index 0 when out of range so that a clause has ONE short-circuit guard (q.n > 0) and otherwise only bitwise
 * connectives: nested &&/|| around dereferences multiply the formula (measured: x3 per read) */
#define RD(q, i) ((q).p[(i) < (q).n ? (i) : 0])
#define CL(i) ((i) <= IORA_SV_MAXLEN ? (i) : 0)      /* spec-side index arithmetic cannot wrap */
#define DOTDOT_NZ(q, i) (((i) <= IORA_SV_MAXLEN) & (CL(i) + 2 <= (q).n) \
   & (((i) == 0) | (RD(q, CL(i) == 0 ? 0 : CL(i) - 1) == (char)47)) & (RD(q, CL(i)) == (char)46) & (RD(q, CL(i) + 1) == (char)46) \
   & ((CL(i) + 2 == (q).n) | (RD(q, CL(i) + 2) == (char)47)))
#define DOTDOT_AT(q, i) ((q).n > 0 && DOTDOT_NZ(q, i))

/* loop 1 of lexicallyRejected: the segment walk. `start` is always a segment start; no ".." segment starts before it (at the ghost GS). */
#define IORA_LOOP_lexicallyRejected_1 IORA_LC( \
  __CPROVER_assigns(start, G_find_r, G_sub_pos) \
  __CPROVER_loop_invariant(start <= p.n && (start == 0 || p.p[start - 1] == (char)47)) \
  __CPROVER_loop_invariant(GS < start ==> !DOTDOT_AT(p, GS)) \
  __CPROVER_decreases(p.n - start))
