/* type environment + loop contracts for unit assets_lexical (C20); spec macros are in lex_contract.h */

/* loop 1 of lexicallyRejected: the segment walk. `start` is always a segment start; no ".." segment starts before it (at the ghost GS). */
#define IORA_LOOP_lexicallyRejected_1 IORA_LC( \
  __CPROVER_assigns(start, G_find_r, G_sub_pos) \
  __CPROVER_loop_invariant(start <= p.n && (start == 0 || p.p[start - 1] == (char)47)) \
  __CPROVER_loop_invariant(GS < start ==> !DOTDOT_AT(p, GS)) \
  __CPROVER_decreases(p.n - start))
