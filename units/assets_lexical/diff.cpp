// Differential run, C++ side: the REAL Assets::lexicallyRejected.
#include "iora/web/assets.hpp"
#include "diff_io.h"
int main(int argc, char **argv)
{
  FILE *f = fopen(argv[1], "r"); diff_input in;
  while (diff_next(f, &in)) {
    printf("rejected=%d\n", (int)iora::web::Assets::lexicallyRejected(std::string_view((const char *)in.bytes, in.n))); fflush(stdout); diff_free(&in);
  }
  return 0;
}
