// REPLAY / native demonstration adapter for unit tls_config (C07). No verifier input is needed (the failing clauses S1/S2 are about
// what initTls()/doConnect() configure, for EVERY configuration with verifyPeer=true); the adapter runs the REAL TcpEngine:
//   S2: initTls() with serverTls.verifyPeer=true + CA; a TLS client WITHOUT a certificate then completes a handshake against the
//       engine's own server context (in-memory BIO pair) -> "admitted although it presented no certificate".
//   S1: a real TcpEngine client (clientTls.verifyPeer=true, CA = the test certificate) connects to the host name "vm" (-> 127.0.0.1 in
//       /etc/hosts) where a plain OpenSSL server presents the test certificate issued for "localhost"/127.0.0.1 only;
//       onConnect fires -> "connected to a host whose certificate is not issued for that name".
// usage: replay <input-file>   (keys: MODE = S1 | S2 | both (default), CERT, KEY)
#include "iora/network/detail/tcp_engine.hpp"
#include "replay_io.h"
#include <openssl/ssl.h>
#include <openssl/err.h>
#include <arpa/inet.h>
#include <netdb.h>
#include <atomic>
#include <thread>
using namespace iora::network;

static std::string CERT = "/repo/tests/tls-certs/test_tls_cert.pem", KEY = "/repo/tests/tls-certs/test_tls_key.pem";

static bool pump(SSL *a, SSL *b) { // shuttle bytes between two memory-BIO endpoints until both handshakes finish or one fails
  for (int i = 0; i < 50; i++) {
    int ra = SSL_do_handshake(a), rb = SSL_do_handshake(b);
    if (ra == 1 && rb == 1) return true;
    int ea = SSL_get_error(a, ra), eb = SSL_get_error(b, rb);
    if ((ra != 1 && ea != SSL_ERROR_WANT_READ && ea != SSL_ERROR_WANT_WRITE) || (rb != 1 && eb != SSL_ERROR_WANT_READ && eb != SSL_ERROR_WANT_WRITE)) return false;
    char buf[16384]; int n;
    while ((n = BIO_read(SSL_get_wbio(a), buf, sizeof buf)) > 0) BIO_write(SSL_get_rbio(b), buf, n);
    while ((n = BIO_read(SSL_get_wbio(b), buf, sizeof buf)) > 0) BIO_write(SSL_get_rbio(a), buf, n);
  }
  return false;
}

static int demo_S2() {
  TransportConfig cfg; cfg.enableHighResolutionTimers = false;
  cfg.serverTls.enabled = true; cfg.serverTls.defaultMode = TlsMode::Server; cfg.serverTls.certFile = CERT; cfg.serverTls.keyFile = KEY;
  cfg.serverTls.verifyPeer = true; cfg.serverTls.caFile = CERT;            // "this server requires client certificates"
  TcpEngine eng(cfg);
  if (!eng.initTls()) { printf("initTls() returned false: %s\n", eng.lastError().message.c_str()); return 2; }
  int mode = SSL_CTX_get_verify_mode(eng._sslSrv);
  printf("S2: server verify mode after initTls() = 0x%x (SSL_VERIFY_PEER=%d, SSL_VERIFY_FAIL_IF_NO_PEER_CERT=%d)\n", mode, !!(mode & SSL_VERIFY_PEER), !!(mode & SSL_VERIFY_FAIL_IF_NO_PEER_CERT));
  SSL *srv = SSL_new(eng._sslSrv); SSL_set_accept_state(srv); SSL_set_bio(srv, BIO_new(BIO_s_mem()), BIO_new(BIO_s_mem()));
  SSL_CTX *cctx = SSL_CTX_new(TLS_client_method());                          // a client with NO certificate at all
  SSL *cli = SSL_new(cctx); SSL_set_connect_state(cli); SSL_set_bio(cli, BIO_new(BIO_s_mem()), BIO_new(BIO_s_mem()));
  bool done = pump(cli, srv);
  X509 *peer = SSL_get_peer_certificate(srv);
  printf("S2: handshake with a certificate-less client: %s; certificate seen by the server: %s; version %s\n", done ? "COMPLETED" : "refused", peer ? "yes" : "none", SSL_get_version(srv));
  int rc = (done && !peer) ? 1 : 0;
  if (peer) X509_free(peer);
  SSL_free(srv); SSL_free(cli); SSL_CTX_free(cctx);
  return rc;
}

static int demo_S1() {
  // plain OpenSSL server on 127.0.0.1 presenting the certificate issued for localhost / 127.0.0.1
  int ls = socket(AF_INET, SOCK_STREAM, 0); int one = 1; setsockopt(ls, SOL_SOCKET, SO_REUSEADDR, &one, sizeof one);
  sockaddr_in a{}; a.sin_family = AF_INET; a.sin_addr.s_addr = htonl(INADDR_LOOPBACK); a.sin_port = 0;
  if (bind(ls, (sockaddr *)&a, sizeof a) != 0 || listen(ls, 4) != 0) { perror("bind/listen"); return 2; }
  socklen_t al = sizeof a; getsockname(ls, (sockaddr *)&a, &al); uint16_t port = ntohs(a.sin_port);
  std::atomic<int> srvHandshake{0};
  std::thread server([&] {
    SSL_CTX *sctx = SSL_CTX_new(TLS_server_method());
    SSL_CTX_use_certificate_file(sctx, CERT.c_str(), SSL_FILETYPE_PEM); SSL_CTX_use_PrivateKey_file(sctx, KEY.c_str(), SSL_FILETYPE_PEM);
    int fd = accept(ls, nullptr, nullptr); if (fd < 0) { srvHandshake = -1; return; }
    SSL *s = SSL_new(sctx); SSL_set_fd(s, fd);
    srvHandshake = SSL_accept(s) == 1 ? 1 : -1;
    char b[64]; SSL_read(s, b, sizeof b);                                    // wait until the client goes away
    SSL_free(s); ::close(fd); SSL_CTX_free(sctx);
  });
  TransportConfig cfg; cfg.enableHighResolutionTimers = false;
  cfg.clientTls.enabled = true; cfg.clientTls.defaultMode = TlsMode::Client; cfg.clientTls.verifyPeer = true; cfg.clientTls.caFile = CERT;
  TcpEngine eng(cfg);
  std::atomic<int> connected{0}, closed{0};
  detail::EngineBase::Callbacks cbs;
  cbs.onConnect = [&](SessionId, const TransportAddress &) { connected = 1; };
  cbs.onClose = [&](SessionId, const TransportErrorInfo &e) { closed = 1; printf("S1: onClose: %s\n", e.message.c_str()); };
  cbs.onError = [&](TransportError, const std::string &m) { printf("S1: onError: %s\n", m.c_str()); };
  cbs.onData = [](SessionId, iora::core::BufferView, std::chrono::steady_clock::time_point) {};
  eng.setCallbacks(cbs);
  auto st = eng.start(); if (st.isErr()) { printf("engine start failed\n"); return 2; }
  // a host NAME that resolves to 127.0.0.1 but is not named by the certificate (SAN: DNS:localhost, IP:127.0.0.1)
  char hn[256] = {0}; gethostname(hn, sizeof hn - 1);
  std::string host;
  for (std::string cand : {std::string("vm"), std::string("runsc"), std::string(hn), std::string("localhost.localdomain"), std::string("ip4-localhost")}) {
    if (cand.empty() || cand == "localhost") continue;
    addrinfo hints{}, *res = nullptr; hints.ai_family = AF_INET; hints.ai_socktype = SOCK_STREAM;
    if (getaddrinfo(cand.c_str(), nullptr, &hints, &res) == 0 && res) {
      bool lo = ((sockaddr_in *)res->ai_addr)->sin_addr.s_addr == htonl(INADDR_LOOPBACK); freeaddrinfo(res);
      if (lo) { host = cand; break; }
    }
  }
  if (host.empty()) { printf("S1: no alias of 127.0.0.1 other than localhost is resolvable on this machine\n"); eng.stop(); ::shutdown(ls, SHUT_RDWR); ::close(ls); server.join(); return 2; }
  auto cr = eng.connect(host, port, TlsMode::Client);
  for (int i = 0; i < 300 && !connected && !closed; i++) std::this_thread::sleep_for(std::chrono::milliseconds(10));
  printf("S1: TLS client (verifyPeer=true, CA configured) connecting to host name \"%s\": server certificate is for localhost/127.0.0.1 only -> %s (server side handshake: %d)\n",
         host.c_str(), connected ? "onConnect FIRED (announced as connected)" : "refused", (int)srvHandshake);
  int rc = connected ? 1 : 0;
  eng.stop(); ::shutdown(ls, SHUT_RDWR); ::close(ls); server.join();
  return rc;
}

int main(int argc, char **argv) {
  std::string mode = "both";
  if (argc > 1) { auto in = replay_io::load(argv[1]); if (in.count("MODE")) mode = in["MODE"]; if (in.count("CERT")) CERT = in["CERT"]; if (in.count("KEY")) KEY = in["KEY"]; }
  int s2 = 0, s1 = 0;
  if (mode == "S2" || mode == "both") s2 = demo_S2();
  if (mode == "S1" || mode == "both") s1 = demo_S1();
  if (s2 == 1) printf("REPLAY-FAIL: S2 a server configured with verifyPeer admitted a client that presented no certificate\n");
  if (s1 == 1) printf("REPLAY-FAIL: S1 a verifying client was announced connected to a host whose certificate is not issued for that host name\n");
  if (s1 == 1 || s2 == 1) return 1;
  if (s1 == 2 || s2 == 2) { printf("REPLAY-INCONCLUSIVE\n"); return 0; }
  replay_io::ok("S1/S2 not reproduced");
  return 0;
}
