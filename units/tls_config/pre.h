/* type environment for unit tls_config (C07) */
typedef struct { bool enabled; TlsMode defaultMode; iora_sv certFile, keyFile, caFile, caPath, ciphers, alpn; int minVersion; bool verifyPeer; int verifyDepth; } TlsConfig;
typedef struct { TlsConfig serverTls; TlsConfig clientTls; } TransportConfig;
typedef struct { TransportConfig _config; SSL_CTX *_sslSrv; SSL_CTX *_sslCli; iora_ovec _alpnPref; } TcpEngine;
static inline void iora_setLastFatal(TcpEngine *self, int code) { (void)self; G_fatal_calls++; G_fatal_code = code; }
static inline void iora_err(TcpEngine *self, int code) { (void)self; G_err_calls++; G_err_code = code; }

/* the connection object of doConnect, as far as the client-TLS block touches it */
typedef struct { TlsMode tlsMode; SSL *ssl; TlsState tlsState; int64_t tlsStart; bool tlsWantWrite; int hsTimeoutScheduled; } Session;
typedef struct { uint64_t sid; iora_sv host; int port; TlsMode tls; } ConnectReq;
int64_t nondet_i64(void);
static inline int64_t iora_mono_now(void) { return nondet_i64(); }
static inline void TcpEngine_scheduleHandshakeTimeout(TcpEngine *self, Session *s) { (void)self; s->hsTimeoutScheduled++; }
