/* Recording stubs for the OpenSSL / libc calls made by TcpEngine::initTls, applyTls12Floor and the client-TLS block of doConnect (C07).
 * Every call returns an ARBITRARY result (any failure, any success) and records on the ghost context object what was configured.
 * Nothing about OpenSSL's behaviour is assumed here; the contracts speak about WHAT WAS CONFIGURED before `true` is returned.
 * Constant values are those of the OpenSSL 3 headers on this image (/usr/include/openssl/{ssl.h,prov_ssl.h,x509.h,tls1.h}). */
#ifndef OPENSSL_MODEL_H
#define OPENSSL_MODEL_H
#define TLS1_VERSION 0x0301
#define TLS1_1_VERSION 0x0302
#define TLS1_2_VERSION 0x0303
#define TLS1_3_VERSION 0x0304
#define SSL_VERIFY_NONE 0x00
#define SSL_VERIFY_PEER 0x01
#define SSL_VERIFY_FAIL_IF_NO_PEER_CERT 0x02
#define SSL_FILETYPE_PEM 1
#define SSL_TLSEXT_ERR_OK 0
#define SSL_TLSEXT_ERR_NOACK 3
#define R_OK 4

int nondet_int(void); _Bool nondet_bool(void); size_t nondet_size_t(void);

typedef struct {
  int side;                 /* 1 = created with TLS_server_method(), 2 = TLS_client_method() */
  int verify_calls;         /* SSL_CTX_set_verify */
  int verify_mode;          /* mode of the last SSL_CTX_set_verify (SSL_VERIFY_NONE if never called: OpenSSL's default) */
  int ca_load_calls;        /* SSL_CTX_load_verify_locations */
  int ca_load_result;       /* its last result */
  bool ca_file_null, ca_path_null;
  int default_paths_calls;  /* SSL_CTX_set_default_verify_paths */
  int min_proto_calls;      /* SSL_CTX_set_min_proto_version */
  int min_proto;            /* its last argument */
  int cert_load_calls, cert_load_result;
  int key_load_calls, key_load_result;
  int key_check_calls, key_check_result;   /* SSL_CTX_check_private_key */
  int get_cert_calls; bool cert_present;   /* SSL_CTX_get0_certificate */
  int cmp_time_calls, cmp_time_result;     /* X509_cmp_time(notAfter(cert), NULL) */
  int depth_calls, depth;
} SSL_CTX;
typedef struct { SSL_CTX *ctx; } X509;            /* the leaf certificate object of a context */
typedef struct { X509 *cert; } ASN1_TIME;
typedef int SSL_METHOD_H;
SSL_CTX G_ctx_srv, G_ctx_cli;                     /* the (at most) two contexts initTls creates */
X509 G_x509; ASN1_TIME G_time;
int G_ctx_new_calls;

static inline SSL_METHOD_H TLS_server_method(void) { return 1; }
static inline SSL_METHOD_H TLS_client_method(void) { return 2; }
static inline SSL_CTX *SSL_CTX_new(SSL_METHOD_H m)
{
  G_ctx_new_calls++;
  if (nondet_bool()) return NULL;
  SSL_CTX *c = (m == 1) ? &G_ctx_srv : &G_ctx_cli;
  SSL_CTX z = {0}; *c = z; c->side = m; c->verify_mode = SSL_VERIFY_NONE;
  return c;
}
static inline int SSL_CTX_set_cipher_list(SSL_CTX *c, const char *l) { (void)c; (void)l; return nondet_int(); }
static inline int access(const char *path, int mode) { (void)path; (void)mode; return nondet_int(); }
static inline int SSL_CTX_use_certificate_file(SSL_CTX *c, const char *f, int type) { (void)f; (void)type; c->cert_load_calls++; c->cert_load_result = nondet_int(); return c->cert_load_result; }
static inline int SSL_CTX_use_PrivateKey_file(SSL_CTX *c, const char *f, int type) { (void)f; (void)type; c->key_load_calls++; c->key_load_result = nondet_int(); return c->key_load_result; }
static inline int SSL_CTX_check_private_key(SSL_CTX *c) { c->key_check_calls++; c->key_check_result = nondet_int(); return c->key_check_result; }
static inline X509 *SSL_CTX_get0_certificate(SSL_CTX *c) { c->get_cert_calls++; c->cert_present = nondet_bool(); if (!c->cert_present) return NULL; G_x509.ctx = c; return &G_x509; }
static inline const ASN1_TIME *X509_get0_notAfter(X509 *x) { G_time.cert = x; return &G_time; }
static inline int X509_cmp_time(const ASN1_TIME *t, void *now) { IORA_ASSERT(now == NULL, "X509_cmp_time against the current time"); SSL_CTX *c = t->cert->ctx; c->cmp_time_calls++; c->cmp_time_result = nondet_int(); return c->cmp_time_result; }
static inline void SSL_CTX_set_verify(SSL_CTX *c, int mode, void *cb) { IORA_ASSERT(cb == NULL, "no verify callback that could override the verdict"); c->verify_calls++; c->verify_mode = mode; }
static inline int SSL_CTX_load_verify_locations(SSL_CTX *c, const char *file, const char *path)
{ c->ca_load_calls++; c->ca_file_null = (file == NULL); c->ca_path_null = (path == NULL); c->ca_load_result = nondet_int(); return c->ca_load_result; }
static inline int SSL_CTX_set_default_verify_paths(SSL_CTX *c) { c->default_paths_calls++; return nondet_int(); }
static inline void SSL_CTX_set_verify_depth(SSL_CTX *c, int d) { c->depth_calls++; c->depth = d; }
static inline int SSL_CTX_set_min_proto_version(SSL_CTX *c, int v) { c->min_proto_calls++; c->min_proto = v; return nondet_int(); }
typedef int iora_alpn_cb;
#define IORA_ALPN_SELECT_LAMBDA 1
static inline void SSL_CTX_set_alpn_select_cb(SSL_CTX *c, iora_alpn_cb cb, void *arg) { (void)c; (void)cb; (void)arg; }
static inline int SSL_CTX_set_alpn_protos(SSL_CTX *c, const unsigned char *p, unsigned int n) { (void)c; (void)p; (void)n; return nondet_int(); }

/* ---- per-connection object (client block of doConnect) ---- */
typedef struct { SSL_CTX *ctx; int fd; bool fd_set; bool connect_state; bool host_set; bool sni_set; } SSL;
static inline int SSL_set_fd(SSL *s, int fd) { s->fd = fd; s->fd_set = true; return nondet_int(); }
static inline void SSL_set_connect_state(SSL *s) { s->connect_state = true; }
static inline int SSL_set1_host(SSL *s, const char *h) { (void)h; s->host_set = true; return nondet_int(); }
static inline long SSL_set_tlsext_host_name(SSL *s, const char *h) { (void)h; s->sni_set = true; return nondet_int(); }

/* config strings: only empty()/c_str() are used */
char G_cstr_anchor;      /* std::string::c_str() never returns NULL; the stubs never read the characters */
static inline const char *iora_sv_c_str(const iora_sv *s) { (void)s; return &G_cstr_anchor; }
static inline const uint8_t *iora_ovec_data(const iora_ovec *v) { (void)v; return NULL; }
/* buildAlpnWire(list, out): not under contract here; produces some wire image of at most 64 KiB */
static inline void iora_buildAlpnWire(iora_sv list, iora_ovec *out) { (void)list; out->n = nondet_size_t(); IORA_ASSUME(out->n <= 65536); }

/* error channel of the engine */
int G_fatal_calls, G_err_calls, G_fatal_code, G_err_code;
#endif
