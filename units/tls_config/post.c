/* Contracts for unit tls_config (C07). Top-level clauses are written from the property statement:
 *  "With peer verification enabled, a TLS client session is announced as connected ... only if the server proves possession of a certificate
 *   that chains to a configured trust anchor, is within its validity period and - for connections made to a host name - is issued for that
 *   name; a server that requires client certificates likewise admits only clients presenting a valid one. A session requested with TLS ...
 *   never negotiates a protocol version below TLS 1.2, whatever mix of certificates, trust stores and version limits the two sides use."
 * What can be decided here is what the code CONFIGURES on the OpenSSL contexts before initTls() returns true (OpenSSL enforcing its
 * configuration is assumed). */

/* ---- applyTls12Floor: over all int ---- */
void TcpEngine_applyTls12Floor_contract(SSL_CTX *ctx, int configuredMin)
__CPROVER_requires(IORA_TRUE && __CPROVER_is_fresh(ctx, sizeof(*ctx)) && ctx->min_proto_calls >= 0 && ctx->min_proto_calls < 1000)
__CPROVER_assigns(ctx->min_proto_calls, ctx->min_proto)
/* V1 the floor */            __CPROVER_ensures(ctx->min_proto_calls == __CPROVER_old(ctx->min_proto_calls) + 1 && ctx->min_proto >= TLS1_2_VERSION)
/* V2 may be raised, exactly */ __CPROVER_ensures(ctx->min_proto == (configuredMin < TLS1_2_VERSION ? TLS1_2_VERSION : configuredMin))
;
void h_floor(void)
{
  SSL_CTX *c; int v;
  TcpEngine_applyTls12Floor(c, v);
  IORA_CANARY("h_floor: returns");
}

/* ---- initTls ---- */
#define SRV (self->_config.serverTls)
#define CLI (self->_config.clientTls)
#define SRV_ON (SRV.enabled && SRV.defaultMode == TlsMode_Server)
#define CLI_ON (CLI.enabled && CLI.defaultMode == TlsMode_Client)
#define OKRET (__CPROVER_return_value)
#define INITTLS_PRE \
__CPROVER_requires(IORA_TRUE && __CPROVER_is_fresh(self, sizeof(*self))) \
__CPROVER_requires(G_fatal_calls == 0 && G_err_calls == 0 && G_ctx_new_calls == 0) \
__CPROVER_requires(self->_alpnPref.n == 0) \
__CPROVER_assigns(self->_sslSrv, self->_sslCli, self->_alpnPref, G_ctx_srv, G_ctx_cli, G_x509, G_time, G_ctx_new_calls, G_fatal_calls, G_err_calls, G_fatal_code, G_err_code)

bool TcpEngine_initTls_contract(TcpEngine *self)
INITTLS_PRE
/* K0 contexts: created iff the side is enabled in its own mode, and stored in the member the engine uses */
__CPROVER_ensures((OKRET && SRV_ON) ==> (self->_sslSrv == &G_ctx_srv && G_ctx_srv.side == 1))
__CPROVER_ensures((OKRET && CLI_ON) ==> (self->_sslCli == &G_ctx_cli && G_ctx_cli.side == 2))
/* K1 verifyPeer => SSL_CTX_set_verify(ctx, mode including SSL_VERIFY_PEER) before true is returned, on each side */
__CPROVER_ensures((OKRET && SRV_ON && SRV.verifyPeer) ==> (G_ctx_srv.verify_calls >= 1 && (G_ctx_srv.verify_mode & SSL_VERIFY_PEER) != 0))
__CPROVER_ensures((OKRET && CLI_ON && CLI.verifyPeer) ==> (G_ctx_cli.verify_calls >= 1 && (G_ctx_cli.verify_mode & SSL_VERIFY_PEER) != 0))
/* K2 trust anchors: with verifyPeer the configured CA locations were loaded successfully (server: mandatory; client: or the default paths) */
__CPROVER_ensures((OKRET && SRV_ON && SRV.verifyPeer) ==> (G_ctx_srv.ca_load_calls >= 1 && G_ctx_srv.ca_load_result == 1))
__CPROVER_ensures((OKRET && CLI_ON && CLI.verifyPeer) ==> ((G_ctx_cli.ca_load_calls >= 1 && G_ctx_cli.ca_load_result == 1) || (G_ctx_cli.default_paths_calls >= 1 && CLI.caFile.n == 0 && CLI.caPath.n == 0)))
/* K2b the locations passed are the configured ones (NULL only for an empty setting) */
__CPROVER_ensures((OKRET && SRV_ON && SRV.verifyPeer) ==> (G_ctx_srv.ca_file_null == (SRV.caFile.n == 0) && G_ctx_srv.ca_path_null == (SRV.caPath.n == 0)))
/* TA1 the trust store of a verifying CLIENT context consists of EXACTLY the configured locations: SSL_CTX_load_verify_locations called once with
 *     them (successfully) and the platform default store NOT added */
__CPROVER_ensures((OKRET && CLI_ON && CLI.verifyPeer && (CLI.caFile.n != 0 || CLI.caPath.n != 0)) ==>
   (G_ctx_cli.ca_load_calls == 1 && G_ctx_cli.ca_load_result == 1 && G_ctx_cli.default_paths_calls == 0
    && G_ctx_cli.ca_file_null == (CLI.caFile.n == 0) && G_ctx_cli.ca_path_null == (CLI.caPath.n == 0)))
/* TA2 ... with nothing configured: the default paths, loaded exactly once, and nothing else */
__CPROVER_ensures((OKRET && CLI_ON && CLI.verifyPeer && CLI.caFile.n == 0 && CLI.caPath.n == 0) ==> (G_ctx_cli.default_paths_calls == 1 && G_ctx_cli.ca_load_calls == 0))
/* TA3 with verification off no trust location is loaded at all (client and server) */
__CPROVER_ensures((OKRET && CLI_ON && !CLI.verifyPeer) ==> (G_ctx_cli.ca_load_calls == 0 && G_ctx_cli.default_paths_calls == 0))
__CPROVER_ensures((OKRET && SRV_ON && !SRV.verifyPeer) ==> (G_ctx_srv.ca_load_calls == 0 && G_ctx_srv.default_paths_calls == 0))
/* TA4 SERVER context (what the server block does: an explicit CA is mandatory, K4): exactly the configured locations, loaded once, never the default store */
__CPROVER_ensures((OKRET && SRV_ON && SRV.verifyPeer) ==> (G_ctx_srv.ca_load_calls == 1 && G_ctx_srv.ca_load_result == 1 && G_ctx_srv.default_paths_calls == 0))
/* K3 CA load failure => false */
__CPROVER_ensures((SRV_ON && G_ctx_new_calls >= 1 && self->_sslSrv == &G_ctx_srv && G_ctx_srv.ca_load_calls >= 1 && G_ctx_srv.ca_load_result != 1) ==> !OKRET)
__CPROVER_ensures((CLI_ON && self->_sslCli == &G_ctx_cli && G_ctx_cli.side == 2 && G_ctx_cli.ca_load_calls >= 1 && G_ctx_cli.ca_load_result != 1) ==> !OKRET)
/* K4 server verifyPeer with no CA => false */
__CPROVER_ensures((SRV_ON && SRV.verifyPeer && SRV.caFile.n == 0 && SRV.caPath.n == 0) ==> !OKRET)
/* K5 expired (or unparseable) server certificate => false; and with a configured server certificate the check was made */
__CPROVER_ensures((OKRET && SRV_ON && G_ctx_srv.cmp_time_calls >= 1) ==> G_ctx_srv.cmp_time_result > 0)
__CPROVER_ensures((OKRET && SRV_ON && SRV.certFile.n != 0 && SRV.keyFile.n != 0) ==> (G_ctx_srv.get_cert_calls >= 1 && (!G_ctx_srv.cert_present || G_ctx_srv.cmp_time_calls >= 1)))
/* K6 key mismatch => false (both sides); with cert+key configured the check was made */
__CPROVER_ensures((OKRET && SRV_ON && G_ctx_srv.key_check_calls >= 1) ==> G_ctx_srv.key_check_result == 1)
__CPROVER_ensures((OKRET && CLI_ON && G_ctx_cli.key_check_calls >= 1) ==> G_ctx_cli.key_check_result == 1)
__CPROVER_ensures((OKRET && SRV_ON && SRV.certFile.n != 0 && SRV.keyFile.n != 0) ==> (G_ctx_srv.key_check_calls >= 1 && G_ctx_srv.cert_load_result == 1 && G_ctx_srv.key_load_result == 1))
__CPROVER_ensures((OKRET && CLI_ON && CLI.keyFile.n != 0) ==> (G_ctx_cli.key_check_calls >= 1 && G_ctx_cli.key_load_result == 1))
__CPROVER_ensures((OKRET && CLI_ON && CLI.certFile.n != 0) ==> (G_ctx_cli.cert_load_calls >= 1 && G_ctx_cli.cert_load_result == 1))
/* K7 the TLS 1.2 floor is applied on every context created */
__CPROVER_ensures((OKRET && SRV_ON) ==> (G_ctx_srv.min_proto_calls >= 1 && G_ctx_srv.min_proto >= TLS1_2_VERSION && G_ctx_srv.min_proto >= SRV.minVersion))
__CPROVER_ensures((OKRET && CLI_ON) ==> (G_ctx_cli.min_proto_calls >= 1 && G_ctx_cli.min_proto >= TLS1_2_VERSION && G_ctx_cli.min_proto >= CLI.minVersion))
/* K8 true <=> no error was reported */
__CPROVER_ensures(OKRET == (G_err_calls == 0))
__CPROVER_ensures(OKRET == (G_fatal_calls == 0))
__CPROVER_ensures(!OKRET ==> (G_err_code == TransportError_Config && G_fatal_code == TransportError_Config))
/* K9 with verification off nothing weaker than OpenSSL's default is set, with it on the mode is never reset afterwards */
__CPROVER_ensures((OKRET && SRV_ON) ==> G_ctx_srv.verify_calls <= 1)
__CPROVER_ensures((OKRET && CLI_ON) ==> G_ctx_cli.verify_calls <= 1)
;

/* S2 (candidate finding): "a server that requires client certificates admits only clients presenting a valid one". With SSL_VERIFY_PEER
 * alone an OpenSSL SERVER requests a client certificate but completes the handshake when the client sends none
 * (SSL_CTX_set_verify(3): "SSL_VERIFY_FAIL_IF_NO_PEER_CERT: if the client did not return a certificate, the TLS/SSL handshake is
 * immediately terminated"; without it the handshake continues). The clause therefore demands the flag. */
bool TcpEngine_initTls_S2(TcpEngine *self)
INITTLS_PRE
__CPROVER_ensures((OKRET && SRV_ON && SRV.verifyPeer) ==> (G_ctx_srv.verify_mode & SSL_VERIFY_FAIL_IF_NO_PEER_CERT) != 0)
;
void h_initTls(void)
{
  TcpEngine *e;
  bool ok = TcpEngine_initTls(e);
  IORA_CANARY("h_initTls: returns");
  if (ok) {
    IORA_CANARY("h_initTls: true");
    if (G_ctx_srv.side == 1 && G_ctx_srv.verify_calls >= 1) { IORA_CANARY("h_initTls: true with server verifyPeer"); }
    if (G_ctx_cli.side == 2 && G_ctx_cli.verify_calls >= 1) { IORA_CANARY("h_initTls: true with client verifyPeer"); }
    if (G_ctx_srv.side == 1 && G_ctx_srv.cmp_time_calls >= 1) { IORA_CANARY("h_initTls: true after expiry check"); }
    if (G_ctx_cli.side == 2 && G_ctx_cli.default_paths_calls >= 1) { IORA_CANARY("h_initTls: true with client default trust store"); }
  } else { IORA_CANARY("h_initTls: false"); }
}

/* ---- client-TLS block of doConnect (success path: from SSL_set_fd to the scheduling of the handshake) ----
 * S1 (candidate finding): "for connections made to a host name - is issued for that name": with verifyPeer the expected host name
 * must be given to OpenSSL (SSL_set1_host) before the handshake starts; SNI (SSL_set_tlsext_host_name) likewise. */
void TcpEngine_doConnect_clientTls_S1(TcpEngine *self, Session *s, int cfd, ConnectReq cr)
__CPROVER_requires(IORA_TRUE && __CPROVER_is_fresh(self, sizeof(*self)) && __CPROVER_is_fresh(s, sizeof(*s)) && __CPROVER_is_fresh(s->ssl, sizeof(SSL)))
__CPROVER_requires(!s->ssl->host_set && !s->ssl->sni_set && !s->ssl->connect_state && !s->ssl->fd_set && s->hsTimeoutScheduled == 0)
__CPROVER_assigns(*s, *(s->ssl))
/* C1 the handshake is set up as a client on this fd and timed */
__CPROVER_ensures(s->ssl->connect_state && s->ssl->fd_set && s->ssl->fd == cfd && s->tlsState == TlsState_Handshake && s->hsTimeoutScheduled == 1)
/* S1 */ __CPROVER_ensures(CLI.verifyPeer ==> s->ssl->host_set)
;
void h_connect(void)
{
  TcpEngine *e; Session *s; int fd; ConnectReq cr;
  TcpEngine_doConnect_clientTls(e, s, fd, cr);
  IORA_CANARY("h_connect: returns");
}

#ifdef IORA_SEARCH
/* SEARCH: bounded/plain run of the same clauses S2 and S1 over an arbitrary configuration (the functions are loop-free, so this is the
 * same decision); its only purpose is to trigger REPLAY, whose adapter needs no input: it runs the real engine (see replay.cpp). */
void h_search(void)
{
  TcpEngine e; Session s; SSL ssl; ConnectReq cr; int fd;
  IORA_TRUE = 1;
  e._alpnPref.n = 0;
  bool ok = TcpEngine_initTls(&e);
  __CPROVER_assert(!(ok && e._config.serverTls.enabled && e._config.serverTls.defaultMode == TlsMode_Server && e._config.serverTls.verifyPeer)
                   || (G_ctx_srv.verify_mode & SSL_VERIFY_FAIL_IF_NO_PEER_CERT) != 0, "S2 server verifyPeer demands a client certificate");
  ssl.host_set = 0; ssl.sni_set = 0; s.ssl = &ssl; s.hsTimeoutScheduled = 0;
  TcpEngine_doConnect_clientTls(&e, &s, fd, cr);
  __CPROVER_assert(!e._config.clientTls.verifyPeer || ssl.host_set, "S1 verifying client gives the expected host name to OpenSSL");
}
#endif
