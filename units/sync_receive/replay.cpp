// REPLAY adapter for unit sync_receive: drives the REAL Transport (scripted engine, no sockets) through a history of
//   onData chunks (CH: one length byte per chunk), an optional peer close after chunk index CLOSE_AT (CLOSE_AT > CH_N: no close),
//   receiveSync calls with the buffer lengths RD (cyclic), and - if FLUSH=1 - a final setReadMode(Async) with a data callback registered.
// Oracle = the contract clauses of post.c evaluated natively (property C03):
//   D1/D2 every receive returns min(len, buffered) bytes and they are the next bytes of the stream; D6 data before any error;
//   D4 BufferOverflow only once drained; D3 PeerClosed only once drained and no overflow pending; flush: the callback gets the still
//   buffered bytes, in order, before a chunk that arrives after the switch.
#include "../sync_ondata/scripted_engine.h"
#include "replay_io.h"
#include <thread>
int main(int argc, char **argv) {
  auto in = replay_io::load(argv[1]);
  std::vector<uint8_t> ch = replay_io::bytes(in["CH"]), rd = replay_io::bytes(in["RD"]);
  if (in.count("CH_N")) ch.resize(std::min<size_t>(ch.size(), replay_io::u64(in["CH_N"])));
  if (rd.empty()) rd.push_back(64);
  size_t closeAt = in.count("CLOSE_AT") ? replay_io::u64(in["CLOSE_AT"]) : ch.size() + 1;
  bool flush = in.count("FLUSH") && replay_io::u64(in["FLUSH"]);
  if (in.count("SCEN") && replay_io::u64(in["SCEN"]) == 3) {
    // clauses RC1/RC2: a reader parked in receiveSyncCancellable; the token is cancelled and 4 bytes arrive within the same sub-wait
    auto eng = std::make_unique<ScriptedEngine>(); ScriptedEngine *e = eng.get();
    auto t = Transport::withEngine(std::move(eng), TransportConfig{});
    t->setReadMode(7, ReadMode::Sync);
    CancellationToken tok; std::string first; bool ok1 = false; TransportError c1 = TransportError::None;
    std::thread th([&] { uint8_t b[16]; size_t len = sizeof b; auto r = t->receiveSyncCancellable(7, b, len, tok, std::chrono::milliseconds(3000)); ok1 = r.isOk(); if (ok1) first.assign((const char *)b, r.value()); else c1 = r.error().code; });
    for (;;) { std::this_thread::sleep_for(std::chrono::milliseconds(2)); std::lock_guard<std::mutex> lk(t->_impl->syncMutex); if (t->_impl->activeReceives == 1) break; }
    tok.cancel();
    e->cbs.onData(7, iora::core::BufferView((const uint8_t *)"WXYZ", 4), std::chrono::steady_clock::now());
    th.join();
    uint8_t b2[16]; size_t l2 = sizeof b2; auto r2 = t->receiveSync(7, b2, l2, std::chrono::milliseconds(50)); std::string second; if (r2.isOk()) second.assign((const char *)b2, r2.value());
    printf("parked; cancel(); WXYZ arrives in the same sub-wait -> cancellable call: %s \"%s\" code=%d; follow-up receiveSync: \"%s\"\n", ok1 ? "ok" : "err", first.c_str(), (int)c1, second.c_str());
    if (first + second != "WXYZ") replay_io::fail("RC1/RC2 (C03): bytes drained from the sync buffer were dropped - Cancelled was returned although receiveSync had already taken WXYZ (undetectable gap)");
    replay_io::ok("no drained byte was dropped"); return 0;
  }
  if (in.count("SCEN") && replay_io::u64(in["SCEN"]) == 2) {
    // history for clause Q1: Sync, "AB" arrives, setReadMode(Disabled), setReadMode(Async), "CD" arrives
    TransportConfig cfg; auto eng = std::make_unique<ScriptedEngine>(); ScriptedEngine *e = eng.get();
    auto t = Transport::withEngine(std::move(eng), cfg);
    std::string got; t->onData([&](SessionId, iora::core::BufferView d, std::chrono::steady_clock::time_point) { got.append((const char *)d.data(), d.size()); });
    t->setReadMode(7, ReadMode::Sync);
    e->cbs.onData(7, iora::core::BufferView((const uint8_t *)"AB", 2), std::chrono::steady_clock::now());
    t->setReadMode(7, ReadMode::Disabled);
    t->setReadMode(7, ReadMode::Async);
    e->cbs.onData(7, iora::core::BufferView((const uint8_t *)"CD", 2), std::chrono::steady_clock::now());
    printf("setReadMode(Sync); onData(AB); setReadMode(Disabled); setReadMode(Async); onData(CD)  ->  data callback received \"%s\", %zu bytes still buffered\n",
           got.c_str(), t->_impl->receiveBuffers.count(7) ? t->_impl->receiveBuffers[7]->data.size() : 0);
    if (got != "ABCD") replay_io::fail("Q1 (C03): after switching back to Async the still-buffered bytes AB were NOT handed to the data callback before the later bytes CD");
    replay_io::ok("buffered bytes handed to the callback before later bytes");
    return 0;
  }
  TransportConfig cfg; cfg.maxSyncReceiveBuffer = in.count("MAX") ? replay_io::u64(in["MAX"]) : 1024;
  auto eng = std::make_unique<ScriptedEngine>(); ScriptedEngine *e = eng.get();
  auto t = Transport::withEngine(std::move(eng), cfg);
  const SessionId sid = 7;
  std::vector<uint8_t> cbgot;
  t->onData([&](SessionId s, iora::core::BufferView d, std::chrono::steady_clock::time_point) { if (s == sid) cbgot.insert(cbgot.end(), d.data(), d.data() + d.size()); });
  if (!t->setReadMode(sid, ReadMode::Sync)) replay_io::fail("setReadMode(Sync) refused");
  std::vector<uint8_t> stream; size_t arrived = 0, buffered = 0; bool overflowed = false, closed = false;
  for (size_t i = 0; i < ch.size(); i++) {
    if (i == closeAt) { e->cbs.onClose(sid, TransportErrorInfo{TransportError::PeerClosed, "peer closed"}); closed = true; printf("onClose\n"); }
    if (closed) break;                              // the engine delivers nothing after the close
    std::vector<uint8_t> c(ch[i]); for (auto &b : c) { b = (uint8_t)(arrived % 251); arrived++; }
    if (!overflowed && buffered + c.size() <= cfg.maxSyncReceiveBuffer) { stream.insert(stream.end(), c.begin(), c.end()); buffered += c.size(); } else overflowed = true;
    e->cbs.onData(sid, iora::core::BufferView(c.data(), c.size()), std::chrono::steady_clock::now());
    printf("onData(%zu bytes)%s\n", c.size(), overflowed ? " [beyond the bound: dropped, overflow]" : "");
  }
  if (!closed && closeAt <= ch.size()) { e->cbs.onClose(sid, TransportErrorInfo{TransportError::PeerClosed, "peer closed"}); closed = true; printf("onClose\n"); }
  // `stream` = the bytes the reader is entitled to (everything accepted before the first overflow), in order
  std::vector<uint8_t> got; size_t k = 0;
  if (flush) {
    // read one block synchronously, then switch to Async: the rest must reach the callback, in order, before a later chunk
    uint8_t buf[256]; size_t len = std::min<size_t>(rd[0], sizeof buf); size_t avail = stream.size();
    auto r = t->receiveSync(sid, buf, len, std::chrono::milliseconds(20));
    if (avail > 0) { if (!r.isOk() || r.value() != std::min<size_t>(rd[0], avail)) replay_io::fail("D1 receive before flush: wrong count"); got.assign(buf, buf + r.value()); }
    if (!t->setReadMode(sid, ReadMode::Async)) replay_io::fail("setReadMode(Async) refused");
    if (!closed) { uint8_t late[2] = {0xEE, 0xEF}; e->cbs.onData(sid, iora::core::BufferView(late, 2), std::chrono::steady_clock::now()); }
    std::vector<uint8_t> want(stream.begin() + got.size(), stream.end());
    if (!closed) { want.push_back(0xEE); want.push_back(0xEF); }
    if (cbgot != want) replay_io::fail("B3/M2 flush: the callback did not receive exactly the still-buffered bytes, in order, before the later chunk");
    replay_io::ok("flush: buffered bytes handed to the callback in order, before the later chunk");
    return 0;
  }
  for (size_t call = 0;; call++) {
    uint8_t buf[256]; size_t want = std::min<size_t>(rd[k++ % rd.size()], sizeof buf), len = want;
    size_t avail = stream.size() - got.size();
    auto r = t->receiveSync(sid, buf, len, std::chrono::milliseconds(20));
    if (avail > 0) {
      if (!r.isOk()) replay_io::fail("D6 an error was reported while bytes were still buffered");
      if (r.value() != std::min(want, avail) || len != r.value()) replay_io::fail("D1 count != min(len, buffered)");
      for (size_t i = 0; i < r.value(); i++) if (buf[i] != stream[got.size() + i]) replay_io::fail("D2 returned bytes are not the next bytes of the stream");
      got.insert(got.end(), buf, buf + r.value());
      if (want == 0) break;
      continue;
    }
    if (r.isOk()) replay_io::fail("ok() with nothing buffered");
    TransportError c = r.error().code;
    printf("receiveSync -> error %d after %zu bytes\n", (int)c, got.size());
    if (overflowed) { if (c != TransportError::BufferOverflow) replay_io::fail("D4 drained + overflow must report BufferOverflow (before PeerClosed)"); }
    else if (closed) { if (c != TransportError::PeerClosed) replay_io::fail("D3 drained + closed must report PeerClosed"); }
    else if (c != TransportError::Timeout) replay_io::fail("D7 nothing signalled must report Timeout");
    if (call > 1000) break;
    // sticky: a second call reports the same overflow
    if (overflowed) { size_t l2 = 8; auto r2 = t->receiveSync(sid, buf, l2, std::chrono::milliseconds(5)); if (r2.isOk() || r2.error().code != TransportError::BufferOverflow) replay_io::fail("D4b overflow is sticky"); }
    break;
  }
  if (got != stream) replay_io::fail("the reader did not obtain exactly the accepted stream");
  replay_io::ok("contract clauses hold on this history");
  return 0;
}
