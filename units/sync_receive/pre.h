/* unit sync_receive: Transport::receiveSync (whole function) and one iteration of the Sync->Async flush loop of
 * Transport::setReadMode (block target), property C03.  Type environment: shims/iora_tsync.h.
 * This file: ghost state, the parked-wait model (R11 IORA_WAIT), RAII ParkGuard binding, copy-out and callback stubs. */
_Static_assert(ReadMode_Async == 0, "ReadMode::Async is the value-initialised ReadMode");
#define EXC_logic_error 1

/* ---- ghost stream (see SRB_INV in shims/iora_tsync.h) ---- */
size_t G_arrived;
Impl *G_impl;

/* I/O-thread identity check `std::this_thread::get_id() == engine->getIoThreadId()`: an arbitrary boolean input */
bool G_on_io_thread;
static inline bool iora_on_io_thread(const Impl *im) { (void)im; return G_on_io_thread; }
static inline iora_time iora_deadline(iora_time timeout) { return timeout; }
static inline iora_time iora_now(void) { iora_time t = { 0 }; return t; }
static inline iora_chunk iora_mk_chunk(iora_spos p, size_t n) { iora_chunk c = { p, n }; return c; }

/* ---- the caller's buffer `void *buffer` with room for `cap` bytes (= len at entry); memcpy into it is recorded ---- */
typedef struct { size_t cap; } iora_outbuf;
unsigned G_out_calls; iora_spos G_out_pos; size_t G_out_n;
static inline void iora_copy_out(iora_outbuf *out, SyncReceiveBuffer *b, iora_spos src, size_t n)
{
  IORA_ASSERT(b->data.lo <= src && n <= b->data.hi - src, "MC1 memcpy reads [src, src+n) inside the vector");
  IORA_ASSERT(n <= out->cap, "MC2 memcpy writes at most `len` bytes into the caller's buffer");
  if (G_out_calls < 1000) G_out_calls++;
  G_out_pos = src; G_out_n = n;
}

/* ---- std::make_shared<SyncReceiveBuffer>(): one fresh object supplied by the harness, initialised with the default member
 * initialisers of struct SyncReceiveBuffer (transport_impl.hpp). A fresh buffer starts a stream: empty at the current position. ---- */
SyncReceiveBuffer *G_fresh; unsigned G_made;
static inline SyncReceiveBuffer *iora_make_srb(Impl *im)
{
  IORA_ASSERT(G_made == 0, "at most one allocation per call (harness supplies one object)");
  G_made++;
  SyncReceiveBuffer *b = G_fresh;
  b->data.lo = G_arrived; b->data.hi = G_arrived; b->data.guard = &im->syncMutex; b->guard = &im->syncMutex;
  b->cv.n_one = 0; b->cv.n_all = 0;
  b->hasData = false; b->closed = false; b->waiters = 0; b->flushing = false; b->overflow = false;
  return b;
}

/* ---- Impl::ParkGuard: reference members bound here; constructor / destructor BODIES are extracted (ParkGuard_ctor_body, ParkGuard_dtor) ---- */
/* the reference member `counter` is the pointer `counter_ref`: there is deliberately NO field named `counter`, so a use of the member that no
 * declared rule rewrites does not compile (extraction break) instead of silently becoming pointer arithmetic */
typedef struct { size_t *counter_ref; iora_cv *teardownCv; const iora_mutex *guard; } iora_parkguard;
static inline void ParkGuard_ctor_body(iora_parkguard *self);
static inline void ParkGuard_dtor(iora_parkguard *self);
static inline size_t *iora_pg_counter(iora_parkguard *g)
{ IORA_ASSERT(g->guard->held, "LK3 park counter (waiters / activeReceives) modified with syncMutex held"); return g->counter_ref; }
static inline iora_parkguard iora_parkguard_make(size_t *c, iora_cv *tcv, const iora_mutex *m)
{ iora_parkguard g = { c, tcv, m }; ParkGuard_ctor_body(&g); return g; }
static inline void iora_parkguard_dtor(iora_parkguard *g) { ParkGuard_dtor(g); }

/* ---- "other key" havoc of the witness-key maps ---- */
static inline void iora_rmmap_havoc_other(iora_rmmap *m) { m->other = nondet_u8(); }
static inline void iora_rbmap_havoc_other(iora_rbmap *m)
{
  SyncReceiveBuffer *o = m->other;
  o->data.lo = nondet_size_t(); o->data.hi = nondet_size_t(); o->hasData = nondet_bool(); o->closed = nondet_bool();
  o->waiters = nondet_size_t(); o->flushing = nondet_bool(); o->overflow = nondet_bool();
  IORA_ASSUME(SRB_INV(o, G_arrived, G_impl->shuttingDown, G_impl->config.maxSyncReceiveBuffer));
}
static inline void iora_pcmap_havoc_other(iora_pcmap *m) { (void)m; }

/* ---- R11: the parked wait  `buf->cv.wait_until(lk, deadline, pred)`  ==  while (!pred()) if (timed out) return pred(); return true;
 * If pred() holds at once the lock is never released. Otherwise the lock is released and other threads run: an ENVIRONMENT STEP,
 * i.e. any change of the monitor state allowed by the RELY condition
 *     the buffer only grows at the end and shrinks at the front (lo, hi, arrived monotone); overflow, closed, shuttingDown are sticky;
 *     waiters is not changed by others (this caller is the single parked waiter; receiveSync rejects a second one, onClose GC and
 *     receiveSync's tombstone erase skip a buffer with waiters > 0, so the map entry stays); activeReceives stays >= 1 (we are counted);
 *     the read mode of the session and the flushing flag may change arbitrarily
 * after which the monitor invariant holds again. wait_until returns pred() evaluated in that state.
 * LIN records the state in which the wait returned: the state the rest of the critical section acts on (linearisation point). ---- */
typedef struct { SyncReceiveBuffer b; size_t arrived; bool sd; size_t activeReceives; bool rm_present; ReadMode rm_val; unsigned td_one; bool waited; bool valid; } rs_lin;
rs_lin LIN;
bool G_sid_is_w;        /* ghost: the session served by this call is the witness session */
static inline void rs_env_step(Impl *im, SyncReceiveBuffer *b)
{
  size_t lo = nondet_size_t(), hi = nondet_size_t(), arr = nondet_size_t(), ar = nondet_size_t();
  bool hd = nondet_bool(), cl = nondet_bool(), ov = nondet_bool(), sd = nondet_bool(), fl = nondet_bool();
  IORA_ASSUME(lo >= b->data.lo && hi >= b->data.hi && arr >= G_arrived);
  IORA_ASSUME((!b->closed || cl) && (!b->overflow || ov) && (!im->shuttingDown || sd));
  IORA_ASSUME(ar >= 1 && ar < (size_t)-1);
  b->data.lo = lo; b->data.hi = hi; b->hasData = hd; b->closed = cl; b->overflow = ov; b->flushing = fl;
  b->cv.n_one = nondet_int() & 1023; b->cv.n_all = nondet_int() & 1023;
  G_arrived = arr; im->shuttingDown = sd; im->activeReceives = ar; im->teardownCv.n_one = nondet_int() & 1023;
  if (G_sid_is_w) { im->readModes.present = nondet_bool(); im->readModes.wval = nondet_u8(); IORA_ASSUME(im->readModes.wval <= ReadMode_Disabled); }
  IORA_ASSUME(SRB_INV(b, G_arrived, im->shuttingDown, im->config.maxSyncReceiveBuffer));
  LIN.waited = 1;
}
static inline void rs_snapshot(const Impl *im, const SyncReceiveBuffer *b)
{
  LIN.b = *b; LIN.arrived = G_arrived; LIN.sd = im->shuttingDown; LIN.activeReceives = im->activeReceives;
  LIN.rm_present = im->readModes.present; LIN.rm_val = im->readModes.wval; LIN.td_one = im->teardownCv.n_one; LIN.valid = 1;
}
#define IORA_CV_WAIT_UNTIL(s, b, l, P) \
  IORA_ASSERT((l).owns && (l).m->held && (l).m == &_impl->syncMutex, "LK4 condition-variable wait with syncMutex owned"); \
  bool s = (P); \
  if (!s) { rs_env_step(_impl, b); s = (P); } \
  rs_snapshot(_impl, b)

/* ---- R21: the user's DataCallback (flush path). Counts invocations, records the arguments; HR-6 asserted. ---- */
unsigned G_cb_calls; SessionId G_cb_sid; iora_spos G_cb_pos; size_t G_cb_n;
static inline void iora_call_DataCallback(Impl *im, iora_fn f, SessionId sid, iora_chunk data, iora_time t)
{
  (void)t;
  IORA_ASSERT(f.set, "CB1 an empty std::function is never invoked (bad_function_call)");
  IORA_ASSERT(!im->syncMutex.held && !im->callbackMutex.held, "CB2 user callback invoked with no Transport lock held (HR-6)");
  if (G_cb_calls < 1000) G_cb_calls++;
  G_cb_sid = sid; G_cb_pos = data.pos; G_cb_n = data.n;
}

/* ---- ITransport::receiveSyncCancellable: a retry loop around receiveSync with sub-timeouts of at most 100 ms. receiveSync is replaced by its CONTRACT (proved above, h_receive):
 * ok(k): exactly k = min(len, buffered) bytes were copied to the caller's buffer AND REMOVED from the sync buffer (D1/D2a/D2b), len = k; an error: nothing copied or removed,
 * len untouched (D2c).  Ghost stream of this call: G_drained = bytes receiveSync has taken out of the buffer on behalf of this call. They are reported to the caller only if the
 * Ok result is RETURNED. ---- */
typedef struct { int x; } ITransport;
typedef struct { bool cancelled; } iora_token;
int64_t G_clock; unsigned G_attempts; size_t G_drained; bool G_cancel_seen; int G_last_err; uint64_t G_last_ok; bool G_definite_err;
static inline int64_t iora_now_ms(void) { int64_t d = nondet_i64(); IORA_ASSUME(d >= 0 && d <= ((int64_t)1 << 40) && G_clock >= 0 && G_clock <= ((int64_t)1 << 41)); G_clock += d; return G_clock; }
/* token.isCancelled(): another thread may cancel at any time; cancellation is sticky */
static inline bool iora_token_isCancelled(iora_token *t) { if (!t->cancelled && nondet_bool()) t->cancelled = 1; if (t->cancelled) G_cancel_seen = 1; return t->cancelled; }
static inline iora_result ITransport_receiveSync(ITransport *self, SessionId sid, iora_outbuf *buffer, size_t *len, int64_t subTimeout)
{
  (void)self; (void)sid; (void)buffer; (void)subTimeout;
  IORA_ASSERT(!G_definite_err, "RC3a after a non-timeout error of receiveSync (PeerClosed, BufferOverflow, ...) no further attempt is made");
  if (G_attempts < 1000000) G_attempts++;
  int k = nondet_int();
  if (k == 0) { size_t n = nondet_size_t(); IORA_ASSUME(n <= *len && n <= ((size_t)1 << 40) && G_drained <= ((size_t)1 << 41)); G_drained += n; *len = n; G_last_ok = n; return iora_result_ok(n); }
  if (k == 1) return iora_result_err(TransportError_Timeout);
  int c = nondet_int(); IORA_ASSUME(c != TransportError_Timeout); G_last_err = c; G_definite_err = 1; return iora_result_err(c);
}
#if !defined(IORA_CANARIES)
#undef IORA_CANARY_LOOP
#define IORA_CANARY_LOOP(msg) ((void)0)
#endif
#define IORA_LOOP_ITransport_receiveSyncCancellable_1 IORA_LC( \
  __CPROVER_assigns(G_clock, G_attempts, G_drained, G_cancel_seen, G_last_err, G_last_ok, G_definite_err, token->cancelled, *len) \
  __CPROVER_loop_invariant(G_drained == 0 && !G_definite_err && (*len) == __CPROVER_loop_entry(*len) && G_clock >= 0) \
  __CPROVER_loop_invariant((token->cancelled == 0 || token->cancelled == 1) && (G_cancel_seen == 0 || G_cancel_seen == 1) && (!G_cancel_seen || token->cancelled)))
