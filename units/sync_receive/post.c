/* Contracts of Transport::receiveSync and of one iteration of setReadMode's Sync->Async flush loop, written from property C03:
 *   "successive synchronous receives return the bytes that arrived from the peer in order, each byte exactly once whatever buffer sizes the
 *    caller uses, and report peer-closed only after every byte that arrived before the close has been returned. Switching back to
 *    asynchronous mode hands all still-buffered bytes to the data callback before any later-arriving byte ... exceeding the configured
 *    buffer bound is reported to the synchronous reader as a distinct, sticky overflow error after the bytes buffered before it".
 *
 * Both targets are loop-free: each harness is a COMPLETE proof over the full domain (any Impl state satisfying the monitor invariant,
 * any session id, any caller buffer length, any outcome of the parked wait allowed by the rely condition in pre.h).
 * W = witness session (arbitrary): sid == W gives the functional clauses for every session, sid != W the frame for all other sessions. */

static void wire(Impl *impl, SyncReceiveBuffer *wbuf, SyncReceiveBuffer *obuf, SyncReceiveBuffer *fresh, iora_engine *eng, SessionId W)
{
  G_impl = impl; impl->engine = eng; G_sid_is_w = 0; G_fresh = fresh; G_made = 0; G_out_calls = 0; G_cb_calls = 0; LIN.waited = 0; LIN.valid = 0;
  impl->syncMutex.held = 0; impl->callbackMutex.held = 0;       /* a caller thread enters holding no Transport lock */
  impl->readModes.guard = &impl->syncMutex; impl->receiveBuffers.guard = &impl->syncMutex; impl->pendingConnects.guard = &impl->syncMutex;
  impl->readModes.wkey = W; impl->receiveBuffers.wkey = W;
  impl->receiveBuffers.wval = wbuf; impl->receiveBuffers.other = obuf;
  wbuf->guard = &impl->syncMutex; wbuf->data.guard = &impl->syncMutex; obuf->guard = &impl->syncMutex; obuf->data.guard = &impl->syncMutex;
  __CPROVER_assume(impl->readModes.wval <= ReadMode_Disabled);
  /* _Bool members of the nondeterministic structs: only 0 / 1 */
  impl->shuttingDown = nondet_bool(); impl->readModes.present = nondet_bool(); impl->receiveBuffers.present = nondet_bool();
  impl->onDataCb.set = nondet_bool(); impl->config.allowReadModeSwitch = nondet_bool();
  wbuf->hasData = nondet_bool(); wbuf->closed = nondet_bool(); wbuf->flushing = nondet_bool(); wbuf->overflow = nondet_bool();
  /* ghost notification counters start small (they saturate; this only keeps the +1 clauses simple) */
  __CPROVER_assume(wbuf->cv.n_one < 1000 && wbuf->cv.n_all < 1000 && impl->teardownCv.n_one < 1000 && impl->teardownCv.n_all < 1000);
  G_arrived = nondet_size_t();
}

void h_receive(void)
{
  Impl impl; SyncReceiveBuffer wbuf, obuf, fresh; iora_engine eng; Impl *self = &impl;
  SessionId W = nondet_u64(), sid = nondet_u64();
  wire(&impl, &wbuf, &obuf, &fresh, &eng, W);
  iora_outbuf ob; size_t len = nondet_size_t(); iora_time timeout;
  ob.cap = len;                                                     /* the caller's buffer has room for `len` bytes */
  G_on_io_thread = nondet_bool(); G_sid_is_w = (sid == W);
  __CPROVER_assume(impl.activeReceives < (size_t)-1);               /* fewer than 2^64 parked threads */
  __CPROVER_assume(!impl.receiveBuffers.present || SRB_INV(&wbuf, G_arrived, impl.shuttingDown, impl.config.maxSyncReceiveBuffer));
  iora_exc = EXC_NONE;

  Impl impl0 = impl; SyncReceiveBuffer w0 = wbuf; size_t len0 = len, arrived0 = G_arrived;
  bool present0 = impl.receiveBuffers.present;

  iora_result r = Transport_receiveSync(self, sid, &ob, &len, timeout);
  IORA_CANARY("h_receive: returns");

  __CPROVER_assert(!impl.syncMutex.held && !impl.callbackMutex.held, "LK5 no Transport lock is held when receiveSync returns");
  __CPROVER_assert(G_cb_calls == 0, "CB0 receiveSync invokes no user callback");
  __CPROVER_assert(impl.config.maxSyncReceiveBuffer == impl0.config.maxSyncReceiveBuffer && impl.activeFlushes == impl0.activeFlushes
                   && impl.activeConnects == impl0.activeConnects, "F0 configuration and the other teardown counters are untouched");
  if (G_on_io_thread)
  {
    IORA_CANARY("h_receive: on the I/O thread");
    __CPROVER_assert(iora_exc == EXC_logic_error, "IO1 called on the I/O thread: logic_error");
    __CPROVER_assert(SAME_BUF(wbuf, w0) && impl.receiveBuffers.present == present0 && len == len0 && G_out_calls == 0 && impl.activeReceives == impl0.activeReceives, "IO2 ... and nothing is touched");
    return;
  }
  __CPROVER_assert(iora_exc == EXC_NONE, "X0 no exception otherwise");
  if (sid != W)
  {
    IORA_CANARY("h_receive: other session");
    __CPROVER_assert(SAME_BUF(wbuf, w0) && impl.receiveBuffers.present == present0 && impl.receiveBuffers.wval == &wbuf
                     && impl.readModes.present == impl0.readModes.present && impl.readModes.wval == impl0.readModes.wval,
                     "F3 buffer, tombstone and read mode of every other session are untouched");
    return;
  }
  if (impl0.shuttingDown)
  {
    IORA_CANARY("h_receive: entry fence");
    __CPROVER_assert(!r.ok && r.code == TransportError_ShuttingDown, "E1 entry fence: ShuttingDown");
    __CPROVER_assert(SAME_BUF(wbuf, w0) && impl.receiveBuffers.present == present0 && len == len0 && G_out_calls == 0 && impl.activeReceives == impl0.activeReceives && G_made == 0,
                     "E2 entry fence: nothing is touched, nobody is counted as parked");
    return;
  }
  if (present0 && (w0.waiters > 0 || w0.flushing))
  {
    IORA_CANARY("h_receive: second waiter / flush overlap");
    __CPROVER_assert(!r.ok && r.code == TransportError_Cancelled, "W1 a second concurrent waiter or an overlap with a flush is rejected (Cancelled)");
    __CPROVER_assert(SAME_BUF(wbuf, w0) && impl.receiveBuffers.present && len == len0 && G_out_calls == 0 && impl.activeReceives == impl0.activeReceives,
                     "W2 ... and nothing is touched");
    return;
  }
  /* ---- the caller parked (or found its predicate true at once). B = the session's buffer; LIN = state when the wait returned ---- */
  SyncReceiveBuffer *B = present0 ? &wbuf : &fresh;
  __CPROVER_assert(LIN.valid, "P0 the wait was reached");
  __CPROVER_assert(present0 ? G_made == 0 : (G_made == 1 && (LIN.waited || (LIN.b.data.lo == arrived0 && LIN.b.data.hi == arrived0 && !LIN.b.hasData && !LIN.b.closed && !LIN.b.overflow))),
                   "P1 a buffer is created exactly when none is registered, and it is empty");
  size_t n = LIN.b.data.hi - LIN.b.data.lo;
  bool peerClosed = !r.ok && r.code == TransportError_PeerClosed;
  /* drain first */
  __CPROVER_assert(!(n > 0) || r.ok, "D6 buffered bytes are returned before any error (even if closed / overflowed / shutting down)");
  __CPROVER_assert(!r.ok || (n > 0 && r.value == (len0 < n ? len0 : n) && len == r.value), "D1 ok(k): k == min(len, data.size()), data.size() > 0, len = k");
  __CPROVER_assert(!r.ok || (G_out_calls == 1 && G_out_pos == LIN.b.data.lo && G_out_n == r.value), "D2a ok(k): exactly stream bytes [lo, lo+k) are copied to the caller, once");
  __CPROVER_assert(!r.ok || (B->data.lo == LIN.b.data.lo + r.value && B->data.hi == LIN.b.data.hi), "D2b ok(k): exactly those k bytes leave the buffer (the next receive starts at lo+k)");
  __CPROVER_assert(r.ok || (G_out_calls == 0 && B->data.lo == LIN.b.data.lo && B->data.hi == LIN.b.data.hi && len == len0), "D2c error: no byte is copied or removed, len untouched");
  /* errors, in priority order */
  __CPROVER_assert(!(!r.ok && r.code == TransportError_Timeout) || (!LIN.b.hasData && !LIN.b.closed && !LIN.b.overflow && !LIN.sd), "D7a Timeout only when nothing was signalled");
  __CPROVER_assert(!(!LIN.b.hasData && !LIN.b.closed && !LIN.b.overflow && !LIN.sd) || (!r.ok && r.code == TransportError_Timeout), "D7b nothing signalled ==> Timeout");
  __CPROVER_assert(!(!r.ok && r.code == TransportError_BufferOverflow) || (n == 0 && LIN.b.overflow), "D4a BufferOverflow only once drained, and only if overflow is set");
  __CPROVER_assert(!(n == 0 && LIN.b.overflow) || (!r.ok && r.code == TransportError_BufferOverflow), "D4b drained and overflowed ==> BufferOverflow (before PeerClosed; sticky: re-reported on every later call)");
  __CPROVER_assert(!peerClosed || (n == 0 && LIN.b.closed && !LIN.b.overflow), "D3a PeerClosed only if data.size() == 0 (every byte that arrived before the close was returned) and no overflow is pending");
  __CPROVER_assert(!(n == 0 && !LIN.b.overflow && LIN.b.closed) || peerClosed, "D3b drained, closed, no overflow ==> PeerClosed");
  __CPROVER_assert(!(!r.ok && r.code == TransportError_ShuttingDown) || (LIN.sd && n == 0 && !LIN.b.overflow && !LIN.b.closed), "D9 ShuttingDown (after parking) only with nothing buffered and no overflow/close to report");
  __CPROVER_assert(r.ok || r.code == TransportError_Timeout || r.code == TransportError_BufferOverflow || r.code == TransportError_PeerClosed || r.code == TransportError_ShuttingDown, "D10 no other result");
  /* tombstone */
  __CPROVER_assert(impl.receiveBuffers.present == !peerClosed && (peerClosed || impl.receiveBuffers.wval == B), "D5a the map entry (tombstone) is erased exactly when PeerClosed is reported");
  __CPROVER_assert(peerClosed ? !impl.readModes.present : (impl.readModes.present == LIN.rm_present && (!LIN.rm_present || impl.readModes.wval == LIN.rm_val)), "D5b the read mode is erased exactly when PeerClosed is reported");
  /* flags, counters, invariant */
  __CPROVER_assert(B->overflow == LIN.b.overflow && B->closed == LIN.b.closed && B->flushing == LIN.b.flushing, "S1 overflow / closed / flushing are not modified by the reader (overflow and closed stay set)");
  __CPROVER_assert(B->waiters == 0 && impl.activeReceives == LIN.activeReceives - 1 && LIN.b.waiters == 1 && LIN.activeReceives >= 1, "G1 both park counters are incremented while parked and restored at every exit");
  __CPROVER_assert(impl.teardownCv.n_one == LIN.td_one + 2, "G2 the teardown gate is notified by both guards");
  __CPROVER_assert(SRB_INV(B, LIN.arrived, LIN.sd, impl.config.maxSyncReceiveBuffer) && G_arrived == LIN.arrived && impl.shuttingDown == LIN.sd, "INV monitor invariant re-established");
  if (r.ok) { IORA_CANARY("h_receive: bytes returned"); }
  if (peerClosed) { IORA_CANARY("h_receive: peer closed"); }
  if (!r.ok && r.code == TransportError_BufferOverflow) { IORA_CANARY("h_receive: overflow reported"); }
  if (!r.ok && r.code == TransportError_Timeout) { IORA_CANARY("h_receive: timeout"); }
  if (!r.ok && r.code == TransportError_ShuttingDown) { IORA_CANARY("h_receive: teardown wake"); }
  if (!present0) { IORA_CANARY("h_receive: buffer created"); }
  if (LIN.waited) { IORA_CANARY("h_receive: waited"); }
}

/* ---- one iteration of the flush loop `for (;;) { ... }` of setReadMode (status: 0 = `return false`, 1 = next iteration, 2 = `break`) ----
 * Precondition = loop invariant: no lock held, the flusher's `buf` is the session's registered buffer, marked flushing (FlushGuard),
 * monitor invariant. The state at entry is the state in which the iteration's critical section finds the buffer (arbitrary under INV:
 * other threads ran since the previous iteration released the lock). */
void h_flush_step(void)
{
  Impl impl; SyncReceiveBuffer wbuf, obuf, fresh; iora_engine eng; Impl *self = &impl;
  SessionId W = nondet_u64(), sid = nondet_u64();
  wire(&impl, &wbuf, &obuf, &fresh, &eng, W);
  iora_fn cb; cb.set = nondet_bool();
  SyncReceiveBuffer *buf = (sid == W) ? &wbuf : &obuf;
  if (sid != W) iora_rbmap_havoc_other(&impl.receiveBuffers);
  __CPROVER_assume(impl.receiveBuffers.present);
  __CPROVER_assume(SRB_INV(&wbuf, G_arrived, impl.shuttingDown, impl.config.maxSyncReceiveBuffer));
  __CPROVER_assume(buf->flushing);
  Impl impl0 = impl; SyncReceiveBuffer w0 = wbuf; size_t n0 = wbuf.data.hi - wbuf.data.lo;

  int st = setReadMode_flush_step(self, sid, buf, cb);
  IORA_CANARY("h_flush_step: returns");

  __CPROVER_assert(!impl.syncMutex.held && !impl.callbackMutex.held, "LK5 no Transport lock is held at the end of an iteration");
  __CPROVER_assert(impl.receiveBuffers.present && impl.receiveBuffers.wval == &wbuf && impl.shuttingDown == impl0.shuttingDown
                   && impl.activeFlushes == impl0.activeFlushes && impl.activeReceives == impl0.activeReceives, "F1 buffer map and teardown state untouched");
  __CPROVER_assert(wbuf.overflow == w0.overflow && wbuf.closed == w0.closed && wbuf.waiters == w0.waiters && wbuf.flushing == w0.flushing
                   && wbuf.cv.n_one == w0.cv.n_one && wbuf.cv.n_all == w0.cv.n_all, "S1 overflow / closed / waiters / flushing untouched");
  if (sid != W)
  {
    IORA_CANARY("h_flush_step: other session");
    __CPROVER_assert(SAME_BUF(wbuf, w0) && impl.readModes.present == impl0.readModes.present && impl.readModes.wval == impl0.readModes.wval, "F3 buffer and read mode of every other session are untouched");
    return;
  }
  bool mode_same = impl.readModes.present == impl0.readModes.present && impl.readModes.wval == impl0.readModes.wval;
  __CPROVER_assert(st == 0 || st == 1 || st == 2, "ST status");
  __CPROVER_assert((!impl0.shuttingDown || st == 0) && (st != 0 || impl0.shuttingDown || w0.closed), "T1 the flush stops (returns false) when teardown has begun - and otherwise at most for a buffer whose session is already closed (C02 clause AC1, unit transport_onclose)");
  __CPROVER_assert(st != 0 || (SAME_BUF(wbuf, w0) && mode_same && G_cb_calls == 0), "T2 ... touching nothing");
  __CPROVER_assert(mode_same || st == 2, "M1 the read mode is changed only by the iteration that ends the loop");
  __CPROVER_assert(st != 2 || (n0 == 0 && SAME_BUF(wbuf, w0) && impl.readModes.present && impl.readModes.wval == ReadMode_Async && G_cb_calls == 0),
                   "M2 the loop ends only when the buffer is observed EMPTY under the lock; the mode becomes Async in that same critical section, nothing is in flight");
  __CPROVER_assert(!(n0 == 0 && !impl0.shuttingDown && !w0.closed) || st == 2, "M3 empty buffer (of an open session) ==> the mode is switched and the loop ends");
  __CPROVER_assert(st != 1 || (n0 > 0 && wbuf.data.lo == w0.data.hi && wbuf.data.hi == w0.data.hi && !wbuf.hasData), "B1 otherwise ALL buffered bytes [lo, hi) are taken out; the buffer continues at hi (later arrivals are appended behind the flushed block)");
  __CPROVER_assert(st != 1 || G_cb_calls == (cb.set ? 1 : 0), "B2 the data callback is invoked exactly once (iff one is registered)");
  __CPROVER_assert(st != 1 || !cb.set || (G_cb_sid == sid && G_cb_pos == w0.data.lo && G_cb_n == n0), "B3 it receives exactly the flushed block [lo, hi) - before this function can take any later block");
  __CPROVER_assert(SRB_INV(&wbuf, G_arrived, impl.shuttingDown, impl.config.maxSyncReceiveBuffer), "INV monitor invariant re-established");
  if (st == 0) { IORA_CANARY("h_flush_step: teardown"); }
  if (st == 1) { IORA_CANARY("h_flush_step: block flushed"); }
  if (st == 2) { IORA_CANARY("h_flush_step: switched to Async"); }
}

/* ---- step 1 of setReadMode: every transition except Sync->Async, in one critical section (status: 1 = `return true`, 2 = falls through
 * to the ordered flush).  Clause Q1 is the property's flush clause read at this switch: once the mode is Async the I/O thread hands later
 * bytes straight to the callback, so at the moment the mode BECOMES Async (under the lock) no byte may still be buffered.
 * Monitor invariant K assumed at entry and re-established: mode == Async (or no entry) && !closed ==> the buffer, if any, is empty. ---- */
#define MODE_OF(im) ((im).readModes.present ? (im).readModes.wval : ReadMode_Async)
void h_mode_step1(void)
{
  Impl impl; SyncReceiveBuffer wbuf, obuf, fresh; iora_engine eng; Impl *self = &impl;
  SessionId W = nondet_u64(), sid = nondet_u64();
  wire(&impl, &wbuf, &obuf, &fresh, &eng, W);
  ReadMode mode = nondet_u8(); __CPROVER_assume(mode <= ReadMode_Disabled);
  __CPROVER_assume(!impl.receiveBuffers.present || SRB_INV(&wbuf, G_arrived, impl.shuttingDown, impl.config.maxSyncReceiveBuffer));
  __CPROVER_assume(!(impl.receiveBuffers.present && MODE_OF(impl) == ReadMode_Async && !wbuf.closed) || wbuf.data.hi == wbuf.data.lo);     /* K */
  Impl impl0 = impl; SyncReceiveBuffer w0 = wbuf; ReadMode old = MODE_OF(impl); bool present0 = impl.receiveBuffers.present;

  int st = setReadMode_step1(self, sid, mode);
  IORA_CANARY("h_mode_step1: returns");
  __CPROVER_assert(!impl.syncMutex.held && !impl.callbackMutex.held, "LK5 no Transport lock is held at the end of step 1");
  __CPROVER_assert(G_cb_calls == 0 && impl.shuttingDown == impl0.shuttingDown && impl.activeFlushes == impl0.activeFlushes && impl.activeReceives == impl0.activeReceives, "F1 no callback, teardown state untouched");
  __CPROVER_assert(SAME_BUF(wbuf, w0), "F2 an existing buffer is never modified by a mode switch");
  if (sid != W)
  {
    IORA_CANARY("h_mode_step1: other session");
    __CPROVER_assert(impl.readModes.present == impl0.readModes.present && impl.readModes.wval == impl0.readModes.wval && impl.receiveBuffers.present == present0 && impl.receiveBuffers.wval == &wbuf, "F3 mode and buffer entry of every other session are untouched");
    return;
  }
  /* st == 0 (`return false`) can only be an entry fence during teardown (none in step 1 today; unit transport_teardown clause FS1/FS2) */
  __CPROVER_assert(st != 0 || (impl0.shuttingDown && impl.readModes.present == impl0.readModes.present && impl.readModes.wval == impl0.readModes.wval && impl.receiveBuffers.present == present0 && G_made == 0), "P0 step 1 refuses only during teardown, and then touches nothing");
  if (st == 0) return;
  __CPROVER_assert((st == 1 || st == 2) && (st != 2 || mode == ReadMode_Async) && (!(old == ReadMode_Sync && mode == ReadMode_Async) || st == 2), "P1 the Sync->Async switch is always deferred to the ordered flush; only a switch to Async is ever deferred");
  __CPROVER_assert(st != 2 || (impl.readModes.present == impl0.readModes.present && impl.readModes.wval == impl0.readModes.wval && impl.receiveBuffers.present == present0 && G_made == 0), "P2 ... leaving the mode (so the I/O thread keeps buffering / dropping) and the buffer map untouched");
  __CPROVER_assert(st != 1 || (impl.readModes.present && impl.readModes.wval == mode), "P3 every other switch takes effect in this critical section");
  __CPROVER_assert(st != 1 || mode != ReadMode_Sync || (impl.receiveBuffers.present && impl.receiveBuffers.wval == (present0 ? &wbuf : &fresh)), "P4 switching to Sync: a buffer is registered under the same lock (an existing one is kept)");
  __CPROVER_assert(st != 1 || mode == ReadMode_Sync || (impl.receiveBuffers.present == present0 && G_made == 0), "P5 otherwise the buffer map is untouched");
  __CPROVER_assert(!(st == 1 && mode == ReadMode_Async) || !present0 || w0.closed || w0.data.hi == w0.data.lo, "Q1 the mode becomes Async only when no byte is still buffered (else later bytes overtake the buffered ones, which never reach the callback)");
  if (mode == ReadMode_Async && old == ReadMode_Disabled) { IORA_CANARY("h_mode_step1: Disabled -> Async"); }
  if (st == 1 && mode == ReadMode_Sync && !present0) { IORA_CANARY("h_mode_step1: buffer created"); }
  if (st == 2) { IORA_CANARY("h_mode_step1: deferred to flush"); }
}

/* ---- termination of the flush loop under a FINITE number of arrivals (assumption-labelled clause VT).
 * Assumption A: at most `A` further arrival events (onData calls) occur for the session, and only onData makes the buffer grow (sync_ondata A0/A1; every other
 * actor - receiveSync, onClose - leaves it or shrinks it). Variant mu = 2 * A + (buffer non-empty ? 1 : 0).  Each iteration that does NOT end the loop
 * (status 1) empties the buffer (B1, by calling the real step); whatever happens before the next iteration consumes j <= A arrivals and can leave the buffer
 * non-empty only if j >= 1: mu strictly decreases, so the loop runs at most 2A + 1 more iterations. Without A (a peer that never stops sending) the loop need not end. ---- */
void h_flush_variant(void)
{
  Impl impl; SyncReceiveBuffer wbuf, obuf, fresh; iora_engine eng; Impl *self = &impl;
  SessionId W = nondet_u64();
  wire(&impl, &wbuf, &obuf, &fresh, &eng, W);
  iora_fn cb; cb.set = nondet_bool();
  __CPROVER_assume(impl.receiveBuffers.present && wbuf.flushing && SRB_INV(&wbuf, G_arrived, impl.shuttingDown, impl.config.maxSyncReceiveBuffer));
  size_t A = nondet_size_t(); __CPROVER_assume(A <= ((size_t)1 << 40));
  size_t mu0 = 2 * A + ((wbuf.data.hi > wbuf.data.lo) ? 1 : 0);
  int st = setReadMode_flush_step(self, W, &wbuf, cb);
  if (st != 1) { IORA_CANARY("h_flush_variant: loop ends"); return; }
  /* environment until the next iteration takes the lock: j arrivals (assumption A), readers may take bytes */
  size_t j = nondet_size_t(); __CPROVER_assume(j <= A);
  size_t grow = nondet_size_t(), shrink = nondet_size_t();
  __CPROVER_assume((j == 0) ? grow == 0 : grow <= impl.config.maxSyncReceiveBuffer);
  __CPROVER_assume(shrink <= (wbuf.data.hi - wbuf.data.lo) + grow);
  size_t size1 = (wbuf.data.hi - wbuf.data.lo) + grow - shrink;
  size_t mu1 = 2 * (A - j) + (size1 > 0 ? 1 : 0);
  __CPROVER_assert(mu1 < mu0, "VT [assumes A: finitely many arrivals, only onData appends] the variant 2*arrivals_remaining + (buffer non-empty) strictly decreases over every non-final iteration");
  IORA_CANARY("h_flush_variant: next iteration");
}

/* ---- ITransport::receiveSyncCancellable (C03: "each byte exactly once ... never an undetectable gap"). Partial correctness (that the loop ends by the deadline is time: not decided). ---- */
void h_recv_cancellable(void)
{
  ITransport tr; iora_token tok; iora_outbuf ob; size_t len = nondet_size_t(), len0 = len; int64_t timeout = nondet_i64(); SessionId sid = nondet_u64();
  ob.cap = len; tok.cancelled = nondet_bool(); bool cancelled0 = tok.cancelled;
  __CPROVER_assume(timeout >= -((int64_t)1 << 40) && timeout <= ((int64_t)1 << 40));
  G_clock = nondet_i64(); __CPROVER_assume(G_clock >= 0 && G_clock <= ((int64_t)1 << 40));
  G_attempts = 0; G_drained = 0; G_cancel_seen = 0; G_last_err = 0; G_last_ok = 0; G_definite_err = 0; IORA_TRUE = 1;
  iora_result r = ITransport_receiveSyncCancellable(&tr, sid, &ob, &len, &tok, timeout);
  IORA_CANARY("h_recv_cancellable: returns");
  size_t reported = r.ok ? r.value : 0;
  __CPROVER_assert(G_drained == reported, "RC1 every Ok result obtained from receiveSync is RETURNED to the caller unchanged: at every return the bytes drained from the sync buffer by this call equal the bytes reported (never dropped - no undetectable gap)");
  __CPROVER_assert(!r.ok || (r.value == G_last_ok && len == r.value), "RC1b ... with len set to the byte count");
  __CPROVER_assert(!(!r.ok && r.code == TransportError_Cancelled) || (G_drained == 0 && (G_cancel_seen || G_last_err == TransportError_Cancelled)), "RC2 Cancelled is returned only when no bytes were drained by this call (and the token was observed cancelled, or it is receiveSync's own second-waiter refusal)");
  __CPROVER_assert(r.ok || len == len0, "RC2b an error leaves len untouched");
  __CPROVER_assert(r.ok || r.code == TransportError_Cancelled || r.code == TransportError_Timeout || (G_attempts >= 1 && r.code == G_last_err), "RC3 non-timeout errors of receiveSync are propagated unchanged; Timeout sub-results only continue the loop (Timeout is returned at the deadline)");
  __CPROVER_assert(!G_definite_err || (!r.ok && r.code == G_last_err), "RC3b a non-timeout error of receiveSync is what the call returns");
  __CPROVER_assert(!cancelled0 || (!r.ok && r.code == TransportError_Cancelled && G_attempts == 0), "RC4 a token cancelled before the call: Cancelled, receiveSync is not called");
  if (r.ok) { IORA_CANARY("h_recv_cancellable: bytes returned"); }
  if (r.ok && G_attempts >= 2) { IORA_CANARY("h_recv_cancellable: bytes returned after earlier sub-timeouts"); }
  if (!r.ok && r.code == TransportError_Cancelled && G_attempts >= 1) { IORA_CANARY("h_recv_cancellable: cancelled after waiting"); }
}

#ifdef IORA_SEARCH
/* SEARCH for Q1: the violating state is reached by one fixed history: Sync, 2 bytes arrive, setReadMode(Disabled), setReadMode(Async).
 * SCEN selects that scripted history in replay.cpp. */
void h_search_q1(void)
{
  static Impl impl; static SyncReceiveBuffer wbuf, obuf, fresh; static iora_engine eng; Impl *self = &impl;
  size_t SCEN = nondet_size_t(); __CPROVER_assume(SCEN == 2);
  wire(&impl, &wbuf, &obuf, &fresh, &eng, 7);
  impl.shuttingDown = 0; impl.config.maxSyncReceiveBuffer = 1024; G_arrived = 2;
  impl.readModes.present = 1; impl.readModes.wval = ReadMode_Disabled; impl.receiveBuffers.present = 1;
  wbuf.data.lo = 0; wbuf.data.hi = 2; wbuf.hasData = 1; wbuf.closed = 0; wbuf.overflow = 0; wbuf.flushing = 0; wbuf.waiters = 0;
  int st = setReadMode_step1(self, 7, ReadMode_Async);
  __CPROVER_assert(!(st == 1) || wbuf.data.hi == wbuf.data.lo, "Q1 the mode becomes Async only when no byte is still buffered (else later bytes overtake the buffered ones, which never reach the callback)");
}
#endif
