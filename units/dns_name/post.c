/* Contracts + harnesses of unit dns_name (property C19, RFC 1035 3.1 / 4.1.4). Written from the property text and the RFC,
 * not from the code: limits are the RFC's (RFC_MAX_*), not the library's constants. */
void *malloc(size_t);
uint16_t nondet_u16(void);

/* ------------------------------------------------------------------------------------------------------------------
 * checkBounds / readUint16 / readUint32: loop-free -> plain harnesses over the full domain (complete proofs).
 * Call-site fact used as precondition: offsets and lengths are bounded by the message size (<= 2^32), so the MATHEMATICAL
 * sum offset + needed is what is compared ("no wrap": --unsigned-overflow-check is on for this proof). */
void h_checkBounds(void)
{
  size_t offset = nondet_size_t(), needed = nondet_size_t(), total = nondet_size_t();
  __CPROVER_assume(offset <= DN_MAX_MSG + 1 && needed <= 65535 && total <= DN_MAX_MSG);
  IORA_TRUE = 1; iora_exc = EXC_NONE;
  checkBounds(offset, needed, total);
  IORA_CANARY("h_checkBounds: returns");
  /* CB1 */ __CPROVER_assert((needed > total || offset > total - needed) ==> iora_exc == EXC_DnsParseException, "CB1 range not inside the buffer is a reported error");
  /* CB2 */ __CPROVER_assert((needed <= total && offset <= total - needed) ==> iora_exc == EXC_NONE, "CB2 range inside the buffer is accepted");
}

void h_readUint(void)
{
  size_t size = nondet_size_t(), offset = nondet_size_t();
  __CPROVER_assume(size >= 4 && size <= DN_MAX_MSG && offset <= size - 4);
  uint8_t *data = malloc(size);
  __CPROVER_assume(data != 0);
  IORA_TRUE = 1; iora_exc = EXC_NONE;
  uint16_t a = readUint16(data, offset + 2);      /* the last two bytes of the buffer are readable */
  uint32_t b = readUint32(data, offset);
  IORA_CANARY("h_readUint: returns");
  /* RU1 */ __CPROVER_assert(a == U16BE(data, offset + 2), "RU1 readUint16 is the big-endian 16-bit field");
  /* RU2 */ __CPROVER_assert(b == U32BE(data, offset), "RU2 readUint32 is the big-endian 32-bit field");
  /* RU3 */ __CPROVER_assert(iora_exc == EXC_NONE, "RU3 reading never raises");
}

/* ------------------------------------------------------------------------------------------------------------------
 * decodeNameWithLoopDetection: whole function, every message size <= 2^32, every start offset, unbounded pointer chains. */
#define DN_PRE \
__CPROVER_requires(IORA_TRUE && iora_exc == EXC_NONE && size <= DN_MAX_MSG && offset <= size && __CPROVER_is_fresh(data, size)) \
__CPROVER_requires(__CPROVER_is_fresh(name, sizeof(*name)) && __CPROVER_is_fresh(visitedPointers, sizeof(*visitedPointers))) \
/* a fresh visited set: the only way the library calls it (decodeName) */ \
__CPROVER_requires(visitedPointers->count == 0 && !visitedPointers->has_gv && visitedPointers->gv_followed == 0 && !visitedPointers->q_valid) \
__CPROVER_requires(G_msg_size == size) \
__CPROVER_assigns(iora_exc, *name, *visitedPointers)

/* text length T of a decoded name -> octets it occupies on the wire without the terminator */
#define DN_WIRE(nn) ((nn) == 0 ? (size_t)0 : (nn) + 1)

/* proof "safety": all built-in obligations (every read inside [0,size): D1), the ghost checks of the visited-set shim
 * (D5 followed pointer < size, D6 no target followed twice), loop invariant + variant (D7 termination), and: */
size_t decodeName_safety(const uint8_t *data, size_t offset, size_t size, iora_ostr *name, iora_u16set *visitedPointers)
DN_PRE
/* D2 */ __CPROVER_ensures(iora_exc == EXC_NONE ==> (__CPROVER_return_value <= size && __CPROVER_return_value >= offset))
/* D2p a name needs at least one octet */
__CPROVER_ensures((iora_exc == EXC_NONE && offset < size) ==> __CPROVER_return_value > offset)
/* D3 */ __CPROVER_ensures(iora_exc == EXC_NONE ==> name->n <= RFC_MAX_TEXT)
/* D6 */ __CPROVER_ensures(visitedPointers->gv_followed <= 1)
/* DE */ __CPROVER_ensures(iora_exc == EXC_NONE || iora_exc == EXC_DnsParseException)
/* D9 nothing at the offset: empty name, nothing consumed */
__CPROVER_ensures(offset == size ==> (iora_exc == EXC_NONE && __CPROVER_return_value == offset && name->n == 0))
;

/* proof "functional": the same function against the exactness clauses (built-in checks are in "safety") */
size_t decodeName_contract(const uint8_t *data, size_t offset, size_t size, iora_ostr *name, iora_u16set *visitedPointers)
DN_PRE
/* D2u an uncompressed name ends right after its terminating zero (or at the end of the message when the terminator is missing) */
__CPROVER_ensures((iora_exc == EXC_NONE && visitedPointers->count == 0) ==>
   ((__CPROVER_return_value == offset + DN_WIRE(name->n) + 1 && data[__CPROVER_return_value - 1] == 0)
    || (__CPROVER_return_value == offset + DN_WIRE(name->n) && __CPROVER_return_value == size)))
/* D2c a compressed name ends right after its FIRST pointer, wherever the chain leads */
__CPROVER_ensures((iora_exc == EXC_NONE && visitedPointers->count > 0) ==>
   (__CPROVER_return_value >= offset + 2 && __CPROVER_return_value <= size && (data[__CPROVER_return_value - 2] & 0xC0) == 0xC0))
/* D8 content of an uncompressed name at the arbitrary index GK: the message byte at the same position, or a separator dot
 *    (where exactly the dots are is pinned per iteration by S-L2/S-L4; the stronger form "the message has a length octet
 *    1..63 at a dot position" verifies too but costs 140 s instead of 17 s) */
__CPROVER_ensures((iora_exc == EXC_NONE && visitedPointers->count == 0 && GK < name->n) ==>
   ((name->gk & 0xFF) == data[offset + 1 + GK]
    || ((name->gk & 0xFF) == 46)))
;

void h_decode(void)
{
  const uint8_t *data; size_t offset, size; iora_ostr *name; iora_u16set *v;
  size_t r = decodeNameWithLoopDetection(data, offset, size, name, v);
  IORA_CANARY("h_decode: call returns");
  if (iora_exc) { IORA_CANARY("h_decode: error reported"); }
  else if (r > offset + 2) { IORA_CANARY("h_decode: name decoded"); }
}

/* ------------------------------------------------------------------------------------------------------------------
 * Per-iteration functional clauses (DESIGN 2.6): the loop body, extracted a second time as decodeName_step, is proved
 * for EVERY state that satisfies the loop invariant (the same macro DN_INV the whole-function proof establishes at every
 * iteration) and the loop condition. Loop-free, plain harness, full domain -> complete proof. */
void h_step(void)
{
  size_t size = nondet_size_t();
  __CPROVER_assume(size >= 1 && size <= DN_MAX_MSG);
  uint8_t *data = malloc(size);
  __CPROVER_assume(data != 0);
  iora_ostr name; iora_u16set vp;                 /* arbitrary values; _Bool fields assigned explicitly (a nondet byte may be neither 0 nor 1) */
  name.n = nondet_size_t(); vp.count = nondet_size_t();
  vp.has_gv = nondet_bool(); vp.q_valid = nondet_bool(); vp.q_res = nondet_bool();
  size_t offset = nondet_size_t(), orig = nondet_size_t(), tl = nondet_size_t();
  bool jumped = nondet_bool();
  int step = STEP_CONTINUE;
  IORA_TRUE = 1; iora_exc = EXC_NONE; GK = nondet_size_t(); GV = nondet_u16(); G_msg_size = size;
  /* precondition = loop invariant && loop condition */
  __CPROVER_assume(DN_INV(data, size, offset, orig, jumped, tl, name.n, name.gk, vp.count, vp.has_gv, vp.gv_followed) && offset < size);

  const size_t off0 = offset, orig0 = orig, tl0 = tl, n0 = name.n, cnt0 = vp.count;
  const bool j0 = jumped, had_gv = vp.has_gv;
  const char gk0 = name.gk;
  const uint8_t b0 = data[off0];

  decodeName_step(data, size, &name, &vp, &offset, &orig, &jumped, &tl, &step);
  IORA_CANARY("h_step: returns");

  const bool ok = iora_exc == EXC_NONE;
  const bool is_ptr = (b0 & 0xC0) == 0xC0, is_end = b0 == 0, is_label = b0 >= 1 && b0 <= RFC_MAX_LABEL;
  const bool ptr_fits = size >= 2 && off0 <= size - 2;
  const uint16_t ptr = ptr_fits ? (uint16_t)(U16BE(data, off0) & 0x3FFF) : 0;
  const size_t sep = n0 > 0 ? 1 : 0;
  const bool label_fits = (size_t)b0 <= size - off0 - 1;

  /* errors the property demands */
  __CPROVER_assert((b0 > RFC_MAX_LABEL && !is_ptr) ==> !ok, "S-D4 label length octet 64..191 is an error");
  __CPROVER_assert((is_ptr && (!ptr_fits || (size_t)ptr >= size)) ==> !ok, "S-D5 truncated or out-of-range compression pointer is an error");
  __CPROVER_assert((is_ptr && ptr_fits && ptr == GV && had_gv) ==> !ok, "S-D6 pointer to a target already followed is an error (loop)");
  __CPROVER_assert((is_label && !label_fits) ==> !ok, "S-T label running past the end of the message is an error");
  __CPROVER_assert((is_label && tl0 + b0 + 1 > RFC_MAX_TOTAL) ==> !ok, "S-N name longer than 255 wire octets is an error");
  __CPROVER_assert(ok || iora_exc == EXC_DnsParseException, "S-E the only error is DnsParseException");
  /* pointer followed */
  if (is_ptr && ok) { IORA_CANARY("h_step: pointer followed"); }
  __CPROVER_assert((is_ptr && ok) ==> (step == STEP_CONTINUE && offset == (size_t)ptr && jumped && orig == (j0 ? orig0 : off0 + 2)), "S-P1 valid pointer: decoding continues at its target, the end offset is fixed after the FIRST pointer");
  __CPROVER_assert((is_ptr && ok) ==> (name.n == n0 && name.gk == gk0 && tl == tl0 && vp.count == cnt0 + 1), "S-P2 a pointer adds nothing to the name and one element to the visited set");
  __CPROVER_assert((is_ptr && ptr_fits && (size_t)ptr < size && ptr == GV && !had_gv) ==> ok, "S-P3 an in-range pointer to a target not yet followed is accepted");
  /* terminator */
  if (is_end) { IORA_CANARY("h_step: terminator"); }
  __CPROVER_assert(is_end ==> (ok && step == STEP_BREAK && offset == off0 + 1 && name.n == n0 && name.gk == gk0 && tl == tl0 && jumped == j0 && orig == orig0 && vp.count == cnt0),
                   "S-Z the zero octet ends the name and is consumed");
  /* label */
  if (is_label && ok) { IORA_CANARY("h_step: label appended"); }
  __CPROVER_assert((is_label && ok) ==> (step == STEP_CONTINUE && offset == off0 + b0 + 1 && offset <= size && tl == tl0 + b0 + 1 && jumped == j0 && orig == orig0 && vp.count == cnt0),
                   "S-L1 label consumed exactly: length octet + label octets");
  __CPROVER_assert((is_label && ok) ==> name.n == n0 + sep + b0, "S-L2 name grows by the label and one separator between labels");
  __CPROVER_assert((is_label && ok && GK < n0) ==> name.gk == gk0, "S-L3 earlier name bytes unchanged");
  __CPROVER_assert((is_label && ok && n0 > 0 && GK == n0) ==> (name.gk & 0xFF) == 46, "S-L4 separator is a dot");
  __CPROVER_assert((is_label && ok && GK >= n0 + sep && GK < name.n) ==> (name.gk & 0xFF) == data[off0 + 1 + (GK - (n0 + sep))], "S-L5 label bytes copied verbatim");
  /* acceptance: "any well-formed response decodes": names up to the RFC limit are well-formed.
   * S-A2 FAILS on the unchanged tree (finding D4: the decoder's limit is one octet short, a legal 255-octet name is rejected) */
  __CPROVER_assert((is_label && label_fits && tl0 + b0 + 1 <= RFC_MAX_TOTAL - 1) ==> ok, "S-A1 a label that fits the message and keeps the name below 255 wire octets is accepted");
  __CPROVER_assert((is_label && label_fits && tl0 + b0 + 1 <= RFC_MAX_TOTAL) ==> ok, "S-A2 a label that keeps the name within 255 wire octets (RFC 1035 3.1) is accepted");
}

/* ------------------------------------------------------------------------------------------------------------------
 * decodeName: supplies a fresh visited set -> the precondition of decodeNameWithLoopDetection holds at the only in-library
 * call site; its contract is what the record parsers (unit dns_rdata) rely on. */
/* contract text: shims/iora_dns_contracts.h (shared with unit dns_rdata, which replaces calls of decodeName by it) */

void h_decodeName(void)
{
  const uint8_t *data; size_t offset, size; iora_ostr *name;
  size_t r = decodeName(data, offset, size, name);
  IORA_CANARY("h_decodeName: call returns");
}

#ifdef IORA_SEARCH
/* SEARCH: bounded run of the same function on a concrete small buffer, only to obtain an input for REPLAY */
void h_search(void)
{
  uint8_t IN[24]; size_t IN_N = nondet_size_t(); size_t OFF = nondet_size_t();
  IORA_NONDET_BYTES(IN, 24);
  __CPROVER_assume(IN_N <= 24 && OFF <= IN_N);
  IORA_TRUE = 1; iora_exc = EXC_NONE; G_msg_size = IN_N; GV = nondet_u16(); GK = nondet_size_t();
  iora_ostr name = iora_ostr_DEFAULT; iora_u16set v = iora_u16set_DEFAULT;
  size_t r = decodeNameWithLoopDetection(IN, OFF, IN_N, &name, &v);
  __CPROVER_assert(iora_exc != EXC_NONE || r <= IN_N, "D2");
  __CPROVER_assert(iora_exc != EXC_NONE || name.n <= RFC_MAX_TEXT, "D3");
  __CPROVER_assert(v.gv_followed <= 1, "D6");
}
/* SEARCH for S-A2: a name of exactly 255 wire octets (labels 63+63+63+61, arbitrary label bytes); only to hand REPLAY an input.
 * havoc_object instead of a byte loop: the decode loop needs 5 iterations, the initialisation would need 255. */
void h_search_long(void)
{
  uint8_t IN[255];
  __CPROVER_havoc_object(IN);
  __CPROVER_assume(IN[0] == 63 && IN[64] == 63 && IN[128] == 63 && IN[192] == 61 && IN[254] == 0);
  IORA_TRUE = 1; iora_exc = EXC_NONE; G_msg_size = 255; GV = nondet_u16(); GK = nondet_size_t();
  iora_ostr name = iora_ostr_DEFAULT; iora_u16set v = iora_u16set_DEFAULT;
  size_t r = decodeNameWithLoopDetection(IN, 0, 255, &name, &v);
  __CPROVER_assert(iora_exc == EXC_NONE, "S-A2 a label that keeps the name within 255 wire octets (RFC 1035 3.1) is accepted");
}
#endif
