/* type environment + ghost state + loop contract for unit dns_name
 * (DnsMessage::checkBounds, readUint16, readUint32, decodeNameWithLoopDetection, decodeName) */

/* status codes of the outlined loop body (block target decodeName_step): what the iteration does next */
#define STEP_CONTINUE 0     /* `continue;` or falling off the end of the body */
#define STEP_BREAK 1        /* `break;` */

#include "iora_dns_contracts.h"    /* DN_MAX_MSG, RFC_MAX_*, U16BE/U32BE, the decodeName contract */

/* Loop invariant of the decode loop as a by-value macro (no calls, no `&`), shared by
 *  - the loop contract of the whole-function proof (DFCC), and
 *  - the precondition of the per-iteration step proof (plain harness): invariant && loop condition.
 * d: message bytes, size; off/orig/jmp/tl: the four loop-carried locals; nn, ngk: name length and witness byte at GK;
 * cnt/hasgv/gvf: visited-set ghost state. */
#define DN_INV(d, size, off, orig, jmp, tl, nn, ngk, cnt, hasgv, gvf) ( \
     iora_exc == EXC_NONE && (off) <= (size) && (orig) <= (size) \
  && (tl) <= RFC_MAX_TOTAL && (tl) != 1 && (nn) == ((tl) == 0 ? (size_t)0 : (tl) - 1) \
  && (cnt) <= 16384 && (gvf) <= 1 && ((hasgv) == ((gvf) == 1)) \
  && ((jmp) == ((cnt) > 0)) \
  && (!(jmp) ==> ((orig) <= (off) && (off) - (orig) == (tl))) \
  && ((jmp) ==> ((orig) >= 2 && ((d)[(orig) - 2] & 0xC0) == 0xC0)) \
  && ((!(jmp) && GK < (nn)) ==> (((ngk) & 0xFF) == (d)[(orig) + 1 + GK] \
                                  || (((ngk) & 0xFF) == 46))) )

/* loop 1 of decodeNameWithLoopDetection. Termination (D7): every followed pointer adds a new element to a set of 14-bit
 * values (at most 16384 of them), every label moves the offset towards the end of the message. */
#define IORA_LOOP_decodeNameWithLoopDetection_1 IORA_LC( \
  __CPROVER_assigns(offset, originalOffset, jumped, totalLength, iora_exc, *name, *visitedPointers) \
  __CPROVER_loop_invariant(DN_INV(data, size, offset, originalOffset, jumped, totalLength, name->n, name->gk, \
                                  visitedPointers->count, visitedPointers->has_gv, visitedPointers->gv_followed)) \
  /* relation to the start offset (only expressible inside the function: loop_entry) */ \
  __CPROVER_loop_invariant(jumped ? originalOffset >= __CPROVER_loop_entry(originalOffset) + 2 \
                                  : originalOffset == __CPROVER_loop_entry(originalOffset)) \
  __CPROVER_decreases(16384 - visitedPointers->count, size - offset))
