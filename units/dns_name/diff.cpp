// Differential run, C++ side: the REAL DnsMessage::decodeName / readUint16 / readUint32. Must print exactly what diff.c prints.
#include "iora/network/dns/dns_message.hpp"
#include "diff_io.h"
using namespace iora::network::dns;
int main(int argc, char **argv)
{
  FILE *f = fopen(argv[1], "r"); diff_input in;
  while (diff_next(f, &in)) {
    size_t off = (size_t)diff_param(&in, "off", 0); if (off > in.n) off = in.n;
    std::string name; size_t r = 0; bool threw = false;
    try { r = DnsMessage::decodeName(in.bytes, off, in.n, name); } catch (const DnsParseException &) { threw = true; }
    if (threw) printf("name threw=1");
    else { printf("name threw=0 ret=%zu len=%zu bytes=", r, name.size()); diff_hex((const unsigned char *)name.data(), name.size()); }
    if (off + 2 <= in.n) printf(" | u16=%u", (unsigned)DnsMessage::readUint16(in.bytes, off));
    if (off + 4 <= in.n) printf(" | u32=%lu", (unsigned long)DnsMessage::readUint32(in.bytes, off));
    printf("\n"); fflush(stdout); diff_free(&in);
  }
  return 0;
}
