/* Differential run, C side: the EXTRACTED DnsMessage::decodeName (-> decodeNameWithLoopDetection, checkBounds) and readUint16/32,
 * compiled natively. Natively the visited-pointer set of shims/iora_dns.h is a real set (IORA_NATIVE branch). Exceptions are the
 * R8 translation: iora_exc != EXC_NONE after the call == the real code threw DnsParseException.
 * The decoded name is a witness accumulator (length + byte at GK): one run per index, EVERY byte compared.
 * Compared: threw or not; on success the returned offset, name length and name bytes; readUint16/readUint32 values.
 * The block target decodeName_step is a second extraction of the loop body that is compared through the whole function. */
#include "unit_native.c"
#include "diff_io.h"
static size_t run(const diff_input *in, size_t off, size_t gk, iora_ostr *name)
{
  *name = iora_ostr_DEFAULT; iora_exc = EXC_NONE; G_msg_size = in->n; GK = gk;
  return decodeName(in->bytes, off, in->n, name);
}
int main(int argc, char **argv)
{
  FILE *f = fopen(argv[1], "r"); diff_input in;
  IORA_TRUE = 1;
  while (diff_next(f, &in)) {
    size_t off = (size_t)diff_param(&in, "off", 0); if (off > in.n) off = in.n;
    iora_ostr name; size_t r = run(&in, off, (size_t)-1, &name);
    if (iora_exc != EXC_NONE) printf("name threw=1");
    else {
      size_t len = name.n; printf("name threw=0 ret=%zu len=%zu bytes=", r, len);
      unsigned char *b = (unsigned char *)malloc(len ? len : 1);
      for (size_t k = 0; k < len; k++) { iora_ostr n2; run(&in, off, k, &n2); b[k] = (unsigned char)n2.gk; }
      diff_hex(b, len); free(b);
    }
    if (off + 2 <= in.n) printf(" | u16=%u", (unsigned)readUint16(in.bytes, off));
    if (off + 4 <= in.n) printf(" | u32=%lu", (unsigned long)readUint32(in.bytes, off));
    printf("\n"); fflush(stdout); diff_free(&in);
  }
  return 0;
}
