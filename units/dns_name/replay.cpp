// REPLAY adapter of unit dns_name: feeds the verifier's input to the REAL DnsMessage::decodeNameWithLoopDetection
// (private members reachable through -fno-access-control) and evaluates the contract clauses natively, plus an
// independent RFC 1035 reference decoder (exact result for compressed names too).
// input file:  IN <hex bytes>   IN_N <size, optional>   OFF <start offset, optional>
#include "iora/network/dns/dns_message.hpp"
#include "replay_io.h"
using namespace iora::network::dns;

// independent reference: RFC 1035 4.1.4; returns false on malformed input
static bool ref_decode(const std::vector<uint8_t> &d, size_t off, std::string &name, size_t &end)
{
  name.clear();
  std::vector<bool> seen(d.size() + 1, false);
  bool jumped = false; size_t total = 0; end = off;
  for (;;)
  {
    if (off >= d.size()) { if (!jumped) end = off; return true; /* the library accepts a missing terminator at the end */ }
    uint8_t b = d[off];
    if ((b & 0xC0) == 0xC0)
    {
      if (off + 2 > d.size()) return false;
      size_t p = ((b & 0x3F) << 8) | d[off + 1];
      if (!jumped) { end = off + 2; jumped = true; }
      if (p >= d.size() || seen[p]) return false;
      seen[p] = true; off = p; continue;
    }
    if (b == 0) { if (!jumped) end = off + 1; return true; }
    if (b > 63) return false;
    if (off + 1 + b > d.size()) return false;
    if (!name.empty()) name += '.';
    name.append(reinterpret_cast<const char *>(&d[off + 1]), b);
    off += 1 + b; total += 1 + b;
    if (total > 254) return false;             // RFC: 255 wire octets including the terminator
  }
}

// printable form of a decoded name (label bytes are arbitrary octets)
static std::string esc(const std::string &s)
{
  std::string o; char b[8];
  for (unsigned char c : s) { if (c >= 33 && c < 127 && c != '\\') o += (char)c; else { snprintf(b, sizeof b, "\\x%02x", c); o += b; } }
  return o;
}

int main(int argc, char **argv)
{
  auto in = replay_io::load(argv[1]);
  std::vector<uint8_t> d = replay_io::bytes(in["IN"]);
  if (in.count("IN_N")) d.resize(std::min<size_t>(d.size(), replay_io::u64(in["IN_N"])));
  size_t off = in.count("OFF") ? replay_io::u64(in["OFF"]) : 0;
  if (off > d.size()) off = d.size();
  // exact-size heap copy so that ASan sees any read outside [0,size)
  uint8_t *buf = new uint8_t[d.size() ? d.size() : 1];
  std::copy(d.begin(), d.end(), buf);
  std::string name = "stale";
  std::unordered_set<uint16_t> visited;
  bool threw = false; size_t r = 0; std::string what;
  try { r = DnsMessage::decodeNameWithLoopDetection(buf, off, d.size(), name, visited); }
  catch (const DnsParseException &e) { threw = true; what = e.what(); }
  catch (const std::exception &e) { replay_io::fail(std::string("DE: an exception other than DnsParseException escaped: ") + e.what()); }
  std::string rn; size_t rend = 0;
  bool rok = ref_decode(d, off, rn, rend);
  if (!threw)
  {
    if (r > d.size()) replay_io::fail("D2: returned offset beyond the message");
    if (name.size() > 253) replay_io::fail("D3: decoded name longer than 253 characters");
    for (uint16_t p : visited) if (p >= d.size()) replay_io::fail("D5: followed a pointer outside the message");
    if (!rok) replay_io::fail("reference decoder rejects this input (oversize label/name, bad or looping pointer) but the library accepted it: name='" + esc(name) + "'");
    if (name != rn) replay_io::fail("decoded name differs from the reference: '" + esc(name) + "' vs '" + esc(rn) + "'");
    if (r != rend) replay_io::fail("returned offset differs from the reference: " + std::to_string(r) + " vs " + std::to_string(rend));
  }
  else if (rok)
    replay_io::fail("S-A2: the library rejects a name the RFC 1035 reference decoder accepts ('" + esc(rn) + "', " + std::to_string(rn.size()) + " chars): " + what);
  delete[] buf;
  replay_io::ok(threw ? "rejected with DnsParseException, as the reference does" : "decoded exactly as the reference: '" + esc(name) + "'");
  return 0;
}
