// REPLAY adapter for unit json_string: feeds the verifier's input to the REAL JsonParser::_parseString (private, reached with
// -fno-access-control) and to the public Json::parse, and evaluates the contract clauses natively against a reference decoder
// written from RFC 8259 section 7 / RFC 3629. The text lives in an exact-size heap block so that ASan sees any read past its end.
#include "iora/parsers/json.hpp"
#include "replay_io.h"
#include <cstring>
using namespace iora::parsers;
static bool isHex(char c) { return (c >= '0' && c <= '9') || (c >= 'a' && c <= 'f') || (c >= 'A' && c <= 'F'); }
static unsigned hexv(char c) { return c <= '9' ? c - '0' : (c >= 'a' ? c - 'a' + 10 : c - 'A' + 10); }
static bool hex4(const std::string &t, size_t i, unsigned &v) { if (i + 4 > t.size()) return false; v = 0; for (int k = 0; k < 4; k++) { if (!isHex(t[i + k])) return false; v = v * 16 + hexv(t[i + k]); } return true; }
static void utf8(std::string &o, unsigned cp) {
  if (cp < 0x80) o += (char)cp; else if (cp < 0x800) { o += (char)(0xC0 | (cp >> 6)); o += (char)(0x80 | (cp & 0x3F)); }
  else if (cp < 0x10000) { o += (char)(0xE0 | (cp >> 12)); o += (char)(0x80 | ((cp >> 6) & 0x3F)); o += (char)(0x80 | (cp & 0x3F)); }
  else { o += (char)(0xF0 | (cp >> 18)); o += (char)(0x80 | ((cp >> 12) & 0x3F)); o += (char)(0x80 | ((cp >> 6) & 0x3F)); o += (char)(0x80 | (cp & 0x3F)); } }
// reference: decode the string starting at t[0]; returns 1 = complete valid string (end = index after the closing quote),
// 0 = not a valid string, 2 = contains an unpaired surrogate (RFC 8259 8.2: result left open)
static int refDecode(const std::string &t, std::string &out, size_t &end) {
  if (t.empty() || t[0] != '"') return 0;
  size_t i = 1;
  while (i < t.size() && t[i] != '"') {
    if (t[i] != '\\') { out += t[i++]; continue; }
    if (i + 1 >= t.size()) return 0;
    char c = t[i + 1]; const char *two = "\"\\/bfnrt"; const char *val = "\"\\/\b\f\n\r\t";
    if (const char *f = c ? strchr(two, c) : nullptr) { out += val[f - two]; i += 2; continue; }
    unsigned u, lo;
    if (c != 'u' || !hex4(t, i + 2, u)) return 0;
    if (u >= 0xD800 && u <= 0xDBFF && i + 7 < t.size() && t[i + 6] == '\\' && t[i + 7] == 'u' && hex4(t, i + 8, lo) && lo >= 0xDC00 && lo <= 0xDFFF)
    { utf8(out, 0x10000 + ((u - 0xD800) << 10) + (lo - 0xDC00)); i += 12; continue; }
    if (u >= 0xD800 && u <= 0xDFFF) return 2;
    utf8(out, u); i += 6;
  }
  if (i >= t.size()) return 0;
  end = i + 1; return 1;
}
int main(int argc, char **argv) {
  auto in = replay_io::load(argv[1]);
  std::vector<uint8_t> d = replay_io::bytes(in["IN"]);
  size_t n = in.count("IN_N") ? replay_io::u64(in["IN_N"]) : d.size();
  d.resize(n, 0);
  char *buf = (char *)malloc(n); if (n) memcpy(buf, d.data(), n);
  std::string t(n ? buf : "", n);
  std::string want; size_t end = 0; int ref = refDecode(t, want, end);
  { // the function under contract, from offset 0 (precondition _pos <= n)
    JsonParser p(std::string_view(buf, n), ParseLimits{}); Json o; bool ok = p._parseString(o);
    if (p._pos > n) replay_io::fail("P1/S0a cursor outside the text after _parseString: _pos=" + std::to_string(p._pos) + " n=" + std::to_string(n));
    if (!ok && p._error.empty()) replay_io::fail("P5 failure without error");
    if (ref == 1) {
      if (!ok) replay_io::fail("S valid RFC 8259 string rejected: " + p._error);
      if (p._pos != end) replay_io::fail("S cursor not after the closing quote");
      if (!o.isString() || o.getString() != want) replay_io::fail("S3/S4 decoded bytes differ from the reference decoder (RFC 8259 section 7 / UTF-8)");
    } }
  { // public API on the same bytes: error offset inside the input; a valid string document decodes to the reference value
    ParseResult r = Json::parse(std::string_view(buf, n), ParseLimits{});
    if (!r.ok && r.error.where.offset > n) replay_io::fail("J2 reported error offset " + std::to_string(r.error.where.offset) + " outside the " + std::to_string(n) + "-byte input");
    if (ref == 1 && end == n && (!r.ok || !r.value.isString() || r.value.getString() != want)) replay_io::fail("J1 Json::parse value differs from the reference decoder");
    if (r.ok && r.value.isString()) { // serialise -> parse round trip
      std::string dumped = r.value.dump(); ParseResult r2 = Json::parse(std::string_view(dumped), ParseLimits{});
      if (!r2.ok || !r2.value.isString() || r2.value.getString() != r.value.getString()) replay_io::fail("round trip parse(dump(v)) != v"); } }
  { // the same bytes in member-name position: `{` + text  (call site _parseObject -> _parseString, J4)
    size_t m = n + 1; char *b2 = (char *)malloc(m); b2[0] = '{'; if (n) memcpy(b2 + 1, buf, n);
    ParseResult r = Json::parse(std::string_view(b2, m), ParseLimits{});
    if (!r.ok && r.error.where.offset > m) replay_io::fail("J2 reported error offset outside the input (object key position)");
    free(b2); }
  free(buf);
  replay_io::ok("contract clauses hold on this input");
  return 0;
}
