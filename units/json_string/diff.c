/* Differential run, C side: the EXTRACTED JsonParser::_parseString, compiled natively.
 * The decoded string is a witness accumulator (iora_ostr: length + byte at ghost index GK): the function is re-run once per index
 * with GK = 0..len-1 and the bytes are collected, so EVERY byte is compared with the real std::string (and the witness mechanism
 * the proofs rely on is exercised as it is). Compared: return value, cursor, error text, value type, decoded bytes. */
#include "unit_native.c"
#include "diff_io.h"
static bool run(const diff_input *in, size_t start, size_t max, size_t gk, JsonParser *p, Json *o)
{
  p->_text.p = (const char *)in->bytes; p->_text.n = in->n; p->_pos = start;
  p->_limits = (ParseLimits){ 10000, 10000, 100, max }; p->_error = NULL;
  *o = Json_DEFAULT; GK = gk;
  return JsonParser_parseString(p, o);
}
int main(int argc, char **argv)
{
  FILE *f = fopen(argv[1], "r"); diff_input in;
  IORA_TRUE = 1;
  while (diff_next(f, &in)) {
    size_t start = (size_t)diff_param(&in, "start", 0); if (start > in.n) start = in.n;
    size_t max = (size_t)diff_param(&in, "max", 1000000);
    JsonParser p; Json o;
    bool r = run(&in, start, max, (size_t)-1, &p, &o);
    printf("str ret=%d pos=%zu err=\"%s\" type=%d len=%zu bytes=", r, p._pos, p._error ? p._error : "-", r ? (int)o.type : -1, r ? o.s.n : 0);
    if (r) {
      size_t len = o.s.n; unsigned char *b = (unsigned char *)malloc(len ? len : 1);
      for (size_t k = 0; k < len; k++) { JsonParser p2; Json o2; run(&in, start, max, k, &p2, &o2); b[k] = (unsigned char)o2.s.gk; }
      diff_hex(b, len); free(b);
    } else printf("-");
    printf("\n"); fflush(stdout); diff_free(&in);
  }
  return 0;
}
