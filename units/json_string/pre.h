/* unit json_string: type environment is shims/iora_json.h; here: the loop contract of the token loop */

/* _parseString, loop 1: the token loop.
 *  - cursor monotone and inside the text (this is what J2 violates: `_pos += 4` without a bounds check)
 *  - the decoded string is shorter than the text read so far (the exact per-token relation "appends no more than it consumes" is
 *    clause S0d of the step proof; the relational form `str.n <= _pos - entry` costs 477 s here, this form 28 s);
 *    the length limit is a per-token matter and lives in the step proof (S0f: no growth once the limit is exceeded, S0d: a token
 *    appends at most 4 bytes => by induction over the iterations the string never exceeds the limit by more than 4 bytes)
 *  - variant: the unread rest of the text                                                                                      */
#define IORA_LOOP_JsonParser_parseString_1 IORA_LC( \
  __CPROVER_assigns(self->_pos, self->_error, str.n, str.gk) \
  __CPROVER_loop_invariant(__CPROVER_loop_entry(self->_pos) <= self->_pos && self->_pos <= self->_text.n) \
  __CPROVER_loop_invariant(str.n <= self->_pos) \
  __CPROVER_decreases(self->_text.n - self->_pos))
