/* Contracts of JsonParser::_parseString.
 * Written from property C13 ("string escapes including \uXXXX and surrogate pairs are decoded to the value a reference decoder
 * yields; for arbitrary input bytes: no undefined behaviour, error position inside the input"), RFC 8259 section 7 (strings) and
 * RFC 3629 (UTF-8) -- not from the code.
 *
 *   proof "safety" (DFCC, whole function, unbounded): bounds of every _text[..] read, cursor monotone and <= n, variant, frame,
 *          decoded length <= raw length, length limit enforced per token.
 *   proof "step"   (plain, loop-free, full domain => complete): ONE iteration of the token loop (the loop body is extracted a second
 *          time as JsonParser_parseString_step) for EVERY state that satisfies the loop condition: per-token functional clauses.
 *
 * Precondition of _parseString from its call sites: _parseValue calls it with _pos < n and _text[_pos] == '"', but _parseObject
 * calls it for the member name after _skipWhitespace() with nothing but _pos <= n.  So the contract requires only _pos <= n.
 *
 *   P1 cursor monotone and inside the text, also on failure (reported error position inside the input)
 *   P2 success: opening and closing quote consumed, value is a string
 *   P3 the decoded string is shorter than the text read (per token: step clause S0d "appends no more than it consumes")
 *   (P4 length limit: per token, clauses S0d/S0f of the step proof)
 *   P5 failure sets the error
 *   P6 no opening quote (or end of input): rejected, cursor unmoved                                                               */
#define N (self->_text.n)
#define TXT(i) (self->_text.p[i])
#define POS (self->_pos)
#define OLDPOS (__CPROVER_old(self->_pos))
#define RET __CPROVER_return_value
#define QUOTE ((char)34)

bool JsonParser_parseString_contract(JsonParser *self, Json *out)
JSON_PRE(self) JSON_FRESH(out)
__CPROVER_requires(POS <= N)
__CPROVER_assigns(self->_pos, self->_error, *out)
/* P1 */ __CPROVER_ensures(OLDPOS <= POS && POS <= N)
/* P2 */ __CPROVER_ensures(RET ==> (POS >= OLDPOS + 2 && TXT(OLDPOS) == QUOTE && TXT(POS - 1) == QUOTE && out->type == JsonType_String))
/* P3 */ __CPROVER_ensures(RET ==> out->s.n < POS)
/* (P4 length limit: per token, clauses S0d/S0f of the step proof) */
/* P5 */ __CPROVER_ensures(!RET ==> self->_error != NULL)
/* P6 */ __CPROVER_ensures((OLDPOS == N || TXT(OLDPOS) != QUOTE) ==> (!RET && POS == OLDPOS))
;
void h_string(void)
{
  JsonParser *s; Json *o;
  bool ok = JsonParser_parseString(s, o);
  if (ok) { IORA_CANARY("h_string: accepted"); } else { IORA_CANARY("h_string: rejected"); }
}

/* ------------------------------------------------------------------------------------------------------------------------------
 * Reference semantics of one string token (RFC 8259 section 7, RFC 3629).  Plain C: used by the plain harnesses only.            */
static inline bool spec_is_hex(char c) { return (c >= '0' && c <= '9') || (c >= 'A' && c <= 'F') || (c >= 'a' && c <= 'f'); }
static inline uint32_t spec_hexval(char c) { return (uint32_t)(c <= '9' ? c - '0' : (c >= 'a' ? c - 'a' + 10 : c - 'A' + 10)); }
static inline bool spec_hex4_ok(const char *t, size_t i) { return spec_is_hex(t[i]) && spec_is_hex(t[i + 1]) && spec_is_hex(t[i + 2]) && spec_is_hex(t[i + 3]); }
static inline uint32_t spec_hex4(const char *t, size_t i) { return (spec_hexval(t[i]) << 12) | (spec_hexval(t[i + 1]) << 8) | (spec_hexval(t[i + 2]) << 4) | spec_hexval(t[i + 3]); }
/* two-character escapes:  \" \\ \/ \b \f \n \r \t */
static inline bool spec_esc2_ok(char c) { return c == '"' || c == '\\' || c == '/' || c == 'b' || c == 'f' || c == 'n' || c == 'r' || c == 't'; }
static inline uint8_t spec_esc2_byte(char c) { return (uint8_t)(c == 'b' ? 0x08 : c == 'f' ? 0x0C : c == 'n' ? 0x0A : c == 'r' ? 0x0D : c == 't' ? 0x09 : c); }
static inline bool spec_is_hi(uint32_t u) { return u >= 0xD800 && u <= 0xDBFF; }
static inline bool spec_is_lo(uint32_t u) { return u >= 0xDC00 && u <= 0xDFFF; }
/* UTF-8 (RFC 3629 section 3) of a Unicode scalar value */
static inline unsigned spec_utf8_len(uint32_t cp) { return cp < 0x80 ? 1 : cp < 0x800 ? 2 : cp < 0x10000 ? 3 : 4; }
static inline uint8_t spec_utf8_byte(uint32_t cp, size_t k)
{
  if (cp < 0x80) return (uint8_t)cp;
  if (cp < 0x800) return (uint8_t)(k == 0 ? 0xC0 | (cp >> 6) : 0x80 | (cp & 0x3F));
  if (cp < 0x10000) return (uint8_t)(k == 0 ? 0xE0 | (cp >> 12) : k == 1 ? 0x80 | ((cp >> 6) & 0x3F) : 0x80 | (cp & 0x3F));
  return (uint8_t)(k == 0 ? 0xF0 | (cp >> 18) : k == 1 ? 0x80 | ((cp >> 12) & 0x3F) : k == 2 ? 0x80 | ((cp >> 6) & 0x3F) : 0x80 | (cp & 0x3F));
}

/* proof "step": one loop iteration on an arbitrary text of arbitrary length, at an arbitrary cursor p with the loop condition
 * (p < n, _text[p] != '"'), an arbitrary string-so-far (length n0, witness byte at the arbitrary index GK) and arbitrary limits.
 * Functional clauses S1-S4 carry the hypothesis "the string including this token is within the limit" (property: valid texts
 * WITHIN THE CONFIGURED LIMITS are accepted). */
/* The full domain is split into three complementary cases, proved separately (smaller SAT instances, run in parallel):
 *   part 0: the token does NOT start with `\u`
 *   part 1: the token starts with `\u` and is NOT `\u` + four hex digits that form a high surrogate
 *   part 2: the token starts with `\u` + four hex digits that form a high surrogate (pair or unpaired)                          */
#ifdef STEP_PART      /* defined per proof in unit.json ("defines") */
#if STEP_PART == 0
#define CANARY_BASIC(m) IORA_CANARY(m)
#define CANARY_BMP(m)
#define CANARY_HI(m)
#elif STEP_PART == 1
#define CANARY_BASIC(m)
#define CANARY_BMP(m) IORA_CANARY(m)
#define CANARY_HI(m)
#else
#define CANARY_BASIC(m)
#define CANARY_BMP(m)
#define CANARY_HI(m) IORA_CANARY(m)
#endif
void h_step(void)
{
  const int part = STEP_PART;
  size_t n = nondet_size_t();
  __CPROVER_assume(n >= 1 && n <= JSON_IN_MAX);
  char *T = malloc(n);
  __CPROVER_assume(T != NULL);
  JsonParser ps;
  ps._text.p = T; ps._text.n = n; ps._pos = nondet_size_t(); ps._error = NULL;
  ps._limits.arrayItemsMax = nondet_size_t(); ps._limits.membersMax = nondet_size_t(); ps._limits.depthMax = nondet_size_t();
  ps._limits.stringLengthMax = nondet_size_t();
  const size_t p = ps._pos, max = ps._limits.stringLengthMax;
  __CPROVER_assume(p < n && T[p] != '"');                 /* loop condition */
  const bool is_u = T[p] == '\\' && p + 1 < n && T[p + 1] == 'u';
  const bool is_hi = is_u && p + 5 < n && spec_hex4_ok(T, p + 2) && spec_is_hi(spec_hex4(T, p + 2));
  __CPROVER_assume(part == 0 ? !is_u : part == 1 ? (is_u && !is_hi) : is_hi);    /* case split, see above */
  iora_ostr str; str.n = nondet_size_t(); str.gk = (char)nondet_u8();
  const size_t n0 = str.n; const char gk0 = str.gk;
  __CPROVER_assume(n0 <= p);                               /* loop invariant: decoded length <= raw length consumed */
  GK = nondet_size_t(); IORA_TRUE = 1;
  bool cont = true;                                        /* stays true when the iteration falls through to the next one */

  JsonParser_parseString_step(&ps, &str, &cont);

  const size_t q = ps._pos, n1 = str.n;
  IORA_CANARY("h_step: iteration returns");
  /* ---- every token, valid or not ---- */
  __CPROVER_assert(q <= n, "S0a cursor stays inside the text after every token (error position inside the input)");
  __CPROVER_assert(!cont || q > p, "S0b every completed iteration consumes input (variant)");
  __CPROVER_assert(cont || ps._error != NULL, "S0c failure sets the error");
  __CPROVER_assert(n1 >= n0 && n1 - n0 <= 4 && n1 - n0 <= q - p, "S0d a token appends at most 4 bytes and no more than it consumes");
  __CPROVER_assert(GK >= n0 || str.gk == gk0, "S0e bytes already decoded are not touched");
  __CPROVER_assert(n0 <= max || (!cont && n1 == n0), "S0f length limit enforced before growth");

  if (T[p] != '\\')
  { /* S1 unescaped byte (RFC 8259: unescaped = %x20-21 / %x23-5B / %x5D-10FFFF, UTF-8 bytes are copied through) */
    if (n0 + 1 <= max)
    {
      CANARY_BASIC("h_step: plain byte");
      __CPROVER_assert(cont && q == p + 1 && n1 == n0 + 1, "S1a plain byte: accepted, one byte consumed, one byte appended");
      __CPROVER_assert(GK != n0 || (uint8_t)str.gk == (uint8_t)T[p], "S1b plain byte: the appended byte is the input byte");
    }
  }
  else if (p + 1 < n && spec_esc2_ok(T[p + 1]))
  { /* S2 two-character escape */
    if (n0 + 1 <= max)
    {
      CANARY_BASIC("h_step: two-character escape");
      __CPROVER_assert(cont && q == p + 2 && n1 == n0 + 1, "S2a two-character escape: accepted, two bytes consumed, one byte appended");
      __CPROVER_assert(GK != n0 || (uint8_t)str.gk == spec_esc2_byte(T[p + 1]), "S2b two-character escape: appended byte per RFC 8259 section 7");
    }
  }
  else if (p + 5 < n && T[p + 1] == 'u' && spec_hex4_ok(T, p + 2))
  {
    const uint32_t u = spec_hex4(T, p + 2);
    if (!spec_is_hi(u) && !spec_is_lo(u))
    { /* S3 \uXXXX, a code point of the Basic Multilingual Plane */
      const unsigned len = spec_utf8_len(u);
      if (n0 + len <= max)
      {
        CANARY_BMP("h_step: \\uXXXX escape");
        __CPROVER_assert(cont && q == p + 6, "S3a \\uXXXX: accepted, exactly six bytes consumed");
        __CPROVER_assert(n1 == n0 + len, "S3b \\uXXXX: appended length is the UTF-8 length of the code point");
        __CPROVER_assert(!(GK >= n0 && GK < n0 + len) || (uint8_t)str.gk == spec_utf8_byte(u, GK - n0), "S3c \\uXXXX: appended bytes are the UTF-8 encoding of the code point");
      }
    }
    else if (spec_is_hi(u) && p + 11 < n && T[p + 6] == '\\' && T[p + 7] == 'u' && spec_hex4_ok(T, p + 8) && spec_is_lo(spec_hex4(T, p + 8)))
    { /* S4 surrogate pair \uD8xx\uDCxx (RFC 8259 section 7: 12-character sequence encoding the UTF-16 surrogate pair) */
      const uint32_t cp = 0x10000 + ((u - 0xD800) << 10) + (spec_hex4(T, p + 8) - 0xDC00);
      if (n0 + 4 <= max)
      {
        CANARY_HI("h_step: surrogate pair");
        __CPROVER_assert(cont && q == p + 12, "S4a surrogate pair: accepted, exactly twelve bytes consumed");
        __CPROVER_assert(n1 == n0 + 4, "S4b surrogate pair: four bytes appended");
        __CPROVER_assert(!(GK >= n0 && GK < n0 + 4) || (uint8_t)str.gk == spec_utf8_byte(cp, GK - n0), "S4c surrogate pair: appended bytes are the UTF-8 encoding of the supplementary code point");
      }
    }
    else
    { /* unpaired surrogate: RFC 8259 section 8.2 leaves the behaviour open; only S0 applies */
      CANARY_BMP("h_step: unpaired low surrogate");
      CANARY_HI("h_step: unpaired high surrogate");
    }
  }
  else
  { /* backslash followed by end of input, by a byte that starts no escape, or \u without four hex digits: not a valid text.
       The property demands no particular verdict, only S0 (inside the input, error set when it fails). */
#if STEP_PART != 2
    IORA_CANARY("h_step: malformed escape");
#endif
  }
}
#endif

#ifdef IORA_SEARCH
/* SEARCH (bounded, plain; only used to obtain a concrete input for REPLAY): a text of at most 14 bytes parsed from offset 0,
 * compared with a reference decoder (loops are fine here: the harness is unwound). */
void h_search(void)
{
  uint8_t IN[14]; size_t IN_N = nondet_size_t();
  IORA_NONDET_BYTES(IN, 14);
  __CPROVER_assume(IN_N <= 14);
  GK = nondet_size_t(); IORA_TRUE = 1;
  JsonParser ps = { { (const char *)IN, IN_N }, 0, { 10000, 10000, 100, 1000000 }, NULL };
  Json o = Json_DEFAULT;
  bool ok = JsonParser_parseString(&ps, &o);
  __CPROVER_assert(ps._pos <= IN_N, "P1 cursor inside the text (error position inside the input)");
  __CPROVER_assert(ok || ps._error != NULL, "P5 failure sets the error");
  /* reference decoder */
  const char *T = (const char *)IN; size_t i = 1, m = 0; uint8_t ref_gk = 0; bool valid = IN_N >= 1 && IN[0] == '"';
  while (valid && i < IN_N && T[i] != '"')
  {
    uint32_t cp; size_t adv;
    if (T[i] != '\\') { if (m == GK) ref_gk = IN[i]; m++; i++; continue; }
    if (i + 1 < IN_N && spec_esc2_ok(T[i + 1])) { if (m == GK) ref_gk = spec_esc2_byte(T[i + 1]); m++; i += 2; continue; }
    if (!(i + 5 < IN_N && T[i + 1] == 'u' && spec_hex4_ok(T, i + 2))) { valid = false; break; }
    cp = spec_hex4(T, i + 2); adv = 6;
    if (spec_is_hi(cp) && i + 11 < IN_N && T[i + 6] == '\\' && T[i + 7] == 'u' && spec_hex4_ok(T, i + 8) && spec_is_lo(spec_hex4(T, i + 8)))
    { cp = 0x10000 + ((cp - 0xD800) << 10) + (spec_hex4(T, i + 8) - 0xDC00); adv = 12; }
    else if (spec_is_hi(cp) || spec_is_lo(cp)) { valid = false; break; }     /* unpaired surrogate: unspecified */
    for (unsigned k = 0; k < spec_utf8_len(cp); k++) { if (m == GK) ref_gk = spec_utf8_byte(cp, k); m++; }
    i += adv;
  }
  if (valid && i < IN_N)
  { /* a complete RFC 8259 string [0, i] */
    __CPROVER_assert(ok, "S: valid string accepted");
    __CPROVER_assert(ps._pos == i + 1, "S: cursor after the closing quote");
    __CPROVER_assert(o.s.n == m, "S3b/S4b decoded length equals the reference decoder's");
    __CPROVER_assert(GK >= m || (uint8_t)o.s.gk == ref_gk, "S3c/S4c decoded bytes equal the reference decoder's");
  }
}
#endif
