// Differential run, C++ side: the REAL JsonParser::_parseString (private, -fno-access-control). Must print exactly what diff.c prints.
#include "iora/parsers/json.hpp"
#include "diff_io.h"
using namespace iora::parsers;
int main(int argc, char **argv)
{
  FILE *f = fopen(argv[1], "r"); diff_input in;
  while (diff_next(f, &in)) {
    size_t start = (size_t)diff_param(&in, "start", 0); if (start > in.n) start = in.n;
    ParseLimits lim; lim.stringLengthMax = (size_t)diff_param(&in, "max", 1000000);
    JsonParser p(std::string_view((const char *)in.bytes, in.n), lim); p._pos = start; Json o;
    bool r = p._parseString(o);
    printf("str ret=%d pos=%zu err=\"%s\" type=%d len=%zu bytes=", r, p._pos, p._error.empty() ? "-" : p._error.c_str(), r ? (int)o.type() : -1, r ? o.getString().size() : (size_t)0);
    if (r) diff_hex((const unsigned char *)o.getString().data(), o.getString().size()); else printf("-");
    printf("\n"); fflush(stdout); diff_free(&in);
  }
  return 0;
}
