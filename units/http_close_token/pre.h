/* spec macros + loop contract for unit http_close_token (C17).
 * RFC 9110 7.6.1 / 5.6.1: Connection = #connection-option; list elements are separated by commas and optional whitespace (OWS = SP / HTAB);
 * connection options are case-insensitive tokens. Written from the RFC as byte values (44 ',', 32 SP, 9 HTAB).
 * Style: ONE short-circuit guard (q.n > 0), then bitwise connectives over clamped reads (nested && around dereferences multiply the formula). */
/* std::string keeps a terminating NUL: data()[size()] is readable. The views are therefore objects of n+1 bytes and every clamped read below
 * is in bounds even for n == 0 - the spec macros need NO short-circuit guard at all (pure bitwise connectives). */
#define RDQ(q, i) ((q).p[(i) <= (q).n ? (i) : 0])
#define IMPB(a, b) ((!(a)) | (b))
#define CIEQ(c, l) (((c) == (char)(l)) | ((c) == (char)((l) - 32)))                 /* ASCII case-insensitive match of a lower-case letter */
#define CLOSE_BYTES(q, a) (CIEQ(RDQ(q, a), 99) & CIEQ(RDQ(q, (a) + 1), 108) & CIEQ(RDQ(q, (a) + 2), 111) & CIEQ(RDQ(q, (a) + 3), 115) & CIEQ(RDQ(q, (a) + 4), 101))
#define KA_BYTES(q, a) (CIEQ(RDQ(q, a), 107) & CIEQ(RDQ(q, (a) + 1), 101) & CIEQ(RDQ(q, (a) + 2), 101) & CIEQ(RDQ(q, (a) + 3), 112) & (RDQ(q, (a) + 4) == (char)45) \
                      & CIEQ(RDQ(q, (a) + 5), 97) & CIEQ(RDQ(q, (a) + 6), 108) & CIEQ(RDQ(q, (a) + 7), 105) & CIEQ(RDQ(q, (a) + 8), 118) & CIEQ(RDQ(q, (a) + 9), 101))
#define SEGSTART(q, s) (((s) == 0) | (RDQ(q, (s) == 0 ? 0 : (s) - 1) == (char)44))       /* list element starts at the beginning or right after a comma */
#define SEGEND(q, e) (((e) == (q).n) | (RDQ(q, e) == (char)44))                           /* ... and ends at the end or right before a comma */
/* "every byte of [s,a) and of [a+L,e) is OWS", instantiated at the index t */
#define OWS_AROUND(q, s, a, e, L, t) (IMPB(((s) <= (t)) & ((t) < (a)), V_OWS(RDQ(q, t))) & IMPB(((a) + (L) <= (t)) & ((t) < (e)), V_OWS(RDQ(q, t))))
#define TOK_SHAPE(q, s, a, e, L) (((s) <= RRC_MAXLEN) & ((a) <= RRC_MAXLEN) & ((e) <= RRC_MAXLEN) & ((s) <= (a)) & (SAT(a) + (L) <= (e)) & ((e) <= (q).n) & SEGSTART(q, SAT(s)) & SEGEND(q, SAT(e)))
/* HYPOTHESIS form of "the list element [s,e) is OWS* token OWS* with the token at a": the universal part is instantiated at the three search
 * results of the iteration that handled s (weaker hypothesis => stronger clause; implies the clause with the real universal) */
#define TOKH(q, s, a, e, L, BYTES) (TOK_SHAPE(q, s, a, e, L) & BYTES(q, SAT(a)) \
   & OWS_AROUND(q, SAT(s), SAT(a), SAT(e), L, G_snap_e) & OWS_AROUND(q, SAT(s), SAT(a), SAT(e), L, G_snap_a) & OWS_AROUND(q, SAT(s), SAT(a), SAT(e), L, G_snap_b))
/* CONCLUSION form: the universal part is proved at the arbitrary ghost index GQ (i.e. for every index) */
#define WITTOK(q, s, a, e, L, BYTES) (TOK_SHAPE(q, s, a, e, L) & BYTES(q, SAT(a)) & OWS_AROUND(q, SAT(s), SAT(a), SAT(e), L, GQ))

#define RRC_GHOSTS G_cur_is_GS, G_snap_e, G_snap_a, G_snap_b, G_w_pos, G_w_end, G_tok_a, G_tok_n, G_ka_valid, G_ka_pos, G_ka_end, G_ka_a

/* loop 1 of responseRequestsClose: the walk over the comma-separated list. pos is always the start of a list element.
 * The invariant is assembled per proof (-DRRC_J2 / -DRRC_J3 / -DRRC_J4): each proof carries only the clauses its postcondition needs
 * (all of them together exceed the solver budget: ~150 symbolic reads of one array). J1 + variant are in every proof. */
#ifdef RRC_J2
#define RRC_INV_J2 __CPROVER_loop_invariant(GS < pos ==> !TOKH(*value, GS, GA, GE, 5, CLOSE_BYTES))
#else
#define RRC_INV_J2
#endif
#ifdef RRC_J3
#define RRC_INV_J3 __CPROVER_loop_invariant((!sawKeepAlive && GS < pos) ==> !TOKH(*value, GS, GA, GE, 10, KA_BYTES))
#else
#define RRC_INV_J3
#endif
#ifdef RRC_J4
#define RRC_INV_J4 __CPROVER_loop_invariant(sawKeepAlive ==> (G_ka_valid & WITTOK(*value, G_ka_pos, G_ka_a, G_ka_end, 10, KA_BYTES)))
#else
#define RRC_INV_J4
#endif
#define IORA_LOOP_HttpClient_responseRequestsClose_1 IORA_LC( \
  __CPROVER_assigns(pos, sawKeepAlive, RRC_GHOSTS) \
  /* J1 */ __CPROVER_loop_invariant((pos <= value->n) & SEGSTART(*value, pos <= value->n ? pos : 0)) \
  RRC_INV_J2 RRC_INV_J3 RRC_INV_J4 \
  __CPROVER_decreases(value->n - pos))
