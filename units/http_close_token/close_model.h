/* Shims for unit http_close_token (C17): HttpClient::responseRequestsClose over the Connection header value as real memory.
 * libstdc++ searching functions are nondeterministic models: the result is any value satisfying the DEFINING facts of
 * find / find_first_not_of / find_last_not_of, the first/last-occurrence fact being instantiated at the ghost terms the proof uses
 * (quantifier-free; design A.8). They also record ghost witnesses/snapshots (no effect on the code). */
#ifndef CLOSE_MODEL_H
#define CLOSE_MODEL_H
size_t nondet_size_t(void); _Bool nondet_bool(void);
static inline char CaseInsensitiveCompare_asciiLower(unsigned char c);      /* extracted from parsers/http_message.hpp */

#define RRC_MAXLEN ((size_t)1 << 50)
/* ---- arbitrary ghost indices (soundness direction: "for every ...") ---- */
size_t GS, GA, GE;        /* candidate segment start, token start, segment end */
size_t GQ;                /* arbitrary index at which conclusion-side universals are proved */
/* ---- snapshots of the search results in the iteration whose pos == GS (terms at which hypothesis-side universals are instantiated) ---- */
bool G_cur_is_GS; size_t G_snap_e, G_snap_a, G_snap_b;
/* ---- witnesses (completeness direction) ---- */
size_t G_w_pos, G_w_end;  /* segment [pos, end) of the current iteration */
size_t G_tok_a, G_tok_n;  /* token taken by substr */
bool G_ka_valid; size_t G_ka_pos, G_ka_end, G_ka_a;   /* the segment in which "keep-alive" matched */

#define V_OWS(c) (((c) == (char)32) | ((c) == (char)9))
#define SAT(i) ((i) <= RRC_MAXLEN ? (i) : 0)                  /* spec-side index arithmetic cannot wrap */
#define FEND(r, s) ((r) == IORA_NPOS ? (s).n : (r))

#ifdef IORA_SEARCH
/* bounded build: plain executable bodies (libstdc++ semantics written as loops) */
static inline size_t rrc_find_comma(const iora_sv *s, size_t pos) { for (size_t i = pos; i < s->n; i++) if (s->p[i] == (char)44) return i; return IORA_NPOS; }
static inline size_t rrc_find_first_not_ows(const iora_sv *s, size_t pos) { for (size_t i = pos; i < s->n; i++) if (!V_OWS(s->p[i])) return i; return IORA_NPOS; }
static inline size_t rrc_find_last_not_ows(const iora_sv *s, size_t pos) { if (s->n == 0) return IORA_NPOS; size_t i = (pos < s->n - 1 ? pos : s->n - 1) + 1; while (i > 0) { if (!V_OWS(s->p[i - 1])) return i - 1; i--; } return IORA_NPOS; }
#else
/* value.find(',', pos) */
static inline size_t rrc_find_comma(const iora_sv *s, size_t pos)
{
  size_t r = nondet_size_t();
  IORA_ASSUME(r == IORA_NPOS || (r >= pos && r < s->n && s->p[r] == (char)44));
  IORA_ASSUME((GE >= pos && GE < FEND(r, *s)) ==> s->p[GE] != (char)44);
  IORA_ASSUME((GS >= 1 && GS - 1 >= pos && GS - 1 < FEND(r, *s)) ==> s->p[GS - 1] != (char)44);
  IORA_ASSUME((GQ >= pos && GQ < FEND(r, *s)) ==> s->p[GQ] != (char)44);
  G_w_pos = pos; G_w_end = FEND(r, *s);
  G_cur_is_GS = (pos == GS);
  if (G_cur_is_GS) G_snap_e = FEND(r, *s);
  return r;
}
/* value.find_first_not_of(" \t", pos) */
static inline size_t rrc_find_first_not_ows(const iora_sv *s, size_t pos)
{
  size_t r = nondet_size_t();
  IORA_ASSUME(r == IORA_NPOS || (r >= pos && r < s->n && !V_OWS(s->p[r])));
  IORA_ASSUME((GA >= pos && GA < FEND(r, *s)) ==> V_OWS(s->p[GA]));
  IORA_ASSUME((GQ >= pos && GQ < FEND(r, *s)) ==> V_OWS(s->p[GQ]));
  if (G_cur_is_GS) G_snap_a = FEND(r, *s);
  return r;
}
/* value.find_last_not_of(" \t", pos): the last index <= min(pos, n-1) holding a non-OWS byte */
#define LAST_OCC(T) (((T) < s->n && (T) <= pos && (r == IORA_NPOS || (T) > r)) ==> V_OWS(s->p[(T)]))
static inline size_t rrc_find_last_not_ows(const iora_sv *s, size_t pos)
{
  size_t r = nondet_size_t();
  IORA_ASSUME(r == IORA_NPOS || (r < s->n && r <= pos && !V_OWS(s->p[r])));
  IORA_ASSUME(LAST_OCC(SAT(GA) + 4));
  IORA_ASSUME(LAST_OCC(SAT(GA) + 9));
  IORA_ASSUME(LAST_OCC(GQ));
  if (G_cur_is_GS) G_snap_b = (r == IORA_NPOS ? 0 : r);
  return r;
}

#endif

/* std::string token = value.substr(a, len); std::transform(..asciiLower..); token == "lit" */
typedef struct { const char *p; size_t n; bool folded; } iora_tok;
static inline iora_tok rrc_tok_of(iora_sv v, size_t a, size_t len)
{
  IORA_ASSERT(a <= v.n, "substr: pos <= size() (std::out_of_range otherwise)");
  iora_tok t; t.p = v.p + a; t.n = (len < v.n - a) ? len : v.n - a; t.folded = false;
  G_tok_a = a; G_tok_n = t.n;
  return t;
}
#define IORA_ASCII_LOWER_INPLACE(t) ((t).folded = true)
static inline bool rrc_tok_eq_lit(iora_tok t, const char *lit, size_t len)
{
  IORA_ASSERT(len <= 10, "model: comparison literal of at most 10 characters");
  if (t.n != len) return false;
  bool r = true;
#define RRC_B(k) if (len > (k)) r &= ((t.folded ? CaseInsensitiveCompare_asciiLower((unsigned char)t.p[k]) : t.p[k]) == lit[k]);
  RRC_B(0) RRC_B(1) RRC_B(2) RRC_B(3) RRC_B(4) RRC_B(5) RRC_B(6) RRC_B(7) RRC_B(8) RRC_B(9)
  if (r && len == 10) { G_ka_valid = true; G_ka_pos = G_w_pos; G_ka_end = G_w_end; G_ka_a = G_tok_a; }     /* witness of the "keep-alive" match */
  return r;
}
#define IORA_TOK_EQ_LIT(t, s) rrc_tok_eq_lit((t), (s), sizeof(s) - 1)
static inline bool rrc_sv_eq_lit(iora_sv x, const char *s, size_t len)
{
  IORA_ASSERT(len <= 4, "model: comparison literal of at most 4 characters");
  if (x.n != len) return false;
  bool r = true;
  if (len > 0) r &= (x.p[0] == s[0]);
  if (len > 1) r &= (x.p[1] == s[1]);
  if (len > 2) r &= (x.p[2] == s[2]);
  if (len > 3) r &= (x.p[3] == s[3]);
  return r;
}
#define IORA_SV_EQ_LIT(x, s) rrc_sv_eq_lit((x), (s), sizeof(s) - 1)

/* Response::headers (std::map with the case-insensitive comparator): only the Connection field matters */
typedef struct { iora_sv second; } iora_hslot;
typedef const iora_hslot *iora_hdr_it;
typedef struct { bool has_connection; iora_hslot connection; } iora_hdrmap;
static inline iora_hdr_it iora_hdrmap_find_lit(const iora_hdrmap *m, const char *name, size_t len)
{ IORA_ASSERT(len == 10 && name[0] == 'C' && name[1] == 'o' && name[2] == 'n' && name[3] == 'n' && name[4] == 'e' && name[5] == 'c' && name[6] == 't' && name[7] == 'i' && name[8] == 'o' && name[9] == 'n', "model: lookup of the Connection field");
  return m->has_connection ? &m->connection : NULL; }
#define IORA_HDR_FIND(m, s) iora_hdrmap_find_lit(&(m), (s), sizeof(s) - 1)
static inline iora_hdr_it iora_hdrmap_end(const iora_hdrmap *m) { (void)m; return NULL; }
typedef struct { iora_hdrmap headers; iora_sv httpVersion; } RResponse;
typedef struct { int dummy; } HttpClient;
#endif
