/* Contracts for unit http_close_token (C17: "a connection that saw ... a close signal ... is never reused" - the close signal).
 * responseRequestsClose(resp), exact on the token list:
 *   Connection present and SOME list element is the token "close" (OWS-trimmed, ASCII case-insensitive)      -> true
 *   else Connection present and some list element is the token "keep-alive"                                    -> false
 *   else                                                                                                       -> httpVersion == "1.0"  */
#define V (resp.headers.connection.second)
#define HAS (resp.headers.has_connection)
#define VER (resp.httpVersion)
#define VER10 ((VER.n == 3) & (RDQ(VER, 0) == (char)49) & (RDQ(VER, 1) == (char)46) & (RDQ(VER, 2) == (char)48))
#define OKRET (__CPROVER_return_value)
#define RRC_PRE \
/* std::string buffers hold size()+1 bytes (terminating NUL) */ \
__CPROVER_requires(IORA_TRUE && V.n <= RRC_MAXLEN && __CPROVER_is_fresh(V.p, V.n + 1) && VER.n <= 64 && __CPROVER_is_fresh(VER.p, VER.n + 1) && !G_ka_valid) \
__CPROVER_assigns(RRC_GHOSTS)

/* proof "rrc_safety": built-in checks, shim preconditions (substr pos <= size), frame, invariant, variant (termination) */
bool HttpClient_responseRequestsClose_safety(const HttpClient *self, RResponse resp)
RRC_PRE
/* C4 */ __CPROVER_ensures(!HAS ==> (OKRET == (VER10 != 0)))
;
/* proof "rrc_sound": a "close" list element anywhere => true (GS, GA, GE arbitrary: every element) */
bool HttpClient_responseRequestsClose_sound(const HttpClient *self, RResponse resp)
RRC_PRE
/* C1 */ __CPROVER_ensures((HAS & TOKH(V, GS, GA, GE, 5, CLOSE_BYTES)) ==> OKRET)
;
/* proof "rrc_ka": true only for a witnessed "close" element, or by the version default when NO element is "keep-alive" (invariant J3) */
bool HttpClient_responseRequestsClose_ka(const HttpClient *self, RResponse resp)
RRC_PRE
/* C2 */ __CPROVER_ensures(OKRET ==> ((HAS & WITTOK(V, G_w_pos, G_tok_a, G_w_end, 5, CLOSE_BYTES)) | (VER10 & !(HAS & TOKH(V, GS, GA, GE, 10, KA_BYTES)))))
;
/* proof "rrc_witness": false under HTTP/1.0 only for a witnessed "keep-alive" element (invariant J4) */
bool HttpClient_responseRequestsClose_witness(const HttpClient *self, RResponse resp)
RRC_PRE
/* C3 */ __CPROVER_ensures(((!OKRET) & VER10) ==> (HAS & G_ka_valid & WITTOK(V, G_ka_pos, G_ka_a, G_ka_end, 10, KA_BYTES)))
;
void h_rrc(void)
{
  const HttpClient *c; RResponse r;
  bool x = HttpClient_responseRequestsClose(c, r);
  IORA_CANARY("h_rrc: returns");
  if (x && r.headers.has_connection) { IORA_CANARY("h_rrc: close"); }
  if (!x && G_ka_valid) { IORA_CANARY("h_rrc: keep-alive"); }
}

/* asciiLower: exact (RFC 9110 case-insensitivity is ASCII-only) */
char CaseInsensitiveCompare_asciiLower_contract(unsigned char c)
__CPROVER_requires(IORA_TRUE) __CPROVER_assigns()
__CPROVER_ensures(__CPROVER_return_value == ((c >= 65 && c <= 90) ? (char)(c + 32) : (char)c))
;
void h_lower(void) { unsigned char c; CaseInsensitiveCompare_asciiLower(c); IORA_CANARY("h_lower: returns"); }

#ifdef IORA_SEARCH
/* BOUNDED stand-in for full exactness (values of at most 10 bytes): the real function against an independent reference that splits at commas,
 * trims SP/HTAB on both sides and compares ASCII case-insensitively; precedence close > keep-alive > version default. */
static bool ref_ci_eq(const uint8_t *p, size_t n, const char *lit, size_t len)
{ if (n != len) return 0; for (size_t k = 0; k < 10; k++) if (k < n) { uint8_t c = p[k]; if (c >= 65 && c <= 90) c = (uint8_t)(c + 32); if (c != (uint8_t)lit[k]) return 0; } return 1; }
static bool ref_want(const uint8_t *IN, size_t IN_N, size_t MAXN, bool HASCONN, bool v10)
{
  bool anyClose = 0, anyKa = 0; size_t s = 0;
  for (size_t i = 0; i <= MAXN; i++) if (i <= IN_N && (i == IN_N || IN[i] == 44)) {      /* list element [s, i) */
    size_t a = s, b = i; while (a < b && (IN[a] == 32 || IN[a] == 9)) a++; while (b > a && (IN[b - 1] == 32 || IN[b - 1] == 9)) b--;
    if (ref_ci_eq(IN + a, b - a, "close", 5)) anyClose = 1;
    if (ref_ci_eq(IN + a, b - a, "keep-alive", 10)) anyKa = 1;
    s = i + 1; }
  return HASCONN && anyClose ? 1 : (HASCONN && anyKa ? 0 : v10);
}
void h_search(void)
{
  uint8_t IN[11]; size_t IN_N = nondet_size_t(); uint8_t VERS[4]; _Bool HASCONN = nondet_bool();
  IORA_NONDET_BYTES(IN, 11); IORA_NONDET_BYTES(VERS, 4);
  __CPROVER_assume(IN_N <= 10);
  IORA_TRUE = 1;
  RResponse resp; resp.headers.has_connection = HASCONN; resp.headers.connection.second.p = (const char *)IN; resp.headers.connection.second.n = IN_N;
  resp.httpVersion.p = (const char *)VERS; resp.httpVersion.n = 3;
  HttpClient c0;
  bool got = HttpClient_responseRequestsClose(&c0, resp);
  bool v10 = VERS[0] == 49 && VERS[1] == 46 && VERS[2] == 48;
  __CPROVER_assert(got == ref_want(IN, IN_N, 10, HASCONN, v10), "X1 responseRequestsClose equals the reference on the token list");
}
/* BOUNDED, STRUCTURED stand-in for the precedence rule (needs >= 16 bytes): values of the shape  <keep-alive in any letter case> [SP|HTAB]? , <up to 7
 * arbitrary bytes>  and the mirror image  <up to 7 arbitrary bytes> , <keep-alive in any letter case>  (19 bytes at most) against the same reference */
void h_prec(void)
{
  static const char KA[10] = {'k','e','e','p','-','a','l','i','v','e'};
  uint8_t IN[20]; uint8_t VERS[4]; _Bool KAFIRST = nondet_bool(); uint8_t TAIL[7]; size_t TAIL_N = nondet_size_t(); _Bool OWS = nondet_bool();
  IORA_NONDET_BYTES(TAIL, 7); IORA_NONDET_BYTES(VERS, 4);
  __CPROVER_assume(TAIL_N <= 7);
  size_t n = 0;
  if (KAFIRST) {
    for (unsigned k = 0; k < 10; k++) { uint8_t ch = (uint8_t)KA[k]; if (ch >= 97 && ch <= 122 && nondet_bool()) ch = (uint8_t)(ch - 32); IN[n++] = ch; }
    if (OWS) IN[n++] = nondet_bool() ? 32 : 9;
    IN[n++] = 44;
    for (unsigned k = 0; k < 7; k++) if (k < TAIL_N) IN[n++] = TAIL[k];
  } else {
    for (unsigned k = 0; k < 7; k++) if (k < TAIL_N) IN[n++] = TAIL[k];
    IN[n++] = 44;
    if (OWS) IN[n++] = nondet_bool() ? 32 : 9;
    for (unsigned k = 0; k < 10; k++) { uint8_t ch = (uint8_t)KA[k]; if (ch >= 97 && ch <= 122 && nondet_bool()) ch = (uint8_t)(ch - 32); IN[n++] = ch; }
  }
  for (unsigned k = 0; k < 20; k++) if (k >= n) IN[k] = 0;
  IORA_TRUE = 1;
  RResponse resp; resp.headers.has_connection = 1; resp.headers.connection.second.p = (const char *)IN; resp.headers.connection.second.n = n;
  resp.httpVersion.p = (const char *)VERS; resp.httpVersion.n = 3;
  HttpClient c0;
  bool got = HttpClient_responseRequestsClose(&c0, resp);
  bool v10 = VERS[0] == 49 && VERS[1] == 46 && VERS[2] == 48;
  __CPROVER_assert(got == ref_want(IN, n, 19, 1, v10), "X2 precedence close > keep-alive > version default on two-element lists containing keep-alive");
}
#endif
