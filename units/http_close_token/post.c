/* Contracts for unit http_close_token (C17: "a connection that saw ... a close signal ... is never reused" - the close signal).
 * responseRequestsClose(resp), exact on the token list:
 *   Connection present and SOME list element is the token "close" (OWS-trimmed, ASCII case-insensitive)      -> true
 *   else Connection present and some list element is the token "keep-alive"                                    -> false
 *   else                                                                                                       -> httpVersion == "1.0"  */
#define V (resp.headers.connection.second)
#define HAS (resp.headers.has_connection)
#define VER (resp.httpVersion)
#define VER10 ((VER.n == 3) & (RDQ(VER, 0) == (char)49) & (RDQ(VER, 1) == (char)46) & (RDQ(VER, 2) == (char)48))
#define OKRET (__CPROVER_return_value)
#define RRC_PRE \
/* std::string buffers hold size()+1 bytes (terminating NUL) */ \
__CPROVER_requires(IORA_TRUE && V.n <= RRC_MAXLEN && __CPROVER_is_fresh(V.p, V.n + 1) && VER.n <= 64 && __CPROVER_is_fresh(VER.p, VER.n + 1) && !G_ka_valid) \
__CPROVER_assigns(RRC_GHOSTS)

/* proof "rrc_safety": built-in checks, shim preconditions (substr pos <= size), frame, invariant, variant (termination) */
bool HttpClient_responseRequestsClose_safety(const HttpClient *self, RResponse resp)
RRC_PRE
/* C4 */ __CPROVER_ensures(!HAS ==> (OKRET == (VER10 != 0)))
;
/* proof "rrc_sound": a "close" list element anywhere => true (GS, GA, GE arbitrary: every element) */
bool HttpClient_responseRequestsClose_sound(const HttpClient *self, RResponse resp)
RRC_PRE
/* C1 */ __CPROVER_ensures((HAS & TOKH(V, GS, GA, GE, 5, CLOSE_BYTES)) ==> OKRET)
;
/* proof "rrc_ka": true only for a witnessed "close" element, or by the version default when NO element is "keep-alive" (invariant J3) */
bool HttpClient_responseRequestsClose_ka(const HttpClient *self, RResponse resp)
RRC_PRE
/* C2 */ __CPROVER_ensures(OKRET ==> ((HAS & WITTOK(V, G_w_pos, G_tok_a, G_w_end, 5, CLOSE_BYTES)) | (VER10 & !(HAS & TOKH(V, GS, GA, GE, 10, KA_BYTES)))))
;
/* proof "rrc_witness": false under HTTP/1.0 only for a witnessed "keep-alive" element (invariant J4) */
bool HttpClient_responseRequestsClose_witness(const HttpClient *self, RResponse resp)
RRC_PRE
/* C3 */ __CPROVER_ensures(((!OKRET) & VER10) ==> (HAS & G_ka_valid & WITTOK(V, G_ka_pos, G_ka_a, G_ka_end, 10, KA_BYTES)))
;
void h_rrc(void)
{
  const HttpClient *c; RResponse r;
  bool x = HttpClient_responseRequestsClose(c, r);
  IORA_CANARY("h_rrc: returns");
  if (x && r.headers.has_connection) { IORA_CANARY("h_rrc: close"); }
  if (!x && G_ka_valid) { IORA_CANARY("h_rrc: keep-alive"); }
}

/* asciiLower: exact (RFC 9110 case-insensitivity is ASCII-only) */
char CaseInsensitiveCompare_asciiLower_contract(unsigned char c)
__CPROVER_requires(IORA_TRUE) __CPROVER_assigns()
__CPROVER_ensures(__CPROVER_return_value == ((c >= 65 && c <= 90) ? (char)(c + 32) : (char)c))
;
void h_lower(void) { unsigned char c; CaseInsensitiveCompare_asciiLower(c); IORA_CANARY("h_lower: returns"); }
