// REPLAY adapter: the REAL HttpClient::responseRequestsClose on a Response built from the verifier's input, against an independent reference
// (split at commas, trim SP/HTAB, ASCII case-insensitive compare; close > keep-alive > HTTP/1.0 default).
#include "iora/network/http_client.hpp"
#include "replay_io.h"
using namespace iora::network;
static std::string lower(std::string s) { for (auto &c : s) if (c >= 'A' && c <= 'Z') c = (char)(c + 32); return s; }
int main(int argc, char **argv) {
  auto in = replay_io::load(argv[1]);
  auto d = replay_io::bytes(in["IN"]); if (in.count("IN_N")) d.resize(std::min<size_t>(d.size(), replay_io::u64(in["IN_N"])));
  auto v = replay_io::bytes(in["VERS"]); v.resize(3);
  bool has = in.count("HASCONN") ? replay_io::u64(in["HASCONN"]) != 0 : true;
  HttpClient::Response r; r.httpVersion.assign(v.begin(), v.end());
  std::string val(d.begin(), d.end());
  if (has) r.headers["Connection"] = val;
  HttpClient c;
  bool got = c.responseRequestsClose(r);
  bool anyClose = false, anyKa = false; size_t s = 0;
  for (size_t i = 0; i <= val.size(); i++) if (i == val.size() || val[i] == ',') {
    size_t a = s, b = i; while (a < b && (val[a] == ' ' || val[a] == '\t')) a++; while (b > a && (val[b - 1] == ' ' || val[b - 1] == '\t')) b--;
    std::string t = lower(val.substr(a, b - a)); if (t == "close") anyClose = true; if (t == "keep-alive") anyKa = true; s = i + 1; }
  bool want = has && anyClose ? true : (has && anyKa ? false : r.httpVersion == "1.0");
  if (got != want) replay_io::fail("responseRequestsClose(Connection: \"" + val + "\", HTTP/" + r.httpVersion + ") returned " + (got ? "true" : "false") + ", the token list says " + (want ? "close" : "keep"));
  replay_io::ok("equals the reference on this header value");
  return 0;
}
