"""Unit-local extraction plugin: constructor member-initialiser list.

The extractor's function locator skips a constructor's `: m(e), ...` list (it is not part of the body). For the
target whose unit.json entry has `ctor_members`, this hook re-reads the real header, finds the same constructor and
prepends `m = e ;` for every listed member, in source order, to the extracted body. Every initialiser must be either
listed in `ctor_members` (translated) or in `ctor_ignored` (recorded verbatim in the extraction report as dropped);
anything else is an extraction break, so a changed initialiser list can never be skipped silently.
"""
import os

from vt import pipeline, x2c
from vt.lexer import Tok, lex, match_close, text_of


def hook_begin(tokens, rw):
    fn = rw.fn
    if 'ctor_members' not in fn:
        return None
    path = fn.get('file', rw.unit['file'])
    toks = lex(open(os.path.join(pipeline.REPO, path), encoding='utf-8', errors='replace').read())
    i_name, lp, rp, lb, rb = x2c.find_function(toks, fn['name'], fn.get('scope'), fn.get('params_re'), fn.get('ordinal'))
    j = rp + 1
    if toks[j].text != ':':
        raise x2c.ExtractionBreak(f"{rw.prefix}: constructor has no member-initialiser list")
    j += 1
    keep = set(fn['ctor_members'])
    ignore = set(fn.get('ctor_ignored', []))
    seen = set()
    out = []
    while j < lb:
        name = toks[j]
        if name.kind != 'id' or toks[j + 1].text not in ('(', '{'):
            raise x2c.ExtractionBreak(f"{rw.prefix}: cannot parse member initialiser at line {name.line}")
        close = match_close(toks, j + 1)
        expr = toks[j + 2:close]
        if name.text in keep:
            out += [Tok('id', name.text, name.line), Tok('op', '=', name.line)] + expr + [Tok('op', ';', name.line)]
            seen.add(name.text)
            rw.R.fire('plugin:ctor-init')
        elif name.text in ignore:
            rw.R.dropped.append({"line": name.line, "text": "member initialiser (not part of the timer arithmetic): " + text_of(toks[j:close + 1])})
        else:
            raise x2c.ExtractionBreak(f"{rw.prefix}: member initialiser `{name.text}` is neither translated nor declared ignorable")
        j = close + 1
        if j < lb and toks[j].text == ',':
            j += 1
    if seen != keep:
        raise x2c.ExtractionBreak(f"{rw.prefix}: member initialisers missing: {sorted(keep - seen)}")
    return out + list(tokens)
