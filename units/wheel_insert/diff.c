/* Differential run, C side: the EXTRACTED TimingWheel constructor (initialiser list + asserts, block target) and insertEntry, compiled
 * natively (iora_sdiv is real division natively). Params: tick (ms), tpw (ticksPerWheel, power of two), nw (numWheels), delay / delayneg;
 * input byte l seeds currentTick of level l. Compared: the configuration the constructor derives (_ticksPerWheel, _tickMask, effective
 * _numWheels), entry->wheelLevel / bucketIndex, and WHERE the entry was linked (C: the recorded Bucket::pushBack; C++: the bucket whose
 * list holds the entry) and that it was linked exactly once. */
#include "unit_native.c"
#include "diff_io.h"
int main(int argc, char **argv)
{
  FILE *f = fopen(argv[1], "r"); diff_input in;
  IORA_TRUE = 1;
  while (diff_next(f, &in)) {
    int64_t tick = (int64_t)diff_param(&in, "tick", 10); if (tick < 1) tick = 1;
    size_t tpw = (size_t)diff_param(&in, "tpw", 8), nw = (size_t)diff_param(&in, "nw", 3);
    int64_t delay = (int64_t)diff_param(&in, "delay", 0); if (diff_param(&in, "delayneg", 0)) delay = -delay;
    TimingWheel w; memset(&w, 0, sizeof w); G_ctor_ok = 1;
    TimingWheel_ctor(&w, tick, tpw, nw);
    w._wheels = (WheelLevel *)calloc(w._numWheels, sizeof(WheelLevel));
    for (size_t l = 0; l < w._numWheels; l++) w._wheels[l].currentTick = (size_t)(l < in.n ? in.bytes[l] : 0) * 0x0101010101ULL;
    G_wheels_base = w._wheels; G_buckets_n = w._ticksPerWheel; G_pushes = 0; G_pushed_level = 999; G_pushed_idx = 999;
    TimerEntry e; memset(&e, 0, sizeof e); e.wheelLevel = 77; e.bucketIndex = 77;
    TimingWheel_insertEntry(&w, &e, delay);
    printf("wheel tpw=%zu mask=%zu nw=%zu | level=%zu idx=%zu | linked=%zu at %zu/%zu\n", w._ticksPerWheel, w._tickMask, w._numWheels, e.wheelLevel, e.bucketIndex,
           G_pushes, G_pushed_level, G_pushed_idx);
    fflush(stdout); free(w._wheels); diff_free(&in);
  }
  return 0;
}
