// Differential run, C++ side: the REAL TimingWheel constructor + private insertEntry (the wheel is never started).
#include "iora/core/timing_wheel.hpp"
#include "diff_io.h"
using namespace iora::core;
int main(int argc, char **argv)
{
  FILE *f = fopen(argv[1], "r"); diff_input in;
  while (diff_next(f, &in)) {
    int64_t tick = (int64_t)diff_param(&in, "tick", 10); if (tick < 1) tick = 1;
    size_t tpw = (size_t)diff_param(&in, "tpw", 8), nw = (size_t)diff_param(&in, "nw", 3);
    int64_t delay = (int64_t)diff_param(&in, "delay", 0); if (diff_param(&in, "delayneg", 0)) delay = -delay;
    TimingWheel w(std::chrono::milliseconds(tick), tpw, nw);
    for (size_t l = 0; l < w._numWheels; l++) w._wheels[l].currentTick = (size_t)(l < in.n ? in.bytes[l] : 0) * 0x0101010101ULL;
    TimingWheel::TimerEntry e; e.wheelLevel = 77; e.bucketIndex = 77;
    w.insertEntry(&e, std::chrono::milliseconds(delay));
    size_t linked = 0, fl = 999, fi = 999;
    for (size_t l = 0; l < w._wheels.size(); l++) for (size_t b = 0; b < w._wheels[l].buckets.size(); b++)
      for (auto *p = w._wheels[l].buckets[b].head; p; p = p->next) if (p == &e) { linked++; fl = l; fi = b; }
    printf("wheel tpw=%zu mask=%zu nw=%zu | level=%zu idx=%zu | linked=%zu at %zu/%zu\n", w._ticksPerWheel, w._tickMask, w._numWheels, e.wheelLevel, e.bucketIndex, linked, fl, fi);
    fflush(stdout);
    w._wheels[fl].buckets[fi].head = w._wheels[fl].buckets[fi].tail = nullptr;   // the entry lives on this stack frame: unlink before the wheel is destroyed
    diff_free(&in);
  }
  return 0;
}
