/* Contracts of TimingWheel::insertEntry, written from property C08 ("a timer never fires before its deadline; the wheel
 * may be up to one tick early") and the wheel's release rules - not from the function text:
 *   level-0 buckets are released by advance()/collectFromBucket WITHOUT a deadline test, one bucket per tick step,
 *   starting with bucket (currentTick & mask); buckets of level > 0 are released only by cascadeDown, WITH a deadline test.
 * Hence an entry put on level 0 must sit exactly floor(delay/tick) tick steps ahead (W1): one step less is more than a tick
 * early, a multiple of the wheel size less is a whole revolution early.
 *
 * q0 = G_q0 is the first quotient the function computed; W0 pins it to floor(delay / tickDuration).
 *
 * Two kinds of proof:
 *  - "from_ctor" (main): the wheel configuration is produced by the EXTRACTED constructor (initialiser list + asserts +
 *    _wheels.resize) on arbitrary arguments; all clauses W0..W4 + frame are asserted after the call. The precondition is
 *    therefore mechanically "every wheel the constructor accepts"; loops are closed by the loop contract (unbounded).
 *  - "frame_dfcc" (tier thorough): DFCC enforcement of the assigns clause + W3 under the hand-written most general state. */

#define MASK   (self->_tickMask)
#define CUR0   (self->_wheels[0].currentTick)
#define OFF0   ((int64_t)((entry->bucketIndex - CUR0) & MASK))                                   /* tick steps until a level-0 entry is released */
#define OFFL   ((int64_t)((entry->bucketIndex - self->_wheels[entry->wheelLevel].currentTick) & MASK))
#define IS_POW2(x) ((x) != 0 && ((x) & ((x) - 1)) == 0)

/* ------------------------------------------------------------------------------------------------------------------ */
static void wheel_from_ctor(TimingWheel *W, int64_t tick, size_t tpw, size_t nw)
{
  IORA_TRUE = 1; G_ctor_ok = 1; G_wheels_n = 0; G_pushes = 0; G_divs = 0;
  TimingWheel_ctor(W, tick, tpw, nw);
  __CPROVER_assume(G_ctor_ok);                               /* environment: construction succeeded (no assert fired) ...          */
  __CPROVER_assume(G_wheels_n <= ((size_t)1 << 40));         /* ... _wheels.resize(n) returned: n levels fit in memory             */
  __CPROVER_assume(W->_ticksPerWheel <= VEC_MAX_Bucket);     /* ... w.buckets.resize(ticksPerWheel) returned                       */
  __CPROVER_assume(tick > 0);                                /* documented, unchecked (observation O1)                             */
  W->_wheels = (WheelLevel *)malloc(G_wheels_n * sizeof(WheelLevel));   /* contents (currentTick of every level) arbitrary          */
  __CPROVER_assume(W->_wheels != NULL);
  G_wheels_base = W->_wheels; G_buckets_n = W->_ticksPerWheel;
}

size_t GL;   /* arbitrary ghost level for the frame witness */

void h_from_ctor(void)
{
  TimingWheel W; TimerEntry e; int64_t delay = nondet_i64();
  wheel_from_ctor(&W, nondet_i64(), nondet_size_t(), nondet_size_t());
  TimingWheel *self = &W; TimerEntry *entry = &e;
  /* the constructor establishes the state the hand-written precondition of frame_dfcc describes */
  __CPROVER_assert(G_wheels_n == W._numWheels && W._numWheels >= 1, "ctor: one WheelLevel per level, at least one level");
  __CPROVER_assert(IS_POW2(W._ticksPerWheel) && W._tickMask == W._ticksPerWheel - 1 && W._tickDuration > 0, "ctor: ticksPerWheel is a power of two, mask = ticksPerWheel - 1");
  GL = nondet_size_t();                                  /* witness level: arbitrary */
  __CPROVER_assume(GL < W._numWheels);
  TimingWheel W0 = W; TimerEntry e0 = e; size_t curGL = W._wheels[GL].currentTick;

  TimingWheel_insertEntry(self, entry, delay);
  IORA_CANARY("h_from_ctor: call returns");

  __CPROVER_assert(G_divs >= 1 && G_a0 == delay && G_b0 == W._tickDuration, "W0 first quotient is floor(delay/tickDuration)");
  __CPROVER_assert(entry->wheelLevel != 0 || OFF0 == (G_q0 > 0 ? G_q0 : 0), "W1 level 0: exactly max(0,floor(delay/tick)) tick steps ahead (never a whole revolution early)");
  __CPROVER_assert(G_pushes == 1 && G_pushed_e == entry && G_pushed_level == entry->wheelLevel && G_pushed_idx == entry->bucketIndex,
                   "W2a linked exactly once, into the bucket its own (wheelLevel, bucketIndex) names");
  __CPROVER_assert(!(G_q0 >= (int64_t)W._ticksPerWheel && W._numWheels >= 2) || entry->wheelLevel >= 1, "W2b a delay of a revolution or more leaves level 0 when a higher level exists");
  __CPROVER_assert(!(G_q0 < (int64_t)W._ticksPerWheel) || entry->wheelLevel == 0, "W2c a delay shorter than a revolution stays on level 0");
  __CPROVER_assert(entry->wheelLevel < W._numWheels && entry->bucketIndex < W._ticksPerWheel, "W3 indices in range");
  __CPROVER_assert(!(entry->wheelLevel >= 1 && entry->wheelLevel < W._numWheels - 1) || OFFL >= 1, "W4 below the top level an entry of level >= 1 is never in the current bucket");
  if (entry->wheelLevel == 0) { IORA_CANARY("h_from_ctor: placed on level 0"); } else { IORA_CANARY("h_from_ctor: placed on a higher level"); }
  /* frame (witness level GL): configuration, every level's currentTick and the entry's other fields are untouched */
  __CPROVER_assert(W._tickDuration == W0._tickDuration && W._ticksPerWheel == W0._ticksPerWheel && W._tickMask == W0._tickMask && W._numWheels == W0._numWheels && W._wheels == W0._wheels,
                   "frame: wheel configuration unchanged");
  __CPROVER_assert(W._wheels[GL].currentTick == curGL, "frame: currentTick of every level unchanged");
  __CPROVER_assert(e.id == e0.id && e.deadline == e0.deadline && e.prev == e0.prev && e.next == e0.next && e.thenReschedule == e0.thenReschedule, "frame: id/deadline/links of the entry unchanged (links are pushBack's)");
}

/* ------------------------------------------------------------------------------------------------------------------ */
/* every state a successfully constructed wheel can be in (hand-written, most general: numWheels >= 1) */
#define INSERT_PRE \
__CPROVER_requires(IORA_TRUE && __CPROVER_is_fresh(self, sizeof(*self)) && __CPROVER_is_fresh(entry, sizeof(*entry))) \
__CPROVER_requires(self->_tickDuration > 0) \
__CPROVER_requires(IS_POW2(self->_ticksPerWheel) && self->_ticksPerWheel <= VEC_MAX_Bucket && self->_tickMask == self->_ticksPerWheel - 1) \
__CPROVER_requires(self->_numWheels >= 1 && self->_numWheels <= VEC_MAX_WheelLevel) \
__CPROVER_requires(__CPROVER_is_fresh(self->_wheels, self->_numWheels * sizeof(WheelLevel))) \
__CPROVER_requires(G_wheels_base == self->_wheels && G_buckets_n == self->_ticksPerWheel && G_pushes == 0 && G_divs == 0) \
__CPROVER_assigns(entry->wheelLevel, entry->bucketIndex, G_pushes, G_pushed_level, G_pushed_idx, G_pushed_e, G_q0, G_a0, G_b0, G_divs)

void TimingWheel_insertEntry_frame(TimingWheel *self, TimerEntry *entry, int64_t delay)
INSERT_PRE
/* W3 */ __CPROVER_ensures(entry->wheelLevel < self->_numWheels && entry->bucketIndex < self->_ticksPerWheel)
/* W2a */ __CPROVER_ensures(G_pushes == 1 && G_pushed_e == entry && G_pushed_level == entry->wheelLevel && G_pushed_idx == entry->bucketIndex)
;

void h_insert(void)
{
  TimingWheel *self; TimerEntry *entry; int64_t delay;
  TimingWheel_insertEntry(self, entry, delay);
  IORA_CANARY("h_insert: call returns");
}

#ifdef IORA_SEARCH
/* SEARCH: same function and clauses on small wheels with the machine division (bounded; only to obtain an input for REPLAY) */
void h_search(void)
{
  int64_t TICK = nondet_i64(), DELAY = nondet_i64(); size_t TPW = nondet_size_t(), NW = nondet_size_t(), CUR = nondet_size_t();
  __CPROVER_assume(TICK >= 1 && TICK <= 10 && TPW <= 8 && NW <= 3 && DELAY >= -100 && DELAY <= 2000 && CUR <= 1000);
  TimingWheel W; TimerEntry e;
  wheel_from_ctor(&W, TICK, TPW, NW);
  W._wheels[0].currentTick = CUR;
  TimingWheel *self = &W; TimerEntry *entry = &e;
  TimingWheel_insertEntry(self, entry, DELAY);
  __CPROVER_assert(entry->wheelLevel != 0 || OFF0 == (G_q0 > 0 ? G_q0 : 0), "W1 level 0: exactly max(0,floor(delay/tick)) tick steps ahead (never a whole revolution early)");
  __CPROVER_assert(G_pushes == 1 && G_pushed_e == entry && G_pushed_level == entry->wheelLevel && G_pushed_idx == entry->bucketIndex,
                   "W2a linked exactly once, into the bucket its own (wheelLevel, bucketIndex) names");
  __CPROVER_assert(entry->wheelLevel < W._numWheels && entry->bucketIndex < W._ticksPerWheel, "W3 indices in range");
}
#endif
