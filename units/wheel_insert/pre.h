/* type environment + ghost state + loop contract for unit wheel_insert (TimingWheel::insertEntry, TimingWheel ctor).
 * std::chrono::milliseconds / steady_clock::time_point are int64_t tick counts (typemap / `.count()` rule). */
typedef struct TimerEntry { uint64_t id; int64_t deadline; struct TimerEntry *prev, *next; size_t wheelLevel; size_t bucketIndex; bool thenReschedule; } TimerEntry;
typedef struct { TimerEntry *head, *tail; } Bucket;
/* std::vector<Bucket> buckets: in this unit only `buckets[idx].pushBack(e)` occurs; it is the ghost stub below */
typedef struct { size_t currentTick; } WheelLevel;
/* configuration members are `const` in the class: written by the constructor's initialiser list only */
typedef struct { int64_t _tickDuration; size_t _ticksPerWheel; size_t _tickMask; size_t _numWheels; WheelLevel *_wheels; } TimingWheel;

/* ghosts */
_Bool G_ctor_ok;            /* cleared when a constructor assert() would fire */
size_t G_wheels_n;          /* argument of _wheels.resize(..) in the constructor */
size_t G_pushes, G_pushed_level, G_pushed_idx;  /* the one Bucket::pushBack the function performs */
TimerEntry *G_pushed_e;
size_t G_buckets_n;         /* size of every WheelLevel::buckets vector; bound to _ticksPerWheel by the contract (ctor: w.buckets.resize(ticksPerWheel)) */
WheelLevel *G_wheels_base;

/* `wheel.buckets[idx].pushBack(entry)`: the vector subscript must be in range; the push is recorded (the list code itself is unit wheel_cascade) */
static inline void iora_bucket_pushBack_at(WheelLevel *w, size_t idx, TimerEntry *e)
{
  IORA_ASSERT(idx < G_buckets_n, "wheel.buckets[idx]: index < buckets.size()");
  G_pushes++;
  G_pushed_level = (size_t)(w - G_wheels_base);
  G_pushed_idx = idx;
  G_pushed_e = e;
}

/* std::vector growth limits: resize(n) succeeds only for n <= max_size() = PTRDIFF_MAX / sizeof(T) */
#ifndef VEC_MAX_WheelLevel
#define VEC_MAX_WheelLevel ((size_t)0x7fffffffffffffffULL / 32)   /* sizeof(WheelLevel) == 32 on this target */
#define VEC_MAX_Bucket     ((size_t)0x7fffffffffffffffULL / 16)   /* sizeof(Bucket) == 16 */
#endif

/* loop 1 of insertEntry: the level loop. Each round divides once (G_divs == level + 1) and keeps ticks >= 1;
 * while level == 0 nothing has been divided yet: ticks is still the first quotient G_q0 = floor(delay/tick). */
#define IORA_LOOP_TimingWheel_insertEntry_1 IORA_LC( \
  __CPROVER_assigns(level, ticks, G_divs) \
  __CPROVER_loop_invariant(level <= self->_numWheels - 1 && ticks > 0) \
  __CPROVER_loop_invariant(level == 0 ==> ticks == G_q0) \
  __CPROVER_loop_invariant(G_divs == level + 1) \
  __CPROVER_decreases(self->_numWheels - level))
