// REPLAY adapter for unit wheel_insert: feeds the verifier's input to the REAL TimingWheel and evaluates clauses W1/W2a/W3
// natively; when W1 is violated it also shows the consequence on the real advance() path: the handler runs early.
#include "iora/core/timing_wheel.hpp"
#include "replay_io.h"
#include <thread>
using namespace iora::core;
using ms = std::chrono::milliseconds;
int main(int argc, char **argv) {
  auto in = replay_io::load(argv[1]);
  if (in.count("MODE") && in["MODE"] == "stale_level") {
    // W2a on the re-insertion path: an entry that lived on level >= 1 is re-inserted through the immediate branch (reschedule to a sub-tick
    // delay); its (wheelLevel, bucketIndex) must name the bucket it is linked in, or the next cancel() unlinks it from the wrong bucket.
    TimingWheel tw(ms(10), 4, 2);
    tw._accepting.store(true);
    auto id = tw.schedule(ms(100), [] {});                       // 10 ticks >= 4: level 1
    auto *e = tw._entryMap[id];
    size_t lvl0 = e->wheelLevel;
    tw.reschedule(id, ms(0));                                    // immediate branch
    size_t lvl = e->wheelLevel, idx = e->bucketIndex;
    bool linked = false; for (auto *p = tw._wheels[lvl].buckets[idx].head; p; p = p->next) linked |= (p == e);
    printf("schedule(100 ms) -> level %zu; reschedule(0 ms) -> claims level %zu bucket %zu; linked there: %s\n", lvl0, lvl, idx, linked ? "yes" : "NO");
    if (!linked) {
      bool ok = tw.cancel(id);
      auto *h = tw._wheels[0].buckets[idx].head;
      char buf[300]; snprintf(buf, sizeof buf, "W2a violated: entry is not linked in the bucket its (wheelLevel, bucketIndex) names; cancel() returned %s and level-0 bucket %zu still points to %s",
                              ok ? "true" : "false", idx, h == e ? "the entry that was just returned to the pool (dangling: the next schedule() reuses it and fires arbitrarily early)" : "something else");
      replay_io::fail(buf);
    }
    replay_io::ok("re-inserted entry is linked where its indices say");
    return 0;
  }
  long long TICK = replay_io::i64(in["TICK"]), DELAY = replay_io::i64(in["DELAY"]);
  size_t TPW = replay_io::u64(in["TPW"]), NW = replay_io::u64(in["NW"]), CUR = replay_io::u64(in["CUR"]);
  if (TICK <= 0 || TPW == 0 || (TPW & (TPW - 1)) || NW == 0 || TPW > 4096 || NW > 16) { replay_io::ok("input outside the constructor's precondition / replay range"); return 0; }
  long long off0 = -1, q0 = DELAY / TICK;
  {
    TimingWheel tw(ms(TICK), TPW, NW);
    tw._wheels[0].currentTick = CUR;
    auto *e = new TimingWheel::TimerEntry();
    tw.insertEntry(e, ms(DELAY));
    size_t lvl = e->wheelLevel, idx = e->bucketIndex;
    if (!(lvl < tw._numWheels && idx < tw._ticksPerWheel)) replay_io::fail("W3 index out of range");
    bool linked = false; for (auto *p = tw._wheels[lvl].buckets[idx].head; p; p = p->next) linked |= (p == e);
    if (!linked) replay_io::fail("W2a entry is not linked in the bucket its (wheelLevel, bucketIndex) names");
    if (lvl == 0) off0 = (long long)((idx - CUR) & tw._tickMask);
    tw.unlinkEntry(e); delete e;
    printf("insertEntry(delay=%lld ms) on wheel(tick=%lld ms, %zu ticks, %zu levels requested, %zu used), currentTick=%zu: level %zu bucket %zu; floor(delay/tick)=%lld\n",
           DELAY, TICK, TPW, NW, tw._numWheels, CUR, lvl, idx, q0);
  }
  if (off0 >= 0 && off0 != (q0 > 0 ? q0 : 0)) {
    // consequence on the real release path: schedule() + advance() once per tick, as the tick thread does
    TimingWheel tw(ms(TICK), TPW, NW);
    tw._wheels[0].currentTick = CUR;
    tw._accepting.store(true);
    auto t0 = std::chrono::steady_clock::now(); long long firedAfter = -1;
    tw.schedule(ms(DELAY), [&] { firedAfter = std::chrono::duration_cast<ms>(std::chrono::steady_clock::now() - t0).count(); });
    for (long long k = 0; k <= off0 && firedAfter < 0; k++) { std::this_thread::sleep_for(ms(TICK)); tw.advance(); }
    char buf[400];
    snprintf(buf, sizeof buf, "W1 violated: level-0 entry is %lld tick steps ahead, floor(delay/tick) = %lld. Real schedule(%lld ms)+advance(): handler ran %lld ms after scheduling (deadline %lld ms, tick %lld ms) - %s",
             off0, q0, DELAY, firedAfter, DELAY, TICK, (firedAfter >= 0 && firedAfter + TICK < DELAY) ? "EARLY by more than one tick" : "not observed early");
    replay_io::fail(buf);
  }
  replay_io::ok("W1/W2a/W3 hold on this input");
  return 0;
}
