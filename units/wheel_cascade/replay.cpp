// REPLAY adapter for unit wheel_cascade: the bounded scenario (wheel(10 ms, 4 buckets, 2 levels), up to 3 timers) on the REAL
// TimingWheel: schedule() the delays, then one advance(). A watchdog reports an advance() that does not return (finding T1).
#include "iora/core/timing_wheel.hpp"
#include "replay_io.h"
#include <atomic>
#include <thread>
#include <unistd.h>
using namespace iora::core;
using ms = std::chrono::milliseconds;
int main(int argc, char **argv) {
  auto in = replay_io::load(argv[1]);
  if (in.count("MODE") && in["MODE"] == "drain_accepting") {
    // D1-D3: drain() stops the tick thread and fires the due handlers itself; a handler that re-arms must be REFUSED, as must any schedule() afterwards.
    static TimingWheel w(ms(10), 16, 2);
    w.start();
    static TimerId rearmId = 12345; static int rearmRan = 0;
    w.schedule(ms(0), [] { rearmId = w.schedule(ms(20), [] { rearmRan++; }); });   // due immediately; fired by the tick thread or by drain()
    auto stats = w.drain(ms(1000));
    TimerId after = w.schedule(ms(20), [] {});
    std::this_thread::sleep_for(ms(100));
    printf("drain(): fired %zu; the handler's own schedule() returned id %llu (12345 = handler ran before drain); schedule() after drain() returned id %llu; pending %zu; re-armed handler ran %d times\n",
           stats.fired, (unsigned long long)rearmId, (unsigned long long)after, w.pendingCount(), rearmRan); fflush(stdout);
    if (after != InvalidTimerId || (rearmId != 12345 && rearmId != InvalidTimerId && rearmRan == 0 && stats.fired > 0)) {
      printf("REPLAY-FAIL: D2/D3: a timer was ACCEPTED by a wheel whose tick thread drain() has stopped (id %llu / %llu) - it is never fired nor cancelled\n", (unsigned long long)rearmId, (unsigned long long)after); fflush(stdout); _exit(1); }
    printf("REPLAY-OK: refused\n"); fflush(stdout); _exit(0);
  }
  if (in.count("MODE") && in["MODE"] == "catchup") {
    // R4: a level-0 wrap inside a multi-tick catch-up. wheel(10 ms,4,2), timer of 165 ms on level 1; 35 ms before its deadline the tick thread
    // has been stalled for 10 ticks (simulated: _lastAdvanceTime = now - 100 ms) and advance() catches up in one call.
    using clk = std::chrono::steady_clock;
    static TimingWheel w(ms(10), 4, 2);
    w._accepting.store(true);
    w._wheels[0].currentTick = 3;
    auto t0 = clk::now(); static long long firedAt = -1;
    w.schedule(ms(165), [t0] { firedAt = std::chrono::duration_cast<ms>(clk::now() - t0).count(); });
    std::this_thread::sleep_for(ms(130));
    w._lastAdvanceTime = clk::now() - ms(100);
    w.advance();
    printf("timer of 165 ms; advance() after a 10-tick stall at t = 130 ms: handler ran at %lld ms (-1 = still pending)\n", firedAt); fflush(stdout);
    if (firedAt >= 0 && firedAt + 10 < 165) { printf("REPLAY-FAIL: R4: handler ran %lld ms before its deadline: cascadeDown re-inserted it relative to `now` and the remaining catch-up steps of the same advance() swept it\n", 165 - firedAt); fflush(stdout); _exit(1); }
    printf("REPLAY-OK: not early\n"); fflush(stdout); _exit(0);
  }
  size_t N = replay_io::u64(in["N"]), CUR0 = replay_io::u64(in["CUR0"]), CUR1 = replay_io::u64(in["CUR1"]);
  long long D[3] = { replay_io::i64(in["D0"]), replay_io::i64(in["D1"]), replay_io::i64(in["D2"]) };
  if (N > 3) N = 3;
  static TimingWheel tw(ms(10), 4, 2);
  tw._wheels[0].currentTick = CUR0; tw._wheels[1].currentTick = CUR1;
  tw._accepting.store(true);                              // accept schedule() without starting the tick thread: advance() is called here
  static int fired[3] = {0, 0, 0};
  for (size_t i = 0; i < N; i++) tw.schedule(ms(D[i]), [i] { fired[i]++; });
  static std::atomic<bool> done{false};
  std::thread wd([] { for (int k = 0; k < 300 && !done.load(); k++) std::this_thread::sleep_for(ms(10));
    if (!done.load()) { printf("REPLAY-FAIL: T termination: TimingWheel::advance() did not return within 3 s (cascadeDown walks a bucket it re-inserts into; _wheelMutex stays locked)\n"); fflush(stdout); _exit(1); } });
  printf("wheel(10 ms, 4, 2) currentTick = {%zu, %zu}; %zu timers:", CUR0, CUR1, N); for (size_t i = 0; i < N; i++) printf(" %lld ms", D[i]); printf("; advance() ...\n"); fflush(stdout);
  tw.advance();
  done.store(true); wd.join();
  size_t nf = 0; for (size_t i = 0; i < N; i++) { if (fired[i] > 1) replay_io::fail("S1 a handler ran twice"); nf += fired[i]; }
  if (nf + tw.pendingCount() != N) replay_io::fail("S8 fired + pending != scheduled");
  replay_io::ok("advance() returned; every timer fired at most once; fired + pending == scheduled");
  return 0;
}
