// REPLAY adapter for unit wheel_cascade: the bounded scenario (wheel(10 ms, 4 buckets, 2 levels), up to 3 timers) on the REAL
// TimingWheel: schedule() the delays, then one advance(). A watchdog reports an advance() that does not return (finding T1).
#include "iora/core/timing_wheel.hpp"
#include "replay_io.h"
#include <atomic>
#include <thread>
#include <unistd.h>
using namespace iora::core;
using ms = std::chrono::milliseconds;
int main(int argc, char **argv) {
  auto in = replay_io::load(argv[1]);
  if (in.count("STALL")) {
    // scenario for Q3/Q5 (stale currentTick): a slow handler keeps the tick thread busy for STALL ms; a timer scheduled then
    // is bucketed relative to a currentTick that is STALL ms old and is swept by the catch-up of the next advance()
    long long STALL = replay_io::i64(in["STALL"]), DELAY = replay_io::i64(in["DELAY"]);
    using clk = std::chrono::steady_clock;
    static TimingWheel w(ms(10), 16, 2);
    w.start();
    static std::atomic<long long> startedAt{-1}, firedAt{-1};
    auto t0 = clk::now();
    auto since = [t0] { return (long long)std::chrono::duration_cast<ms>(clk::now() - t0).count(); };
    w.schedule(ms(10), [&, STALL] { startedAt.store(since()); std::this_thread::sleep_for(ms(STALL + 15)); });
    while (startedAt.load() < 0) std::this_thread::sleep_for(ms(1));
    std::this_thread::sleep_for(ms(STALL));
    long long schedAt = since();
    w.schedule(ms(DELAY), [&] { firedAt.store(since()); });
    for (int k = 0; k < (DELAY + 400) / 5 && firedAt.load() < 0; k++) std::this_thread::sleep_for(ms(5));
    long long f = firedAt.load(), deadline = schedAt + DELAY;
    printf("wheel(10 ms, 16, 2): tick thread busy since %lld ms; schedule(%lld ms) at %lld ms (deadline %lld ms); handler ran at %lld ms\n", startedAt.load(), DELAY, schedAt, deadline, f);
    fflush(stdout);
    if (f >= 0 && f + 10 + 2 < deadline) { printf("REPLAY-FAIL: Q3: handler ran %lld ms before its deadline (more than one 10 ms tick early)\n", deadline - f); fflush(stdout); _exit(1); }
    printf("REPLAY-OK: not more than one tick early\n"); fflush(stdout); _exit(0);
  }
  size_t N = replay_io::u64(in["N"]), CUR0 = replay_io::u64(in["CUR0"]), CUR1 = replay_io::u64(in["CUR1"]);
  long long D[3] = { replay_io::i64(in["D0"]), replay_io::i64(in["D1"]), replay_io::i64(in["D2"]) };
  if (N > 3) N = 3;
  static TimingWheel tw(ms(10), 4, 2);
  tw._wheels[0].currentTick = CUR0; tw._wheels[1].currentTick = CUR1;
  tw._accepting.store(true);                              // accept schedule() without starting the tick thread: advance() is called here
  static int fired[3] = {0, 0, 0};
  for (size_t i = 0; i < N; i++) tw.schedule(ms(D[i]), [i] { fired[i]++; });
  static std::atomic<bool> done{false};
  std::thread wd([] { for (int k = 0; k < 300 && !done.load(); k++) std::this_thread::sleep_for(ms(10));
    if (!done.load()) { printf("REPLAY-FAIL: T termination: TimingWheel::advance() did not return within 3 s (cascadeDown walks a bucket it re-inserts into; _wheelMutex stays locked)\n"); fflush(stdout); _exit(1); } });
  printf("wheel(10 ms, 4, 2) currentTick = {%zu, %zu}; %zu timers:", CUR0, CUR1, N); for (size_t i = 0; i < N; i++) printf(" %lld ms", D[i]); printf("; advance() ...\n"); fflush(stdout);
  tw.advance();
  done.store(true); wd.join();
  size_t nf = 0; for (size_t i = 0; i < N; i++) { if (fired[i] > 1) replay_io::fail("S1 a handler ran twice"); nf += fired[i]; }
  if (nf + tw.pendingCount() != N) replay_io::fail("S8 fired + pending != scheduled");
  replay_io::ok("advance() returned; every timer fired at most once; fired + pending == scheduled");
  return 0;
}
