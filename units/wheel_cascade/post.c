/* Unit wheel_cascade: how entries LEAVE the wheel (property C08: not early, at most once, never silently dropped).
 * Clauses are written from the property and the release rules the placement contract (unit wheel_insert, W1/W2) relies on:
 *   R-rules  level-0 bucket (currentTick & mask) is released at each tick step, then currentTick++ ; level L>0 is cascaded
 *            exactly when the level below wraps, and everything cascadeDown hands to the fire list has deadline <= now;
 *   O-rules  an entry handed to the fire list was erased from the id map first (cancel afterwards reports failure => handler ran
 *            exactly once) and is handed out once; an entry that is not due is re-inserted with delay = deadline - now (never dropped).
 * Proof kinds: list operations + ONE iteration of each walk + advance's arithmetic: unbounded, full-domain symbolic (loop-free or
 * loop contract). Whole walks over lists (shape, count preservation, TERMINATION): bounded stand-in, labelled "unwind". */

#define IS_POW2(x) ((x) != 0 && ((x) & ((x) - 1)) == 0)
#define TIME_OK(t) ((t) >= -((int64_t)1 << 61) && (t) <= ((int64_t)1 << 61))   /* steady_clock counts are far from the int64 limits */

/* ================================================================================================================== */
/* 1. Bucket::pushBack / Bucket::unlink : local list predicates (neighbours are distinct fresh objects)                */

void Bucket_pushBack_contract(Bucket *self, TimerEntry *e)
__CPROVER_requires(IORA_TRUE && __CPROVER_is_fresh(self, sizeof(*self)) && __CPROVER_is_fresh(e, sizeof(*e)))
__CPROVER_requires(self->tail == NULL ==> self->head == NULL)
__CPROVER_requires(self->tail != NULL ==> (__CPROVER_is_fresh(self->tail, sizeof(TimerEntry)) && self->tail->next == NULL && self->head != NULL))
__CPROVER_assigns(e->prev, e->next, self->head, self->tail; self->tail != NULL: self->tail->next)
/* L1 e is the new tail, linked behind the old tail */
__CPROVER_ensures(self->tail == e && e->next == NULL && e->prev == __CPROVER_old(self->tail))
__CPROVER_ensures(__CPROVER_old(self->tail) != NULL ==> (e->prev->next == e && self->head == __CPROVER_old(self->head)))
__CPROVER_ensures(__CPROVER_old(self->tail) == NULL ==> self->head == e)
;

void Bucket_unlink_contract(Bucket *self, TimerEntry *e)
__CPROVER_requires(IORA_TRUE && __CPROVER_is_fresh(self, sizeof(*self)) && __CPROVER_is_fresh(e, sizeof(*e)))
__CPROVER_requires(e->prev == NULL ==> self->head == e)
__CPROVER_requires(e->prev != NULL ==> (__CPROVER_is_fresh(e->prev, sizeof(TimerEntry)) && e->prev->next == e && self->head != e))
__CPROVER_requires(e->next == NULL ==> self->tail == e)
__CPROVER_requires(e->next != NULL ==> (__CPROVER_is_fresh(e->next, sizeof(TimerEntry)) && e->next->prev == e && self->tail != e))
__CPROVER_assigns(e->prev, e->next, self->head, self->tail; e->prev != NULL: e->prev->next; e->next != NULL: e->next->prev)
/* L2 e is detached and its neighbours are linked to each other; head/tail move only when e was head/tail */
__CPROVER_ensures(e->prev == NULL && e->next == NULL)
__CPROVER_ensures(__CPROVER_old(e->prev) != NULL ==> (__CPROVER_old(e->prev)->next == __CPROVER_old(e->next) && self->head == __CPROVER_old(self->head)))
__CPROVER_ensures(__CPROVER_old(e->prev) == NULL ==> self->head == __CPROVER_old(e->next))
__CPROVER_ensures(__CPROVER_old(e->next) != NULL ==> (__CPROVER_old(e->next)->prev == __CPROVER_old(e->prev) && self->tail == __CPROVER_old(self->tail)))
__CPROVER_ensures(__CPROVER_old(e->next) == NULL ==> self->tail == __CPROVER_old(e->prev))
;

void h_pushBack(void) { Bucket *b; TimerEntry *e; Bucket_pushBack(b, e); IORA_CANARY("h_pushBack: returns"); }
void h_unlink(void) { Bucket *b; TimerEntry *e; Bucket_unlink(b, e); IORA_CANARY("h_unlink: returns"); }

/* ================================================================================================================== */
/* 2. ONE iteration of the cascadeDown / collectFromBucket walks, for an arbitrary entry at the head of the walked bucket */

size_t G_ins_calls; TimerEntry *G_ins_e; int64_t G_ins_delay;
/* recording contract that REPLACES insertEntry in the step proofs (insertEntry itself is unit wheel_insert) */
void TimingWheel_insertEntry_rec(TimingWheel *self, TimerEntry *entry, int64_t delay)
__CPROVER_requires(entry != NULL)
__CPROVER_assigns(G_ins_calls, G_ins_e, G_ins_delay, entry->wheelLevel, entry->bucketIndex, entry->prev, entry->next)
__CPROVER_ensures(G_ins_calls == __CPROVER_old(G_ins_calls) + 1 && G_ins_e == entry && G_ins_delay == delay)
;

/* state at the top of an iteration: `entry` is the head of the walked bucket (every earlier iteration unlinked the head) */
#define STEP_STATE \
  TimingWheel W; Bucket B; TimerEntry e, nx; iora_firelist fl; int64_t now = nondet_i64(); \
  IORA_TRUE = 1; GK = nondet_size_t(); GIDW = nondet_u64(); G_fired = 0; G_erases = 0; G_ins_calls = 0; G_pool_locks = 0; G_fired_cnt[0] = 0; G_fired_cnt[1] = 0; G_fired_cnt[2] = 0; G_fired_cnt[3] = 0; \
  __CPROVER_assume(TIME_OK(now) && TIME_OK(e.deadline)); \
  __CPROVER_assume(fl.n < ((size_t)1 << 60)); \
  e.prev = NULL; B.head = &e; \
  if (nondet_bool()) { e.next = NULL; B.tail = &e; } else { e.next = &nx; nx.prev = &e; __CPROVER_assume(B.tail != &e && B.tail != NULL); } \
  TimerEntry e0 = e; TimerEntryP cur = &e; size_t n0 = fl.n; TimerEntry *free0 = W._freeListHead;

void h_cascade_step(void)
{
  STEP_STATE
  TimingWheel_cascadeStep(&W, &B, &cur, now, &fl);
  IORA_CANARY("h_cascade_step: returns");
  /* C1 */ __CPROVER_assert((G_fired == 1) == (e0.deadline <= now) && G_fired <= 1, "C1 cascadeDown hands an entry to the fire list iff its deadline <= now");
  /* C2 */ __CPROVER_assert(G_fired + G_ins_calls == 1, "C2 every walked entry is either fired or re-inserted, exactly one of the two (never dropped, never both)");
  if (G_fired == 1) {
    IORA_CANARY("h_cascade_step: fired");
    /* C3 */ __CPROVER_assert(G_erases == 1 && G_erased_id == e0.id && G_erases_at_fire == 1, "C3 a fired entry was erased from the id map before it was handed out");
    /* C4 */ __CPROVER_assert(fl.n == n0 + 1 && G_fired_id == e0.id && G_fired_cb == e0.callback && (GK != n0 || (fl.gk_id == e0.id && fl.gk_cb == e0.callback)), "C4 the fire list receives exactly this entry's (id, handler)");
    /* C5 */ __CPROVER_assert(e.id == InvalidTimerId && e.callback == NULL && W._freeListHead == &e && e.next == free0, "C5 a fired entry is recycled (id invalid, handler released)");
  } else {
    IORA_CANARY("h_cascade_step: re-inserted");
    /* C6 */ __CPROVER_assert(G_ins_e == &e && G_ins_delay == e0.deadline - now && G_ins_delay > 0, "C6 an entry that is not due is re-inserted with delay = deadline - now > 0");
    /* C7 */ __CPROVER_assert(e.id == e0.id && e.callback == e0.callback && e.deadline == e0.deadline && G_erases == 0 && fl.n == n0 && W._freeListHead == free0, "C7 a re-inserted entry keeps id, handler, deadline and stays in the id map");
  }
  /* C8 */ __CPROVER_assert(cur == e0.next, "C8 the walk continues with the successor read before the entry was unlinked / re-inserted");
}

void h_collect_step(void)
{
  STEP_STATE
  TimingWheel_collectStep(&W, &B, &cur, &fl);
  IORA_CANARY("h_collect_step: returns");
  /* K1 */ __CPROVER_assert(G_fired == 1 && G_ins_calls == 0, "K1 every entry of a released level-0 bucket is handed to the fire list exactly once");
  /* K2 */ __CPROVER_assert(G_erases == 1 && G_erased_id == e0.id && G_erases_at_fire == 1, "K2 erased from the id map before it is handed out");
  /* K3 */ __CPROVER_assert(fl.n == n0 + 1 && G_fired_id == e0.id && G_fired_cb == e0.callback && (GK != n0 || (fl.gk_id == e0.id && fl.gk_cb == e0.callback)), "K3 the fire list receives exactly this entry's (id, handler)");
  /* K4 */ __CPROVER_assert(e.id == InvalidTimerId && e.callback == NULL && W._freeListHead == &e && e.next == free0, "K4 recycled");
  /* K5 */ __CPROVER_assert(cur == e0.next, "K5 the walk continues with the successor read before the entry was unlinked");
}

/* ================================================================================================================== */
/* 3. advance(): catch-up arithmetic and one tick step                                                                   */

void h_advance_ticks(void)
{
  TimingWheel W; int64_t now = nondet_i64();
  IORA_TRUE = 1; G_divs = 0;
  __CPROVER_assume(W._tickDuration > 0 && TIME_OK(now) && TIME_OK(W._lastAdvanceTime) && now >= W._lastAdvanceTime);   /* steady clock is monotone */
  int64_t last0 = W._lastAdvanceTime;
  TimingWheel_advanceTicks(&W, now);
  IORA_CANARY("h_advance_ticks: returns");
  if (last0 == 0) {
    /* A0 */ __CPROVER_assert(G_ticksToProcess == 1 && G_divs == 0, "A0 first advance after construction/reset processes one tick");
  } else {
    /* A1 */ __CPROVER_assert(G_divs == 1 && G_a0 == now - last0 && G_b0 == W._tickDuration, "A1 elapsed ticks = floor((now - lastAdvanceTime) / tickDuration)");
    /* A2 */ __CPROVER_assert(G_ticksToProcess == (G_q0 > 1 ? (size_t)G_q0 : 1), "A2 ticksToProcess = max(1, elapsed ticks): never more than one tick step beyond the elapsed ticks");
  }
  /* A3 */ __CPROVER_assert(W._lastAdvanceTime == now, "A3 lastAdvanceTime := now");
}

size_t G_col_calls; Bucket *G_col_bucket; size_t G_cas_calls, G_cas_level; int64_t G_cas_now; size_t G_cur_at_collect;
size_t *G_cur0_ptr;
void TimingWheel_collectFromBucket_rec(TimingWheel *self, Bucket *bucket, iora_firelist *toFire)
__CPROVER_requires(G_cur0_ptr != NULL)
__CPROVER_assigns(G_col_calls, G_col_bucket, G_cur_at_collect)
__CPROVER_ensures(G_col_calls == __CPROVER_old(G_col_calls) + 1 && G_col_bucket == bucket && G_cur_at_collect == *G_cur0_ptr)
;
void TimingWheel_cascadeDown_rec(TimingWheel *self, size_t level, int64_t now, iora_firelist *toFire)
__CPROVER_assigns(G_cas_calls, G_cas_level, G_cas_now)
__CPROVER_ensures(G_cas_calls == __CPROVER_old(G_cas_calls) + 1 && G_cas_level == level && G_cas_now == now)
;

static void advance_step_impl(_Bool with_catchup_clause)
{
  TimingWheel W; iora_firelist fl; int64_t now = nondet_i64(); WheelLevel L0;
  size_t t = nondet_size_t(), K = nondet_size_t();            /* this is tick step t of the K = ticksToProcess steps of one advance() call */
  IORA_TRUE = 1; G_col_calls = 0; G_cas_calls = 0;
  __CPROVER_assume(t < K && K <= ((size_t)1 << 24) && W._tickDuration > 0 && W._tickDuration <= ((int64_t)1 << 24) && now >= 0 && now <= ((int64_t)1 << 61));
  __CPROVER_assume(IS_POW2(W._ticksPerWheel) && W._ticksPerWheel <= ((size_t)1 << 30) && W._tickMask == W._ticksPerWheel - 1 && W._numWheels >= 1);
  L0.buckets = (Bucket *)malloc(W._ticksPerWheel * sizeof(Bucket));
  __CPROVER_assume(L0.buckets != NULL);
  W._wheels = &L0; G_cur0_ptr = &L0.currentTick;
  size_t cur0 = L0.currentTick;
  TimingWheel_advanceStep(&W, now, &fl, t, K);
  IORA_CANARY("h_advance_step: returns");
  /* R1 */ __CPROVER_assert(G_col_calls == 1 && G_col_bucket == &L0.buckets[cur0 & W._tickMask] && G_cur_at_collect == cur0, "R1 a tick step releases exactly the level-0 bucket (currentTick & mask), before currentTick moves");
  /* R2 */ __CPROVER_assert(L0.currentTick == cur0 + 1, "R2 a tick step advances currentTick by one");
  /* R3 */ __CPROVER_assert(G_cas_calls == ((((cur0 + 1) & W._tickMask) == 0) ? 1 : 0) && (G_cas_calls == 0 || G_cas_level == 1), "R3 level 1 is cascaded exactly when level 0 wraps");
  if (G_cas_calls) {
    IORA_CANARY("h_advance_step: cascades");
    /* R4 not early during catch-up: all remaining r = K-1-t tick steps of this call happen at the same real time `now`, so they sweep r more level-0 buckets
     *    immediately. cascadeDown re-inserts with delay = deadline - (its time argument) (C6), floor(delay/tick) buckets ahead (W1). "At most one tick early"
     *    therefore needs  time argument <= now - (r - 1) * tick  (derivation as Q3 in unit wheel_schedule); for r = 0 that is now + tick.                    */
    if (!with_catchup_clause) return;        /* R4/R5 contain a 64-bit product: proved in proof advance_catchup (same state, same call; reachability is witnessed by the canaries of advance_step) */
    const int64_t back = W._tickDuration * (int64_t)(K - 1 - t);
    __CPROVER_assert(G_cas_now <= now - back + W._tickDuration, "R4 not early during catch-up: the time handed to cascadeDown is that of the tick step being processed (<= now - (remaining steps - 1) * tick)");
    __CPROVER_assert(G_cas_now >= now - back - W._tickDuration, "R5 not dropped: the time handed to cascadeDown is not earlier than the tick step being processed (minus one tick)");
  }
}

void h_advance_step(void) { advance_step_impl(0); }
void h_advance_catchup(void) { advance_step_impl(1); }

/* ================================================================================================================== */
/* 3c. TimingWheel::cancel (sequential contract, full-domain symbolic wheel geometry) and stop()
 *  Property: "if cancel reports success the handler never starts afterwards; if it reports failure the handler has run or will run
 *  exactly once". Handlers are only ever taken from bucket lists (K1/C1), so "never starts" = before cancel returns the entry is out of
 *  its bucket's list (no head/tail/neighbour points to it), out of the id map, and its handler is released.                        */
void h_wheel_cancel(void)
{
  TimingWheel W; TimerEntry e, p, n, o; uint64_t id = nondet_u64();
  IORA_TRUE = 1; GIDW = nondet_u64(); G_wheel_locks = 0; G_erases_it = 0; G_pool_locks = 0;      /* witness id: arbitrary (plain harness: globals start at 0) */
  /* geometry: any number of levels / buckets; e lives in bucket (le, ie), the other entry o alone in a different bucket (lo, io) */
  __CPROVER_assume(W._numWheels >= 1 && W._numWheels <= ((size_t)1 << 10) && W._ticksPerWheel >= 1 && W._ticksPerWheel <= ((size_t)1 << 20));
  W._wheels = (WheelLevel *)malloc(W._numWheels * sizeof(WheelLevel)); __CPROVER_assume(W._wheels != NULL);
  const size_t le = e.wheelLevel, ie = e.bucketIndex, lo = o.wheelLevel, io = o.bucketIndex;
  __CPROVER_assume(le < W._numWheels && ie < W._ticksPerWheel && lo < W._numWheels && io < W._ticksPerWheel && !(le == lo && ie == io));   /* W3 */
  Bucket *bk1 = (Bucket *)malloc(W._ticksPerWheel * sizeof(Bucket)), *bk2 = (Bucket *)malloc(W._ticksPerWheel * sizeof(Bucket));
  __CPROVER_assume(bk1 != NULL && bk2 != NULL);
  W._wheels[le].buckets = bk1; if (lo != le) W._wheels[lo].buckets = bk2;
  Bucket *Be = &W._wheels[le].buckets[ie], *Bo = &W._wheels[lo].buckets[io];
  IORA_CANARY("h_wheel_cancel: geometry built");
  /* local list state of e (W2a: it is linked in the bucket its indices name): optional predecessor p, optional successor n */
  if (nondet_bool()) { e.prev = NULL; Be->head = &e; } else { e.prev = &p; p.next = &e; __CPROVER_assume(Be->head != &e && Be->head != NULL); }
  if (nondet_bool()) { e.next = NULL; Be->tail = &e; } else { e.next = &n; n.prev = &e; __CPROVER_assume(Be->tail != &e && Be->tail != NULL); }
  o.prev = NULL; o.next = NULL; Bo->head = &o; Bo->tail = &o;
  __CPROVER_assume(e.id == GIDW && e.id != InvalidTimerId && o.id != GIDW && o.id != InvalidTimerId);
  IORA_CANARY("h_wheel_cancel: lists built");
  G_other_entry = &o;
  W._entryMap.present = nondet_bool(); W._entryMap.w.first = GIDW; W._entryMap.w.second = &e;       /* the map slot of this id (if pending) points to its entry; pointers are ASSIGNED (CBMC does not resolve assumed pointer equalities) */
  const bool present0 = W._entryMap.present; const TimerEntry e0 = e; const Bucket Be0 = *Be; TimerEntry *const free0 = W._freeListHead;
  const TimerEntry p0 = p, n0 = n;
  IORA_CANARY("h_wheel_cancel: before call");

  bool r = TimingWheel_cancel(&W, id);
  IORA_CANARY("h_wheel_cancel: returns");

  /* Y0 */ __CPROVER_assert(G_wheel_locks == 1, "Y0 cancel decides under the wheel lock");
  if (id == GIDW) {
    /* Y1 */ __CPROVER_assert(r == present0, "Y1 cancel reports success iff the id is pending (in the id map)");
    if (r) {
      IORA_CANARY("h_wheel_cancel: success");
      /* Y2 */ __CPROVER_assert(!W._entryMap.present && G_erases_it == 1, "Y2 success: the id is erased from the id map before return");
      /* Y3 */ __CPROVER_assert(Be->head != &e && Be->tail != &e && (e0.prev == NULL || p.next != &e) && (e0.next == NULL || n.prev != &e),
                                "Y3 success: before return nothing in the bucket's list points to the entry any more - no later collect/cascade walk can reach it");
      /* Y3 */ __CPROVER_assert((e0.prev == NULL ? Be->head == e0.next : (p.next == e0.next && Be->head == Be0.head)) && (e0.next == NULL ? Be->tail == e0.prev : (n.prev == e0.prev && Be->tail == Be0.tail)),
                                "Y3 success: the neighbours are linked to each other, head/tail move only if the entry was head/tail (the rest of the list is kept: nobody else is dropped)");
      /* Y4 */ __CPROVER_assert(e.id == InvalidTimerId && e.callback == NULL && W._freeListHead == &e && e.next == free0 && e.prev == NULL, "Y4 success: the handler is released and the entry recycled");
    } else {
      IORA_CANARY("h_wheel_cancel: failure");
      /* Y5 */ __CPROVER_assert(!W._entryMap.present && e.id == e0.id && e.callback == e0.callback && e.prev == e0.prev && e.next == e0.next && Be->head == Be0.head && Be->tail == Be0.tail && W._freeListHead == free0,
                                "Y5 failure (id not pending: already fired, canceled or never scheduled) changes nothing");
    }
  } else {
    /* Y6 */ __CPROVER_assert(W._entryMap.present == present0 && e.id == e0.id && e.callback == e0.callback && e.deadline == e0.deadline && e.prev == e0.prev && e.next == e0.next
                              && Be->head == Be0.head && Be->tail == Be0.tail && p.next == p0.next && n.prev == n0.prev, "Y6 frame: canceling another id leaves this id's entry, its links, its bucket and its map slot alone");
  }
}

void h_wheel_stop(void)
{
  TimingWheel W; IORA_TRUE = 1; G_seq = 0; G_seq_join = 0; G_seq_clear = 0;
  TimingWheel_stop(&W);
  IORA_CANARY("h_wheel_stop: returns");
  /* Z1 */ __CPROVER_assert(!W._accepting && G_seq_join == 1 && !G_accepting_at_join, "Z1 stop() refuses new timers BEFORE it stops the tick thread (nothing is accepted and then lost)");
  /* Z2 */ __CPROVER_assert(G_seq_clear == 2 && !G_accepting_at_clear, "Z2 pending entries are cleared only after the tick thread was joined (no advance() runs concurrently with / after the clear)");
  /* Z3 */ __CPROVER_assert(W._state == TimingWheelState_STOPPED, "Z3 the state becomes STOPPED");
  /* Z4 */ __CPROVER_assert(!W._running, "Z4 the tick thread is told to stop");
}

/* ================================================================================================================== */
/* 3d. drain(): the two decisions it takes per entry (ONE iteration each, arbitrary entry): collecting it out of its bucket, and
 *     fire-or-cancel. (The rest of drain - local struct vector, std::sort with a lambda, the fire loop with the timeout - is outside
 *     the extractable subset; see NOTES.md.)                                                                                       */
void h_drain_steps(void)
{
  STEP_STATE
  iora_drainvec ents; iora_cbvec disc; DrainStats st; __CPROVER_assume(ents.n < ((size_t)1 << 60) && disc.n < ((size_t)1 << 60) && st.cancelled < ((size_t)1 << 60));
  const size_t en0 = ents.n;
  TimingWheel_drainCollectStep(&W, &B, &cur, &ents);
  IORA_CANARY("h_drain_steps: collected");
  /* N1 */ __CPROVER_assert(ents.n == en0 + 1 && ents.last.id == e0.id && ents.last.callback == e0.callback && ents.last.deadline == e0.deadline, "N1 drain collects the entry with its id, handler and deadline (nothing is dropped)");
  /* N2 */ __CPROVER_assert(cur == e0.next && B.head == e0.next && e.id == InvalidTimerId && e.callback == NULL && W._freeListHead == &e, "N2 the entry leaves its bucket and is recycled; the walk continues with the successor");
  /* N3 */ __CPROVER_assert(G_fired == 0, "N3 collecting fires nothing yet");
  DrainEntry de = ents.last; const size_t dn0 = disc.n, c0 = st.cancelled, f0 = fl.n;
  TimingWheel_drainDecideStep(&W, &de, now, &fl, &disc, &st);
  IORA_CANARY("h_drain_steps: decided");
  /* N4 */ __CPROVER_assert((G_fired == 1) == (e0.deadline <= now) && G_fired <= 1, "N4 not early: drain fires an entry iff its deadline <= now");
  /* N5 */ __CPROVER_assert(G_fired == 1 ? (fl.n == f0 + 1 && G_fired_id == e0.id && G_fired_cb == e0.callback && disc.n == dn0 && st.cancelled == c0)
                                         : (fl.n == f0 && disc.n == dn0 + 1 && st.cancelled == c0 + 1), "N5 every entry is either handed to the fire list (its own id/handler) or discarded AND counted as cancelled - exactly one of the two");
}

/* ================================================================================================================== */
/* 3e. drain(): lifecycle. C08: "an accepted timer is fired or cancelled, never silently lost" + schedule()'s contract (wheel_schedule Q8: refused with
 *     InvalidTimerId exactly when !_accepting): from the moment drain() stops the tick thread nobody advances the wheel any more, so nothing may be accepted:
 *     D1 at the stopTickThread() call _accepting is already false;  D2 on EVERY return path of drain() (incl. the timeout early return) _accepting == false;
 *     D3 drain() invokes no handler while _accepting is true (asserted in the fireCallback stub);  D4 every return leaves state STOPPED.
 *     Head block and fire-loop/returns block are the real text; the loop is closed by a loop contract (any number of handlers to fire).                 */
void h_drain_lifecycle(void)
{
  TimingWheel W; iora_firelist fl; DrainStats st;
  IORA_TRUE = 1; G_seq = 0; G_seq_join = 0; G_drain_fires = 0;
  W._accepting = nondet_bool(); W._running = nondet_bool();
  __CPROVER_assume(fl.n <= ((size_t)1 << 40));
  st.fired = 0; st.remaining = 0; st.cancelled = nondet_size_t(); st.elapsed = 0;        /* DrainStats stats; (default member initialisers) + the collection's count */
  TimingWheel_drainHead(&W);
  IORA_CANARY("h_drain_lifecycle: head done");
  /* D1 */ __CPROVER_assert(G_seq_join == 1 && !G_accepting_at_join, "D1 when drain() stops the tick thread the wheel has already stopped accepting");
  __CPROVER_assert(W._state == TimingWheelState_DRAINING && !W._running, "D0 drain() announces DRAINING and stops the tick thread");
  /* ... collection under the wheel lock, sort, fire-or-cancel decision (proofs drain_steps): no write to _accepting ... */
  const int64_t start = nondet_i64(), timeout = nondet_i64();
  __CPROVER_assume(start >= 0 && start <= ((int64_t)1 << 60) && timeout >= 0 && timeout <= ((int64_t)1 << 40));
  G_clock_floor = start;
  DrainStats r = TimingWheel_drainFire(&W, &fl, &st, start, timeout);
  IORA_CANARY("h_drain_lifecycle: drain returns");
  if (r.fired < fl.n) { IORA_CANARY("h_drain_lifecycle: timeout early return"); } else { IORA_CANARY("h_drain_lifecycle: normal return"); }
  /* D2 */ __CPROVER_assert(!W._accepting, "D2 on every return path of drain() (incl. the timeout early return) the wheel is not accepting");
  /* D4 */ __CPROVER_assert(W._state == TimingWheelState_STOPPED, "D4 every return path of drain() leaves the state STOPPED");
  /* D5 */ __CPROVER_assert(r.fired == G_drain_fires && r.fired <= fl.n && (r.fired == fl.n || r.remaining == fl.n - r.fired), "D5 stats: fired counts the handlers invoked; on a timeout the rest is reported as remaining (not silently dropped from the count)");
}

/* ================================================================================================================== */
/* 4. bounded stand-in: whole advance() (collectFromBucket + cascadeDown + insertEntry + list ops, all extracted text) on a
 *    2-level wheel of 4 buckets, tick 10, with up to 3 entries placed by the real insertEntry                            */
#define NB 4
#ifndef NE
#define NE 3
#endif
#define BTICK 10
static TimingWheel BW; static WheelLevel BL[2]; static Bucket BB[2][NB]; static TimerEntry BE[NE];
static size_t b_lvl0[NE]; static int64_t b_dl[NE];

static void b_setup(size_t n, const int64_t *delay, size_t cur0, size_t cur1, int64_t now0)
{
  IORA_TRUE = 1; G_divs = 0; G_fired = 0; G_erases = 0; G_loop_iters = 0; G_iter_budget = 1000;
  BW._tickDuration = BTICK; BW._ticksPerWheel = NB; BW._tickMask = NB - 1; BW._numWheels = 2; BW._wheels = BL; BW._freeListHead = NULL;
  /* (harness loops over buckets/ids are written out so that the unwind bound only has to cover NE list elements) */
#define B_INIT(l, b) BB[l][b].head = NULL; BB[l][b].tail = NULL;
  BL[0].buckets = BB[0]; BL[1].buckets = BB[1];
  B_INIT(0, 0) B_INIT(0, 1) B_INIT(0, 2) B_INIT(0, 3) B_INIT(1, 0) B_INIT(1, 1) B_INIT(1, 2) B_INIT(1, 3)
  BL[0].currentTick = cur0; BL[1].currentTick = cur1;
  G_fired_cnt[0] = 0; G_fired_cnt[1] = 0; G_fired_cnt[2] = 0; G_fired_cnt[3] = 0; G_in_map[0] = 0; G_in_map[1] = 0; G_in_map[2] = 0; G_in_map[3] = 0;
  for (unsigned i = 0; i < NE; i++) if (i < n) {           /* what schedule() does under the lock */
    BE[i].id = i + 1; BE[i].callback = &BE[i]; BE[i].deadline = now0 + delay[i]; BE[i].prev = NULL; BE[i].next = NULL;
    TimingWheel_insertEntry(&BW, &BE[i], delay[i]);
    G_in_map[i + 1] = 1; b_lvl0[i] = BE[i].wheelLevel; b_dl[i] = BE[i].deadline;
  }
}

/* shape: every entry is either fired exactly once (and out of the map, recycled) or still pending: in the map, linked in the bucket
 * its own (wheelLevel, bucketIndex) names, with consistent neighbours */
static void b_check(size_t n, int64_t now)
{
  size_t pending = 0, fired = 0;
  for (unsigned i = 0; i < NE; i++) if (i < n) {
    unsigned id = i + 1;
    if (G_fired_cnt[id] != 0) {
      fired++;
      __CPROVER_assert(G_fired_cnt[id] == 1, "S1 at most once: no entry is handed to the fire list twice");
      __CPROVER_assert(G_in_map[id] == 0 && BE[i].id == InvalidTimerId, "S2 a fired entry is out of the id map and recycled");
      __CPROVER_assert(b_lvl0[i] == 0 || b_dl[i] - now < BTICK, "S3 not early: a fired entry was a level-0 placement or is due within one tick (cascade path: deadline <= now, or re-inserted at distance 0)");
    } else {
      pending++;
      __CPROVER_assert(G_in_map[id] == 1 && BE[i].id == id && BE[i].callback == &BE[i] && BE[i].deadline == b_dl[i], "S4 never dropped: an entry that did not fire is still in the id map with its id, handler and deadline");
      __CPROVER_assert(BE[i].wheelLevel < 2 && BE[i].bucketIndex < NB, "S5 indices in range");
      Bucket *b = &BB[BE[i].wheelLevel][BE[i].bucketIndex];
      __CPROVER_assert(BE[i].prev == NULL ? b->head == &BE[i] : BE[i].prev->next == &BE[i], "S6 links: predecessor (or the bucket head) points to the entry");
      __CPROVER_assert(BE[i].next == NULL ? b->tail == &BE[i] : BE[i].next->prev == &BE[i], "S6 links: successor (or the bucket tail) points back to the entry");
      __CPROVER_assert(BE[i].prev == NULL || (BE[i].prev->id != InvalidTimerId && BE[i].prev->wheelLevel == BE[i].wheelLevel && BE[i].prev->bucketIndex == BE[i].bucketIndex), "S7 neighbours are pending entries of the same bucket");
    }
  }
  __CPROVER_assert(fired == G_fired && fired + pending == n, "S8 count preserved: fired + pending == scheduled");
  unsigned heads = 0;
#define B_CHK(l, b) if (BB[l][b].head != NULL) heads++; __CPROVER_assert((BB[l][b].head == NULL) == (BB[l][b].tail == NULL), "S9 bucket head/tail both null or both set");
  B_CHK(0, 0) B_CHK(0, 1) B_CHK(0, 2) B_CHK(0, 3) B_CHK(1, 0) B_CHK(1, 1) B_CHK(1, 2) B_CHK(1, 3)
  __CPROVER_assert(pending != 0 || heads == 0, "S9 no pending entry: every bucket is empty");
}

void h_bounded_advance(void)
{
  size_t n = nondet_size_t(), cur0 = nondet_size_t(), cur1 = nondet_size_t(); int64_t delay[3], now0 = nondet_i64(), el = nondet_i64();
  for (unsigned i = 0; i < NE; i++) { delay[i] = nondet_i64(); __CPROVER_assume(delay[i] >= -20 && delay[i] <= 700); }
  __CPROVER_assume(n <= NE && cur0 < 2 * NB && cur1 < NB && now0 >= 1000 && now0 <= 100000 && el >= 0 && el < 2 * BTICK);
  b_setup(n, delay, cur0, cur1, now0);
  BW._lastAdvanceTime = 0;       /* epoch: advance() takes its 'first advance' path = exactly one tick step (catch-up arithmetic: proof advance_ticks) */
  iora_firelist fl; fl.n = 0;
  TimingWheel_advanceLocked(&BW, now0 + el, &fl);
  IORA_CANARY("h_bounded_advance: advance returns");
  b_check(n, now0 + el);
  /* S10 release rules on the whole call: level 0 moved one tick; level 1 moved one cascade step iff level 0 wrapped (level 2 does not exist) */
  __CPROVER_assert(BL[0].currentTick == cur0 + 1 && BL[1].currentTick == cur1 + ((((cur0 + 1) & (NB - 1)) == 0) ? 1 : 0), "S10 currentTick of level 0 advances by one, of level 1 by one iff level 0 wrapped");
}

/* bounded stand-in: clearAllEntries (the body of stop()/reset()/~TimingWheel) on the same small wheel */
void h_bounded_clear(void)
{
  size_t n = nondet_size_t(), cur0 = nondet_size_t(), cur1 = nondet_size_t(); int64_t delay[3];
  for (unsigned i = 0; i < NE; i++) { delay[i] = nondet_i64(); __CPROVER_assume(delay[i] >= -20 && delay[i] <= 700); }
  __CPROVER_assume(n <= NE && cur0 < 2 * NB && cur1 < NB);
  b_setup(n, delay, cur0, cur1, 1000);
  for (unsigned i = 0; i < NE; i++) if (i < n && nondet_bool()) BE[i].callback = NULL;      /* schedule(delay, nullptr) is legal: an entry without a handler */
  G_map_n = n; G_map_ents[0] = &BE[0]; G_map_ents[1] = &BE[1 % NE]; G_map_ents[2] = &BE[2 % NE]; G_map_clears = 0; G_wheel_locks = 0;
  TimingWheel_clearAllEntries(&BW);
  IORA_CANARY("h_bounded_clear: returns");
  unsigned heads = 0;
  B_CHK(0, 0) B_CHK(0, 1) B_CHK(0, 2) B_CHK(0, 3) B_CHK(1, 0) B_CHK(1, 1) B_CHK(1, 2) B_CHK(1, 3)
  /* V1 */ __CPROVER_assert(heads == 0, "V1 after clearAllEntries every bucket is empty: nothing is left for a later advance() to fire");
  /* V2 */ __CPROVER_assert(G_map_n == 0 && G_map_clears == 1 && G_wheel_locks == 1, "V2 the id map is cleared, under the wheel lock");
  for (unsigned i = 0; i < NE; i++) if (i < n) {
    /* V3 */ __CPROVER_assert(BE[i].id == InvalidTimerId && BE[i].callback == NULL, "V3 every pending entry is recycled and its handler released (moved out for destruction outside the lock)");
  }
  /* V4 */ __CPROVER_assert(G_fired == 0, "V4 clearAllEntries fires nothing");
}

#ifdef CLEAR_MATRIX
/* UNBOUNDED clearAllEntries: any number of levels (<= 2^10), buckets per level (power of two <= 2^10), pending entries (<= 2^20); loop contracts with witnesses
 * (GLv, GB) = arbitrary bucket, GK = arbitrary entry of the id map. Lists may be in ANY state (clearAllEntries never follows a link). */
void h_clear_u(void)
{
  TimingWheel W; IORA_TRUE = 1; GK = nondet_size_t(); GLv = nondet_size_t(); GB = nondet_size_t(); G_map_clears = 0; G_wheel_locks = 0; G_fired = 0;
  G_shift = nondet_size_t() & 15; G_map_n = nondet_size_t();
  __CPROVER_assume(G_shift <= 10 && W._ticksPerWheel == ((size_t)1 << G_shift) && W._numWheels >= 1 && W._numWheels <= ((size_t)1 << 10) && G_map_n <= ((size_t)1 << 20));
  W._wheels = (WheelLevel *)malloc(W._numWheels * sizeof(WheelLevel));
  G_bkall = (Bucket *)malloc((W._numWheels << G_shift) * sizeof(Bucket));
  G_pool = (TimerEntry *)malloc((G_map_n + 1) * sizeof(TimerEntry));
  __CPROVER_assume(W._wheels != NULL && G_bkall != NULL && G_pool != NULL);
  __CPROVER_assume(GLv < W._numWheels && GB < W._ticksPerWheel);
  const size_t n0 = G_map_n;
  TimingWheel_clearAllEntries(&W);
  IORA_CANARY("h_clear_u: returns");
  /* V1u */ __CPROVER_assert(CLEARED_(GLv, GB), "V1u after clearAllEntries EVERY bucket of EVERY level is empty - any wheel geometry");
  /* V2u */ __CPROVER_assert(G_map_n == 0 && G_map_clears == 1 && G_wheel_locks == 1 && !W._entryMap.present, "V2u the id map is cleared, under the wheel lock");
  /* V3u */ __CPROVER_assert(!(GK < n0) || (G_pool[GK].id == InvalidTimerId && G_pool[GK].callback == NULL), "V3u EVERY pending entry is recycled and its handler released - any number of entries, with or without handler");
  /* V4u */ __CPROVER_assert(G_fired == 0, "V4u clearAllEntries fires nothing");
}
#endif

#ifdef IORA_SEARCH
/* SEARCH: same bounded scenario; loop-body entries are counted (pre.h) so that a walk that does not terminate yields an input */
void h_search(void)
{
  size_t N = nondet_size_t(), CUR0 = nondet_size_t(), CUR1 = nondet_size_t(); int64_t D0 = nondet_i64(), D1 = nondet_i64(), D2 = nondet_i64(), EL = nondet_i64();
  __CPROVER_assume(N <= NE && CUR0 < 2 * NB && CUR1 < NB && EL >= 0 && EL < 2 * BTICK);
  __CPROVER_assume(D0 >= -20 && D0 <= 700 && D1 >= -20 && D1 <= 700 && D2 >= -20 && D2 <= 700);
  int64_t delay[3] = { D0, D1, D2 };
  b_setup(N, delay, CUR0, CUR1, 1000);
  G_loop_iters = 0; G_iter_budget = 2 * NE;      /* one tick step of a terminating advance walks each entry at most once (collect or cascade) plus at most one level-loop round per re-insertion */
  BW._lastAdvanceTime = 0;
  iora_firelist fl; fl.n = 0;
  TimingWheel_advanceLocked(&BW, 1000 + EL, &fl);
  b_check(N, 1000 + EL);
}

#endif
