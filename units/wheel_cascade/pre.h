/* type environment + ghost state for unit wheel_cascade (Bucket list ops, collectFromBucket, cascadeDown, advance).
 * std::chrono::milliseconds / steady_clock::time_point are int64_t counts. Callback (std::function) is an opaque handle. */
typedef struct TimerEntry { uint64_t id; void *callback; int64_t deadline; struct TimerEntry *prev, *next; size_t wheelLevel; size_t bucketIndex; bool thenReschedule; } TimerEntry;
typedef TimerEntry *TimerEntryP;
typedef struct { TimerEntry *head, *tail; } Bucket;
typedef struct { Bucket *buckets; size_t currentTick; } WheelLevel;     /* std::vector<Bucket> buckets: storage of _ticksPerWheel buckets */
/* std::unordered_map<TimerId, TimerEntry*> _entryMap: witness-key map (state tracked for ONE arbitrary ghost id GIDW; another key answers
 * "absent" or "the other entry" G_other_entry); iterators are element pointers; erase(id) by key is additionally a recording ghost */
typedef struct { uint64_t first; struct TimerEntry *second; } IdPair; typedef IdPair *IdIt;
typedef struct { bool present; IdPair w; IdPair scratch; } iora_idmap;
typedef struct { size_t n; uint64_t gk_id; void *gk_cb; } iora_firelist; /* std::vector<std::pair<TimerId, Callback>>: length + witness element at ghost index GK */
typedef struct { uint64_t id; void *callback; int64_t deadline; } DrainEntry;             /* local struct of drain() */
typedef struct { size_t fired; size_t remaining; size_t cancelled; int64_t elapsed; } DrainStats;
typedef struct { size_t n; DrainEntry last; } iora_drainvec;                              /* std::vector<DrainEntry> entries: count + last element */
typedef struct { size_t n; } iora_cbvec;                                                  /* std::vector<Callback>: a counter */
typedef struct { int64_t _tickDuration; size_t _ticksPerWheel; size_t _tickMask; size_t _numWheels; WheelLevel *_wheels;
                 iora_idmap _entryMap; int64_t _lastAdvanceTime; TimerEntry *_freeListHead; bool _accepting; bool _running; int _state; } TimingWheel;

/* ---- ghosts ---- */
size_t G_pool_locks;                      /* R11: std::lock_guard lock(_poolMutex) */
size_t G_erases; uint64_t G_erased_id;    /* _entryMap.erase(id): count and last key */
size_t G_fired; uint64_t G_fired_id; void *G_fired_cb; size_t G_erases_at_fire;   /* toFire.emplace_back(id, cb) */
#define IORA_NIDS 4
uint8_t G_fired_cnt[IORA_NIDS];           /* bounded stand-in: how often each small id was handed to the fire list */
uint8_t G_in_map[IORA_NIDS];              /* bounded stand-in: id still in _entryMap */
size_t G_ticksToProcess;                  /* advance(): value of the local when the catch-up computation is done */
size_t G_loop_iters, G_iter_budget;       /* SEARCH build: loop-body entries (termination witness) */

uint64_t GIDW; TimerEntry *G_other_entry; size_t G_wheel_locks, G_erases_it;
static inline IdIt iora_idmap_end(iora_idmap *m) { (void)m; return NULL; }
static inline IdIt iora_idmap_find(iora_idmap *m, uint64_t k)
{
  if (k == GIDW) return m->present ? &m->w : NULL;
  if (nondet_bool() || G_other_entry == NULL) return NULL;
  m->scratch.first = k; m->scratch.second = G_other_entry; return &m->scratch;
}
static inline void iora_idmap_erase_it(iora_idmap *m, IdIt it)
{
  IORA_ASSERT(it != NULL, "unordered_map::erase(it): dereferenceable iterator");
  G_erases_it++;
  if (it == &m->w) { IORA_ASSERT(m->present, "erase(it): element is in the map"); m->present = false; }
}
/* stop(): the two callees are recording stubs (order of the four steps is the clause) */
size_t G_seq; size_t G_seq_join, G_seq_clear; _Bool G_accepting_at_join, G_accepting_at_clear; int G_state_at_clear;
static inline void iora_idmap_erase(iora_idmap *m, uint64_t id)
{
  if (id == GIDW) m->present = false;
  G_erases++; G_erased_id = id;
  if (id < IORA_NIDS) G_in_map[id] = 0;
}
static inline void iora_firelist_emplace_back(iora_firelist *l, uint64_t id, void *cb)
{
  if (l->n == GK) { l->gk_id = id; l->gk_cb = cb; }
  IORA_ASSERT(l->n < (size_t)-1, "vector growth");
  l->n++;
  G_fired++; G_fired_id = id; G_fired_cb = cb; G_erases_at_fire = G_erases;
  if (id < IORA_NIDS) { IORA_ASSERT(G_fired_cnt[id] < 255, "fire counter"); G_fired_cnt[id]++; }
}

#ifdef IORA_SEARCH
/* SEARCH build only: every loop body entry is counted; a run that needs more loop-body entries than the budget the harness
 * derives from the number of entries is the concrete witness of a walk that does not terminate */
#undef IORA_CANARY_LOOP
#define IORA_CANARY_LOOP(msg) do { G_loop_iters++; __CPROVER_assert(G_loop_iters <= G_iter_budget, "T termination: loop-body entries within the budget of a terminating walk"); } while (0)
#endif

/* insertEntry's level loop: same contract as in unit wheel_insert */
#define IORA_LOOP_TimingWheel_insertEntry_1 IORA_LC( \
  __CPROVER_assigns(level, ticks, G_divs) \
  __CPROVER_loop_invariant(level <= self->_numWheels - 1 && ticks > 0) \
  __CPROVER_loop_invariant(G_divs >= 1) \
  __CPROVER_decreases(self->_numWheels - level))
/* list walks: no loop contract (an invariant would have to quantify over the list); they are only reached by the proofs
 * labelled bounded ("unwind": N); the unbounded proofs are about ONE iteration (block targets ..Step) */
#define IORA_LOOP_TimingWheel_collectFromBucket_1 IORA_LC()
#define IORA_LOOP_TimingWheel_cascadeDown_1 IORA_LC()
#define IORA_LOOP_TimingWheel_advanceLocked_1 IORA_LC()

#define iora_stub_stopTickThread(self) do { G_seq++; G_seq_join = G_seq; G_accepting_at_join = (self)->_accepting; (self)->_running = false; } while (0)
#define iora_stub_clearAllEntries(self) do { G_seq++; G_seq_clear = G_seq; G_accepting_at_clear = (self)->_accepting; G_state_at_clear = (self)->_state; } while (0)

/* clearAllEntries (bounded stand-in): the id map enumerates the harness's entry pool; std::vector<Callback> toDestroy is a counter */
#define iora_cbvec_DEFAULT ((iora_cbvec){0})
static inline void iora_cbvec_reserve(iora_cbvec *v, size_t n) { (void)v; (void)n; }
static inline void iora_cbvec_push_back(iora_cbvec *v, void *cb) { (void)cb; v->n++; }
size_t G_map_n; TimerEntry *G_map_ents[4]; size_t G_map_clears;
Bucket *G_bkall; unsigned G_shift; TimerEntry *G_pool; size_t GLv, GB;
static inline size_t iora_idmap_size(iora_idmap *m) { (void)m; return G_map_n; }
static inline size_t iora_idmap_count(iora_idmap *m) { (void)m; return G_map_n; }
#ifdef CLEAR_MATRIX
static inline TimerEntry *iora_idmap_nth(iora_idmap *m, size_t k) { (void)m; IORA_ASSERT(k < G_map_n, "map iteration in range"); return &G_pool[k]; }
#else
static inline TimerEntry *iora_idmap_nth(iora_idmap *m, size_t k) { (void)m; IORA_ASSERT(k < G_map_n && k < 4, "map iteration in range"); return G_map_ents[k]; }
#endif
static inline void iora_idmap_clear(iora_idmap *m) { m->present = false; G_map_n = 0; G_map_clears++; }
/* `w.buckets[b]` inside clearAllEntries. Default: the level's own vector. Proof clearAllEntries_unbounded (-DCLEAR_MATRIX) models the vector of bucket vectors as ONE
 * matrix object G_bkall[level << G_shift | b] (each WheelLevel owns a distinct vector of _ticksPerWheel = 1 << G_shift buckets), so that a loop contract can name what the
 * nested loops assign; the id map enumerates the entry pool G_pool[0..G_map_n) (an unordered_map iteration visits every element exactly once). */
#ifdef CLEAR_MATRIX
#define IORA_BUCKET_AT(w, b) (G_bkall[(((size_t)(&(w) - self->_wheels)) << G_shift) + (b)])
#define CELL_(l, b) (G_bkall[((l) << G_shift) + (b)])
#define CLEARED_(l, b) (CELL_(l, b).head == NULL && CELL_(l, b).tail == NULL)
#define IORA_LOOP_TimingWheel_clearAllEntries_1 IORA_LC( \
  __CPROVER_assigns(iora_k, __CPROVER_object_whole(G_pool), self->_freeListHead, toDestroy.n, G_pool_locks) \
  __CPROVER_loop_invariant(iora_k <= G_map_n) \
  __CPROVER_loop_invariant((GK < iora_k) ==> (G_pool[GK].id == InvalidTimerId && G_pool[GK].callback == NULL)) \
  __CPROVER_decreases(G_map_n - iora_k))
#define IORA_LOOP_TimingWheel_clearAllEntries_2 IORA_LC( \
  __CPROVER_assigns(iora_l, __CPROVER_object_whole(G_bkall)) \
  __CPROVER_loop_invariant(iora_l <= self->_numWheels) \
  __CPROVER_loop_invariant((GLv < iora_l) ==> CLEARED_(GLv, GB)) \
  __CPROVER_decreases(self->_numWheels - iora_l))
#define IORA_LOOP_TimingWheel_clearAllEntries_3 IORA_LC( \
  __CPROVER_assigns(iora_b, __CPROVER_object_whole(G_bkall)) \
  __CPROVER_loop_invariant(iora_b <= self->_ticksPerWheel) \
  __CPROVER_loop_invariant((GLv < iora_l || (GLv == iora_l && GB < iora_b)) ==> CLEARED_(GLv, GB)) \
  __CPROVER_decreases(self->_ticksPerWheel - iora_b))
#else
#define IORA_BUCKET_AT(w, b) ((w).buckets[b])
#define IORA_LOOP_TimingWheel_clearAllEntries_1 IORA_LC()
#define IORA_LOOP_TimingWheel_clearAllEntries_2 IORA_LC()
#define IORA_LOOP_TimingWheel_clearAllEntries_3 IORA_LC()
#endif

static inline void iora_drainvec_push(iora_drainvec *v, uint64_t id, void *cb, int64_t deadline) { v->n++; v->last.id = id; v->last.callback = cb; v->last.deadline = deadline; }

/* drain(): lifecycle clauses. fireCallback(id, cb) is the ONLY place drain() invokes handlers. */
size_t G_drain_fires, G_drain_fires_while_accepting; _Bool G_acc_entry; int64_t G_clock_floor;
static inline int64_t iora_clock_now(void) { int64_t t = nondet_i64(); IORA_ASSUME(t >= G_clock_floor && t <= ((int64_t)1 << 61)); return t; }
static inline size_t iora_firelist_size(const iora_firelist *l) { return l->n; }
static inline uint64_t iora_firelist_id_at(const iora_firelist *l, size_t k) { IORA_ASSERT(k < l->n, "fire list iteration in range"); return nondet_u64(); }
static inline void *iora_firelist_cb_at(const iora_firelist *l, size_t k) { IORA_ASSERT(k < l->n, "fire list iteration in range"); return (void *)0; }
static inline void TimingWheel_fireCallback(TimingWheel *self, uint64_t id, void *cb)
{
  (void)id; (void)cb; G_drain_fires++;
  IORA_ASSERT(!self->_accepting, "D3 drain() invokes no handler while the wheel is accepting (a handler that re-arms itself would be accepted into a wheel nobody advances)");
}
/* the fire loop: it never writes _accepting (frame: not in the assigns clause) */
#define IORA_LOOP_TimingWheel_drainFire_1 IORA_LC( \
  __CPROVER_assigns(iora_f, stats->fired, G_drain_fires) \
  __CPROVER_loop_invariant(iora_f <= toFire->n && stats->fired == iora_f && G_drain_fires == iora_f) \
  __CPROVER_decreases(toFire->n - iora_f))
