/* type environment + ghost state for unit wheel_cascade (Bucket list ops, collectFromBucket, cascadeDown, advance).
 * std::chrono::milliseconds / steady_clock::time_point are int64_t counts. Callback (std::function) is an opaque handle. */
typedef struct TimerEntry { uint64_t id; void *callback; int64_t deadline; struct TimerEntry *prev, *next; size_t wheelLevel; size_t bucketIndex; bool thenReschedule; } TimerEntry;
typedef TimerEntry *TimerEntryP;
typedef struct { TimerEntry *head, *tail; } Bucket;
typedef struct { Bucket *buckets; size_t currentTick; } WheelLevel;     /* std::vector<Bucket> buckets: storage of _ticksPerWheel buckets */
typedef struct { int unused; } iora_idmap;                               /* std::unordered_map<TimerId, TimerEntry*> _entryMap: ghost model below */
typedef struct { size_t n; uint64_t gk_id; void *gk_cb; } iora_firelist; /* std::vector<std::pair<TimerId, Callback>>: length + witness element at ghost index GK */
typedef struct { int64_t _tickDuration; size_t _ticksPerWheel; size_t _tickMask; size_t _numWheels; WheelLevel *_wheels;
                 iora_idmap _entryMap; int64_t _lastAdvanceTime; TimerEntry *_freeListHead; } TimingWheel;

/* ---- ghosts ---- */
size_t G_pool_locks;                      /* R11: std::lock_guard lock(_poolMutex) */
size_t G_erases; uint64_t G_erased_id;    /* _entryMap.erase(id): count and last key */
size_t G_fired; uint64_t G_fired_id; void *G_fired_cb; size_t G_erases_at_fire;   /* toFire.emplace_back(id, cb) */
#define IORA_NIDS 4
uint8_t G_fired_cnt[IORA_NIDS];           /* bounded stand-in: how often each small id was handed to the fire list */
uint8_t G_in_map[IORA_NIDS];              /* bounded stand-in: id still in _entryMap */
size_t G_ticksToProcess;                  /* advance(): value of the local when the catch-up computation is done */
size_t G_loop_iters, G_iter_budget;       /* SEARCH build: loop-body entries (termination witness) */

static inline void iora_idmap_erase(iora_idmap *m, uint64_t id)
{
  (void)m; G_erases++; G_erased_id = id;
  if (id < IORA_NIDS) G_in_map[id] = 0;
}
static inline void iora_firelist_emplace_back(iora_firelist *l, uint64_t id, void *cb)
{
  if (l->n == GK) { l->gk_id = id; l->gk_cb = cb; }
  IORA_ASSERT(l->n < (size_t)-1, "vector growth");
  l->n++;
  G_fired++; G_fired_id = id; G_fired_cb = cb; G_erases_at_fire = G_erases;
  if (id < IORA_NIDS) { IORA_ASSERT(G_fired_cnt[id] < 255, "fire counter"); G_fired_cnt[id]++; }
}

#ifdef IORA_SEARCH
/* SEARCH build only: every loop body entry is counted; a run that needs more loop-body entries than the budget the harness
 * derives from the number of entries is the concrete witness of a walk that does not terminate */
#undef IORA_CANARY_LOOP
#define IORA_CANARY_LOOP(msg) do { G_loop_iters++; __CPROVER_assert(G_loop_iters <= G_iter_budget, "T termination: loop-body entries within the budget of a terminating walk"); } while (0)
#endif

/* insertEntry's level loop: same contract as in unit wheel_insert */
#define IORA_LOOP_TimingWheel_insertEntry_1 IORA_LC( \
  __CPROVER_assigns(level, ticks, G_divs) \
  __CPROVER_loop_invariant(level <= self->_numWheels - 1 && ticks > 0) \
  __CPROVER_loop_invariant(G_divs >= 1) \
  __CPROVER_decreases(self->_numWheels - level))
/* list walks: no loop contract (an invariant would have to quantify over the list); they are only reached by the proofs
 * labelled bounded ("unwind": N); the unbounded proofs are about ONE iteration (block targets ..Step) */
#define IORA_LOOP_TimingWheel_collectFromBucket_1 IORA_LC()
#define IORA_LOOP_TimingWheel_cascadeDown_1 IORA_LC()
#define IORA_LOOP_TimingWheel_advanceLocked_1 IORA_LC()
