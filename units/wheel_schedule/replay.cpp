// REPLAY adapter for unit wheel_schedule (Q3/Q5, stale currentTick): a slow handler keeps the tick thread busy for STALL ms; a timer
// scheduled meanwhile is bucketed relative to a currentTick that is STALL ms old and is swept by the catch-up of the next advance().
#include "iora/core/timing_wheel.hpp"
#include "replay_io.h"
#include <atomic>
#include <thread>
#include <unistd.h>
using namespace iora::core;
using ms = std::chrono::milliseconds;
int main(int argc, char **argv) {
  auto in = replay_io::load(argv[1]);
  if (in.count("MODE") && in["MODE"] == "resched_stale_deadline") {
    // Q10: after reschedule(id, 1000 ms) entry->deadline must be the new due time; drain() 100 ms later must CANCEL the timer, not fire it.
    static TimingWheel w2(ms(10), 4, 2);
    w2._accepting.store(true);
    static int ran = 0;
    auto id = w2.schedule(ms(50), [] { ran++; });
    auto tR = std::chrono::steady_clock::now();
    bool ok = w2.reschedule(id, ms(1000));
    auto *e = w2._entryMap[id];
    long long dl = std::chrono::duration_cast<ms>(e->deadline - tR).count();
    std::this_thread::sleep_for(ms(100));
    auto st = w2.drain(ms(1000));
    printf("schedule(50 ms), reschedule(1000 ms) -> %d; entry->deadline is %lld ms after the reschedule; drain() 100 ms later: fired %zu cancelled %zu, handler ran %d times\n", (int)ok, dl, st.fired, st.cancelled, ran); fflush(stdout);
    if (dl < 990 || ran > 0) { printf("REPLAY-FAIL: Q10: entry->deadline kept the OLD due time (%lld ms instead of 1000 ms): drain()/cascadeDown treat the timer as due - handler ran %d times, 900 ms before its deadline\n", dl, ran); fflush(stdout); _exit(1); }
    printf("REPLAY-OK: deadline updated, timer cancelled by drain\n"); fflush(stdout); _exit(0);
  }
  long long STALL = replay_io::i64(in["STALL"]), DELAY = replay_io::i64(in["DELAY"]);
  using clk = std::chrono::steady_clock;
  static TimingWheel w(ms(10), 16, 2);
  w.start();
  static std::atomic<long long> startedAt{-1}, firedAt{-1};
  auto t0 = clk::now();
  auto since = [t0] { return (long long)std::chrono::duration_cast<ms>(clk::now() - t0).count(); };
  w.schedule(ms(10), [&, STALL] { startedAt.store(since()); std::this_thread::sleep_for(ms(STALL + 15)); });
  while (startedAt.load() < 0) std::this_thread::sleep_for(ms(1));
  std::this_thread::sleep_for(ms(STALL));
  long long schedAt;
  if (in.count("RESCHED") && replay_io::i64(in["RESCHED"]) == 1) {          // Q5: reschedule() of a pending far timer during the stall
    auto id = w.schedule(ms(10000), [&] { firedAt.store(since()); });
    schedAt = since();
    if (!w.reschedule(id, ms(DELAY))) replay_io::fail("reschedule of a pending timer reported failure");
  } else {
    schedAt = since();
    w.schedule(ms(DELAY), [&] { firedAt.store(since()); });
  }
  for (int k = 0; k < (DELAY + 400) / 5 && firedAt.load() < 0; k++) std::this_thread::sleep_for(ms(5));
  long long f = firedAt.load(), deadline = schedAt + DELAY;
  printf("wheel(10 ms, 16, 2): tick thread busy in a handler since %lld ms; (re)schedule(%lld ms) at %lld ms (deadline %lld ms); handler ran at %lld ms\n", startedAt.load(), DELAY, schedAt, deadline, f);
  fflush(stdout);
  if (f >= 0 && f + 10 + 2 < deadline) { printf("REPLAY-FAIL: Q3: handler ran %lld ms before its deadline (more than one 10 ms tick early)\n", deadline - f); fflush(stdout); _exit(1); }
  printf("REPLAY-OK: not more than one tick early\n"); fflush(stdout); _exit(0);
}
